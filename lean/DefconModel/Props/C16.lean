/-
C16 — Saving to an older UFO format keeps everything that format can express.

Theorems about M-Conv: the conversion functions (`DefconModel/Conv.lean`) and the format branches
of `Font.save` / `Font(path)` (`DefconModel/ConvSave.lean`).  Helper lemmas are in
`Lemmas/Conv.lean`, `Lemmas/ConvSave.lean`, `Lemmas/ConvSaveFail.lean` and `Lemmas/ConvLayers.lean` (the
operations on the layer set, histories), hypotheses, the `Preserved` relation and `applyFull` in
`Spec/Conv.lean` and `Spec/ConvSave.lean`.

`find` is the header expression (a parameter); `featureHeader` is the executable specification of
the one defcon uses, compared with Python's `re` on every run.
-/
import DefconModel.Lemmas.ConvSave
import DefconModel.Lemmas.ConvSaveFail
import DefconModel.Lemmas.ConvLayers
import DefconModel.Lemmas.Replace
import DefconModel.Props.C18

namespace DefconModel.Props.C16
open DefconModel DefconModel.Conv

/-! ## 1. PostScript hint values through the UFO 1 lib -/

/-- Blue values packed into pairs and unpacked again are the values one started with, for every
list with an even number of entries (the only lists the UFO validators accept). -/
theorem pair_unpair {α : Type} (vs : List α) (h : vs.length % 2 = 0) : unpair (pair vs) = some vs :=
  unpair_pair_even vs h

/-- Evenness is needed: a list with an odd number of entries is packed with a short last item, and
unpacking that raises (ValueError) when the UFO 1 is opened. -/
theorem pair_unpair_odd_raises {α : Type} (vs : List α) (h : vs.length % 2 = 1) : unpair (pair vs) = none :=
  unpair_pair_odd vs h

example : pair [1, 2, 3, 4] = [[1, 2], [3, 4]] ∧ unpair (pair [1, 2, 3, 4]) = some [1, 2, 3, 4] := by decide
example : pair [1, 2, 3] = [[1, 2], [3]] ∧ unpair (pair [1, 2, 3]) = none := by decide

/-- All ten hint attributes written into `org.robofab.postScriptHintData` and read back into the
Info object of a freshly opened UFO 1 (whose fontinfo.plist sets none of the scalar ones) are the
attributes the font had — unset scalars stay unset, empty lists stay empty — provided the four blue
lists have an even number of entries. -/
theorem hint_values_via_lib {ν : Type} (h h0 : Hint ν) (he : EvenBlues h) (h0s : ScalarsUnset h0) :
    applyHintData (toHintData h) h0 = some h :=
  applyHintData_toHintData h h0 he h0s

def demoHint : Hint Nat := { blueFuzz := some 1, forceBold := some 0, hStems := [80], blueValues := [0, 10, 500, 510] }

example : EvenBlues demoHint ∧ ScalarsUnset ({} : Hint Nat) ∧
    (toHintData demoHint).blueValues = some [[0, 10], [500, 510]] ∧ (toHintData demoHint).blueScale = none ∧
    applyHintData (toHintData demoHint) {} = some demoHint := by decide

/-! ## 2. The feature text through the UFO 1 lib -/

/-- The executable specification of defcon's header expression is a well-behaved finder: a match is
not empty, lies inside the text, and searching again from where it starts finds it at position 0.
(So the hypotheses of the next theorems hold for the real expression, as far as the specification
is the real expression — which the harness compares on every run.) -/
theorem header_search_wellbehaved : FinderOK featureHeader := featureHeader_ok

/-- Splitting loses nothing: for every text and every well-behaved finder the loop terminates
without tripping its assertion, and the class definitions followed by all blocks, concatenated,
are the text. -/
theorem split_lossless (find : Finder) (hf : FinderOK find) (text : Text) :
    ∃ classes feats, split find text = .ok classes feats ∧ classes ++ flat feats = text :=
  split_ok_lossless find hf text

/-- FULL STATEMENT: what is read back from the UFO 1 lib is the class definitions and every block
in order, each stripped and newline-terminated, joined by newlines — i.e. the text up to whitespace
between blocks. -/
def SplitJoin : Prop :=
  ∀ (classes : Text) (feats : List (Text × Text)),
    fromV1 (toV1 {} classes feats) = joinNl (expectedPieces classes feats)

/-- It holds whenever no feature tag occurs twice. -/
theorem split_join_partial (classes : Text) (feats : List (Text × Text)) (hd : DistinctTags feats) :
    fromV1 (toV1 {} classes feats) = joinNl (expectedPieces classes feats) := by
  simp only [fromV1, v1Pieces_toV1 classes feats hd]

/-- two blocks tagged `kern` -/
def f28 : List (Text × Text) :=
  [(['k', 'e', 'r', 'n'], ['a']), (['k', 'e', 'r', 'n'], ['b'])]

/-- VIOLATED (finding F28): the blocks are stored in a dict keyed by tag, so with a repeated tag the
earlier block is lost and the later one comes back twice. -/
theorem split_join_violated : ¬ SplitJoin := by
  intro h
  have := h [] f28
  revert this
  decide

example : fromV1 (toV1 {} [] f28) = ['b', '\n', '\n', 'b', '\n'] ∧
    joinNl (expectedPieces [] f28) = ['a', '\n', '\n', 'b', '\n'] := by decide
example : DistinctTags [(['k', 'e', 'r', 'n'], ['a']), (['l', 'i', 'g', 'a'], ['b'])] := by decide

/-- The two together, for the real expression: saving any text as UFO 1 and reading it back gives,
when no tag is repeated, the pieces of that very text (which concatenate to it), each stripped and
newline-terminated, joined by newlines. -/
theorem features_via_lib (text : Text) :
    ∃ classes feats, split featureHeader text = .ok classes feats ∧ classes ++ flat feats = text ∧
      (DistinctTags feats → fromV1 (toV1 {} classes feats) = joinNl (expectedPieces classes feats)) := by
  obtain ⟨c, fs, h1, h2⟩ := split_ok_lossless featureHeader featureHeader_ok text
  exact ⟨c, fs, h1, h2, fun hd => split_join_partial c fs hd⟩

/-! ## 3. Kerning-group rename maps -/

/-- Writing kerning with the rename maps undoes exactly what reading with them did, for all raw
UFO 1/2 kerning and groups and all maps the reader may have built for them (`MapsOK`). -/
theorem rename_maps_inverse_kerning (m : Maps) (g : Groups) (k : Kerning) (ok : MapsOK m g k) :
    downKerning (flip m) (upKerning m k) = k :=
  downKerning_upKerning m g k ok

/-- … and the same for the groups: the copies under the new names are written back under the old
names, where the same glyph lists already are. -/
theorem rename_maps_inverse_groups (m : Maps) (g : Groups) (k : Kerning) (ok : MapsOK m g k) :
    downGroups (flip m) (upGroups m g) = g :=
  downGroups_upGroups m g k ok

/-- Kerning and groups stay consistent under the renaming: every pair is still there under the
renamed members, every old group keeps its glyphs, and every new name denotes the glyphs of the
group it replaces. -/
theorem kerning_groups_consistent (m : Maps) (g : Groups) (k : Kerning) (ok : MapsOK m g k) :
    (∀ a b v, AL.get? k (a, b) = some v → AL.get? (upKerning m k) (rn m.side1 a, rn m.side2 b) = some v) ∧
    (∀ n ∈ AL.keys g, AL.get? (upGroups m g) n = AL.get? g n) ∧
    (∀ p ∈ m.side1 ++ m.side2, AL.get? (upGroups m g) p.2 = AL.get? g p.1) :=
  ⟨fun a b v h => upKerning_pair m g k ok a b v h, fun n hn => upGroups_old m g k ok n hn,
   fun p hp => upGroups_new m g k ok p hp⟩

/-- a UFO 2 with one prefixed group used on the first side and the maps the reader builds -/
def demoMaps : Maps := { side1 := [("@MMK_L_A", "public.kern1.A")], side2 := [] }
def demoGroups : Groups := [("@MMK_L_A", ["A", "Aacute"]), ("other", ["B"])]
def demoKerning : Kerning := [(("@MMK_L_A", "B"), -20), (("B", "B"), 5)]

example : MapsOK demoMaps demoGroups demoKerning :=
  ⟨by decide, by decide, by decide, by decide, by decide, by decide⟩
example : upKerning demoMaps demoKerning = [(("public.kern1.A", "B"), -20), (("B", "B"), 5)] ∧
    upGroups demoMaps demoGroups = demoGroups ++ [("public.kern1.A", ["A", "Aacute"])] := by decide

/-! ## 4. The format branches of `Font.save` -/

/-- MEMORY UNCHANGED: whatever the source and target formats, in place or to another path, whatever
had been read before: after a save that completes the getters of the font return exactly what they
returned before — although the font now reads from the UFO it has just written, which below format
3 holds one layer and no images or data. -/
theorem memory_unchanged (find : Finder) (m m' : Mem) (t : Fmt) (inPlace : Bool)
    (wf : MemWF m) (hb : BoundGlif1 m) (h : save find m t inPlace = some m') :
    observe m' = observe m := by
  cases hc : observe m with
  | none => unfold save at h; simp [hc] at h
  | some c =>
    obtain ⟨d, hd, rfl⟩ := save_some find m m' t inPlace c hc h
    exact observe_after_save find m c d t _ wf hb (by
      intro hsa
      simp only [Bool.or_eq_false_iff, Bool.not_eq_false', decide_eq_false_iff_not, ne_eq, Decidable.not_not] at hsa
      exact hsa.2) hc hd

/-- The two invariants `memory_unchanged` assumes hold for every freshly opened font and are kept
by every save that completes, so they hold along any chain of saves. -/
theorem invariants_reachable (find : Finder) :
    (∀ d mp m, DiskWF d → DiskGlif1 d → read d mp = some m → MemWF m ∧ BoundGlif1 m) ∧
    (∀ m m' t ip, MemWF m → save find m t ip = some m' → MemWF m' ∧ BoundGlif1 m') :=
  ⟨fun d mp m wf hg h => read_wf d mp m wf hg h, fun m m' t ip wf h => save_wf find m m' t ip wf h⟩

/-- MEMORY UNCHANGED BY A SAVE THAT FAILS AT THE FINAL REPLACE (a conversion in place or a save over an
existing UFO whose new UFO cannot be moved onto the destination, M-Replace below): the getters return what
they returned before, the font is bound to the UFO it was bound to and reports the format it reported, and
the invariants hold on — so the statements of this section apply to whatever save comes next. -/
theorem failed_save_memory_unchanged (find : Finder) (m m' : Mem) (t : Fmt) (wf : MemWF m) (hb : BoundGlif1 m)
    (h : saveFailsAtReplace find m t = some m') :
    observe m' = observe m ∧ m'.bound = m.bound ∧ m'.fmt = m.fmt ∧ m'.maps = m.maps ∧ MemWF m' ∧ BoundGlif1 m' := by
  cases hc : observe m with
  | none => unfold saveFailsAtReplace at h; simp [hc] at h
  | some c =>
    have := saveFailsAtReplace_some find m m' t c hc h
    subst this
    exact ⟨observe_preload_saveAs m c t wf hc, rfl, rfl, rfl, preload_wf m c t true wf hc, hb⟩

/-- What makes that possible: a save below format 3 first reads every layer, image and data file
that format cannot store (and a save-as reads every layer it writes), so nothing is left that
would have to come from the old UFO. -/
theorem below3_reads_everything (find : Finder) (m m' : Mem) (t : Fmt) (inPlace : Bool) (ht : t.below3 = true)
    (h : save find m t inPlace = some m') :
    (∀ p ∈ m'.images, p.2.isSome) ∧ (∀ p ∈ m'.data, p.2.isSome) ∧
    (∀ l ∈ m'.layers, (l.name ≠ m.defaultName ∨ inPlace = false ∨ m.fmt ≠ some t) → ∀ p ∈ l.glyphs, p.2.isSome) :=
  below3_all_loaded find m m' t inPlace ht h

/-- DOWN AND UP: save a font holding content `c` as format `t` (from any source format, in place or
elsewhere) and open the result: it shows — format 3: everything; below: the default layer's glyphs
with what GLIF 1 carries, kerning and groups modulo the rename maps (written under the old names
both times), the lib, the info attributes format `t` defines, the hint values (format 1: through
the lib, blue lists even), and the feature text (format 2: as it is; format 1: through the lib,
nothing lost by the split and, when no tag repeats, equal up to whitespace between blocks). -/
theorem down_up_preserves (find : Finder) (hf : FinderOK find) (m m' : Mem) (t : Fmt) (inPlace : Bool) (c : Full)
    (d : Disk) (mp : Maps) (wf : MemWF m) (hc : observe m = some c) (hs : save find m t inPlace = some m')
    (hb : m'.bound = some d) (hmaps : t ≠ .f3 → MapsOK mp d.groups d.kerning)
    (heven : t = .f1 → EvenBlues c.parts.hint) :
    ∃ r c', read d mp = some r ∧ observe r = some c' ∧ Preserved find t m.maps mp c c' := by
  obtain ⟨d', hd', rfl⟩ := save_some find m m' t inPlace c hc hs
  rw [(afterSave_bound m c t _ d').1] at hb
  simp only [Option.some.injEq] at hb
  subst hb
  exact preserved_of_write find hf t m.maps mp c d' (observe_wf m c wf hc) hd' hmaps heven

/-- BACK TO FORMAT 3: a font opened from a UFO 1/2 and saved as UFO 3 writes kerning that names the
renamed groups and groups that contain them, with the glyphs the old groups had; every old group
is still there too. -/
theorem back_to_3_consistent (find : Finder) (d0 d : Disk) (mp : Maps) (m m' : Mem) (inPlace : Bool)
    (h0 : d0.fmt ≠ .f3) (ok : MapsOK mp d0.groups d0.kerning)
    (hr : read d0 mp = some m) (hs : save find m .f3 inPlace = some m') (hb : m'.bound = some d) :
    (∀ a b v, AL.get? d0.kerning (a, b) = some v → AL.get? d.kerning (rn mp.side1 a, rn mp.side2 b) = some v) ∧
    (∀ n ∈ AL.keys d0.groups, AL.get? d.groups n = AL.get? d0.groups n) ∧
    (∀ p ∈ mp.side1 ++ mp.side2, AL.get? d.groups p.2 = AL.get? d0.groups p.1) :=
  back_to_3 find d0 d mp m m' inPlace h0 ok hr hs hb

/-! ### a concrete font (non-vacuity) -/

/-- a UFO 3: two layers (the default one is the second), identifiers/guidelines on one glyph, an
image, a data file, a format-3-only and a format-2 info attribute -/
def demoDisk : Disk :=
  { fmt := .f3,
    layers := [⟨"back", [("A", ⟨11, 0⟩)], 7⟩, ⟨"fore", [("A", ⟨21, 5⟩), ("B", ⟨22, 0⟩)], 0⟩],
    defaultName := "fore",
    kerning := [(("public.kern1.O", "B"), -10)], groups := [("public.kern1.O", ["A"])],
    lib := [("com.x", 3)], info := [("familyName", 1), ("woffMajorVersion", 2), ("openTypeHheaAscender", 3)],
    hint := { blueValues := [1, 2], blueFuzz := some 9 }, guidelines := 4,
    features := ['#', ' ', 'f'], images := [("i.png", 8)], data := [("a.txt", 9)] }

def demoMem : Mem := (read demoDisk {}).getD ⟨none, none, none, [], "", {}, [], []⟩

example : MemWF demoMem ∧ BoundGlif1 demoMem :=
  ⟨⟨by decide, by decide, by decide, by decide, by decide⟩, by
    intro d hd hne
    have : d = demoDisk := by
      have h : demoMem.bound = some demoDisk := by decide
      rw [h] at hd; exact (Option.some.inj hd).symm
    subst this
    exact absurd rfl hne⟩

/-- nothing read before the save; in place to format 2: the UFO keeps the default layer only, GLIF 1,
the format-2 attributes — and the font still sees both layers, the image and the data file -/
example :
    ((save featureHeader demoMem .f2 true).bind (fun m => m.bound)).map (fun d => (d.layers, d.info, d.images)) =
      some ([⟨"public.default", [("A", ⟨21, 0⟩), ("B", ⟨22, 0⟩)], 0⟩], [("familyName", 1), ("openTypeHheaAscender", 3)], []) ∧
    (save featureHeader demoMem .f2 true).bind observe = observe demoMem ∧
    (observe demoMem).map (fun c => (c.layers.length, c.images, c.data)) = some (2, [("i.png", 8)], [("a.txt", 9)]) := by
  decide

/-- on the same font: a failed conversion to format 2 has read both layers, the image and the data
file, and the font shows what it showed -/
example : (saveFailsAtReplace featureHeader demoMem .f2).bind observe = observe demoMem ∧
    ((saveFailsAtReplace featureHeader demoMem .f2).map (fun m => (m.images, m.data, m.bound == demoMem.bound))) =
      some ([("i.png", some 8)], [("a.txt", some 9)], true) := by decide

/-! ## 4b. The layer set changed in memory before a save

A layer in memory has a name (`Layer.name`) and, apart from it, a glyph set: the glyph directory of the
bound UFO it reads its unloaded glyphs from.  Renaming a layer changes the first and not the second - the
layer goes on reading from the directory filed under its OLD name until a save binds it to a new one; a
layer made in memory has no glyph set.  The statements of section 4 are about every font that meets the
two invariants; here: the operations on the layer set keep them, so they hold along every history. -/

/-- Renaming a layer, adding one, deleting one, making another layer the default one, reordering the
layers and changing a layer's colour/lib keep the invariants `memory_unchanged` assumes, and leave the
font bound to the UFO it was bound to. -/
theorem layer_ops_keep_invariants (m m' : Mem) (op : LayerOp) (wf : MemWF m) (hb : BoundGlif1 m)
    (h : applyLayerOp m op = some m') : MemWF m' ∧ BoundGlif1 m' ∧ m'.bound = m.bound ∧ m'.fmt = m.fmt := by
  obtain ⟨hbd, hf, _⟩ := applyLayerOp_bound m m' op h
  refine ⟨applyLayerOp_wf m m' op wf h, ?_, hbd, hf⟩
  intro d hd
  rw [hbd] at hd
  exact hb d hd

/-- An operation on the layer set changes nothing but the layer set: whatever had been read, the getters
afterwards show the content they showed before with that one change (`applyFull`) - a renamed layer has
the glyphs it had, read or not, and its place in the order; a layer re-created under the name of a deleted
one is empty. -/
theorem layer_ops_change_only_the_layer_set (m m' : Mem) (op : LayerOp) (c : Full) (hc : observe m = some c)
    (h : applyLayerOp m op = some m') : observe m' = some (applyFull c op) :=
  observe_applyLayerOp m m' op c hc h

/-- The invariants hold after EVERY HISTORY that starts from a freshly opened UFO: getters that read some
glyphs, images and data files, glyph edits, operations on the layer set, changes of the top-level parts,
saves to any format (in place or elsewhere) and saves that fail at the final replace, in any order and
number. -/
theorem invariants_along_history (find : Finder) (d : Disk) (mp : Maps) (m0 m : Mem) (ops : List Op)
    (wfd : DiskWF d) (hg : DiskGlif1 d) (hr : read d mp = some m0) (hrun : run find m0 ops = some m) :
    MemWF m ∧ BoundGlif1 m := by
  obtain ⟨wf0, hb0⟩ := read_wf d mp m0 wfd hg hr
  exact run_wf find m0 m ops wf0 hb0 hrun

/-- MEMORY UNCHANGED, over histories: open any UFO, do anything of the above in any order - the layer
operations on a partly read font included -, then save to any format, in place or elsewhere: the getters
of the font return what they returned before that save. -/
theorem memory_unchanged_after_history (find : Finder) (d : Disk) (mp : Maps) (m0 m m' : Mem) (ops : List Op)
    (t : Fmt) (inPlace : Bool) (wfd : DiskWF d) (hg : DiskGlif1 d) (hr : read d mp = some m0)
    (hrun : run find m0 ops = some m) (hs : save find m t inPlace = some m') : observe m' = observe m := by
  obtain ⟨wf, hb⟩ := invariants_along_history find d mp m0 m ops wfd hg hr hrun
  exact memory_unchanged find m m' t inPlace wf hb hs

/-- DOWN AND UP, over histories: after any such history the UFO a save leaves shows, when it is opened,
what format `t` can express of the content the font held - below format 3 the glyphs of the layer that is
the default layer IN MEMORY at that moment, whichever glyph directory it was read from and whatever it is
called. -/
theorem down_up_preserves_after_history (find : Finder) (hf : FinderOK find) (d0 : Disk) (mp0 : Maps) (m0 m m' : Mem)
    (ops : List Op) (t : Fmt) (inPlace : Bool) (c : Full) (d : Disk) (mp : Maps)
    (wfd : DiskWF d0) (hg : DiskGlif1 d0) (hr : read d0 mp0 = some m0) (hrun : run find m0 ops = some m)
    (hc : observe m = some c) (hs : save find m t inPlace = some m') (hb : m'.bound = some d)
    (hmaps : t ≠ .f3 → MapsOK mp d.groups d.kerning) (heven : t = .f1 → EvenBlues c.parts.hint) :
    ∃ r c', read d mp = some r ∧ observe r = some c' ∧ Preserved find t m.maps mp c c' :=
  down_up_preserves find hf m m' t inPlace c d mp
    (invariants_along_history find d0 mp0 m0 m ops wfd hg hr hrun).1 hc hs hb hmaps heven

/-- Which glyph directory each layer reads from once a save is done (`_fontSaveWasCompleted`): in format 3
the one filed under the name the layer has in memory; below format 3 the one directory there is for the
default layer and NONE for every other layer - which is why `below3_reads_everything` matters. -/
theorem save_rebinds_layers (find : Finder) (m m' : Mem) (t : Fmt) (inPlace : Bool) (h : save find m t inPlace = some m') :
    ∀ l ∈ m'.layers, l.src = if t.below3 then (if l.name = m.defaultName then some "public.default" else none)
      else some l.name :=
  save_rebinds find m m' t inPlace h

/-- **A RENAMED LAYER SURVIVES A DOWN-CONVERSION.**  Whatever had been read or edited so far (`m`, showing
content `c`): a layer the getters show as `L` is renamed to `n` in memory and the font is saved as UFO 1 or
2, in place or elsewhere.  The save completes; afterwards the getters show the content they showed before
the save - `c` with that one layer called `n` -, in particular the layer `n` with exactly the glyphs of `L`,
although none of them need have been read before; and if it is not the default layer, every one of its
glyphs is now in memory and the layer has no glyph set left (the UFO it was reading from is no longer the
font's).  The layers that are read before the save are those of the layer set in memory, under the names
they have THERE; a walk over the names the old UFO has for them would not find this one. -/
theorem renamed_layer_survives_down_conversion (find : Finder) (hf : FinderOK find) (m m1 : Mem) (c : Full)
    (o n : String) (t : Fmt) (inPlace : Bool) (L : DLayer)
    (wf : MemWF m) (hb : BoundGlif1 m) (hc : observe m = some c) (hL : L ∈ c.layers) (ho : L.name = o)
    (hr : applyLayerOp m (.rename o n) = some m1) (ht : t.below3 = true) :
    ∃ m' c', save find m1 t inPlace = some m' ∧ observe m' = some c' ∧ c' = applyFull c (.rename o n) ∧
      (⟨n, L.glyphs, L.info⟩ : DLayer) ∈ c'.layers ∧
      (n ≠ m1.defaultName → ∀ l ∈ m'.layers, l.name = n → l.src = none ∧ ∀ p ∈ l.glyphs, p.2.isSome) := by
  obtain ⟨wf1, hb1, _, _⟩ := layer_ops_keep_invariants m m1 (.rename o n) wf hb hr
  have hc1 := observe_applyLayerOp m m1 (.rename o n) c hc hr
  obtain ⟨d, hd⟩ := write_below3_some find hf t ht m1.maps (applyFull c (.rename o n))
  have hs : save find m1 t inPlace = some (afterSave m1 (applyFull c (.rename o n)) t (!inPlace || decide (m1.fmt ≠ some t)) d) := by
    unfold save
    simp only [hc1, hd]
  refine ⟨_, applyFull c (.rename o n), hs, ?_, rfl, ?_, ?_⟩
  · rw [memory_unchanged find m1 _ t inPlace wf1 hb1 hs]; exact hc1
  · simp only [applyFull, List.mem_map]
    refine ⟨L, hL, ?_⟩
    simp only [ho, if_true]
  · intro hnd l hl hln
    refine ⟨?_, ?_⟩
    · rw [save_rebinds find m1 _ t inPlace hs l hl]
      simp only [ht, if_true, hln, hnd, if_false]
    · exact (below3_all_loaded find m1 _ t inPlace ht hs).2.2 l hl (Or.inl (by rw [hln]; exact hnd))

/-! ### the layer operations on the concrete font (non-vacuity) -/

/-- the seeded scenario: nothing has been read, the layer `back` is called `sketches` in memory -/
def demoRenamed : Mem := (applyLayerOp demoMem (.rename "back" "sketches")).getD demoMem

example : applyLayerOp demoMem (.rename "back" "sketches") = some demoRenamed ∧
    demoRenamed.layers =
      [⟨"sketches", some "back", [("A", none)], 7⟩, ⟨"fore", some "fore", [("A", none), ("B", none)], 0⟩] := by decide


/-- … saved as UFO 2 in place and as UFO 1 elsewhere: the getters still show `sketches` with the glyph that
is filed under `back` in the UFO 3, now in memory, and the layer has no glyph set -/
example :
    ((save featureHeader demoRenamed .f2 true).bind observe).map (fun c => c.layers) =
      some [⟨"sketches", [("A", ⟨11, 0⟩)], 7⟩, ⟨"fore", [("A", ⟨21, 5⟩), ("B", ⟨22, 0⟩)], 0⟩] ∧
    (save featureHeader demoRenamed .f2 true).map (fun m => m.layers) =
      some [⟨"sketches", none, [("A", some ⟨11, 0⟩)], 7⟩,
            ⟨"fore", some "public.default", [("A", some ⟨21, 5⟩), ("B", some ⟨22, 0⟩)], 0⟩] ∧
    (save featureHeader demoRenamed .f1 false).bind observe = observe demoRenamed := by decide

/-- the hypotheses of `renamed_layer_survives_down_conversion` on it -/
example : ∃ c, observe demoMem = some c ∧ (⟨"back", [("A", ⟨11, 0⟩)], 7⟩ : DLayer) ∈ c.layers ∧
    applyLayerOp demoMem (.rename "back" "sketches") = some demoRenamed ∧ "sketches" ≠ demoRenamed.defaultName :=
  ⟨_, rfl, by decide, by decide, by decide⟩

/-- a history: one glyph is read, `back` is renamed, a new layer gets a glyph, `back` is deleted and re-created,
the order is reversed, the new layer becomes the default one; saved as UFO 2: the UFO holds the glyph of the
new default layer, and the font shows all three layers as before the save -/
def demoHistory : List Op :=
  [.load [("fore", "A")] [] [], .layer (.rename "back" "sketches"), .layer (.new "top"), .setGlyph "top" "Z" ⟨31, 2⟩,
   .layer (.delete "sketches"), .layer (.new "sketches"), .layer (.reorder ["top", "sketches", "fore"]),
   .layer (.setDefault "top")]

example :
    ((run featureHeader demoMem demoHistory).bind observe).map (fun c => (c.layers, c.defaultName)) =
      some ([⟨"top", [("Z", ⟨31, 2⟩)], 0⟩, ⟨"sketches", [], 0⟩, ⟨"fore", [("A", ⟨21, 5⟩), ("B", ⟨22, 0⟩)], 0⟩], "top") ∧
    ((run featureHeader demoMem (demoHistory ++ [.save .f2 true])).bind (fun m => m.bound)).map (fun d => d.layers) =
      some [⟨"public.default", [("Z", ⟨31, 0⟩)], 0⟩] ∧
    (run featureHeader demoMem (demoHistory ++ [.save .f2 true])).bind observe =
      (run featureHeader demoMem demoHistory).bind observe := by decide

/-- a new default layer after a down-conversion, saved in place in that format (defect F128, repaired): the one
glyph directory then holds the glyphs of the NEW default layer and nothing of the old one -/
example :
    ((run featureHeader demoMem [.save .f2 true, .layer (.setDefault "back"), .save .f2 true]).bind (fun m => m.bound)).map
      (fun d => d.layers) = some [⟨"public.default", [("A", ⟨11, 0⟩)], 0⟩] := by decide

/-! ## 5. The destination until the save is done (shared with C18) -/

/-- A conversion in place, and any save over an existing UFO, is written into a temporary UFO and
moved in at the end (`overwritePath` in `Font.save`): in M-SaveSteps that is the mode
`saveAsOver p`, with `p` the font's own path for an in-place conversion.  Whatever step fails before
the final replace, every UFO on disk — the destination included — is exactly as it was; and a failure of
the final replace itself puts the destination back (C18's `destination_untouched`). -/
theorem destination_intact_until_done (w : SaveSteps.World) (p k : Nat) (ha : w.aside = none)
    (hk : k + 3 ≤ (SaveSteps.plan w.font (.saveAsOver p)).length) :
    (SaveSteps.failAt (.saveAsOver p) w k).disk = w.disk :=
  DefconModel.Props.C18.destination_untouched_before_replace w p k ha hk

theorem destination_intact_on_any_failure (w : SaveSteps.World) (p k q : Nat) (ha : w.aside = none)
    (hk : k + 1 < (SaveSteps.plan w.font (.saveAsOver p)).length) :
    SaveSteps.lookup (SaveSteps.failAt (.saveAsOver p) w k).disk q = SaveSteps.lookup w.disk q :=
  DefconModel.Props.C18.destination_untouched w p k q ha hk

example : 2 + 3 ≤ (SaveSteps.plan DefconModel.Props.C18.w20.font (.saveAsOver 1)).length := by decide

open DefconModel.SaveSteps in
/-- The same for a TORN final move (`failTorn`): everything was written, the destination was put aside, and
the move of the temporary UFO fails after an arbitrary part of it has arrived at the destination.  Every
UFO on disk reads as before — the one at the destination too: what arrived is removed and what was put
aside is put back.  (An existing destination is what makes `Font.save` take this route at all.) -/
theorem destination_intact_after_torn_move (w : SaveSteps.World) (p q : Nat) (part : SaveSteps.Ufo)
    (hex : (SaveSteps.lookup w.disk p).isSome = true) :
    SaveSteps.lookup (SaveSteps.failTorn p w part).disk q = SaveSteps.lookup w.disk q := by
  obtain ⟨pre, hplan, h1, h2⟩ := DefconModel.Props.C18.plan_over_prefix w.font p
  obtain ⟨u, hu⟩ := Option.isSome_iff_exists.mp hex
  have htake : (plan w.font (.saveAsOver p)).take ((plan w.font (.saveAsOver p)).length - 2) = pre ++ [.moveAside p] := by
    rw [hplan]
    have : (pre ++ [Step.moveAside p, Step.moveTemp p, Step.dropAside]).length - 2 = pre.length + 1 := by simp
    rw [this, List.take_append]
    simp [List.take_of_length_le]
  obtain ⟨hd, _⟩ := DefconModel.Props.C18.runSteps_temp_disk p w pre h1 h2
  have hrun : runSteps (.saveAsOver p) w (pre ++ [.moveAside p]) =
      exec (.saveAsOver p) (runSteps (.saveAsOver p) w pre) (.moveAside p) := by
    unfold runSteps; simp [List.foldl_append]
  unfold failTorn cleanup
  simp only [htake, hrun, exec, recover, hd, hu]
  by_cases hq : q = p
  · subst hq; rw [lookup_store_self, hu]
  · rw [lookup_store_ne _ _ _ _ hq, lookup_store_ne _ _ _ _ hq, lookup_remove_ne _ _ _ hq]

/-- on the F20 witness: whatever part arrives at path 2, a torn move leaves the UFO that was there -/
example : SaveSteps.lookup (SaveSteps.failTorn 2 DefconModel.Props.C18.w20 { comps := [7], listing := [3] }).disk 2 =
    some { comps := [9] } := by decide

/-! ## 6. The final replace itself, file-system call by file-system call (M-Replace)

Section 5 treats "put aside / move in / put back" as atomic steps.  The move of the new UFO onto the
destination is the one call of the save that can be TORN: the new UFO comes from the system's temporary
directory (a copy across devices as a rule), so the call can fail after a part — a directory with some
files, a truncated zip — has arrived.  What then lies at the destination has a kind (directory or regular
file) that need not be the kind of the UFO that was put aside (a zip written over a package, a package
over a zip), and `shutil.rmtree(…, ignore_errors=True)`, `os.remove` and `shutil.move` each behave
differently on the two. -/

open DefconModel.Replace in
/-- **A failed final replace puts the destination back**, for every way of removing the partial arrival
that is adequate (`CleanOK`: empties the destination whether a directory, a file or nothing is there,
without raising): whatever the old UFO and the new one are — package or zip, in any combination — and
whichever fault hits (the put-aside fails; the move-in fails before anything arrived, after a part
arrived, after everything arrived), the save raises, the destination holds exactly the UFO it held, and
neither temporary directory is left. -/
theorem failed_replace_restores_destination (clean : Replace.FS → Option Replace.FS) (hc : Replace.CleanOK clean)
    (old new : Replace.Node) (f : Replace.Fault) (hf : f ≠ .none) :
    Replace.replaceWith clean (Replace.start old new) f = ⟨Replace.restored old, true⟩ := by
  by_cases ha : f = .asideRaises
  · subst ha; rfl
  · obtain ⟨x, hx⟩ := moveIn_fault old new f hf ha
    obtain ⟨fs3, h3, hd, ht, hs⟩ := hc { dest := x, temp := some new, aside := some old }
    obtain ⟨d3, t3, a3⟩ := fs3
    simp only at hd ht hs
    subst hd; subst ht; subst hs
    have hl : lexists (start old new) .dest = true := rfl
    simp only [replaceWith, hl, if_true, if_neg ha, move_aside, hx, h3, move_back]
    rfl

/-- `Font.save` removes the partial arrival adequately (`rmtree` when it is a directory, `os.remove` for
anything else that exists), so the statement holds of the code as it is: **a torn final move never
damages the UFO at the destination.** -/
theorem torn_move_restores_destination (old new : Replace.Node) (f : Replace.Fault) (hf : f ≠ .none) :
    Replace.replace (Replace.start old new) f = ⟨Replace.restored old, true⟩ :=
  failed_replace_restores_destination Replace.removeArrived Replace.removeArrived_ok old new f hf

open DefconModel.Replace in
/-- … and without a fault the destination — whatever was there, of whatever kind, or nothing — holds the
new UFO, the save returns, and nothing temporary is left ("unless the save completes"). -/
theorem replace_completes (clean : Replace.FS → Option Replace.FS) (d : Option Replace.Node) (new : Replace.Node) :
    Replace.replaceWith clean { dest := d, temp := some new, aside := none } .none =
      ⟨{ dest := some new, temp := none, aside := none }, false⟩ := by
  cases d with
  | none => simp [replaceWith, lexists, FS.get, moveIn_ok, finish]
  | some old =>
    have hl : lexists { dest := some old, temp := some new, aside := none } .dest = true := rfl
    have hm := move_aside old new
    simp only [start] at hm
    simp [replaceWith, hl, hm, moveIn_ok, finish]

/-- a package at the destination, a zip being written over it -/
def oldPackage : Replace.Node := { kind := .dir, blob := 1 }
def newZip : Replace.Node := { kind := .file, blob := 2 }
def newPackage : Replace.Node := { kind := .dir, blob := 2 }

example : Replace.replace (Replace.start oldPackage newZip) (.moveInTorn 3) = ⟨Replace.restored oldPackage, true⟩ ∧
    Replace.replace (Replace.start oldPackage newZip) .none = ⟨{ dest := some newZip }, false⟩ := by decide

/-- The kind test is needed.  `shutil.rmtree(…, ignore_errors=True)` alone is NOT adequate: it leaves a
regular file where it is (silently) … -/
theorem rmtree_alone_inadequate : ¬ Replace.CleanOK (fun fs => some (Replace.rmtreeIgnore fs .dest)) := by
  intro h
  obtain ⟨fs', h1, h2, _, _⟩ := h { dest := some newZip }
  simp only [Option.some.injEq] at h1
  subst h1
  revert h2
  decide

/-- … and then a truncated zip is in the way of the package that is put back: the move raises, the aside
directory is removed with the only copy of the old UFO in it, and the destination holds the truncated
file. -/
example : Replace.replaceWith (fun fs => some (Replace.rmtreeIgnore fs .dest)) (Replace.start oldPackage newZip) (.moveInTorn 3) =
    ⟨{ dest := some { kind := .file, blob := 3 } }, true⟩ := by decide

/-- `os.remove` alone is not adequate either (it raises for a directory: the handler is left before the
put-back), nor is doing nothing (the old package is moved INTO the partial one). -/
theorem remove_alone_inadequate : ¬ Replace.CleanOK (fun fs => Replace.osRemove fs .dest) := by
  intro h
  obtain ⟨fs', h1, _, _, _⟩ := h { dest := some newPackage }
  have hn : Replace.osRemove { dest := some newPackage } .dest = none := by decide
  simp only [hn] at h1
  exact absurd h1 (by simp)

example : Replace.replaceWith (fun fs => Replace.osRemove fs .dest) (Replace.start oldPackage newPackage) (.moveInTorn 3) =
    ⟨{ dest := some { kind := .dir, blob := 3 } }, true⟩ := by decide
example : Replace.replaceWith some (Replace.start oldPackage newPackage) (.moveInTorn 3) =
    ⟨{ dest := some { kind := .dir, blob := 3, inside := [1] } }, true⟩ := by decide

end DefconModel.Props.C16
