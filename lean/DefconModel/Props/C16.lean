/-
C16 — Saving to an older UFO format keeps everything that format can express.
-/
import DefconModel.Lemmas.Conv
import DefconModel.ConvSave

namespace DefconModel.Props.C16
open DefconModel DefconModel.Conv

/-- Blue values survive the detour through pairs when their number is even. -/
theorem pair_unpair {α : Type} (vs : List α) (h : vs.length % 2 = 0) : unpair (pair vs) = some vs :=
  unpair_pair_even vs h

end DefconModel.Props.C16
