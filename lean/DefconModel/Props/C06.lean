/-
C06 — In-place save leaves the UFO a full save would; not dirty means persisted.

Same component models as C01 (M-Layer, M-LayerSet, M-FileSet, M-Parts).  Proved here, for every
history: an in-place save and a save-as write the same content; nothing deleted or renamed is
left behind; afterwards every flag the save path owns is clear; a second save writes nothing;
and whenever nothing is dirty the UFO holds the content.
-/
import DefconModel.Lemmas.Layer
import DefconModel.Lemmas.FileSet
import DefconModel.Lemmas.Parts
import DefconModel.Lemmas.LayerSet

namespace DefconModel.Props.C06
open DefconModel

/-! ### in-place save = full save -/

/-- images/data: after any history, the directory left by an in-place save and the directory
written by a save-as to a fresh location hold the same files with the same contents. -/
theorem files_inplace_eq_full (s : FileSet.State) (h : FileSet.WF s) (k : String) :
    AL.get? (FileSet.saveInPlace s).disk k = AL.get? (FileSet.saveAs s []).disk k := by
  rw [FileSet.saveInPlace_disk h, FileSet.saveAs_disk h]

/-- layers: after any history that keeps the invariant, the layercontents written in place and
the one written by a save-as are the same (names, order, default). -/
theorem layers_inplace_eq_full (s : LayerSet.State) (h : LayerSet.Inv s) :
    ∃ a b, LayerSet.saveInPlace s = .ok a ∧ LayerSet.saveAs s = .ok b ∧
      (∀ n, AL.get? a.disk n = AL.get? b.disk n) ∧ AL.keys a.disk = AL.keys b.disk := by
  obtain ⟨a, ha, ha2, ha3, _⟩ := LayerSet.saveInPlace_spec h.mem h.sync
  obtain ⟨b, hb, hb2, hb3, _⟩ := LayerSet.saveAs_spec h.mem
  exact ⟨a, b, ha, hb, fun n => by rw [ha2, hb2], by rw [ha3, hb3]⟩

/-- glyphs: the glyph set left by an in-place save holds exactly the abstract content (what a
save-as, which writes every glyph, would write). -/
theorem glyphs_inplace_exact (s : Layer.State) (h : Layer.Good s) (k : String) :
    AL.get? (Layer.save s).disk k = Layer.abs s k := Layer.save_disk h.wf k

/-! ### no leftovers -/

/-- a deleted file is gone after the save; a file that was never an entry cannot be there -/
theorem files_no_leftovers (s : FileSet.State) (h : FileSet.WF s) (k : String)
    (hk : FileSet.abs s k = none) : AL.get? (FileSet.saveInPlace s).disk k = none := by
  rw [FileSet.saveInPlace_disk h, hk]

/-- a deleted or renamed glyph's file is gone after the save -/
theorem glyphs_no_leftovers (s : Layer.State) (h : Layer.Good s) (k : String)
    (hk : Layer.abs s k = none) : AL.get? (Layer.save s).disk k = none := by
  rw [Layer.save_disk h.wf, hk]

/-- layercontents lists exactly the memory layers: no directory of a deleted or renamed layer
stays listed, none is missing -/
theorem layers_no_leftovers (s : LayerSet.State) (h : LayerSet.Inv s) :
    ∃ s', LayerSet.saveInPlace s = .ok s' ∧ AL.keys s'.disk = s.order := by
  obtain ⟨a, ha, _, ha3, _⟩ := LayerSet.saveInPlace_spec h.mem h.sync
  exact ⟨a, ha, ha3⟩

/-! ### clean after save, and a second save writes nothing -/

theorem files_clean_after_save (s : FileSet.State) (h : FileSet.WF s) :
    FileSet.AllClean (FileSet.saveInPlace s) ∧ FileSet.AllClean (FileSet.saveAs s []) :=
  ⟨FileSet.allClean_save h false _, FileSet.allClean_save h true _⟩

theorem files_second_save_noop (s : FileSet.State) (h : FileSet.WF s) :
    FileSet.saveInPlace (FileSet.saveInPlace s) = FileSet.saveInPlace s :=
  FileSet.saveInPlace_of_allClean (FileSet.allClean_save h false _) (FileSet.wf_saveInPlace h).entryKeys

theorem part_clean_after_save (sa : Bool) (p : Parts.Part) (h : Parts.WF p) :
    (Parts.saveAlways p).dirty = false ∧ (Parts.saveIfDirty sa p).dirty = false :=
  ⟨(Parts.saveAlways_spec p h).2.2.2, (Parts.saveIfDirty_spec sa p h).2.2.2⟩

theorem part_second_save_noop (p : Parts.Part) (h : Parts.WF p) :
    Parts.saveAlways (Parts.saveAlways p) = Parts.saveAlways p := Parts.save_idempotent p h

/-- after a save every loaded glyph is clean -/
theorem glyphs_clean_after_save (s : Layer.State) (n : String) (r : Layer.GRec) (d : Bool)
    (hg : AL.get? (Layer.save s).loaded n = some (r, d)) : d = false := by
  have : AL.get? (Layer.save s).loaded n = (AL.get? s.loaded n).map (fun v => (v.1, false)) := by
    unfold Layer.save; exact AL.get?_map_val (fun v : Layer.GRec × Bool => (v.1, false)) s.loaded n
  rw [this] at hg
  cases hl : AL.get? s.loaded n with
  | none => simp [hl] at hg
  | some p => simp [hl] at hg; exact hg.2.symm.symm ▸ rfl

/-- a second save of the layer set writes the same layercontents again -/
theorem layers_second_save_same (s : LayerSet.State) (h : LayerSet.Inv s) :
    ∃ a b, LayerSet.saveInPlace s = .ok a ∧ LayerSet.saveInPlace a = .ok b ∧
      (∀ n, AL.get? b.disk n = AL.get? a.disk n) ∧ AL.keys b.disk = AL.keys a.disk := by
  obtain ⟨a, ha, ha2, ha3, hma, hsa, ho, hdef⟩ := LayerSet.saveInPlace_spec h.mem h.sync
  obtain ⟨b, hb, hb2, hb3, _⟩ := LayerSet.saveInPlace_spec hma hsa
  refine ⟨a, b, ha, hb, ?_, by rw [hb3, ha3, ho]⟩
  intro n
  rw [hb2, ha2]
  -- the expected entry only depends on lids and the default, which a save does not change
  unfold LayerSet.saveInPlace at ha
  split at ha
  · simp at ha
  · split at ha
    · simp at ha
    · split at ha
      · simp at ha
      · simp only [Except.ok.injEq] at ha
        subst ha
        unfold LayerSet.expectedEntry
        simp only
        rw [AL.get?_map_val LayerSet.bound]
        cases AL.get? s.layers n with
        | none => rfl
        | some l => rfl

/-! ### not dirty means persisted -/

/-- whenever the image/data set has nothing dirty and nothing pending, its directory holds
exactly its content -/
theorem files_not_dirty_means_persisted (s : FileSet.State) (h : FileSet.WF s) (hc : FileSet.AllClean s) (k : String) :
    AL.get? s.disk k = FileSet.abs s k := FileSet.clean_means_persisted h hc k

/-- a loaded part that is not dirty equals its file; an unread part is its file -/
theorem part_not_dirty_means_persisted (p : Parts.Part) (h : Parts.WF p) (hd : p.dirty = false) :
    p.disk = Parts.abs p := by
  unfold Parts.abs
  cases hl : p.loaded with
  | none => rfl
  | some b => simp [h b hl hd]

/-- a layer with no dirty glyph and no pending deletion shows what its glyph set holds -/
theorem glyphs_not_dirty_means_persisted (s : Layer.State) (h : Layer.Good s) (hs : s.sched = [])
    (hc : ∀ n r d, AL.get? s.loaded n = some (r, d) → d = false) (k : String) :
    Layer.abs s k = AL.get? s.disk k := by
  cases hl : AL.get? s.loaded k with
  | none => rw [Layer.abs_of_not_loaded hl, hs]; simp
  | some p =>
    obtain ⟨r, d⟩ := p
    have := hc k r d hl
    subst this
    rw [Layer.abs_of_loaded hl, h.wf.cleanEq k r hl]

/-! ### non-vacuity -/

open FileSet in
example : WF (run true (opened [("a.png", 1), ("b.png", 2)]) [.get "a.png", .del "b.png", .set "c.png" 3]) :=
  wf_run (wf_opened _ (by decide)) _

open FileSet in
example : (saveInPlace (run true (opened [("a.png", 1), ("b.png", 2)]) [.get "a.png", .del "b.png", .set "c.png" 3])).disk
    = [("a.png", 1), ("c.png", 3)] := by decide

example : Parts.WF { loaded := some 4, dirty := true, disk := 2 } := by
  intro b _ hd; simp at hd

end DefconModel.Props.C06
