/-
C06 — In-place save leaves the UFO a full save would; not dirty means persisted.

Same component models as C01 (M-Layer, M-LayerSet, M-FileSet, M-Parts).  Proved here, for every
history: an in-place save and a save-as write the same content; nothing deleted or renamed is
left behind; afterwards every flag the save path owns is clear; a second save writes nothing;
and whenever nothing is dirty the UFO holds the content.

Round 3: M-SubFlags composes the components into the flag tree of the whole font (font, layer
set, layers and their libs, glyphs, and below each glyph its contours, components, anchors,
guidelines, image and lib).  Proved for every history of its operations: dirty is closed upwards,
everything is clean after a load and after a save, and a font that is not dirty holds nothing
that reports dirty.
-/
import DefconModel.Lemmas.Layer
import DefconModel.Lemmas.FileSet
import DefconModel.Lemmas.Parts
import DefconModel.Lemmas.LayerSet
import DefconModel.Lemmas.SubFlags
import DefconModel.Props.C07

namespace DefconModel.Props.C06
open DefconModel

/-! ### in-place save = full save -/

/-- images/data: after any history, the directory left by an in-place save and the directory
written by a save-as to a fresh location hold the same files with the same contents. -/
theorem files_inplace_eq_full (s : FileSet.State) (h : FileSet.WF s) (k : String) :
    AL.get? (FileSet.saveInPlace s).disk k = AL.get? (FileSet.saveAs s []).disk k := by
  rw [FileSet.saveInPlace_disk h, FileSet.saveAs_disk h]

/-- layers: after any history that keeps the invariant, the layercontents written in place and
the one written by a save-as are the same (names, order, default). -/
theorem layers_inplace_eq_full (s : LayerSet.State) (h : LayerSet.Inv s) :
    ∃ a b, LayerSet.saveInPlace s = .ok a ∧ LayerSet.saveAs s = .ok b ∧
      (∀ n, AL.get? a.disk n = AL.get? b.disk n) ∧ AL.keys a.disk = AL.keys b.disk := by
  obtain ⟨a, ha, ha2, ha3, _⟩ := LayerSet.saveInPlace_spec h.mem h.sync
  obtain ⟨b, hb, hb2, hb3, _⟩ := LayerSet.saveAs_spec h.mem
  exact ⟨a, b, ha, hb, fun n => by rw [ha2, hb2], by rw [ha3, hb3]⟩

/-- glyphs: the glyph set left by an in-place save holds exactly the abstract content (what a
save-as, which writes every glyph, would write). -/
theorem glyphs_inplace_exact (s : Layer.State) (h : Layer.Good s) (k : String) :
    AL.get? (Layer.save s).disk k = Layer.abs s k := Layer.save_disk h.wf k

/-! ### no leftovers -/

/-- a deleted file is gone after the save; a file that was never an entry cannot be there -/
theorem files_no_leftovers (s : FileSet.State) (h : FileSet.WF s) (k : String)
    (hk : FileSet.abs s k = none) : AL.get? (FileSet.saveInPlace s).disk k = none := by
  rw [FileSet.saveInPlace_disk h, hk]

/-- a deleted or renamed glyph's file is gone after the save -/
theorem glyphs_no_leftovers (s : Layer.State) (h : Layer.Good s) (k : String)
    (hk : Layer.abs s k = none) : AL.get? (Layer.save s).disk k = none := by
  rw [Layer.save_disk h.wf, hk]

/-- layercontents lists exactly the memory layers: no directory of a deleted or renamed layer
stays listed, none is missing -/
theorem layers_no_leftovers (s : LayerSet.State) (h : LayerSet.Inv s) :
    ∃ s', LayerSet.saveInPlace s = .ok s' ∧ AL.keys s'.disk = s.order := by
  obtain ⟨a, ha, _, ha3, _⟩ := LayerSet.saveInPlace_spec h.mem h.sync
  exact ⟨a, ha, ha3⟩

/-! ### clean after save, and a second save writes nothing -/

theorem files_clean_after_save (s : FileSet.State) (h : FileSet.WF s) :
    FileSet.AllClean (FileSet.saveInPlace s) ∧ FileSet.AllClean (FileSet.saveAs s []) :=
  ⟨FileSet.allClean_save h false _, FileSet.allClean_save h true _⟩

theorem files_second_save_noop (s : FileSet.State) (h : FileSet.WF s) :
    FileSet.saveInPlace (FileSet.saveInPlace s) = FileSet.saveInPlace s :=
  FileSet.saveInPlace_of_allClean (FileSet.allClean_save h false _) (FileSet.wf_saveInPlace h).entryKeys

theorem part_clean_after_save (sa : Bool) (p : Parts.Part) (h : Parts.WF p) :
    (Parts.saveAlways p).dirty = false ∧ (Parts.saveIfDirty sa p).dirty = false :=
  ⟨(Parts.saveAlways_spec p h).2.2.2, (Parts.saveIfDirty_spec sa p h).2.2.2⟩

theorem part_second_save_noop (p : Parts.Part) (h : Parts.WF p) :
    Parts.saveAlways (Parts.saveAlways p) = Parts.saveAlways p := Parts.save_idempotent p h

/-- after a save every loaded glyph is clean -/
theorem glyphs_clean_after_save (s : Layer.State) (n : String) (r : Layer.GRec) (d : Bool)
    (hg : AL.get? (Layer.save s).loaded n = some (r, d)) : d = false := by
  have : AL.get? (Layer.save s).loaded n = (AL.get? s.loaded n).map (fun v => (v.1, false)) := by
    unfold Layer.save; exact AL.get?_map_val (fun v : Layer.GRec × Bool => (v.1, false)) s.loaded n
  rw [this] at hg
  cases hl : AL.get? s.loaded n with
  | none => simp [hl] at hg
  | some p => simp [hl] at hg; exact hg.2.symm.symm ▸ rfl

/-- a second save of the layer set writes the same layercontents again -/
theorem layers_second_save_same (s : LayerSet.State) (h : LayerSet.Inv s) :
    ∃ a b, LayerSet.saveInPlace s = .ok a ∧ LayerSet.saveInPlace a = .ok b ∧
      (∀ n, AL.get? b.disk n = AL.get? a.disk n) ∧ AL.keys b.disk = AL.keys a.disk := by
  obtain ⟨a, ha, ha2, ha3, hma, hsa, ho, hdef⟩ := LayerSet.saveInPlace_spec h.mem h.sync
  obtain ⟨b, hb, hb2, hb3, _⟩ := LayerSet.saveInPlace_spec hma hsa
  refine ⟨a, b, ha, hb, ?_, by rw [hb3, ha3, ho]⟩
  intro n
  rw [hb2, ha2]
  -- the expected entry only depends on lids and the default, which a save does not change
  unfold LayerSet.saveInPlace at ha
  split at ha
  · simp at ha
  · split at ha
    · simp at ha
    · split at ha
      · simp at ha
      · simp only [Except.ok.injEq] at ha
        subst ha
        unfold LayerSet.expectedEntry
        simp only
        rw [AL.get?_map_val LayerSet.bound]
        cases AL.get? s.layers n with
        | none => rfl
        | some l => rfl

/-! ### not dirty means persisted -/

/-- whenever the image/data set has nothing dirty and nothing pending, its directory holds
exactly its content -/
theorem files_not_dirty_means_persisted (s : FileSet.State) (h : FileSet.WF s) (hc : FileSet.AllClean s) (k : String) :
    AL.get? s.disk k = FileSet.abs s k := FileSet.clean_means_persisted h hc k

/-- a loaded part that is not dirty equals its file; an unread part is its file -/
theorem part_not_dirty_means_persisted (p : Parts.Part) (h : Parts.WF p) (hd : p.dirty = false) :
    p.disk = Parts.abs p := by
  unfold Parts.abs
  cases hl : p.loaded with
  | none => rfl
  | some b => simp [h b hl hd]

/-- a layer with no dirty glyph and no pending deletion shows what its glyph set holds -/
theorem glyphs_not_dirty_means_persisted (s : Layer.State) (h : Layer.Good s) (hs : s.sched = [])
    (hc : ∀ n r d, AL.get? s.loaded n = some (r, d) → d = false) (k : String) :
    Layer.abs s k = AL.get? s.disk k := by
  cases hl : AL.get? s.loaded k with
  | none => rw [Layer.abs_of_not_loaded hl, hs]; simp
  | some p =>
    obtain ⟨r, d⟩ := p
    have := hc k r d hl
    subst this
    rw [Layer.abs_of_loaded hl, h.wf.cleanEq k r hl]

/-! ### the dirty flags of the whole tree (M-SubFlags) -/

open SubFlags in
/-- After any history of operations on a new or a freshly opened font — edits of contours,
components, anchors, guidelines, images, glyph libs, layer libs, glyph and layer creation,
deletion and renaming, lazy reads, edits of the top-level parts, images and data, saves in place
and save-as — whenever an object reports dirty, so does its parent: the top-level parts, the
image set, the data set and the layer set under the font; each layer under the layer set; the
layer lib and every loaded glyph under its layer; every contour, component, anchor, guideline,
the image and the lib under their glyph.  (Domain: notifications not disabled or held by the
caller, flags not reset by hand.) -/
theorem dirty_upward_closed (f0 : FontF) (h0 : Initial f0) (ops : List Op) : UC (run f0 ops) :=
  (inv_reachable h0 ops).1

open SubFlags in
/-- spelled out for the longest chain: a contour, component, anchor, guideline, image or glyph
lib that reports dirty makes its glyph, the glyph's layer, the layer set and the font report dirty -/
theorem subobject_dirty_reaches_font (f0 : FontF) (h0 : Initial f0) (ops : List Op)
    (lid : Nat) (L : LayerF) (n : String) (sb : Sub)
    (hl : AL.get? (run f0 ops).lf lid = some L) (hs : AL.get? L.subs n = some sb) (hd : ¬ sb.Clean) :
    gdirty L.base n = true ∧ L.dirty = true ∧ (run f0 ops).lsDirty = true ∧ (run f0 ops).dirty = true := by
  have h := dirty_upward_closed f0 h0 ops
  have hL := h.inner lid L hl
  have h1 := hL.sub n sb hs hd
  have h2 := hL.glyph n h1
  have h3 := h.layer lid L hl h2
  exact ⟨h1, h2, h3, h.ls h3⟩

open SubFlags in
/-- a layer lib that reports dirty makes its layer, the layer set and the font report dirty -/
theorem layer_lib_dirty_reaches_font (f0 : FontF) (h0 : Initial f0) (ops : List Op) (lid : Nat) (L : LayerF)
    (hl : AL.get? (run f0 ops).lf lid = some L) (hd : L.lib = true) :
    L.dirty = true ∧ (run f0 ops).lsDirty = true ∧ (run f0 ops).dirty = true := by
  have h := dirty_upward_closed f0 h0 ops
  have h2 := (h.inner lid L hl).lib hd
  have h3 := h.layer lid L hl h2
  exact ⟨h2, h3, h.ls h3⟩

open SubFlags in
/-- Right after loading a UFO no object of the font reports dirty; and reading a glyph at any
later time (`layer[name]`, which also reads the base glyphs of its components) changes no flag
that was there and brings in only objects that do not report dirty: the glyph asked for, when it
was not in memory, holds exactly the objects of its GLIF, every flag clear. -/
theorem subobjects_clean_after_load :
    (∀ imgs dats ps layers defLid defName glyphs, NothingDirty (opened imgs dats ps layers defLid defName glyphs)) ∧
    (∀ (L L' : LayerF) (n : String), fetch L n = .ok L' →
      L'.dirty = L.dirty ∧ L'.lib = L.lib ∧ (∀ k, gdirty L'.base k = gdirty L.base k) ∧
      (∀ k sb, AL.get? L'.subs k = some sb → AL.get? L.subs k = some sb ∨ sb.Clean)) ∧
    (∀ (L L' : LayerF) (n : String), getGlyph L n = .ok L' → Layer.isLoaded L.base n = false →
      AL.get? L'.subs n = some (Sub.loaded (shapeOf L n)) ∧ (Sub.loaded (shapeOf L n)).Clean ∧
      gdirty L'.base n = false) := by
  refine ⟨fun _ _ _ _ _ _ _ => nothingDirty_opened .., ?_, ?_⟩
  · intro L L' n h
    have q := quiet_fetch h
    exact ⟨q.dirty, q.lib, q.glyph, q.sub⟩
  · intro L L' n h hn
    have q := quiet_getGlyph h
    refine ⟨?_, clean_loaded _, ?_⟩
    · unfold getGlyph at h
      split at h
      · simp at h
      · simp only [Except.ok.injEq] at h
        subst h
        simp [hn]
    · rw [q.glyph]
      unfold gdirty
      unfold Layer.isLoaded AL.contains at hn
      cases hg : AL.get? L.base.loaded n with
      | none => rfl
      | some p => rw [hg] at hn; simp at hn

open SubFlags in
/-- After a successful save — in place or save-as, at any point of any history — no object of the
font reports dirty: font, layer set, every layer and layer lib, every loaded glyph and every
contour, component, anchor, guideline, image and lib below it, the top-level parts, the image
and data sets. -/
theorem subobjects_clean_after_save (f0 : FontF) (h0 : Initial f0) (ops : List Op) (sa : Bool) (f' : FontF)
    (hs : step (run f0 ops) (.save sa) = .ok f') : NothingDirty f' :=
  nothingDirty_save (dirty_upward_closed f0 h0 ops) hs

open SubFlags in
/-- Whenever the font does not report dirty, nothing in its tree does. -/
theorem font_not_dirty_means_nothing_dirty (f0 : FontF) (h0 : Initial f0) (ops : List Op)
    (hd : (run f0 ops).dirty = false) : NothingDirty (run f0 ops) :=
  nothingDirty_of_uc (dirty_upward_closed f0 h0 ops) hd

open SubFlags in
/-- … and then every layer's glyph set holds exactly the layer's content ("not dirty means
persisted" for glyphs, through `glyphs_not_dirty_means_persisted`): no glyph is dirty and no
deletion is pending, because a pending deletion keeps the layer's flag raised.  `Layer.Good` is
M-Layer's bookkeeping invariant (C07). -/
theorem font_not_dirty_means_glyphs_persisted (f0 : FontF) (h0 : Initial f0) (ops : List Op)
    (hd : (run f0 ops).dirty = false) (lid : Nat) (L : LayerF) (hl : AL.get? (run f0 ops).lf lid = some L)
    (hg : Layer.Good L.base) (k : String) : Layer.abs L.base k = AL.get? L.base.disk k := by
  have hn := (font_not_dirty_means_nothing_dirty f0 h0 ops hd).layers lid L hl
  have hsched : L.base.sched = [] := by
    cases hs : L.base.sched with
    | nil => rfl
    | cons a r =>
      have := (inv_reachable h0 ops).2 lid L hl (by rw [hs]; simp)
      rw [hn.dirty] at this; simp at this
  refine glyphs_not_dirty_means_persisted L.base hg hsched ?_ k
  intro n r d hget
  have := hn.glyph n
  unfold gdirty at this
  rw [hget] at this
  exact this

/-! ### non-vacuity -/

section
open SubFlags

example : Initial demoFont := Or.inr ⟨_, _, _, _, _, _, _, rfl⟩

/-- an anchor edit on a freshly read glyph raises the whole chain (so the hypotheses of
`subobject_dirty_reaches_font` are met by a reachable state) -/
example :
    let f := run demoFont [.glyphEdit "fore" "A" [.edit .anchor 0] []]
    (AL.get? f.lf 0).map (fun L => (AL.get? L.subs "A", gdirty L.base "A", L.dirty)) =
      some (some { contours := [false], anchors := [true], image := some false, imageName := some "i.png" }, true, true)
    ∧ f.lsDirty = true ∧ f.dirty = true := by decide

/-- reading the composite reads its base; nothing is dirty afterwards -/
example :
    let f := run demoFont [.glyphGet "fore" "B"]
    (AL.get? f.lf 0).map (fun L => (L.subs.map Prod.fst, L.dirty)) = some (["B", "A"], false) ∧ f.dirty = false := by
  decide

/-- the save path really has something to clear, and clears it -/
example :
    let f := run demoFont [.glyphEdit "fore" "A" [.edit .contour 0, .libEdit] [], .layerLibEdit "fore", .save false]
    f.dirty = false ∧ (AL.get? f.lf 0).map (fun L => (AL.get? L.subs "A", L.lib, L.dirty)) =
      some (some { contours := [false], anchors := [false], image := some false, imageName := some "i.png" }, false, false) := by
  decide

/-- a layer lib edit raises the chain above it (hypotheses of `layer_lib_dirty_reaches_font`) -/
example :
    let f := run demoFont [.layerLibEdit "fore"]
    (AL.get? f.lf 0).map (fun L => (L.lib, L.dirty)) = some (true, true) ∧ f.lsDirty = true ∧ f.dirty = true := by decide

/-- the hypotheses of `font_not_dirty_means_glyphs_persisted` are met by the freshly opened font:
not dirty, and its layer's bookkeeping is well formed (C07 `opened_good`) -/
example : demoFont.dirty = false ∧ ∃ L, AL.get? demoFont.lf 0 = some L ∧ Layer.Good L.base :=
  ⟨rfl, _, rfl, (Props.C07.opened_good [("A", {}), ("B", {})] (by decide) (by decide)).1⟩

/-- deleting the image file a loaded glyph shows raises that glyph's layer although no glyph is
dirty: the closure is upwards only -/
example :
    let f := run demoFont [.glyphGet "fore" "A", .fileDel true "i.png"]
    (AL.get? f.lf 0).map (fun L => (gdirty L.base "A", L.dirty)) = some (false, true) ∧ f.lsDirty = true := by decide

end


open FileSet in
example : WF (run true (opened [("a.png", 1), ("b.png", 2)]) [.get "a.png", .del "b.png", .set "c.png" 3]) :=
  wf_run (wf_opened _ (by decide)) _

open FileSet in
example : (saveInPlace (run true (opened [("a.png", 1), ("b.png", 2)]) [.get "a.png", .del "b.png", .set "c.png" 3])).disk
    = [("a.png", 1), ("c.png", 3)] := by decide

example : Parts.WF { loaded := some 4, dirty := true, disk := 2 } := by
  intro b _ hd; simp at hd

end DefconModel.Props.C06
