/-
C20 — Glyph-name sorting returns a permutation of its input, deterministically.

Property theorems about M-Sort (`DefconModel/NameSort.lean`, the executable model of
`UnicodeData.sortGlyphNames` and its `_sortBy*` methods in `Lib/defcon/objects/uniData.py`).
Helper lemmas: `Lemmas/NameSort.lean`; spec-side definitions: `Spec/NameSort.lean`; the module
constants of the code as regenerated on every check: `Gen/SortTables.lean`.

Section 5 (round 3) is about M-Lookups (`DefconModel/NameLookups.lean`, the executable model of the look-ups themselves:
`uniData.py` 178-407 and the functions of `unicodeTools.py` they use) and about the COMPOSED model `NameLookups.sortFont`
(M-Sort over the look-ups M-Lookups derives from the font's glyph names, the glyphs' code points, the cmap and per-code-point
facts of the Unicode database).  Helper lemmas: `Lemmas/NameLookups.lean`; spec side: `Spec/NameLookups.lean`; regenerated:
`Gen/OpenClose.lean` (the open/close pair text and dicts), `Gen/SortCalls.lean` (who refers to what inside class UnicodeData).

Every theorem of sections 1-4 quantifies over ALL look-up functions (`env`: unicode, pseudo-unicode, category, script,
block, close relative, font membership, decomposition base, cmap), ALL name lists (duplicates, names the
font does not have) and ALL descriptor lists (any length, any mix of the 10 public and 5 private types,
ascending/descending, pseudo-unicodes on/off).

"Gives the same answer on repeated calls" and "does not modify the input list or the font" are facts
about the implementation (the model is a function of `env`, the tables, the descriptors and the names,
and nothing else); the harness checks them on the real code on every call it makes.
-/
import DefconModel.Lemmas.NameSort
import DefconModel.Lemmas.NameSortTables
import DefconModel.Lemmas.NameSortMagnets
import DefconModel.Lemmas.NameLookups
import DefconModel.Gen.OpenClose
import DefconModel.Gen.SortCalls

namespace DefconModel.Props.C20
open DefconModel DefconModel.NameSort List

/-! ## 0. The regenerated tables -/

/-- The constants of the code as it is now: no script, block or category is listed twice in its ordered
table, no code point twice in one manual sort group. -/
theorem tables_wf : Gen.SortTables.tables.WF := gen_tables_wf

/-- The model dispatches exactly like `typeToMethod` in `sortGlyphNames`: every type name of the code
(but `custom`) is a model type bound to the method of the same name, and every model type is in the code's table. -/
theorem dispatch_matches_code :
    (∀ p ∈ Gen.SortTables.typeToMethod, p.1 = "custom" ∨
        ∃ t ∈ SortType.all, (t.typeName, t.methodName) = p) ∧
    (∀ t ∈ SortType.all, (t.typeName, t.methodName) ∈ Gen.SortTables.typeToMethod) := by
  decide +kernel

/-- The canned design sort runs the same two descriptor lists as `_cannedSortDesign`. -/
theorem canned_matches_code (pseudo : Bool) :
    (cannedFirst pseudo).map (fun d => d.type.typeName) = Gen.SortTables.cannedFirstTypes ∧
    (cannedSecond pseudo).map (fun d => d.type.typeName) = Gen.SortTables.cannedSecondTypes ∧
    (∀ d ∈ cannedFirst pseudo ++ cannedSecond pseudo, d.ascending = true ∧ d.pseudo = pseudo) := by
  cases pseudo <;> decide +kernel

/-- Why `script` and `category` keep the names without a unicode and `block` does not: their default tags
"Unknown" and "Cn" are in the ordered tables of the code, "No_Block" is not. -/
theorem default_tags :
    "Unknown" ∈ Gen.SortTables.orderedScripts ∧ "Cn" ∈ Gen.SortTables.orderedCategories ∧
    "No_Block" ∉ Gen.SortTables.orderedBlocks := by
  decide +kernel

/-! ## 1. Never more than was given (unconditional) -/

/-- Whatever the look-ups, the names and the descriptors: the result holds no name more often than the
input did — in particular nothing that was not given.  (Needs only that the ordered tables and manual
groups have no repeated entry.) -/
theorem sort_never_adds (env : Env) (T : Tables) (hT : T.WF) (ds : List (Desc SortType)) (names : List Name) :
    SubMultiset (sortGlyphNames env T ds names) names :=
  sortWith_sub (method env T) ds names (method_sub env T hT)

/-- … for the tables of the code as it is now: no hypothesis left. -/
theorem sort_never_adds_real (env : Env) (ds : List (Desc SortType)) (names : List Name) (x : Name) :
    (sortGlyphNames env Gen.SortTables.tables ds names).count x ≤ names.count x :=
  sort_never_adds env _ tables_wf ds names x

/-- … so every name of the result was a name of the input. -/
theorem sort_mem_of_mem (env : Env) (ds : List (Desc SortType)) (names : List Name) (n : Name)
    (h : n ∈ sortGlyphNames env Gen.SortTables.tables ds names) : n ∈ names :=
  (sort_never_adds env _ tables_wf ds names).mem h

example : SubMultiset (sortGlyphNames demoEnv Gen.SortTables.tables
    [⟨.basic .block, true, false⟩, ⟨.cannedDesign, false, true⟩] ["a.alt", "A", "A"]) ["a.alt", "A", "A"] :=
  sort_never_adds demoEnv _ tables_wf _ _

/-! ## 2. The permutation theorem -/

/-- THE PROPERTY, for every descriptor list whose look-up sorts (`category`, `block`, `script`, and the
`category`/`script` passes inside the canned sort) meet only tags of their ordered table: the result is a
permutation of the input — each name exactly as often as it was given, and nothing else.
What is missing from the full statement is exactly the hypothesis `Covered` (finding F21a, section 4). -/
theorem sort_perm_partial (env : Env) (T : Tables) (hT : T.WF) (ds : List (Desc SortType)) (names : List Name)
    (hc : ∀ d ∈ ds, Covered env T d names) : (sortGlyphNames env T ds names).Perm names :=
  sortWith_perm (method env T) ds names
    (fun d hd l hl => method_perm env T hT d l ((hc d hd).mono hl))

example : ∀ d ∈ [(⟨.cannedDesign, false, true⟩ : Desc SortType), ⟨.basic .block, true, false⟩],
    Covered demoEnv Gen.SortTables.tables d ["parenright", "A", "parenleft", "A"] := by
  decide +kernel

/-- Sort types that read no table (alphabetical, unicode, suffix, decomposition base, weighted suffix,
ligature and the private general-type, whitespace, container-partner and notdef passes), in any
combination: a permutation for EVERY look-up functions and EVERY tables, no hypothesis at all. -/
theorem sort_perm_table_free (env : Env) (T : Tables) (ds : List (Desc SortType)) (names : List Name)
    (hfree : ∀ d ∈ ds, d.type.tableFree = true) : (sortGlyphNames env T ds names).Perm names := by
  apply sortWith_perm
  intro d hd l _
  have hf := hfree d hd
  -- the same method over tables emptied of everything these types do not read
  let T' : Tables := { T with orderedScripts := [], orderedBlocks := [], orderedCategories := [], manualGroups := [] }
  have hT' : T'.WF := ⟨nodup_nil, nodup_nil, nodup_nil, fun _ h => absurd h not_mem_nil⟩
  unfold method
  cases ht : d.type with
  | cannedDesign => simp [ht, SortType.tableFree] at hf
  | basic b =>
    simp only
    have he : basicMethod env T ⟨b, d.ascending, d.pseudo⟩ l = basicMethod env T' ⟨b, d.ascending, d.pseudo⟩ l := by
      cases b <;> first | rfl | simp [ht, SortType.tableFree, Basic.tableFree] at hf
    rw [he]
    apply basicMethod_perm env T' hT'
    cases b <;> first | trivial | simp [ht, SortType.tableFree, Basic.tableFree] at hf

example : ∀ d ∈ [(⟨.basic .weightedSuffix, false, true⟩ : Desc SortType), ⟨.basic .decompositionBase, true, false⟩],
    d.type.tableFree = true := by decide

/-- For the tables of the code as it is now and look-ups whose scripts and categories come from the
ordered tables (every script and category fontTools can return does: enumerated over all code points by the
harness on every run): a permutation as soon as every `block` descriptor meets only names with a block. -/
theorem sort_perm_real (env : Env) (ds : List (Desc SortType)) (names : List Name)
    (hcat : ∀ n ∈ names, ∀ p, env.categoryFor n p ∈ Gen.SortTables.orderedCategories)
    (hscr : ∀ n ∈ names, ∀ p, env.scriptFor n p ∈ Gen.SortTables.orderedScripts)
    (hblk : ∀ d ∈ ds, d.type = .basic .block →
      ∀ n ∈ names, env.blockFor n d.pseudo ∈ Gen.SortTables.orderedBlocks) :
    (sortGlyphNames env Gen.SortTables.tables ds names).Perm names := by
  apply sort_perm_partial env _ tables_wf
  intro d hd
  unfold Covered
  cases ht : d.type with
  | cannedDesign => exact ⟨Or.inr (fun n hn => hcat n hn _), Or.inr (fun n hn => hscr n hn _)⟩
  | basic b =>
    cases b <;> simp only [BasicCovered]
    · exact Or.inr (fun n hn => hcat n hn _)
    · exact Or.inr (hblk d hd ht)
    · exact Or.inr (fun n hn => hscr n hn _)

/-- In the words of the property: every name comes back exactly as many times as it was given. -/
theorem sort_count (env : Env) (T : Tables) (hT : T.WF) (ds : List (Desc SortType)) (names : List Name)
    (hc : ∀ d ∈ ds, Covered env T d names) (x : Name) :
    (sortGlyphNames env T ds names).count x = names.count x :=
  (sort_perm_partial env T hT ds names hc).count_eq x

/-- … nothing else comes back, nothing is missing. -/
theorem sort_mem_iff (env : Env) (T : Tables) (hT : T.WF) (ds : List (Desc SortType)) (names : List Name)
    (hc : ∀ d ∈ ds, Covered env T d names) (x : Name) :
    x ∈ sortGlyphNames env T ds names ↔ x ∈ names :=
  (sort_perm_partial env T hT ds names hc).mem_iff

/-- … the result is as long as the input. -/
theorem sort_length (env : Env) (T : Tables) (hT : T.WF) (ds : List (Desc SortType)) (names : List Name)
    (hc : ∀ d ∈ ds, Covered env T d names) :
    (sortGlyphNames env T ds names).length = names.length :=
  (sort_perm_partial env T hT ds names hc).length_eq

example : (sortGlyphNames demoEnv Gen.SortTables.tables [⟨.cannedDesign, false, true⟩, ⟨.basic .script, true, false⟩]
    ["parenright", "A", "parenleft", "A"]).count "A" = 2 :=
  sort_count demoEnv _ tables_wf _ _ (by decide +kernel) "A"

/-! ## 3. Edge cases, loops that cannot fail -/

/-- No descriptor: the list comes back as it was. -/
theorem sort_no_descriptors (env : Env) (T : Tables) (names : List Name) :
    sortGlyphNames env T [] names = names := by
  simp [sortGlyphNames, sortWith, Blk.flattenList, Blk.flatten]

/-- The empty list sorts to the empty list under any descriptors (no method is ever called on it). -/
theorem sort_nil (env : Env) (T : Tables) (ds : List (Desc SortType)) : sortGlyphNames env T ds [] = [] :=
  sortWith_nil _ ds

/-- One descriptor: the method is applied to the whole (non-empty) list and its nested result flattened. -/
theorem sort_single (env : Env) (T : Tables) (d : Desc SortType) (a : Name) (names : List Name) :
    sortGlyphNames env T [d] (a :: names) = (method env T d (a :: names)).flatten := by
  simp [sortGlyphNames, sortWith, descStep, sortRecurse, sortRecurseList, Blk.flattenList, Blk.flatten]

example : sortGlyphNames demoEnv Gen.SortTables.tables [⟨.basic .unicode, false, false⟩] ["A", "a.alt", "parenleft"] =
    ["a.alt", "A", "parenleft"] := by decide +kernel

/-- `_sortByManualGroups`: the names it removes (`glyphNames.remove`) are there to be removed, and putting
them back restores the multiset — for any sub-multiset `tail` of the list. -/
theorem manual_remove_exact (tail names : List Name) (h : SubMultiset tail names) :
    (tail.foldl List.erase names ++ tail).Perm names :=
  foldl_erase_append_perm tail names h

example : SubMultiset ["period", "comma"] ["comma", "A", "period", "period"] := by decide

/-- … and `glyphNames.index(matched[0])` then finds its element. -/
theorem manual_index_found (names : List Name) (m0 : Name) (tail : List Name)
    (h : SubMultiset (m0 :: tail) names) : m0 ∈ tail.foldl List.erase names :=
  moveBehindFirst_index_found names m0 tail h

/-- … and what one manual group matches is such a sub-multiset (the groups list no code point twice). -/
theorem manual_matched_sub (env : Env) (pseudo : Bool) (names : List Name) (pairGroup : List Nat)
    (hnd : pairGroup.Nodup) :
    SubMultiset (pairGroup.flatMap (fun u => bucketOf (buckets (valueFor env pseudo) [] names) (some u))) names :=
  matched_count_le env pseudo names pairGroup hnd

/-- `_sortByWeightedSuffix`: the dict look-up `suffixToMagnet[suffix]` finds an entry for every suffixed
name of every list (no round of the magnet loop overwrites the entry of an earlier round), so the sort
cannot raise `KeyError` and the model's fall-back value in `magnetOf` is never used. -/
theorem weighted_lookup_total (names : List Name) (n : Name) (hn : n ∈ names) (hs : isPlain n = false) :
    AL.get? (suffixToMagnet (names.filter (fun n => !isPlain n))) (suffixOf n) =
      some (magnetOf (suffixToMagnet (names.filter (fun n => !isPlain n))) n) :=
  magnetOf_eq_lookup _ n (mem_filter.mpr ⟨hn, by simp [hs]⟩)

example : suffixToMagnet ["a.alt", "b.ALT", "c.alt1", "d.001", "e.0012", "f.sc"] =
    [("001", "001"), ("0012", "001"), ("ALT", "ALT"), ("alt", "ALT"), ("alt1", "alt1"), ("sc", "sc")] := by
  decide +kernel

/-- The `while glyphNames` loop of the container-partner pass ends within one round per name: the fuel
the model gives it (the length of the list) is enough, more changes nothing. -/
theorem partners_fuel_enough (env : Env) (pseudo : Bool) (k : Nat) (names : List Name) :
    partnersLoop env pseudo (names.length + k) names [] = partnersLoop env pseudo names.length names [] :=
  partnersLoop_fuel env pseudo names.length k names [] (Nat.le_refl _)

example : partnersLoop demoEnv true 4 ["A", "parenleft", "A", "parenright"] [] = ["A", "parenleft", "parenright", "A"] := by
  decide +kernel

/-- The container-partner pass returns a permutation WHATEVER the close-relative look-up answers: a partner that
is not in the list, the name itself (a neutral glyph carrying both code points of an open/close pair), two names
closing each other, chains — there is no hypothesis on `env`. -/
theorem partners_perm (env : Env) (asc pseudo : Bool) (names : List Name) :
    (sortByContainerPartners env asc pseudo names).flatten.Perm names :=
  sortByContainerPartners_perm env asc pseudo names

example : neutralEnv.closeRelativeFor "quotedblleft" true = some "quotedblleft" ∧
    (sortByContainerPartners neutralEnv true true ["quotedblleft", "comma", "a"]).flatten = ["quotedblleft", "comma", "a"] := by
  decide +kernel

/-- A name that is its own close relative and does not wait a second time behind itself: it is emitted once and
the loop goes on with exactly the names that were waiting behind it. -/
theorem partners_self_relative (env : Env) (pseudo : Bool) (fuel : Nat) (g : Name) (rest order : List Name)
    (hself : env.closeRelativeFor g pseudo = some g) (hn : g ∉ rest) :
    partnersLoop env pseudo (fuel + 1) (g :: rest) order = partnersLoop env pseudo fuel rest (order ++ [g]) := by
  simp [partnersLoop, hself, hn]

/-- … and when it does, its first waiting copy — nothing else — moves right behind it. -/
theorem partners_self_relative_repeated (env : Env) (pseudo : Bool) (fuel : Nat) (g : Name) (rest order : List Name)
    (hself : env.closeRelativeFor g pseudo = some g) (hin : g ∈ rest) :
    partnersLoop env pseudo (fuel + 1) (g :: rest) order =
      partnersLoop env pseudo fuel (rest.erase g) (order ++ [g] ++ [g]) := by
  simp [partnersLoop, hself, hin]

example : partnersLoop neutralEnv true 4 ["quotedblleft", "comma", "quotedblleft", "a"] [] =
    ["quotedblleft", "quotedblleft", "comma", "a"] := by decide +kernel

/-- Where the loop drops its head (`glyphNames = glyphNames[1:]`, before or after looking for the close relative)
makes no difference as long as no waiting name is its own close relative … -/
theorem partners_head_waiting_same (env : Env) (pseudo : Bool) (names : List Name)
    (hno : ∀ n ∈ names, env.closeRelativeFor n pseudo ≠ some n) :
    partnersLoopHeadWaiting env pseudo names.length names [] = partnersLoop env pseudo names.length names [] :=
  partnersLoopHeadWaiting_eq env pseudo names.length names [] hno

example : ∀ n ∈ ["A", "parenleft", "A", "parenright"], demoEnv.closeRelativeFor n true ≠ some n := by decide +kernel

/-- … and all the difference when one is: searched with the head still waiting, the neutral glyph finds itself,
comes back twice and the name behind it is lost; the loop of the code (head dropped first) keeps every name. -/
theorem partners_head_waiting_differs :
    partnersLoopHeadWaiting neutralEnv true 3 ["quotedblleft", "comma", "a"] [] = ["quotedblleft", "quotedblleft", "a"] ∧
    partnersLoopHeadWaiting neutralEnv true 1 ["quotedblleft"] [] = ["quotedblleft", "quotedblleft"] ∧
    partnersLoop neutralEnv true 3 ["quotedblleft", "comma", "a"] [] = ["quotedblleft", "comma", "a"] ∧
    partnersLoop neutralEnv true 1 ["quotedblleft"] [] = ["quotedblleft"] := by
  decide +kernel

/-- the canned sort over a neutral quote glyph, its small-cap variant and an ordinary pair: every name once -/
example : sortGlyphNames neutralEnv Gen.SortTables.tables [⟨.cannedDesign, true, true⟩]
      ["comma", "quotedblleft", "a", "parenright", "quotedblleft.sc", "parenleft"] =
    ["a", "parenleft", "parenright", "quotedblleft", "comma", "quotedblleft.sc"] := by
  decide +kernel

/-! ## 4. Findings -/

/-- What the `block` / `script` / `category` sort really returns: exactly the names whose tag is in the
ordered table, each as often as given — the other names are dropped, nothing is added. -/
theorem lookup_sort_exact (tagOf : Name → String) (ordered : List String) (asc : Bool) (names : List Name)
    (hne : ordered ≠ []) (hnd : ordered.Nodup) :
    (sortByUnicodeLookup tagOf ordered asc names).flatten.Perm
      (names.filter (fun n => decide (tagOf n ∈ ordered))) :=
  sortByUnicodeLookup_perm_filter tagOf ordered asc names hne hnd

/-- F21a: with the tables of the code as it is now the full statement is FALSE — sort type `block` drops a
name that has no block ("No_Block" is not in `orderedBlocks`): `["A", "a.alt"]` comes back as `["A"]`. -/
theorem sort_perm_violated : ¬ SortPerm demoEnv Gen.SortTables.tables := by
  intro h
  have := (h [⟨.basic .block, true, false⟩] ["A", "a.alt"]).length_eq
  revert this
  decide +kernel

example : sortGlyphNames demoEnv Gen.SortTables.tables [⟨.basic .block, true, false⟩] ["A", "a.alt"] = ["A"] := by
  decide +kernel

/-- F21b (repaired by repo_fixes/C20-container-partners.diff): the container-partner loop as it was
inserted a partner that was not in the list and lost a repeated one; the repaired loop does neither. -/
theorem partners_before_fix_violated :
    partnersLoopBeforeFix demoEnv true 1 ["parenleft"] [] = ["parenleft", "parenright"] ∧
    partnersLoopBeforeFix demoEnv true 4 ["parenleft", "parenleft", "parenright", "parenright"] [] =
      ["parenleft", "parenright", "parenleft"] ∧
    partnersLoop demoEnv true 1 ["parenleft"] [] = ["parenleft"] ∧
    partnersLoop demoEnv true 4 ["parenleft", "parenleft", "parenright", "parenright"] [] =
      ["parenleft", "parenright", "parenleft", "parenright"] := by
  decide +kernel

/-- the canned sort on a list whose bracket partner is in the font but not in the list: nothing is inserted -/
example : sortGlyphNames demoEnv Gen.SortTables.tables [⟨.cannedDesign, true, true⟩] ["parenleft", "a.alt", "A", "A"] =
    ["A", "A", "parenleft", "a.alt"] := by
  decide +kernel

/-! ## 5. The look-ups the sorts rely on, derived from the font, the cmap and the Unicode tables (M-Lookups)

`NameLookups.envOf db s` computes every look-up of section 1-4's `env` from plain data: the font's glyph names, the
code points of each glyph, the `UnicodeData` dict (`s : UData`), and per-code-point facts of the Unicode database with
the open/close tables (`db : UniDB`).  `NameLookups.sortFont db s T ds names` is the composed model of
`font.unicodeData.sortGlyphNames(names, ds)`. -/

open NameLookups

/-- The open→close and close→open tables the model looks relatives up in are the ones the code builds: the loop that
loads `_openClosePairText` (first pair of an opener / of a closer wins), run on the pairs as they stand in the text
of the code as it is now, gives exactly the two dicts of the imported module. -/
theorem open_close_tables_match_code :
    loadOpenClose Gen.OpenClose.pairs = (Gen.OpenClose.openToClose, Gen.OpenClose.closeToOpen) := by
  decide +kernel

/-- the hand-made exceptions of the text: U+2019 closes three openers and opens back to the first of them only -/
example : AL.get? Gen.OpenClose.openToClose 0x201A = some 0x2019 ∧ AL.get? Gen.OpenClose.openToClose 0x201B = some 0x2019 ∧
    AL.get? Gen.OpenClose.closeToOpen 0x2019 = some 0x2018 := by decide +kernel

/-- A glyph that has a code point answers it as its pseudo-unicode too: pseudo-unicodes only ever fill gaps. -/
theorem pseudo_unicode_of_encoded_is_unicode (s : UData) (n : Name) (v : Nat) (h : unicodeFor s n = some v) :
    pseudoUnicodeFor s n = some v :=
  pseudo_of_unicode s n v h

example : unicodeFor demoFont "odd.alt" = some 65 ∧ pseudoUnicodeFor demoFont "odd.alt" = some 65 := by decide +kernel

/-- What the code guarantees for `a.alt`, `a_b`, `a_b.alt`, `a.alt.ss01`, `a.alt_b.sc` …: a name made of a base name
`a` (not empty, no "." and no "_" in it), a "." or a "_", and ANYTHING behind it, that has no code point of its own,
gets as pseudo-unicode exactly the unicode of the glyph `a` (and none when `a` is no glyph of the font or has none) —
whatever stands behind the first separator. -/
theorem pseudo_unicode_stable_under_suffix (s : UData) (a : Name) (sep : Char) (rest : String) (ha : IsBase a)
    (hs : sep = '.' ∨ sep = '_') (hn : unicodeFor s (derived a sep rest) = none) :
    pseudoUnicodeFor s (derived a sep rest) = unicodeFor s a :=
  pseudo_derived s a sep rest ha hs hn

example : IsBase "a" ∧ derived "a" '_' "a.alt" = "a_a.alt" ∧ unicodeFor demoFont "a_a.alt" = none ∧
    pseudoUnicodeFor demoFont "a_a.alt" = some 97 ∧ pseudoUnicodeFor demoFont "a.alt" = some 97 ∧
    pseudoUnicodeFor demoFont "a_a" = some 97 ∧ pseudoUnicodeFor demoFont "a.alt.ss01" = some 97 ∧
    pseudoUnicodeFor demoFont "a.sc_parenleft.alt" = some 97 := by decide +kernel

/-- … so two unencoded variants of one base name always agree, whatever their suffixes. -/
theorem pseudo_unicode_same_for_all_variants (s : UData) (a : Name) (sep₁ sep₂ : Char) (rest₁ rest₂ : String)
    (ha : IsBase a) (h₁ : sep₁ = '.' ∨ sep₁ = '_') (h₂ : sep₂ = '.' ∨ sep₂ = '_')
    (hn₁ : unicodeFor s (derived a sep₁ rest₁) = none) (hn₂ : unicodeFor s (derived a sep₂ rest₂) = none) :
    pseudoUnicodeFor s (derived a sep₁ rest₁) = pseudoUnicodeFor s (derived a sep₂ rest₂) := by
  rw [pseudo_derived s a sep₁ rest₁ ha h₁ hn₁, pseudo_derived s a sep₂ rest₂ ha h₂ hn₂]

example : unicodeFor demoFont (derived "aacute" '.' "alt") = none ∧ unicodeFor demoFont (derived "aacute" '_' "a") = none ∧
    pseudoUnicodeFor demoFont "aacute.alt" = some 225 := by decide +kernel

/-- A name without "." and "_" gets no pseudo-unicode beyond its own unicode … -/
theorem pseudo_unicode_plain (s : UData) (n : Name) (hd : hasDot n = false) (hu : hasUnderscore n = false) :
    pseudoUnicodeFor s n = unicodeFor s n :=
  pseudo_of_plain s n hd hu

/-- … and neither does a name that starts with "." or "_" (`.notdef`, `.notdef.alt`, `_part`). -/
theorem pseudo_unicode_hidden (s : UData) (n : Name) (h : startsDot n = true ∨ startsUnderscore n = true) :
    pseudoUnicodeFor s n = unicodeFor s n :=
  pseudo_of_hidden s n h

example : startsDot ".notdef.alt" = true ∧ pseudoUnicodeFor demoFont ".notdef.alt" = none ∧
    startsUnderscore "_part" = true ∧ pseudoUnicodeFor demoFont "_part" = none := by decide +kernel

/-- A pseudo-unicode is never invented: it is the first code point of a glyph of the font (the name itself, or the
part of it before the first "." and "_"). -/
theorem pseudo_unicode_is_a_unicode_of_the_font (s : UData) (n : Name) (v : Nat) (h : pseudoUnicodeFor s n = some v) :
    ∃ g ∈ s.names, unicodeFor s g = some v := by
  rcases pseudo_some s n v h with h1 | ⟨_, h2⟩
  · exact ⟨n, (unicodeFor_some s n v h1).1, h1⟩
  · exact ⟨stemOf n, (unicodeFor_some s _ v h2).1, h2⟩

/-- A close relative that is returned is a glyph name of the font (the cmap listing only glyphs of the font):
either the first glyph on the closing code point or — with pseudo-unicodes — that glyph's variant with the suffix of
the name asked about, which is used only after `in font` said yes. -/
theorem close_relative_in_font (db : UniDB) (s : UData) (hw : CmapWF s) (n : Name) (p : Bool) (r : Name)
    (h : closeRelativeFor db s n p = some r) : r ∈ s.names :=
  openCloseSearch_mem s hw _ n p r h

/-- … and so is an open relative. -/
theorem open_relative_in_font (db : UniDB) (s : UData) (hw : CmapWF s) (n : Name) (p : Bool) (r : Name)
    (h : openRelativeFor db s n p = some r) : r ∈ s.names :=
  openCloseSearch_mem s hw _ n p r h

example : CmapWF demoFont ∧ closeRelativeFor demoDB demoFont "parenleft.sc" true = some "parenright.sc" ∧
    closeRelativeFor demoDB demoFont "parenleft.alt" true = some "parenright" ∧
    closeRelativeFor demoDB demoFont "parenleft.sc" false = none ∧
    openRelativeFor demoDB demoFont "parenright" false = some "parenleft" := by decide +kernel

/-- What the relative is: the name asked about has a (pseudo-)unicode `v`, the table pairs `v` with `c`, `g` is the
first glyph the cmap lists for `c`, and the answer is `g` or, with pseudo-unicodes, `g` + "." + the suffix of the name
(then a glyph of the font). -/
theorem close_relative_is_the_partner (db : UniDB) (s : UData) (n : Name) (p : Bool) (r : Name)
    (h : closeRelativeFor db s n p = some r) :
    ∃ v c g, valueOf s p n = some v ∧ AL.get? db.openToClose v = some c ∧ nameForUnicode s c = some g ∧
      (r = g ∨ (p = true ∧ r = withSuffix g (suffixOf n) ∧ r ∈ s.names)) :=
  openCloseSearch_some s _ n p r h

/-- `decompositionBaseForGlyphName` answers the name it was asked about (nothing found) or a glyph name of the font
(the first glyph on the base code point, or its variant with the name's suffix when the font has one) — and never
fails, the cmap having no empty entry. -/
theorem decomposition_base_in_font_or_none (db : UniDB) (s : UData) (hw : CmapWF s) (n : Name) (p : Bool) :
    ∃ r, decompositionBaseFor db s n p = .ok r ∧ (r = n ∨ r ∈ s.names) :=
  decompositionBaseFor_cases db s hw n p

example : decompositionBaseFor demoDB demoFont "aacute.alt" true = .ok "a.alt" ∧
    decompositionBaseFor demoDB demoFont "aacute.alt" false = .ok "aacute.alt" ∧
    decompositionBaseFor demoDB demoFont "aringacute" false = .ok "a" ∧
    decompositionBaseFor demoDB demoFont "zzz" true = .ok "zzz" := by decide +kernel

/-- … and the base the `decompositionBase` SORT files a name under (its own derivation: `unicodeTools.decompositionBase`,
then the cmap, then the suffix up to the second ".") is a glyph name of the font whenever there is one. -/
theorem sort_decomposition_base_in_font (db : UniDB) (s : UData) (hw : CmapWF s) (p : Bool) (n b : Name)
    (h : decompKey (envOf db s) p n = some b) : b ∈ s.names :=
  decompKey_mem db s hw p n b h

example : decompKey (envOf demoDB demoFont) true "aacute.alt" = some "a.alt" ∧
    decompKey (envOf demoDB demoFont) false "aringacute" = some "a" := by decide +kernel

/-- `unicodeTools.decompositionBase` follows the chain (ǻ → å → a: two links in one call) and answers `-1` or a code
point, `-1` for every value that is no code point. -/
theorem decomposition_base_total (db : UniDB) (fuel v : Nat) :
    (decompositionBase db fuel v = -1 ∨ 0 ≤ decompositionBase db fuel v) ∧
    (v > maxCodePoint → decompositionBase db fuel v = -1) :=
  ⟨decompositionBase_nonneg db fuel v, decompositionBase_out_of_range db fuel v⟩

example : decompositionBase demoDB decompFuel 507 = 97 ∧ decompositionBase demoDB decompFuel 170 = -1 ∧
    decompositionBase demoDB decompFuel 97 = -1 := by decide +kernel

/-- No look-up changes the cmap, the forced-unicode tables or anything else — except ONE:
`forcedUnicodeForGlyphName` (`Ask.forcedUnicode`), which allocates.  Every other public look-up (`name in font`,
unicode, glyph name for unicode, pseudo-unicode, glyph name for forced unicode, script, block, category, decomposition
base, close and open relative) leaves the state exactly as it was. -/
theorem lookups_pure (db : UniDB) (s : UData) (a : Ask) (h : a.reads) : (ask db s a).1 = s :=
  ask_reads_state db s a h

example : (Ask.closeRelative "parenleft.sc" true).reads ∧ (Ask.nameForForced 0xE000).reads ∧
    ¬ (Ask.forcedUnicode "a.alt").reads := by decide

/-- The one that allocates writes the two forced tables only: glyph names, the glyphs' code points and the cmap are
the same after any call, and after any sequence of calls. -/
theorem forced_unicode_keeps_font_and_cmap (db : UniDB) (s : UData) (as : List Ask) :
    (askAll db s as).1.names = s.names ∧ (askAll db s as).1.unicodes = s.unicodes ∧
    (askAll db s as).1.cmap = s.cmap :=
  askAll_frame db s as

/-- … it does not write at all for a glyph that has a code point (the answer is that code point) … -/
theorem forced_unicode_of_encoded (s : UData) (n : Name) (v : Nat) (h : unicodeFor s n = some v) :
    forcedUnicodeFor s n = (s, some v) := by
  simp [forcedUnicodeFor, h]

/-- … and what it allocates is a private-use code point no other name was forced onto (it does NOT look at the cmap:
a glyph that really carries U+E000 does not stop U+E000 from being handed out — the code as it is). -/
theorem forced_unicode_allocates_fresh_private_use (s : UData) (n : Name) (v : Nat)
    (hu : unicodeFor s n = none) (hf : AL.get? s.forcedByName n = none) (h : (forcedUnicodeFor s n).2 = some v) :
    v ∉ AL.keys s.forcedByCode ∧
    ((pua1Min ≤ v ∧ v ≤ pua1Max) ∨ (pua2Min ≤ v ∧ v ≤ pua2Max) ∨ (pua3Min ≤ v ∧ v ≤ pua3Max)) ∧
    AL.get? (forcedUnicodeFor s n).1.forcedByName n = some v ∧ AL.get? (forcedUnicodeFor s n).1.forcedByCode v = some n := by
  unfold forcedUnicodeFor at h ⊢
  rw [hu] at h ⊢
  simp only [hf] at h ⊢
  cases hp : findPUA (AL.keys s.forcedByCode) puaFuel pua1Min with
  | none => rw [hp] at h; cases h
  | some w =>
    rw [hp] at h
    simp only [Option.some.injEq] at h
    subst h
    exact ⟨findPUA_fresh _ _ _ _ hp, findPUA_private _ _ _ _ hp, by simp, by simp⟩

example : (forcedUnicodeFor demoFont "a.alt").2 = some 0xE000 ∧
    (forcedUnicodeFor (forcedUnicodeFor demoFont "a.alt").1 "zzz").2 = some 0xE001 ∧
    (forcedUnicodeFor (forcedUnicodeFor demoFont "a.alt").1 "a.alt") = ((forcedUnicodeFor demoFont "a.alt").1, some 0xE000) := by
  decide +kernel

/-- NO SORT ALLOCATES, model side: the look-ups a sort is computed from read the glyph names, the glyphs' code points
and the cmap and nothing else — so whatever look-ups were made before (allocating ones included), every sort type and
every combination of them returns what it would have returned without them … -/
theorem sort_does_not_allocate (db : UniDB) (s : UData) (as : List Ask) (T : Tables) (ds : List (Desc SortType))
    (names : List Name) : sortFont db (askAll db s as).1 T ds names = sortFont db s T ds names := by
  have h := askAll_frame db s as
  unfold sortFont
  rw [envOf_congr db s _ h.1 h.2.1 h.2.2]

example : (askAll demoDB demoFont [.forcedUnicode "a.alt", .forcedUnicode "zzz"]).1.forcedByCode = [(0xE000, "a.alt"), (0xE001, "zzz")] := by
  decide +kernel

/-- … code side, over the table of references regenerated from the source AST on every check: from `sortGlyphNames`
(which names every sort method in `typeToMethod`) no chain of `self.…` references reaches `forcedUnicodeForGlyphName`,
`_loadForcedUnicodeValue`, `_findAvailablePUACode`, the two forced dicts, a mutator of the `UnicodeData` dict, an
assignment to `self[...]`, `super(...)` or `postNotification`.  (`R` below is that reachable set; it is closed.) -/
theorem sort_does_not_allocate_in_code :
    let R := reach Gen.SortCalls.refs 64 ["sortGlyphNames"]
    "sortGlyphNames" ∈ R ∧ Closed Gen.SortCalls.refs R ∧
    (∀ p ∈ Gen.SortTables.typeToMethod, p.2 ∈ R) ∧ (∀ m ∈ R, m ∉ writers) := by
  decide +kernel

/-- The fields of the model's `Env` are the look-ups the sort methods of the code reach, no more and no fewer: every
method of `UnicodeData` reachable from `sortGlyphNames` is a sort method, one of `envMethods`, or a getter on the way
to the font; every one of `envMethods` is reached; and of `unicodeTools` exactly the five functions ported into
`NameLookups` and the three ordered tables are used. -/
theorem env_fields_match_code :
    let R := reach Gen.SortCalls.refs 64 ["sortGlyphNames"]
    (∀ m ∈ R, m ∈ Gen.SortCalls.methods → isSortMethod m = true ∨ m ∈ envMethods ∨ m ∈ parentGetters) ∧
    (∀ m ∈ envMethods, m ∈ R ∧ m ∈ Gen.SortCalls.methods) ∧
    (∀ m ∈ R, "unicodeTools.".toList.isPrefixOf m.toList = true → m ∈ unicodeToolsUsed) ∧
    (∀ m ∈ unicodeToolsUsed, m ∈ R) := by
  decide +kernel

/-- THE PROPERTY ON THE COMPOSED MODEL, "never more than was given": for every font, cmap and Unicode tables, every
name list and every descriptor list, the sort computed from them holds no name more often than the input did. -/
theorem sort_never_adds_composed (db : UniDB) (s : UData) (ds : List (Desc SortType)) (names : List Name) (x : Name) :
    (sortFont db s Gen.SortTables.tables ds names).count x ≤ names.count x :=
  sort_never_adds_real (envOf db s) ds names x

/-- THE PROPERTY ON THE COMPOSED MODEL: for EVERY font (glyph names, code points, cmap — no hypothesis on them), every
Unicode tables whose categories and scripts are those of the ordered tables, every name list and every descriptor list
the result is a permutation of the input, as soon as the `block` descriptors meet only names whose block is ordered
(what is left of finding F21a: a name without (pseudo-)unicode has block "No_Block"). -/
theorem sort_perm_composed (db : UniDB) (s : UData) (hdb : DBOrdered db Gen.SortTables.tables)
    (ds : List (Desc SortType)) (names : List Name)
    (hblk : ∀ d ∈ ds, d.type = .basic .block →
      ∀ n ∈ names, blockFor db s n d.pseudo ∈ Gen.SortTables.orderedBlocks) :
    (sortFont db s Gen.SortTables.tables ds names).Perm names :=
  sort_perm_real (envOf db s) ds names
    (fun n _ p => categoryFor_ordered db s _ hdb default_tags.2.1 n p)
    (fun n _ p => scriptFor_ordered db s _ hdb default_tags.1 n p)
    hblk

/-- … in particular for every descriptor list without a `block` descriptor: no hypothesis on font or names at all. -/
theorem sort_perm_composed_without_block (db : UniDB) (s : UData) (hdb : DBOrdered db Gen.SortTables.tables)
    (ds : List (Desc SortType)) (names : List Name) (hnb : ∀ d ∈ ds, d.type ≠ .basic .block) :
    (sortFont db s Gen.SortTables.tables ds names).Perm names :=
  sort_perm_composed db s hdb ds names (fun d hd ht => absurd ht (hnb d hd))

example : DBOrdered demoDB Gen.SortTables.tables :=
  tableDB_ordered _ _ _ _ (by decide +kernel) (by decide +kernel)

example : sortFont demoDB demoFont Gen.SortTables.tables [⟨.cannedDesign, true, true⟩]
      ["aacute.alt", "parenright.sc", "a.alt", "zzz", "parenleft.sc", "a", "aringacute", "A"] =
    ["A", "a", "aringacute", "zzz", "parenleft.sc", "parenright.sc", "a.alt", "aacute.alt"] := by
  decide +kernel

/-- F21a on the composed model: a name without a code point has no block, and the `block` sort drops it. -/
theorem sort_perm_composed_violated :
    ¬ (sortFont demoDB demoFont Gen.SortTables.tables [⟨.basic .block, true, false⟩] ["A", "a.alt"]).Perm ["A", "a.alt"] := by
  intro h
  have := h.length_eq
  revert this
  decide +kernel

end DefconModel.Props.C20
