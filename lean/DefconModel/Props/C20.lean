import DefconModel.NameSort
import DefconModel.Gen.SortTables
namespace DefconModel.Props.C20
open DefconModel DefconModel.NameSort
theorem stub : True := trivial
end DefconModel.Props.C20
