/-
C20 — Glyph-name sorting returns a permutation of its input, deterministically.

Property theorems about M-Sort (`DefconModel/NameSort.lean`, the executable model of
`UnicodeData.sortGlyphNames` and its `_sortBy*` methods in `Lib/defcon/objects/uniData.py`).
Helper lemmas: `Lemmas/NameSort.lean`; spec-side definitions: `Spec/NameSort.lean`; the module
constants of the code as regenerated on every check: `Gen/SortTables.lean`.

Every theorem quantifies over ALL look-up functions (`env`: unicode, pseudo-unicode, category, script,
block, close relative, font membership, decomposition base, cmap), ALL name lists (duplicates, names the
font does not have) and ALL descriptor lists (any length, any mix of the 10 public and 5 private types,
ascending/descending, pseudo-unicodes on/off).

"Gives the same answer on repeated calls" and "does not modify the input list or the font" are facts
about the implementation (the model is a function of `env`, the tables, the descriptors and the names,
and nothing else); the harness checks them on the real code on every call it makes.
-/
import DefconModel.Lemmas.NameSort
import DefconModel.Lemmas.NameSortTables
import DefconModel.Lemmas.NameSortMagnets

namespace DefconModel.Props.C20
open DefconModel DefconModel.NameSort List

/-! ## 0. The regenerated tables -/

/-- The constants of the code as it is now: no script, block or category is listed twice in its ordered
table, no code point twice in one manual sort group. -/
theorem tables_wf : Gen.SortTables.tables.WF := gen_tables_wf

/-- The model dispatches exactly like `typeToMethod` in `sortGlyphNames`: every type name of the code
(but `custom`) is a model type bound to the method of the same name, and every model type is in the code's table. -/
theorem dispatch_matches_code :
    (∀ p ∈ Gen.SortTables.typeToMethod, p.1 = "custom" ∨
        ∃ t ∈ SortType.all, (t.typeName, t.methodName) = p) ∧
    (∀ t ∈ SortType.all, (t.typeName, t.methodName) ∈ Gen.SortTables.typeToMethod) := by
  decide +kernel

/-- The canned design sort runs the same two descriptor lists as `_cannedSortDesign`. -/
theorem canned_matches_code (pseudo : Bool) :
    (cannedFirst pseudo).map (fun d => d.type.typeName) = Gen.SortTables.cannedFirstTypes ∧
    (cannedSecond pseudo).map (fun d => d.type.typeName) = Gen.SortTables.cannedSecondTypes ∧
    (∀ d ∈ cannedFirst pseudo ++ cannedSecond pseudo, d.ascending = true ∧ d.pseudo = pseudo) := by
  cases pseudo <;> decide +kernel

/-- Why `script` and `category` keep the names without a unicode and `block` does not: their default tags
"Unknown" and "Cn" are in the ordered tables of the code, "No_Block" is not. -/
theorem default_tags :
    "Unknown" ∈ Gen.SortTables.orderedScripts ∧ "Cn" ∈ Gen.SortTables.orderedCategories ∧
    "No_Block" ∉ Gen.SortTables.orderedBlocks := by
  decide +kernel

/-! ## 1. Never more than was given (unconditional) -/

/-- Whatever the look-ups, the names and the descriptors: the result holds no name more often than the
input did — in particular nothing that was not given.  (Needs only that the ordered tables and manual
groups have no repeated entry.) -/
theorem sort_never_adds (env : Env) (T : Tables) (hT : T.WF) (ds : List (Desc SortType)) (names : List Name) :
    SubMultiset (sortGlyphNames env T ds names) names :=
  sortWith_sub (method env T) ds names (method_sub env T hT)

/-- … for the tables of the code as it is now: no hypothesis left. -/
theorem sort_never_adds_real (env : Env) (ds : List (Desc SortType)) (names : List Name) (x : Name) :
    (sortGlyphNames env Gen.SortTables.tables ds names).count x ≤ names.count x :=
  sort_never_adds env _ tables_wf ds names x

/-- … so every name of the result was a name of the input. -/
theorem sort_mem_of_mem (env : Env) (ds : List (Desc SortType)) (names : List Name) (n : Name)
    (h : n ∈ sortGlyphNames env Gen.SortTables.tables ds names) : n ∈ names :=
  (sort_never_adds env _ tables_wf ds names).mem h

example : SubMultiset (sortGlyphNames demoEnv Gen.SortTables.tables
    [⟨.basic .block, true, false⟩, ⟨.cannedDesign, false, true⟩] ["a.alt", "A", "A"]) ["a.alt", "A", "A"] :=
  sort_never_adds demoEnv _ tables_wf _ _

/-! ## 2. The permutation theorem -/

/-- THE PROPERTY, for every descriptor list whose look-up sorts (`category`, `block`, `script`, and the
`category`/`script` passes inside the canned sort) meet only tags of their ordered table: the result is a
permutation of the input — each name exactly as often as it was given, and nothing else.
What is missing from the full statement is exactly the hypothesis `Covered` (finding F21a, section 4). -/
theorem sort_perm_partial (env : Env) (T : Tables) (hT : T.WF) (ds : List (Desc SortType)) (names : List Name)
    (hc : ∀ d ∈ ds, Covered env T d names) : (sortGlyphNames env T ds names).Perm names :=
  sortWith_perm (method env T) ds names
    (fun d hd l hl => method_perm env T hT d l ((hc d hd).mono hl))

example : ∀ d ∈ [(⟨.cannedDesign, false, true⟩ : Desc SortType), ⟨.basic .block, true, false⟩],
    Covered demoEnv Gen.SortTables.tables d ["parenright", "A", "parenleft", "A"] := by
  decide +kernel

/-- Sort types that read no table (alphabetical, unicode, suffix, decomposition base, weighted suffix,
ligature and the private general-type, whitespace, container-partner and notdef passes), in any
combination: a permutation for EVERY look-up functions and EVERY tables, no hypothesis at all. -/
theorem sort_perm_table_free (env : Env) (T : Tables) (ds : List (Desc SortType)) (names : List Name)
    (hfree : ∀ d ∈ ds, d.type.tableFree = true) : (sortGlyphNames env T ds names).Perm names := by
  apply sortWith_perm
  intro d hd l _
  have hf := hfree d hd
  -- the same method over tables emptied of everything these types do not read
  let T' : Tables := { T with orderedScripts := [], orderedBlocks := [], orderedCategories := [], manualGroups := [] }
  have hT' : T'.WF := ⟨nodup_nil, nodup_nil, nodup_nil, fun _ h => absurd h not_mem_nil⟩
  unfold method
  cases ht : d.type with
  | cannedDesign => simp [ht, SortType.tableFree] at hf
  | basic b =>
    simp only
    have he : basicMethod env T ⟨b, d.ascending, d.pseudo⟩ l = basicMethod env T' ⟨b, d.ascending, d.pseudo⟩ l := by
      cases b <;> first | rfl | simp [ht, SortType.tableFree, Basic.tableFree] at hf
    rw [he]
    apply basicMethod_perm env T' hT'
    cases b <;> first | trivial | simp [ht, SortType.tableFree, Basic.tableFree] at hf

example : ∀ d ∈ [(⟨.basic .weightedSuffix, false, true⟩ : Desc SortType), ⟨.basic .decompositionBase, true, false⟩],
    d.type.tableFree = true := by decide

/-- For the tables of the code as it is now and look-ups whose scripts and categories come from the
ordered tables (every script and category fontTools can return does: enumerated over all code points by the
harness on every run): a permutation as soon as every `block` descriptor meets only names with a block. -/
theorem sort_perm_real (env : Env) (ds : List (Desc SortType)) (names : List Name)
    (hcat : ∀ n ∈ names, ∀ p, env.categoryFor n p ∈ Gen.SortTables.orderedCategories)
    (hscr : ∀ n ∈ names, ∀ p, env.scriptFor n p ∈ Gen.SortTables.orderedScripts)
    (hblk : ∀ d ∈ ds, d.type = .basic .block →
      ∀ n ∈ names, env.blockFor n d.pseudo ∈ Gen.SortTables.orderedBlocks) :
    (sortGlyphNames env Gen.SortTables.tables ds names).Perm names := by
  apply sort_perm_partial env _ tables_wf
  intro d hd
  unfold Covered
  cases ht : d.type with
  | cannedDesign => exact ⟨Or.inr (fun n hn => hcat n hn _), Or.inr (fun n hn => hscr n hn _)⟩
  | basic b =>
    cases b <;> simp only [BasicCovered]
    · exact Or.inr (fun n hn => hcat n hn _)
    · exact Or.inr (hblk d hd ht)
    · exact Or.inr (fun n hn => hscr n hn _)

/-- In the words of the property: every name comes back exactly as many times as it was given. -/
theorem sort_count (env : Env) (T : Tables) (hT : T.WF) (ds : List (Desc SortType)) (names : List Name)
    (hc : ∀ d ∈ ds, Covered env T d names) (x : Name) :
    (sortGlyphNames env T ds names).count x = names.count x :=
  (sort_perm_partial env T hT ds names hc).count_eq x

/-- … nothing else comes back, nothing is missing. -/
theorem sort_mem_iff (env : Env) (T : Tables) (hT : T.WF) (ds : List (Desc SortType)) (names : List Name)
    (hc : ∀ d ∈ ds, Covered env T d names) (x : Name) :
    x ∈ sortGlyphNames env T ds names ↔ x ∈ names :=
  (sort_perm_partial env T hT ds names hc).mem_iff

/-- … the result is as long as the input. -/
theorem sort_length (env : Env) (T : Tables) (hT : T.WF) (ds : List (Desc SortType)) (names : List Name)
    (hc : ∀ d ∈ ds, Covered env T d names) :
    (sortGlyphNames env T ds names).length = names.length :=
  (sort_perm_partial env T hT ds names hc).length_eq

example : (sortGlyphNames demoEnv Gen.SortTables.tables [⟨.cannedDesign, false, true⟩, ⟨.basic .script, true, false⟩]
    ["parenright", "A", "parenleft", "A"]).count "A" = 2 :=
  sort_count demoEnv _ tables_wf _ _ (by decide +kernel) "A"

/-! ## 3. Edge cases, loops that cannot fail -/

/-- No descriptor: the list comes back as it was. -/
theorem sort_no_descriptors (env : Env) (T : Tables) (names : List Name) :
    sortGlyphNames env T [] names = names := by
  simp [sortGlyphNames, sortWith, Blk.flattenList, Blk.flatten]

/-- The empty list sorts to the empty list under any descriptors (no method is ever called on it). -/
theorem sort_nil (env : Env) (T : Tables) (ds : List (Desc SortType)) : sortGlyphNames env T ds [] = [] :=
  sortWith_nil _ ds

/-- One descriptor: the method is applied to the whole (non-empty) list and its nested result flattened. -/
theorem sort_single (env : Env) (T : Tables) (d : Desc SortType) (a : Name) (names : List Name) :
    sortGlyphNames env T [d] (a :: names) = (method env T d (a :: names)).flatten := by
  simp [sortGlyphNames, sortWith, descStep, sortRecurse, sortRecurseList, Blk.flattenList, Blk.flatten]

example : sortGlyphNames demoEnv Gen.SortTables.tables [⟨.basic .unicode, false, false⟩] ["A", "a.alt", "parenleft"] =
    ["a.alt", "A", "parenleft"] := by decide +kernel

/-- `_sortByManualGroups`: the names it removes (`glyphNames.remove`) are there to be removed, and putting
them back restores the multiset — for any sub-multiset `tail` of the list. -/
theorem manual_remove_exact (tail names : List Name) (h : SubMultiset tail names) :
    (tail.foldl List.erase names ++ tail).Perm names :=
  foldl_erase_append_perm tail names h

example : SubMultiset ["period", "comma"] ["comma", "A", "period", "period"] := by decide

/-- … and `glyphNames.index(matched[0])` then finds its element. -/
theorem manual_index_found (names : List Name) (m0 : Name) (tail : List Name)
    (h : SubMultiset (m0 :: tail) names) : m0 ∈ tail.foldl List.erase names :=
  moveBehindFirst_index_found names m0 tail h

/-- … and what one manual group matches is such a sub-multiset (the groups list no code point twice). -/
theorem manual_matched_sub (env : Env) (pseudo : Bool) (names : List Name) (pairGroup : List Nat)
    (hnd : pairGroup.Nodup) :
    SubMultiset (pairGroup.flatMap (fun u => bucketOf (buckets (valueFor env pseudo) [] names) (some u))) names :=
  matched_count_le env pseudo names pairGroup hnd

/-- `_sortByWeightedSuffix`: the dict look-up `suffixToMagnet[suffix]` finds an entry for every suffixed
name of every list (no round of the magnet loop overwrites the entry of an earlier round), so the sort
cannot raise `KeyError` and the model's fall-back value in `magnetOf` is never used. -/
theorem weighted_lookup_total (names : List Name) (n : Name) (hn : n ∈ names) (hs : isPlain n = false) :
    AL.get? (suffixToMagnet (names.filter (fun n => !isPlain n))) (suffixOf n) =
      some (magnetOf (suffixToMagnet (names.filter (fun n => !isPlain n))) n) :=
  magnetOf_eq_lookup _ n (mem_filter.mpr ⟨hn, by simp [hs]⟩)

example : suffixToMagnet ["a.alt", "b.ALT", "c.alt1", "d.001", "e.0012", "f.sc"] =
    [("001", "001"), ("0012", "001"), ("ALT", "ALT"), ("alt", "ALT"), ("alt1", "alt1"), ("sc", "sc")] := by
  decide +kernel

/-- The `while glyphNames` loop of the container-partner pass ends within one round per name: the fuel
the model gives it (the length of the list) is enough, more changes nothing. -/
theorem partners_fuel_enough (env : Env) (pseudo : Bool) (k : Nat) (names : List Name) :
    partnersLoop env pseudo (names.length + k) names [] = partnersLoop env pseudo names.length names [] :=
  partnersLoop_fuel env pseudo names.length k names [] (Nat.le_refl _)

example : partnersLoop demoEnv true 4 ["A", "parenleft", "A", "parenright"] [] = ["A", "parenleft", "parenright", "A"] := by
  decide +kernel

/-- The container-partner pass returns a permutation WHATEVER the close-relative look-up answers: a partner that
is not in the list, the name itself (a neutral glyph carrying both code points of an open/close pair), two names
closing each other, chains — there is no hypothesis on `env`. -/
theorem partners_perm (env : Env) (asc pseudo : Bool) (names : List Name) :
    (sortByContainerPartners env asc pseudo names).flatten.Perm names :=
  sortByContainerPartners_perm env asc pseudo names

example : neutralEnv.closeRelativeFor "quotedblleft" true = some "quotedblleft" ∧
    (sortByContainerPartners neutralEnv true true ["quotedblleft", "comma", "a"]).flatten = ["quotedblleft", "comma", "a"] := by
  decide +kernel

/-- A name that is its own close relative and does not wait a second time behind itself: it is emitted once and
the loop goes on with exactly the names that were waiting behind it. -/
theorem partners_self_relative (env : Env) (pseudo : Bool) (fuel : Nat) (g : Name) (rest order : List Name)
    (hself : env.closeRelativeFor g pseudo = some g) (hn : g ∉ rest) :
    partnersLoop env pseudo (fuel + 1) (g :: rest) order = partnersLoop env pseudo fuel rest (order ++ [g]) := by
  simp [partnersLoop, hself, hn]

/-- … and when it does, its first waiting copy — nothing else — moves right behind it. -/
theorem partners_self_relative_repeated (env : Env) (pseudo : Bool) (fuel : Nat) (g : Name) (rest order : List Name)
    (hself : env.closeRelativeFor g pseudo = some g) (hin : g ∈ rest) :
    partnersLoop env pseudo (fuel + 1) (g :: rest) order =
      partnersLoop env pseudo fuel (rest.erase g) (order ++ [g] ++ [g]) := by
  simp [partnersLoop, hself, hin]

example : partnersLoop neutralEnv true 4 ["quotedblleft", "comma", "quotedblleft", "a"] [] =
    ["quotedblleft", "quotedblleft", "comma", "a"] := by decide +kernel

/-- Where the loop drops its head (`glyphNames = glyphNames[1:]`, before or after looking for the close relative)
makes no difference as long as no waiting name is its own close relative … -/
theorem partners_head_waiting_same (env : Env) (pseudo : Bool) (names : List Name)
    (hno : ∀ n ∈ names, env.closeRelativeFor n pseudo ≠ some n) :
    partnersLoopHeadWaiting env pseudo names.length names [] = partnersLoop env pseudo names.length names [] :=
  partnersLoopHeadWaiting_eq env pseudo names.length names [] hno

example : ∀ n ∈ ["A", "parenleft", "A", "parenright"], demoEnv.closeRelativeFor n true ≠ some n := by decide +kernel

/-- … and all the difference when one is: searched with the head still waiting, the neutral glyph finds itself,
comes back twice and the name behind it is lost; the loop of the code (head dropped first) keeps every name. -/
theorem partners_head_waiting_differs :
    partnersLoopHeadWaiting neutralEnv true 3 ["quotedblleft", "comma", "a"] [] = ["quotedblleft", "quotedblleft", "a"] ∧
    partnersLoopHeadWaiting neutralEnv true 1 ["quotedblleft"] [] = ["quotedblleft", "quotedblleft"] ∧
    partnersLoop neutralEnv true 3 ["quotedblleft", "comma", "a"] [] = ["quotedblleft", "comma", "a"] ∧
    partnersLoop neutralEnv true 1 ["quotedblleft"] [] = ["quotedblleft"] := by
  decide +kernel

/-- the canned sort over a neutral quote glyph, its small-cap variant and an ordinary pair: every name once -/
example : sortGlyphNames neutralEnv Gen.SortTables.tables [⟨.cannedDesign, true, true⟩]
      ["comma", "quotedblleft", "a", "parenright", "quotedblleft.sc", "parenleft"] =
    ["a", "parenleft", "parenright", "quotedblleft", "comma", "quotedblleft.sc"] := by
  decide +kernel

/-! ## 4. Findings -/

/-- What the `block` / `script` / `category` sort really returns: exactly the names whose tag is in the
ordered table, each as often as given — the other names are dropped, nothing is added. -/
theorem lookup_sort_exact (tagOf : Name → String) (ordered : List String) (asc : Bool) (names : List Name)
    (hne : ordered ≠ []) (hnd : ordered.Nodup) :
    (sortByUnicodeLookup tagOf ordered asc names).flatten.Perm
      (names.filter (fun n => decide (tagOf n ∈ ordered))) :=
  sortByUnicodeLookup_perm_filter tagOf ordered asc names hne hnd

/-- F21a: with the tables of the code as it is now the full statement is FALSE — sort type `block` drops a
name that has no block ("No_Block" is not in `orderedBlocks`): `["A", "a.alt"]` comes back as `["A"]`. -/
theorem sort_perm_violated : ¬ SortPerm demoEnv Gen.SortTables.tables := by
  intro h
  have := (h [⟨.basic .block, true, false⟩] ["A", "a.alt"]).length_eq
  revert this
  decide +kernel

example : sortGlyphNames demoEnv Gen.SortTables.tables [⟨.basic .block, true, false⟩] ["A", "a.alt"] = ["A"] := by
  decide +kernel

/-- F21b (repaired by repo_fixes/C20-container-partners.diff): the container-partner loop as it was
inserted a partner that was not in the list and lost a repeated one; the repaired loop does neither. -/
theorem partners_before_fix_violated :
    partnersLoopBeforeFix demoEnv true 1 ["parenleft"] [] = ["parenleft", "parenright"] ∧
    partnersLoopBeforeFix demoEnv true 4 ["parenleft", "parenleft", "parenright", "parenright"] [] =
      ["parenleft", "parenright", "parenleft"] ∧
    partnersLoop demoEnv true 1 ["parenleft"] [] = ["parenleft"] ∧
    partnersLoop demoEnv true 4 ["parenleft", "parenleft", "parenright", "parenright"] [] =
      ["parenleft", "parenright", "parenleft", "parenright"] := by
  decide +kernel

/-- the canned sort on a list whose bracket partner is in the font but not in the list: nothing is inserted -/
example : sortGlyphNames demoEnv Gen.SortTables.tables [⟨.cannedDesign, true, true⟩] ["parenleft", "a.alt", "A", "A"] =
    ["A", "A", "parenleft", "a.alt"] := by
  decide +kernel

end DefconModel.Props.C20
