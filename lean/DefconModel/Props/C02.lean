/-
C02 — Every effective change is announced and dirties the object and all ancestors.

Theorems about M-Dirty (`DefconModel/Dirty.lean`): the propagation of `x.dirty = True` through the
parent callbacks, with notification holds in play.  `x :: rest` is the chain from the changed
object up to the font.  The second clause of the property (re-assigning the held value is silent)
is a statement about each setter's guard; it is decided on the implementation for every catalogued
setter (see harness/props/c02.py) and in the model it is `same_value_silent`: a setter whose guard
fires does not reach `touch`.
-/
import DefconModel.Lemmas.Dirty
import DefconModel.Lemmas.DirtyTree
import DefconModel.Gen.Mutators

namespace DefconModel.Props.C02
open DefconModel DefconModel.Dirty

def releaseAll (s : State) (rels : List (Nat × List Nat)) : State := rels.foldl (fun s r => release s r.1 r.2) s

/-- the invariant survives any sequence of releases (of holds on the chain or anywhere else) -/
theorem inv_releaseAll (s : State) (c : List Nat) (rels : List (Nat × List Nat))
    (hsuf : ∀ r ∈ rels, r.1 ∈ c → ∃ pre, c = pre ++ r.1 :: r.2 ∧ r.1 ∉ pre)
    (hdis : ∀ a ∈ c, a ∉ s.disabled) (hi : Inv s c) : Inv (releaseAll s rels) c := by
  unfold releaseAll
  induction rels generalizing s with
  | nil => exact hi
  | cons r rest ih =>
    simp only [List.foldl_cons]
    apply ih
    · intro r' hr'; exact hsuf r' (by simp [hr'])
    · intro a ha; rw [release_disabled]; exact hdis a ha
    · exact release_inv s c r.1 r.2 (hsuf r (by simp)) hdis hi

/-- MAIN THEOREM.  Whatever holds are active (on the changed object, on any ancestors, on
unrelated objects; nested to any count), if none of the objects on the chain has its notifications
disabled, then after the change and after the holds have been released — in ANY order, interleaved
with releases elsewhere — every object from the changed one up to the font is dirty and has
delivered its `*.Changed` notification.  Nothing is lost in a hold queue, coalescing of equal
pending notifications included. -/
theorem change_propagates (s : State) (x : Nat) (rest : List Nat) (rels : List (Nat × List Nat))
    (hdis : ∀ a ∈ x :: rest, a ∉ s.disabled)
    (hsuf : ∀ r ∈ rels, r.1 ∈ x :: rest → ∃ pre, x :: rest = pre ++ r.1 :: r.2 ∧ r.1 ∉ pre)
    (hall : (releaseAll (touch s x rest) rels).holds = []) :
    ∀ a ∈ x :: rest, a ∈ (releaseAll (touch s x rest) rels).dirty ∧ a ∈ (releaseAll (touch s x rest) rels).log := by
  have h1 : Inv (touch s x rest) (x :: rest) := touch_inv s x rest hdis
  have hd : ∀ a ∈ x :: rest, a ∉ (touch s x rest).disabled := by
    intro a ha; rw [(le_touch s x rest).disabled]; exact hdis a ha
  exact all_done_of_no_holds _ _ hall (inv_releaseAll _ _ rels hsuf hd h1)

/-- With no hold active the whole chain is dirty and announced immediately. -/
theorem change_propagates_immediately (s : State) (x : Nat) (rest : List Nat)
    (hdis : ∀ a ∈ x :: rest, a ∉ s.disabled) (hh : s.holds = []) :
    ∀ a ∈ x :: rest, a ∈ (touch s x rest).dirty ∧ a ∈ (touch s x rest).log := by
  have := change_propagates s x rest [] hdis (by intro r hr; simp at hr)
    (by show (touch s x rest).holds = []; rw [(le_touch s x rest).holds]; exact hh)
  exact this

/-- The changed object itself is dirty at once, held or not, disabled or not. -/
theorem changed_object_dirty (s : State) (x : Nat) (rest : List Nat) : x ∈ (touch s x rest).dirty :=
  (le_announce _ _).dirty x (mem_setFlag s x)

/-- Flags, deliveries and queue entries are never taken back by a later change. -/
theorem nothing_undone (s : State) (x : Nat) (rest : List Nat) : Le s (touch s x rest) := le_touch s x rest

/-- While held, the notification is queued once however often the object changes (coalescing). -/
theorem held_change_coalesces (s : State) (x : Nat) (rest : List Nat) (hd : x ∉ s.disabled)
    (hh : held s x = true) (hp : x ∈ s.pending) (hx : x ∈ s.dirty) : touch s x rest = s := by
  unfold touch setFlag announce
  simp [hx, hd, hh, hp]

/-- Disabling cuts the propagation by design: the object is dirty, nothing is delivered or queued. -/
theorem disabled_change_not_announced (s : State) (x : Nat) (rest : List Nat) (hd : x ∈ s.disabled) :
    (touch s x rest).log = s.log ∧ (touch s x rest).pending = s.pending := by
  unfold touch announce
  have : x ∈ (setFlag s x).disabled := by rw [(le_setFlag s x).disabled]; exact hd
  simp only [this, if_true]
  unfold setFlag
  split <;> simp

/-- **Nothing beyond the chain.**  A change of `x` raises no flag, delivers no `*.Changed` and queues nothing for any
object other than `x` and its ancestors: whatever the state has more afterwards concerns a member of `x :: rest`
(siblings, children and unrelated objects keep their flags; "changes no dirty flag" beyond what the change owes). -/
theorem change_reaches_only_the_chain (s : State) (x : Nat) (rest : List Nat) :
    (∀ a, a ∈ (touch s x rest).dirty → a ∈ s.dirty ∨ a ∈ x :: rest) ∧
    (∀ a, a ∈ (touch s x rest).log → a ∈ s.log ∨ a ∈ x :: rest) ∧
    (∀ a, a ∈ (touch s x rest).pending → a ∈ s.pending ∨ a ∈ x :: rest) :=
  ⟨(only_touch s x rest).dirty, (only_touch s x rest).log, (only_touch s x rest).pending⟩

/-- … and so does the release of a hold on `x`: what it delivers or passes on concerns `x` and its ancestors only -/
theorem release_reaches_only_the_chain (s : State) (x : Nat) (rest : List Nat) :
    (∀ a, a ∈ (release s x rest).dirty → a ∈ s.dirty ∨ a ∈ x :: rest) ∧
    (∀ a, a ∈ (release s x rest).log → a ∈ s.log ∨ a ∈ x :: rest) ∧
    (∀ a, a ∈ (release s x rest).pending → a ∈ s.pending ∨ a ∈ x :: rest) :=
  ⟨(only_release s x rest).dirty, (only_release s x rest).log, (only_release s x rest).pending⟩

/-- taking a hold or disabling announces nothing and changes no flag -/
theorem hold_and_disable_are_silent (s : State) (x : Nat) :
    (hold s x).dirty = s.dirty ∧ (hold s x).log = s.log ∧ (hold s x).pending = s.pending ∧
    (disable s x).dirty = s.dirty ∧ (disable s x).log = s.log ∧ (disable s x).pending = s.pending :=
  ⟨rfl, rfl, rfl, rfl, rfl, rfl⟩

/-- a guarded setter: assigning the held value does not touch anything -/
def guardedSet (s : State) (x : Nat) (rest : List Nat) (old new : Nat) : State := if old = new then s else touch s x rest

theorem same_value_silent (s : State) (x : Nat) (rest : List Nat) (v : Nat) : guardedSet s x rest v v = s := by
  unfold guardedSet; simp

/-! ### the catalogue of the correspondence harness covers the code (regenerated table) -/

def covered (k : String) (m : String) : Bool :=
  (((Gen.Mutators.catalogue.find? (fun p => p.1 = k)).map Prod.snd).getD []).contains m ||
  (((Gen.Mutators.exempt.find? (fun p => p.1 = k)).map Prod.snd).getD []).contains m

/-- Every public method or property setter of every class that (transitively) sets `dirty` or
posts a notification — as found in the CURRENT source by the AST extractor — is either driven by
the catalogue or exempted by name with a stated reason.  A mutator added to the code breaks this
obligation until someone decides where it belongs. -/
theorem catalogue_covers :
    Gen.Mutators.found.all (fun p => p.2.all (fun m => covered p.1 m)) = true := by decide +kernel

/-! ## Round 3: the target table on the object tree (M-DirtyTree)

The model alone decides which objects a catalogued mutator changes directly: `DirtyTree.table` maps object kind ×
mutator to symbolic targets (`self`, `child lib`, `child image`, `child info`, each `child contour / component / anchor`,
and the relayed write of `font.lib` by the glyph-order callbacks), `DirtyTree.applyMut` interprets an entry on the tree.
The theorems below hold for EVERY entry (not only the ones listed in the table), every receiver and every reachable
state; `table_…` obligations tie the table to the harness catalogue and to the source (regenerated on every run). -/

section tree
open DefconModel.DirtyTree

/-- Every tree that a history of catalogued mutator calls, holds and releases can produce from a well-formed
initial tree is well formed: no mutator re-parents an object, new objects are younger than their container. -/
theorem reachable_tree_wellformed {ts : TState} (h : Reachable ts) : WF ts.tree := by
  induction h with
  | init t s h => exact h
  | step _ st ih =>
    cases st with
    | call recv e same =>
      simp only [DirtyTree.step]
      split
      · rename_i hr
        unfold applyMut
        split
        · exact ih
        · exact wf_applyEffective _ recv e ih hr
      · exact ih
    | hold x => exact ih
    | release x => simp only [DirtyTree.step]; rw [releaseT_tree]; exact ih

/-- A mutator call leaves the chain (object, container, …, font) of every existing object as it was. -/
theorem mutator_keeps_chains (ts : TState) (hw : WF ts.tree) (recv : Nat) (hr : recv < ts.tree.length) (e : Entry)
    (same : Bool) (x : Nat) (hx : x < ts.tree.length) : path (applyMut ts recv e same).tree x = path ts.tree x := by
  unfold applyMut
  split
  · rfl
  · exact path_applyEffective ts recv e hw hr x hx

/-- MUTATOR ⇒ CHAIN.  For every object kind and catalogued mutator (indeed for every table entry whatsoever), applied
with an effective change to any existing receiver in any well-formed — hence any reachable — tree, with ANY pattern
of holds on the chain and elsewhere: once the holds have been released (any order, any interleaving with other
releases), every object the table names as a direct target of the call, and every container above it up to the font,
is dirty and has delivered its `*.Changed`. -/
theorem mutator_dirties_chain (ts : TState) (hw : WF ts.tree) (recv : Nat) (hr : recv < ts.tree.length) (e : Entry)
    (tg : Nat) (htg : tg ∈ directTargets ts.tree recv e) (ys : List Nat)
    (hdis : ∀ a ∈ path ts.tree tg, a ∉ ts.s.disabled)
    (hall : (releaseAllT (applyMut ts recv e false) ys).s.holds = []) :
    ∀ a ∈ path ts.tree tg, a ∈ (releaseAllT (applyMut ts recv e false) ys).s.dirty ∧
      a ∈ (releaseAllT (applyMut ts recv e false) ys).s.log := by
  have hm : applyMut ts recv e false = applyEffective ts recv e := by unfold applyMut; simp
  rw [hm] at hall ⊢
  have hlt := directTargets_lt ts.tree recv e hr tg htg
  have hp := path_applyEffective ts recv e hw hr tg hlt
  have hi := inv_applyEffective ts recv e hw hr tg htg hdis
  have := inv_releaseAllT ys (applyEffective ts recv e) (wf_applyEffective ts recv e hw hr) tg
    (by rw [hp, applyEffective_disabled ts recv e hw hr]; exact hdis) (by rw [hp]; exact hi)
  rw [hp] at this
  exact all_done_of_no_holds _ _ hall this

/-- … in particular in every state a history can reach. -/
theorem mutator_dirties_chain_reachable {ts : TState} (h : Reachable ts) (recv : Nat) (hr : recv < ts.tree.length)
    (e : Entry) (tg : Nat) (htg : tg ∈ directTargets ts.tree recv e) (ys : List Nat)
    (hdis : ∀ a ∈ path ts.tree tg, a ∉ ts.s.disabled)
    (hall : (releaseAllT (applyMut ts recv e false) ys).s.holds = []) :
    ∀ a ∈ path ts.tree tg, a ∈ (releaseAllT (applyMut ts recv e false) ys).s.dirty ∧
      a ∈ (releaseAllT (applyMut ts recv e false) ys).s.log :=
  mutator_dirties_chain ts (reachable_tree_wellformed h) recv hr e tg htg ys hdis hall

/-- THE RELAYED TARGET.  A mutator that makes the font update its glyph order (`Layer.newGlyph / insertGlyph /
__delitem__`, `Glyph.name =`) changes `font.lib` through a notification that is not `*.Changed`; a hold on the
poster (the layer; the glyph and the layer) keeps it back.  Whatever is held: once all holds are released, `font.lib`
and the font are dirty and have delivered their `*.Changed` — the update is neither lost in a hold queue nor applied
without being announced.  (`huw`: the font listens to the posters — it does not, yet, to a layer made while the layer
set's notifications are held, until that hold is released: the code as it is, see the example below.) -/
theorem relayed_update_arrives (ts : TState) (hw : WF ts.tree) (recv : Nat) (hr : recv < ts.tree.length) (e : Entry)
    (ns : List Nat) (hns : relayNodes ts.tree recv e.relay = some ns) (huw : ∀ n ∈ ns, n ∉ ts.unwired)
    (l : Nat) (hl : l ∈ fontLib ts.tree recv)
    (ys : List Nat) (hdis : ∀ a ∈ path ts.tree l, a ∉ ts.s.disabled)
    (hall : (releaseAllT (applyMut ts recv e false) ys).s.holds = []) :
    ∀ a ∈ path ts.tree l, a ∈ (releaseAllT (applyMut ts recv e false) ys).s.dirty ∧
      a ∈ (releaseAllT (applyMut ts recv e false) ys).s.log := by
  have hm : applyMut ts recv e false = applyEffective ts recv e := by unfold applyMut; simp
  rw [hm] at hall ⊢
  have hlt : l < ts.tree.length := mem_children_lt _ _ _ _ hl
  have hp := path_applyEffective ts recv e hw hr l hlt
  have ha := arrives_applyEffective ts recv e hw hr ns hns huw l hl hdis
  have := arrives_releaseAllT ys (applyEffective ts recv e) (wf_applyEffective ts recv e hw hr) l
    (by rw [hp, applyEffective_disabled ts recv e hw hr]; exact hdis) (by rw [hp]; exact ha)
  rw [hp] at this
  exact arrived_of_no_holds _ _ l hall this

/-- SAME VALUE ⇒ SILENT.  For every entry marked `guarded` (scalar setters, item assignment of lib / kerning / groups /
image set, `clear` of an empty mapping): handing in the value the object holds changes nothing at all — no flag, no
delivery, no queue entry, no tree edit, nothing relayed. -/
theorem same_value_mutator_silent (ts : TState) (recv : Nat) (e : Entry) (hg : e.guarded = true) :
    applyMut ts recv e true = ts := by
  unfold applyMut; simp [hg]

/-- A plain guarded setter (`targets = [self]`, nothing relayed, no tree effect — 40 of the table's 111 entries) IS the
`guardedSet` of M-Dirty on the receiver's chain: its silence is `same_value_silent`, its propagation is
`change_propagates`. -/
theorem plain_setter_is_guardedSet (ts : TState) (recv : Nat) (e : Entry) (hg : e.guarded = true) (ht : e.targets = [.self])
    (hrel : e.relay = .none) (he : e.effs = []) (same : Bool) :
    (applyMut ts recv e same).s = guardedSet ts.s recv (up ts.tree recv) 0 (if same then 0 else 1) := by
  unfold applyMut guardedSet
  cases same with
  | true => simp [hg]
  | false =>
    simp only [hg, Bool.and_false, Bool.false_eq_true, if_false]
    unfold applyEffective directTargets
    simp [ht, hrel, he, relayNodes, targetNodes, touchT]

theorem plain_setter_same_value_silent (ts : TState) (recv : Nat) (e : Entry) (hg : e.guarded = true) (ht : e.targets = [.self])
    (hrel : e.relay = .none) (he : e.effs = []) : (applyMut ts recv e true).s = ts.s := by
  rw [plain_setter_is_guardedSet ts recv e hg ht hrel he true]
  exact same_value_silent ts.s recv (up ts.tree recv) 0

/-- with nothing relayed waiting, a release in the tree model IS M-Dirty's `release` on the chain of the node -/
theorem releaseT_no_deferred (ts : TState) (h : ts.deferred = []) (y : Nat) :
    (releaseT ts y).s = release ts.s y (up ts.tree y) ∧ (releaseT ts y).tree = ts.tree ∧ (releaseT ts y).deferred = [] := by
  unfold releaseT
  simp only [h, List.filter_nil, List.foldl_nil]
  split <;> exact ⟨rfl, rfl, by first | rfl | exact h⟩

theorem releaseAllT_no_deferred (ys : List Nat) (ts : TState) (h : ts.deferred = []) :
    (releaseAllT ts ys).s = releaseAll ts.s (ys.map fun y => (y, up ts.tree y)) := by
  induction ys generalizing ts with
  | nil => rfl
  | cons y r ih =>
    obtain ⟨h1, h2, h3⟩ := releaseT_no_deferred ts h y
    have := ih (releaseT ts y) h3
    unfold releaseAllT releaseAll at this ⊢
    simp only [List.foldl_cons, List.map_cons]
    rw [this, h1, h2]

/-- REDUCTION, literally.  For a plain entry (`targets = [self]`, nothing relayed, no tree effect — every scalar setter
and every point / item edit of the table) in a state where no relayed notification waits, the run "call, then release
`ys`" of the tree model is the run `releaseAll (touch s x rest) rels` of M-Dirty on the receiver's chain, and the claim is
`change_propagates` itself. -/
theorem plain_mutator_dirties_chain (ts : TState) (hw : WF ts.tree) (hd : ts.deferred = []) (recv : Nat) (e : Entry)
    (ht : e.targets = [.self]) (hrel : e.relay = .none) (he : e.effs = []) (ys : List Nat)
    (hdis : ∀ a ∈ recv :: up ts.tree recv, a ∉ ts.s.disabled)
    (hall : (releaseAllT (applyMut ts recv e false) ys).s.holds = []) :
    ∀ a ∈ recv :: up ts.tree recv, a ∈ (releaseAllT (applyMut ts recv e false) ys).s.dirty ∧
      a ∈ (releaseAllT (applyMut ts recv e false) ys).s.log := by
  have hs : applyMut ts recv e false =
      { ts with s := touch ts.s recv (up ts.tree recv), hits := ts.hits ++ [recv] } := by
    unfold applyMut applyEffective directTargets
    simp [ht, hrel, he, relayNodes, targetNodes, touchT]
  rw [hs] at hall ⊢
  have key := releaseAllT_no_deferred ys
    { ts with s := touch ts.s recv (up ts.tree recv), hits := ts.hits ++ [recv] } hd
  rw [key] at hall ⊢
  apply change_propagates ts.s recv (up ts.tree recv) _ hdis _ hall
  intro r hr hmem
  simp only [List.mem_map] at hr
  obtain ⟨y, _, rfl⟩ := hr
  exact path_split ts.tree hw recv y hmem

/-! ### the table, the harness catalogue and the source (regenerated tables) -/

def kindLabel : Kind → String
  | .font => "font" | .layerSet => "layerSet" | .layer => "layer" | .glyph => "glyph" | .contour => "contour"
  | .component => "component" | .anchor => "anchor" | .guideline => "guideline" | .image => "image" | .lib => "lib"
  | .info => "info" | .kerning => "kerning" | .groups => "groups" | .features => "features" | .images => "images"
  | .data => "data"

def inTable (k : String) (m : String) : Bool := table.any (fun e => kindLabel e.kind = k && e.name = m)

/-- Every (kind, mutator name) the correspondence harness can send — its catalogue and the variant names, as
regenerated from `harness/props/c02.py` — has an entry in the target table. -/
theorem table_covers_catalogue :
    Gen.Mutators.driven.all (fun p => p.2.all (fun m => inTable p.1 m)) = true := by decide +kernel

/-- the facts the AST extractor found for a source method of a kind, if it could decide them -/
def factsOf (k : String) (m : String) : Option Gen.Mutators.Facts :=
  (Gen.Mutators.facts.find? (fun f => f.kind = k && f.method = m))

def targetRole : Target → String
  | .self => "self"
  | .child r => kindLabel r

def relayRole : Relay → Option String
  | .none => none
  | .viaSelf => some "font.lib<self"
  | .viaSelfAndParent => some "font.lib<parent"

/-- an entry agrees with what the source says about the methods it runs: every target the table names is reached by
one of them (`self.dirty = …` for `self`; a write through `self.lib[…]`, `self._image`, `self.info.dirty`, or a loop
calling a mutator on each contour / component / anchor, for the children), conversely `self` is a target whenever one of the
methods sets `self.dirty`; a `guarded` entry's methods all carry the comparison that returns early; an entry with a relay
runs a method that posts a notification for which the Font (`viaSelf`), or the container and then the Font
(`viaSelfAndParent`), has registered a callback that ends in `self.lib[…] = …`, and conversely a method that posts such a
notification has an entry (same kind, same methods) with that relay -/
def agrees (e : Entry) : Bool :=
  let fs := e.methods.filterMap (factsOf (kindLabel e.kind))
  -- methods the extractor could not decide are skipped here and listed in the evidence
  fs.length < e.methods.length ||
  ((e.targets.all fun t => fs.any fun f => f.reaches.contains (targetRole t)) &&
   (!(fs.any fun f => f.reaches.contains "self") || e.targets.contains .self) &&
   (!e.guarded || fs.all fun f => f.guard) &&
   (match relayRole e.relay with
    | none => true
    | some r => fs.any fun f => f.reaches.contains r) &&
   (fs.all fun f => (f.reaches.filter fun r => r = "font.lib<self" || r = "font.lib<parent").all fun r =>
      table.any fun e' => e'.kind = e.kind && e'.methods = e.methods && relayRole e'.relay = some r))

/-- THE TABLE AGREES WITH THE SOURCE, wherever the extractor can decide it syntactically: checked against the AST of
the current working tree on every run. -/
theorem table_agrees_with_source : table.all agrees = true := by decide +kernel

/-- … and the extractor does decide most of it: the entries all of whose methods it found. -/
def decided (e : Entry) : Bool := (e.methods.filterMap (factsOf (kindLabel e.kind))).length = e.methods.length

/-! ### non-vacuity on a tree: font 0 › layer set 1 › layer 2 (lib 3) › glyph 4 (lib 5, contour 6, image 7); font lib 8, info 9;
glyph and layer are held -/

def demoTree : Tree :=
  [⟨.font, none, false⟩, ⟨.layerSet, some 0, false⟩, ⟨.layer, some 1, false⟩, ⟨.lib, some 2, false⟩, ⟨.glyph, some 2, false⟩,
   ⟨.lib, some 4, false⟩, ⟨.contour, some 4, false⟩, ⟨.image, some 4, false⟩, ⟨.lib, some 0, false⟩, ⟨.info, some 0, false⟩]
def demoT : TState := holdT (holdT { tree := demoTree } 4) 2
def markColorE : Entry := { setter .glyph "markColor" with targets := [.child .lib] }
def nameE : Entry := { setter .glyph "name" with relay := .viaSelfAndParent }
def newGlyphE : Entry :=
  { kind := .layer, name := "newGlyph", methods := ["newGlyph"], relay := .viaSelf, effs := [.add .glyph true [(.lib, false), (.image, false)]] }

example : WF demoTree := wf_of_wfb _ (by decide)
example : Reachable demoT := .step (.step (.init demoTree {} (wf_of_wfb _ (by decide))) (.hold 4)) (.hold 2)
example : lookup .glyph "markColor=" = some markColorE ∧ lookup .glyph "name=" = some nameE ∧
    lookup .layer "newGlyph" = some newGlyphE := by decide
/-- `glyph.markColor = …` changes the glyph's lib (5), not the glyph; the glyph hears of it and waits in its hold -/
example : directTargets demoTree 4 markColorE = [5] ∧ path demoTree 5 = [5, 4, 2, 1, 0] ∧
    (applyMut demoT 4 markColorE false).s.dirty = [5, 4] ∧ (applyMut demoT 4 markColorE false).s.log = [5] ∧
    (applyMut demoT 4 markColorE false).s.pending = [4] := by decide
/-- layer first, then glyph: everything arrives (hypotheses and conclusion of `mutator_dirties_chain`) -/
example : (releaseAllT (applyMut demoT 4 markColorE false) [2, 4]).s.holds = [] ∧
    (releaseAllT (applyMut demoT 4 markColorE false) [2, 4]).s.dirty = [5, 4, 2, 1, 0] ∧
    (releaseAllT (applyMut demoT 4 markColorE false) [2, 4]).s.log = [5, 4, 2, 1, 0] := by decide
/-- the same value: nothing (`same_value_mutator_silent`) -/
example : markColorE.guarded = true ∧ (applyMut demoT 4 markColorE true).s.dirty = [] ∧
    (applyMut demoT 4 markColorE true).s.log = [] := by decide
/-- `glyph.name = …` while glyph and layer are held: the glyph is dirty, `Glyph.NameChanged` waits in the glyph's hold;
released, `Layer.GlyphNameChanged` waits in the layer's hold; released, the font writes its lib (8)
(hypotheses and conclusion of `relayed_update_arrives`) -/
example : relayNodes demoTree 4 nameE.relay = some [4, 2] ∧ fontLib demoTree 4 = [8] ∧
    (applyMut demoT 4 nameE false).deferred = [⟨4, [2], 8⟩] ∧ (applyMut demoT 4 nameE false).s.dirty = [4] ∧
    (releaseT (applyMut demoT 4 nameE false) 4).deferred = [⟨2, [], 8⟩] ∧
    (releaseAllT (applyMut demoT 4 nameE false) [4, 2]).deferred = [] ∧
    (releaseAllT (applyMut demoT 4 nameE false) [4, 2]).s.holds = [] ∧
    (releaseAllT (applyMut demoT 4 nameE false) [4, 2]).s.dirty = [4, 2, 1, 0, 8] ∧
    (releaseAllT (applyMut demoT 4 nameE false) [4, 2]).s.log = [4, 2, 1, 0, 8, 0] := by decide
/-- `layer.newGlyph(…)`: a glyph (10, dirty) with its lib (11) and image (12) joins; chains of old nodes stay
(`mutator_keeps_chains`), the tree stays well formed (`reachable_tree_wellformed`) -/
example : (applyMut demoT 2 newGlyphE false).tree.length = 13 ∧ path (applyMut demoT 2 newGlyphE false).tree 11 = [11, 10, 2, 1, 0] ∧
    path (applyMut demoT 2 newGlyphE false).tree 6 = [6, 4, 2, 1, 0] ∧ wfb (applyMut demoT 2 newGlyphE false).tree = true ∧
    (applyMut demoT 2 newGlyphE false).s.dirty = [10, 2] := by decide
/-- a layer (10, with its lib 11) made while the layer set (1) is held: the font has not heard `LayerSet.LayerAdded` yet and
does not listen to the new layer — a glyph made there leaves the font lib (8) alone; once the layer set is released the
font listens, and the next glyph does update the glyph order (the code as it is; `huw` of `relayed_update_arrives`) -/
example :
    let newLayerE : Entry := { kind := .layerSet, name := "newLayer", methods := ["newLayer"], effs := [.add .layer true [(.lib, false)]] }
    let t1 := applyMut (holdT { tree := demoTree } 1) 1 newLayerE false
    t1.unwired = [10] ∧ (applyMut t1 10 newGlyphE false).hits = [1, 10] ∧
    (releaseT t1 1).unwired = [] ∧ (applyMut (releaseT t1 1) 10 newGlyphE false).hits = [1, 10, 8] := by decide
/-- a plain setter is M-Dirty's `guardedSet` on the receiver's chain -/
example : (setter .glyph "width").guarded = true ∧ (setter .glyph "width").targets = [.self] ∧
    (setter .glyph "width").relay = .none ∧ (setter .glyph "width").effs = [] := by decide
/-- the extractor decides targets, guards and relays of the whole table -/
example : (table.filter decided).length = 111 ∧ table.length = 111 := by decide +kernel

end tree

/-! ### non-vacuity: a contour (3) in a glyph (2) in a layer (1) in a font (0), glyph and layer held -/

def demo : State := hold (hold (hold {} 2) 1) 2
example : held demo 2 = true ∧ held demo 1 = true ∧ demo.disabled = [] := by decide
/-- the change reaches the glyph's callback at once and waits in the glyph's hold -/
example : (touch demo 3 [2, 1, 0]).dirty = [3, 2] ∧ (touch demo 3 [2, 1, 0]).log = [3] ∧ (touch demo 3 [2, 1, 0]).pending = [2] := by
  decide
/-- a sibling contour (4) and its flag stay out of it -/
example : 4 ∉ (touch demo 3 [2, 1, 0]).dirty ∧ 4 ∉ (touch demo 3 [2, 1, 0]).log := by decide
/-- releases in a "wrong" order (layer first, glyph twice): everything arrives -/
example : (releaseAll (touch demo 3 [2, 1, 0]) [(1, [0]), (2, [1, 0]), (2, [1, 0])]).dirty = [3, 2, 1, 0] ∧
    (releaseAll (touch demo 3 [2, 1, 0]) [(1, [0]), (2, [1, 0]), (2, [1, 0])]).log = [3, 2, 1, 0] ∧
    (releaseAll (touch demo 3 [2, 1, 0]) [(1, [0]), (2, [1, 0]), (2, [1, 0])]).holds = [] := by decide

end DefconModel.Props.C02
