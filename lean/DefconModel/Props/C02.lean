/-
C02 — Every effective change is announced and dirties the object and all ancestors.

Theorems about M-Dirty (`DefconModel/Dirty.lean`): the propagation of `x.dirty = True` through the
parent callbacks, with notification holds in play.  `x :: rest` is the chain from the changed
object up to the font.  The second clause of the property (re-assigning the held value is silent)
is a statement about each setter's guard; it is decided on the implementation for every catalogued
setter (see harness/props/c02.py) and in the model it is `same_value_silent`: a setter whose guard
fires does not reach `touch`.
-/
import DefconModel.Lemmas.Dirty
import DefconModel.Gen.Mutators

namespace DefconModel.Props.C02
open DefconModel DefconModel.Dirty

def releaseAll (s : State) (rels : List (Nat × List Nat)) : State := rels.foldl (fun s r => release s r.1 r.2) s

/-- the invariant survives any sequence of releases (of holds on the chain or anywhere else) -/
theorem inv_releaseAll (s : State) (c : List Nat) (rels : List (Nat × List Nat))
    (hsuf : ∀ r ∈ rels, r.1 ∈ c → ∃ pre, c = pre ++ r.1 :: r.2 ∧ r.1 ∉ pre)
    (hdis : ∀ a ∈ c, a ∉ s.disabled) (hi : Inv s c) : Inv (releaseAll s rels) c := by
  unfold releaseAll
  induction rels generalizing s with
  | nil => exact hi
  | cons r rest ih =>
    simp only [List.foldl_cons]
    apply ih
    · intro r' hr'; exact hsuf r' (by simp [hr'])
    · intro a ha; rw [release_disabled]; exact hdis a ha
    · exact release_inv s c r.1 r.2 (hsuf r (by simp)) hdis hi

/-- MAIN THEOREM.  Whatever holds are active (on the changed object, on any ancestors, on
unrelated objects; nested to any count), if none of the objects on the chain has its notifications
disabled, then after the change and after the holds have been released — in ANY order, interleaved
with releases elsewhere — every object from the changed one up to the font is dirty and has
delivered its `*.Changed` notification.  Nothing is lost in a hold queue, coalescing of equal
pending notifications included. -/
theorem change_propagates (s : State) (x : Nat) (rest : List Nat) (rels : List (Nat × List Nat))
    (hdis : ∀ a ∈ x :: rest, a ∉ s.disabled)
    (hsuf : ∀ r ∈ rels, r.1 ∈ x :: rest → ∃ pre, x :: rest = pre ++ r.1 :: r.2 ∧ r.1 ∉ pre)
    (hall : (releaseAll (touch s x rest) rels).holds = []) :
    ∀ a ∈ x :: rest, a ∈ (releaseAll (touch s x rest) rels).dirty ∧ a ∈ (releaseAll (touch s x rest) rels).log := by
  have h1 : Inv (touch s x rest) (x :: rest) := touch_inv s x rest hdis
  have hd : ∀ a ∈ x :: rest, a ∉ (touch s x rest).disabled := by
    intro a ha; rw [(le_touch s x rest).disabled]; exact hdis a ha
  exact all_done_of_no_holds _ _ hall (inv_releaseAll _ _ rels hsuf hd h1)

/-- With no hold active the whole chain is dirty and announced immediately. -/
theorem change_propagates_immediately (s : State) (x : Nat) (rest : List Nat)
    (hdis : ∀ a ∈ x :: rest, a ∉ s.disabled) (hh : s.holds = []) :
    ∀ a ∈ x :: rest, a ∈ (touch s x rest).dirty ∧ a ∈ (touch s x rest).log := by
  have := change_propagates s x rest [] hdis (by intro r hr; simp at hr)
    (by show (touch s x rest).holds = []; rw [(le_touch s x rest).holds]; exact hh)
  exact this

/-- The changed object itself is dirty at once, held or not, disabled or not. -/
theorem changed_object_dirty (s : State) (x : Nat) (rest : List Nat) : x ∈ (touch s x rest).dirty :=
  (le_announce _ _).dirty x (mem_setFlag s x)

/-- Flags, deliveries and queue entries are never taken back by a later change. -/
theorem nothing_undone (s : State) (x : Nat) (rest : List Nat) : Le s (touch s x rest) := le_touch s x rest

/-- While held, the notification is queued once however often the object changes (coalescing). -/
theorem held_change_coalesces (s : State) (x : Nat) (rest : List Nat) (hd : x ∉ s.disabled)
    (hh : held s x = true) (hp : x ∈ s.pending) (hx : x ∈ s.dirty) : touch s x rest = s := by
  unfold touch setFlag announce
  simp [hx, hd, hh, hp]

/-- Disabling cuts the propagation by design: the object is dirty, nothing is delivered or queued. -/
theorem disabled_change_not_announced (s : State) (x : Nat) (rest : List Nat) (hd : x ∈ s.disabled) :
    (touch s x rest).log = s.log ∧ (touch s x rest).pending = s.pending := by
  unfold touch announce
  have : x ∈ (setFlag s x).disabled := by rw [(le_setFlag s x).disabled]; exact hd
  simp only [this, if_true]
  unfold setFlag
  split <;> simp

/-- **Nothing beyond the chain.**  A change of `x` raises no flag, delivers no `*.Changed` and queues nothing for any
object other than `x` and its ancestors: whatever the state has more afterwards concerns a member of `x :: rest`
(siblings, children and unrelated objects keep their flags; "changes no dirty flag" beyond what the change owes). -/
theorem change_reaches_only_the_chain (s : State) (x : Nat) (rest : List Nat) :
    (∀ a, a ∈ (touch s x rest).dirty → a ∈ s.dirty ∨ a ∈ x :: rest) ∧
    (∀ a, a ∈ (touch s x rest).log → a ∈ s.log ∨ a ∈ x :: rest) ∧
    (∀ a, a ∈ (touch s x rest).pending → a ∈ s.pending ∨ a ∈ x :: rest) :=
  ⟨(only_touch s x rest).dirty, (only_touch s x rest).log, (only_touch s x rest).pending⟩

/-- … and so does the release of a hold on `x`: what it delivers or passes on concerns `x` and its ancestors only -/
theorem release_reaches_only_the_chain (s : State) (x : Nat) (rest : List Nat) :
    (∀ a, a ∈ (release s x rest).dirty → a ∈ s.dirty ∨ a ∈ x :: rest) ∧
    (∀ a, a ∈ (release s x rest).log → a ∈ s.log ∨ a ∈ x :: rest) ∧
    (∀ a, a ∈ (release s x rest).pending → a ∈ s.pending ∨ a ∈ x :: rest) :=
  ⟨(only_release s x rest).dirty, (only_release s x rest).log, (only_release s x rest).pending⟩

/-- taking a hold or disabling announces nothing and changes no flag -/
theorem hold_and_disable_are_silent (s : State) (x : Nat) :
    (hold s x).dirty = s.dirty ∧ (hold s x).log = s.log ∧ (hold s x).pending = s.pending ∧
    (disable s x).dirty = s.dirty ∧ (disable s x).log = s.log ∧ (disable s x).pending = s.pending :=
  ⟨rfl, rfl, rfl, rfl, rfl, rfl⟩

/-- a guarded setter: assigning the held value does not touch anything -/
def guardedSet (s : State) (x : Nat) (rest : List Nat) (old new : Nat) : State := if old = new then s else touch s x rest

theorem same_value_silent (s : State) (x : Nat) (rest : List Nat) (v : Nat) : guardedSet s x rest v v = s := by
  unfold guardedSet; simp

/-! ### the catalogue of the correspondence harness covers the code (regenerated table) -/

def covered (k : String) (m : String) : Bool :=
  (((Gen.Mutators.catalogue.find? (fun p => p.1 = k)).map Prod.snd).getD []).contains m ||
  (((Gen.Mutators.exempt.find? (fun p => p.1 = k)).map Prod.snd).getD []).contains m

/-- Every public method or property setter of every class that (transitively) sets `dirty` or
posts a notification — as found in the CURRENT source by the AST extractor — is either driven by
the catalogue or exempted by name with a stated reason.  A mutator added to the code breaks this
obligation until someone decides where it belongs. -/
theorem catalogue_covers :
    Gen.Mutators.found.all (fun p => p.2.all (fun m => covered p.1 m)) = true := by decide +kernel

/-! ### non-vacuity: a contour (3) in a glyph (2) in a layer (1) in a font (0), glyph and layer held -/

def demo : State := hold (hold (hold {} 2) 1) 2
example : held demo 2 = true ∧ held demo 1 = true ∧ demo.disabled = [] := by decide
/-- the change reaches the glyph's callback at once and waits in the glyph's hold -/
example : (touch demo 3 [2, 1, 0]).dirty = [3, 2] ∧ (touch demo 3 [2, 1, 0]).log = [3] ∧ (touch demo 3 [2, 1, 0]).pending = [2] := by
  decide
/-- a sibling contour (4) and its flag stay out of it -/
example : 4 ∉ (touch demo 3 [2, 1, 0]).dirty ∧ 4 ∉ (touch demo 3 [2, 1, 0]).log := by decide
/-- releases in a "wrong" order (layer first, glyph twice): everything arrives -/
example : (releaseAll (touch demo 3 [2, 1, 0]) [(1, [0]), (2, [1, 0]), (2, [1, 0])]).dirty = [3, 2, 1, 0] ∧
    (releaseAll (touch demo 3 [2, 1, 0]) [(1, [0]), (2, [1, 0]), (2, [1, 0])]).log = [3, 2, 1, 0] ∧
    (releaseAll (touch demo 3 [2, 1, 0]) [(1, [0]), (2, [1, 0]), (2, [1, 0])]).holds = [] := by decide

end DefconModel.Props.C02
