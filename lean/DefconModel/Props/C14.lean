/-
C14 — Serialize then deserialize reproduces any object (work in progress placeholder).
-/
import DefconModel.Serial

namespace DefconModel.Props.C14
open DefconModel DefconModel.Serial DefconModel.Gen.SerialTables

/-- placeholder -/
theorem tables_nonempty : rows.length = 16 := by decide

end DefconModel.Props.C14
