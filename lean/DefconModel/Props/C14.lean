/-
C14 — Serialize then deserialize reproduces any object.

Property theorems about M-Serial (`DefconModel/Serial.lean`: the executable model of
`getDataForSerialization` / `setDataFromSerialization` / `_serialize` of all 16 object kinds, reading its
getter / setter key tables from `Gen/SerialTables.lean`, regenerated from the Python sources on every run).
Specification side: `Spec/Serial.lean`; helper lemmas: `Lemmas/Serial.lean`.

Reading guide.  `o.ser none none` is `o.getDataForSerialization()` (no whitelist / blacklist; the pickled
form carries the same dictionary), `K.deser data t` is `t.setDataFromSerialization(data)`.  "New object":
the `…Fresh` predicates (no children, empty identifier registry; name, flags and — where they are
overwritten — contents arbitrary, so both `Glyph()` and `layer.newGlyph(n)` qualify).  "Equal observable
data": the `…ObsEq` relations (every public getter answers the same).  Parent links / observers: the
`…Wired` predicates.  Hypotheses named `…WF` say which Python objects a model value stands for (dicts have
unique keys, an Image holds its eight entries, identifiers in use are distinct).
-/
import DefconModel.Lemmas.Serial

namespace DefconModel.Props.C14
open DefconModel DefconModel.Serial DefconModel.Gen.SerialTables

/-! ## 1. The regenerated tables (obligations over the COMPLETE tables, by `decide`) -/

/-- Every observable field of every table-driven kind (hand-written list `observable`, from the property's
enumeration) has BOTH a getter entry and a setter entry in the tables extracted from the source — a field
dropped on either side, or symmetrically on both, breaks this. -/
theorem tables_cover : ∀ kf ∈ observable, covered kf.1 kf.2 = true := by decide

/-- A glyph's contours travel under exactly one of two keys (shallow / full form), chosen by the getter's
conditional tail; both have a setter entry. -/
theorem tables_cover_contours :
    glyphGetAlt = glyphContourKeys ∧ ∀ k ∈ glyphContourKeys, k ∈ glyphSetters := by decide

/-- Every key that occurs in the extracted tables is one the model implements (nothing in the code is
silently outside the model), and the table-driven kinds have no dynamic part. -/
theorem tables_known : ∀ km ∈ modelKeys, known km.1 km.2 = true := by decide

/-- The kinds without a key table are provided by exactly the expected class, iterate over exactly the
expected key source on the getter side and use exactly the expected bulk form on the setter side
(`keys()` ⇄ `clear(); update(data)`, `fileNames` ⇄ `self[k] = data[k]`, `_properties` ⇄ `_properties`). -/
theorem tables_dynamic : ∀ e ∈ expectedDynamic, dynamicAsExpected e = true := by decide

/-- All 16 kinds of the property have a row, and no kind has two. -/
theorem tables_all_kinds : rows.map (·.kind) = allKinds := by decide

set_option maxRecDepth 20000 in
/-- Info's generated properties cover every fontinfo attribute of UFO 3 (fontTools' own list) except
`guidelines`, which lives in the font; and no property is listed twice. -/
theorem info_covers_ufo3 :
    (∀ a ∈ ufo3InfoAttributes, a = "guidelines" ∨ a ∈ AL.keys infoProperties) ∧ (AL.keys infoProperties).Nodup := by
  decide +kernel

/-! ## 2. `_serialize`: whitelist / blacklist -/

/-- Looking a key up in the data dictionary answers the getter's value exactly when the key is in the
getter table, in the whitelist (if one is given) and not in the blacklist (if one is given); otherwise the
key is absent. -/
theorem serialize_lookup {σ δ : Type} (get : String → σ → Option δ) (wl bl : Option (List String)) (o : σ)
    (table : List String) (k : String) :
    AL.get? (serializeWith get wl bl o table) k =
      if k ∈ table ∧ excluded wl bl k = false then get k o else none :=
  get?_serializeWith get wl bl o table k

/-- The data dictionary lists the admitted keys in table order, each once, with the getter's value. -/
theorem serialize_keys {σ δ : Type} (get : String → σ → Option δ) (wl bl : Option (List String)) (o : σ)
    (f : String → δ) (table : List String) (hg : ∀ k ∈ table, get k o = some (f k)) (hn : table.Nodup) :
    serializeWith get wl bl o table = (table.filter (fun k => !excluded wl bl k)).map (fun k => (k, f k)) :=
  serializeWith_eq get wl bl o f table hg hn

example : excluded (some ["a", "b"]) (some ["b"]) "a" = false ∧ excluded (some ["a", "b"]) (some ["b"]) "b" = true ∧
    excluded (some ["a"]) none "c" = true := by decide

/-! ## 3. Leaf kinds -/

/-- Lib, Kerning, Groups, Anchor, Guideline (all `BaseDictObject`): the data dictionary is the dictionary,
and feeding it to ANY object of the kind (new or not: `clear()` comes first) leaves exactly that
dictionary. -/
theorem deser_ser_dict (o t : DictObj) (h : DictWF o.items) :
    (DictObj.deser (o.ser none none) t).items = o.items := by
  rw [dictObj_ser o h]
  exact dictUpdate_nil _ h

/-- Image: the rebuilt image holds the same entries (same value under every key), for any target. -/
theorem deser_ser_image (o t : DictObj) (h : ImageWF o.items) :
    DictEq (Image.deser (o.ser none none) t).items o.items := by
  intro k
  rw [dictObj_ser o h.1]
  show AL.get? (dictUpdate imageDefaults o.items) k = _
  rw [get?_dictUpdate _ _ _ h.1]
  cases hg : AL.get? o.items k with
  | some v => rfl
  | none =>
    show AL.get? imageDefaults k = none
    apply AL.get?_eq_none_of_not_mem
    intro hm
    have hk : k ∈ imageAttrs := by
      simp only [imageDefaults, AL.keys, List.map_cons, List.map_nil, List.mem_cons, List.mem_nil_iff, or_false] at hm
      rcases hm with rfl | rfl | rfl | rfl | rfl | rfl | rfl | rfl <;> simp [imageAttrs]
    have hc := h.2 k hk
    rw [AL.contains_iff_get?] at hc
    obtain ⟨v, hv⟩ := hc
    rw [hv] at hg
    cases hg

/-- … the hypothesis that the image holds its eight entries is needed: an Image from which an entry was
deleted through the raw dict API (`del image["xScale"]`) comes back with the default in its place.
(Outside the domain: every Image method keeps the eight entries.) -/
theorem image_entries_hypothesis_needed :
    ¬ ∀ o : DictObj, DictWF o.items → DictEq (Image.deser (o.ser none none) {}).items o.items := by
  intro h
  have := h { items := [] } (by decide) "xScale"
  revert this
  decide

/-- ImageSet, DataSet: every file name comes back with its bytes (the rebuilt set is filled through
`self[name] = data`; after repo_fixes/C14-imageset… names are taken as they are). -/
theorem deser_ser_fileSet (o t : DictObj) (h : DictWF o.items) :
    (FileSet.deser (o.ser none none) t).items = o.items := by
  rw [dictObj_ser o h]
  exact fileSet_deser_items _ _ h

/-- Features: the text comes back, into any Features object. -/
theorem deser_ser_features (f t : Features) : (Features.deser (f.ser none none) t).text = f.text := by
  rw [features_rebuild]

/-- Component: base glyph, transformation and identifier come back in a new component (one without an
identifier); with a parent glyph (`tracked`) the identifier is registered in the glyph's registry. -/
theorem deser_ser_component (c t : Component) (r : Reg) (tracked : Bool) (ht : t.ident = pyNone) :
    Component.deser tracked (c.ser none none) (t, r) =
      ({ t with base := c.base, transformation := c.transformation, ident := c.ident },
       if tracked then r.add c.ident else r) :=
  component_rebuild c t r tracked ht

/-- Contour: the recorded point-pen calls, played back into a new contour, give the same identifier and the
same points (coordinates, segment type, smooth, name, identifier) in the same order; with a parent glyph
all identifiers are registered, the contour's first. -/
theorem deser_ser_contour (c t : Contour) (r : Reg) (tracked : Bool) (ht : t.ident = pyNone) :
    Contour.deser tracked (c.ser none none) (t, r) =
      ({ t with ident := c.ident, points := c.points }, if tracked then r.addAll c.ids else r) :=
  contour_rebuild c t r tracked ht

/-- … "new" matters: identifier setters never overwrite, so a contour that already has an identifier keeps
it whatever the data says (the points are replaced). -/
theorem contour_identifier_is_sticky (c t : Contour) (r : Reg) (h : t.ident ≠ pyNone) :
    (Contour.deser false (c.ser none none) (t, r)).1.ident = t.ident ∧
    (Contour.deser false (c.ser none none) (t, r)).1.points = c.points := by
  simp [Contour.deser, Contour.ser, serializeWith, serStep, contourGetters, excluded, Contour.getField, AL.set, h,
    Contour.toPen]

/-- Info: every generated property reads the same in a new Info (properties that are None are not
serialized and stay at the new object's default, which is None as well). -/
theorem deser_ser_info (i t : DictObj) (hw : InfoWF i) (ht : ∀ k, dictGet t.items k = Info.default k) :
    ∀ k ∈ AL.keys infoProperties, dictGet (Info.deser (Info.ser none none i) t).items k = dictGet i.items k :=
  fun k hk => info_roundtrip i t hw ht k hk

example : ∀ k, dictGet Info.fresh.items k = Info.default k := fun _ => rfl

/-! ## 4. Glyph — in both contour forms -/

/-- THE glyph theorem: feeding a glyph's data to a new glyph yields a glyph on which every public getter
answers the same: name, unicodes, width, height, note, lib, temp lib, image (all eight entries), the
outline as the stream of point-pen calls `drawPoints` emits, components, anchors, guidelines — and the same
load state.  `g` is ANY glyph: with fully loaded contours (`shallow = none`) or with contours still
shallowly loaded (`shallow = some …`), in which case the rebuilt glyph holds the same shallow records. -/
theorem deser_ser_glyph (g t : Glyph) (ht : t.Fresh) (hw : g.DictsWF) :
    (Glyph.deser (g.ser none none) t).ObsEq g := by
  rw [glyph_rebuild g t ht hw]
  exact rebuiltFrom_obsEq g t hw.image

/-- … and once the rebuilt glyph's contours are fully loaded (first `len(glyph)`, iteration, …) the contour
objects say exactly what the stream said: nothing is lost or reordered by going through the shallow form. -/
theorem deser_ser_glyph_loaded (g t : Glyph) (ht : t.Fresh) (hw : g.DictsWF) :
    (Glyph.deser (g.ser none none) t).fullyLoad.shallow = none ∧
    (Glyph.deser (g.ser none none) t).fullyLoad.contours.map Contour.toPen = g.pens := by
  rw [glyph_rebuild g t ht hw]
  cases hs : g.shallow with
  | none =>
    rw [fullyLoad_noShallow _ (by rw [rb_shallow]; exact hs)]
    refine ⟨by rw [rb_shallow]; exact hs, ?_⟩
    simp [rb_contours, hs, Glyph.pens, Contour.rebuilt, Contour.toPen, Function.comp_def]
  | some l =>
    rw [fullyLoad_shallow _ l (by rw [rb_shallow]; exact hs)]
    refine ⟨rfl, ?_⟩
    simp [rb_contours, hs, Glyph.pens, Contour.toPen, Function.comp_def]

/-- Parent links and observers in the rebuilt glyph: every contour, component, anchor, guideline, the lib
and the image answer the glyph as parent and are observed by it exactly when a dispatcher exists (the glyph
lives in a font); the temp lib has its parent.  Holds before and after the full load. -/
theorem glyph_rebuilt_wired (g t : Glyph) (ht : t.Fresh) (hw : g.DictsWF) :
    (Glyph.deser (g.ser none none) t).ChildrenWired ∧ (Glyph.deser (g.ser none none) t).fullyLoad.ChildrenWired := by
  rw [glyph_rebuild g t ht hw]
  exact ⟨rebuiltFrom_childrenWired g t, rebuiltFrom_loaded_childrenWired g t⟩

/-- The rebuilt glyph's identifier registry: if the identifiers in use in `g` are pairwise distinct (C10's
invariant) no assertion fails and — once fully loaded — the registry holds exactly the identifiers in use. -/
theorem glyph_rebuilt_registry (g t : Glyph) (ht : t.Fresh) (hw : g.DictsWF) (hn : g.usedIds.Nodup) :
    (Glyph.deser (g.ser none none) t).reg.error = none ∧
    (Glyph.deser (g.ser none none) t).fullyLoad.reg = .ok g.usedIds := by
  rw [glyph_rebuild g t ht hw]
  exact ⟨rebuildError_none g hn, rebuiltFrom_loaded_reg g t hn⟩

/-- … and the hypothesis is needed: identifiers used twice among the registered objects make the rebuild
raise AssertionError (the model's `fail`), as `assert … not in identifiers` does. -/
theorem glyph_rebuild_rejects_duplicate_identifiers (g t : Glyph) (ht : t.Fresh) (hw : g.DictsWF)
    (hd : ¬ (g.regIds.filter (· ≠ pyNone)).Nodup) :
    (Glyph.deser (g.ser none none) t).reg = .fail "AssertionError" := by
  rw [glyph_rebuild g t ht hw, rb_reg]
  exact Reg.addAll_dup [] g.regIds (by simp) (by simpa using hd)

/-- a glyph with a contour, a component, an anchor, a lib entry; in full and in shallow form -/
def exGlyph : Glyph :=
  { name := "s:A", unicodes := "[65]", width := "500", lib := { items := [("k", "1")] },
    contours := [{ ident := "s:c1", points := [⟨"0", "0", "s:line", "False", "None", "s:p1"⟩] }],
    components := [{ base := "s:B", ident := "s:k1" }],
    anchors := [{ items := [("x", "10"), ("y", "20"), ("name", "s:top"), ("identifier", "s:a1")] }] }

def exShallow : Glyph :=
  { exGlyph with contours := [],
                 shallow := some [{ ident := "s:c1", points := [⟨"0", "0", "s:line", "False", "None", "s:p1"⟩] }] }

example : exGlyph.DictsWF := ⟨by decide, by decide, by decide, by decide, by decide⟩
example : exShallow.DictsWF := ⟨by decide, by decide, by decide, by decide, by decide⟩
example : ({ parent := true, observed := true, disp := true } : Glyph).Fresh := ⟨rfl, rfl, rfl, rfl, rfl, rfl, rfl⟩
example : exGlyph.usedIds.Nodup ∧ exShallow.usedIds.Nodup := by decide
example : (Glyph.deser (exGlyph.ser none none) {}).reg = .ok ["s:c1", "s:p1", "s:k1", "s:a1"] := by decide
example : (Glyph.deser (exShallow.ser none none) {}).reg = .ok ["s:k1", "s:a1"] ∧
    (Glyph.deser (exShallow.ser none none) {}).fullyLoad.reg = .ok ["s:k1", "s:a1", "s:c1", "s:p1"] := by decide

/-! ## 5. Layer, layer set, font -/

/-- Layer: colour, lib, temp lib and every glyph (same names; each with equal observable data in the sense of
`deser_ser_glyph`) come back in a new layer; nothing raises when identifiers are distinct within each glyph.
(A layer's name is owned by the layer set, see `deser_ser_layerSet`.) -/
theorem deser_ser_layer (ly t : Layer) (ht : t.Fresh) (hw : ly.WF) :
    (Layer.deser (ly.ser none none) t).ObsEq ly ∧
    (ly.IdsWF → (Layer.deser (ly.ser none none) t).err = none) := by
  rw [layer_rebuild ly t ht hw]
  exact ⟨layer_rebuiltFrom_obsEq ly t hw, layer_rebuiltFrom_err ly t⟩

/-- Layer set: the layers come back in the same order under the same names, each with equal observable data,
and the same layer is the default. -/
theorem deser_ser_layerSet (ls t : LayerSet) (ht : t.Fresh) (hw : ls.WF) :
    (LayerSet.deser (ls.ser none none) t).ObsEq ls ∧
    (ls.IdsWF → (LayerSet.deser (ls.ser none none) t).err = none) := by
  rw [layerSet_rebuild ls t ht hw]
  exact ⟨layerSet_rebuiltFrom_obsEq ls t hw hw.default, layerSet_rebuiltFrom_err ls t⟩

/-- THE font theorem: feeding a font's data to a new font reproduces layers (order, default), glyphs, info,
kerning, groups, features, lib, temporary lib, guidelines, images, data, the UFO format version and the
kerning-group rename maps. -/
theorem deser_ser_font (f t : Font) (ht : t.Fresh) (hw : f.WF) :
    (Font.deser (f.ser none none) t).ObsEq f := by
  rw [font_rebuild f t ht hw]
  exact font_rebuiltFrom_obsEq f t hw ht

/-- Nothing raises, and the font's identifier registry holds exactly the guideline identifiers in use,
provided identifiers are distinct within each glyph and among the font guidelines.  (This is the statement
that needed the F22 fix: before it the registry stayed empty and `removeGuideline` raised KeyError.) -/
theorem rebuilt_registry (f t : Font) (ht : t.Fresh) (hw : f.WF) (hg : f.layers.IdsWF) (hn : f.usedIds.Nodup) :
    (Font.deser (f.ser none none) t).error = none ∧ (Font.deser (f.ser none none) t).reg = .ok f.usedIds := by
  rw [font_rebuild f t ht hw]
  exact ⟨font_rebuiltFrom_error f t hg hn, font_rebuiltFrom_reg f t hn⟩

/-- Parent links and observers in the rebuilt font, for EVERY content: data set, image set, features,
groups, kerning, lib, info, the layer set, every layer and its lib, every glyph and all its children (in both
load states), every font guideline answer their container as parent and are observed by it; the temp libs
have their parent (nobody observes a temp lib, in any font). -/
theorem rebuilt_wired (f t : Font) (ht : t.Fresh) (hw : f.WF) : (Font.deser (f.ser none none) t).Wired := by
  rw [font_rebuild f t ht hw]
  exact font_rebuiltFrom_wired f t

/-- Working change propagation in the rebuilt font: for every node of the tree, every link from the node up
to the font is observed — so a change of any contour, component, anchor, guideline, image, lib, glyph, layer,
info, kerning, groups, features, image or data set makes every ancestor dirty and announce `*.Changed`.
(`Font.propagation` is the list the harness compares with the probes on the real rebuilt font.) -/
theorem rebuilt_propagates (f t : Font) (ht : t.Fresh) (hw : f.WF) :
    ∀ pb ∈ (Font.deser (f.ser none none) t).propagation, pb.2 = true :=
  font_propagation_true _ (rebuilt_wired f t ht hw)

/-- The same for a glyph rebuilt inside a font (`layer.newGlyph(n)` then `setDataFromSerialization`): every
child's change reaches the glyph and everything above it. -/
theorem glyph_in_font_propagates (g t : Glyph) (ht : t.Fresh) (hw : g.DictsWF) (hp : t.parent = true)
    (ho : t.observed = true) (hd : t.disp = true) (p : String) :
    ∀ pb ∈ (Glyph.deser (g.ser none none) t).propagation p true, pb.2 = true := by
  apply glyph_propagation_true
  have hc := glyph_rebuilt_wired g t ht hw
  rw [glyph_rebuild g t ht hw] at hc ⊢
  exact ⟨hp, ho, hd, hc.1, hc.2⟩

/-- … and for a layer rebuilt inside a font. -/
theorem layer_in_font_propagates (ly t : Layer) (ht : t.Fresh) (hw : ly.WF) (hp : t.parent = true)
    (ho : t.observed = true) (hd : t.disp = true) (p : String) :
    ∀ pb ∈ (Layer.deser (ly.ser none none) t).propagation p true, pb.2 = true := by
  rw [layer_rebuild ly t ht hw]
  exact layer_propagation_true _ p (layer_rebuiltFrom_wired ly t hp ho hd)

/-- a two-layer font around `exGlyph` / `exShallow`, with a font guideline, info, kerning, an image -/
def exFont : Font :=
  { fmt := "(3, 0)",
    images := { items := [("img.png", "b:89504e47")] },
    features := { text := "s:feature kern {} kern;" },
    kerning := { items := [("(s:A, s:B)", "-10")] },
    lib := { items := [("public.glyphOrder", "[s:A]")] },
    info := { items := dictUpdate Info.fresh.items [("familyName", "s:Fam")] },
    layers := { default := "s:public.default",
                layers := [("s:public.default", { name := "s:public.default", glyphs := [("s:A", exGlyph)] }),
                           ("s:bg", { name := "s:bg", color := "s:1,0,0,1", glyphs := [("s:A", exShallow)] })] },
    guidelines := [{ items := [("x", "10"), ("identifier", "s:fg1")] }] }

example : ({} : Font).Fresh := ⟨rfl, rfl, fun _ => rfl⟩
example : exFont.layers.IdsWF ∧ exFont.usedIds.Nodup := by decide
example : (Font.deser (exFont.ser none none) {}).error = none ∧
    (Font.deser (exFont.ser none none) {}).reg = .ok ["s:fg1"] ∧
    (Font.deser (exFont.ser none none) {}).layers.default = "s:public.default" ∧
    (Font.deser (exFont.ser none none) {}).layers.layers.map (·.1) = ["s:public.default", "s:bg"] := by
  decide +kernel
example : (Font.deser (exFont.ser none none) {}).propagation.length = 24 ∧
    (Font.deser (exFont.ser none none) {}).propagation.all (·.2) = true := by decide +kernel

/-! ## 6. Derived data of the rebuilt layers: the unicode data, whoever looks at the new object, and whenever

`layer.unicodeData` (and `font.unicodeData`, the default layer's) is an object that is built from the glyphs on
first access and told about every later change.  On the deserialization path the glyph is filled BEFORE the
layer observes it, so the only thing that tells an existing object about the glyph is the end of
`_insertGlyph`.  "New object" does not mean "object nobody has looked at": `t.ucache = some []` is a new layer
whose (empty) unicode data were read before the data came in, `t.peekAt` is the schedule of an observer of
`Layer.GlyphAdded` that reads them while the glyphs come in. -/

/-- Layer: whatever the new layer's past (unicode data never read, or read while it was still empty) and
whatever the observers' schedule, after the rebuild `layer.unicodeData` lists exactly the glyphs of the
ORIGINAL that have unicodes, each with its unicodes — and the stored object, if there is one, is that list. -/
theorem rebuilt_unicodeData (ly t : Layer) (ht : t.Fresh) (hw : ly.WF) (hc : t.ucache = none ∨ t.ucache = some []) :
    (Layer.deser (ly.ser none none) t).unicodeData = cmapOfGlyphs ly.glyphs ∧
    (Layer.deser (ly.ser none none) t).CacheOK := by
  rw [layer_rebuild ly t ht hw]
  exact ⟨layer_rebuiltFrom_unicodeData ly t hc, layer_rebuiltFrom_cacheOK ly t hc⟩

/-- … in particular when somebody looked first, the object that was built then (and that every later
`font.unicodeData[…]` answers from) is complete: nothing relies on it being rebuilt lazily. -/
theorem rebuilt_unicodeData_looked_at_first (ly t : Layer) (ht : t.Fresh) (hw : ly.WF) (hc : t.ucache = some []) :
    (Layer.deser (ly.ser none none) t).ucache = some (cmapOfGlyphs ly.glyphs) := by
  rw [layer_rebuild ly t ht hw]
  exact layer_rebuiltFrom_built ly t hc

/-- Layer set: every rebuilt layer's unicode data say what the original layer's glyphs say, for every schedule
of the observers on the font's dispatcher. -/
theorem rebuilt_unicodeData_layerSet (ls t : LayerSet) (ht : t.Fresh) (hw : ls.WF) :
    (LayerSet.deser (ls.ser none none) t).layers.map (fun nl => (nl.1, nl.2.unicodeData)) =
      ls.layers.map (fun nl => (nl.1, cmapOfGlyphs nl.2.glyphs)) := by
  rw [layerSet_rebuild ls t ht hw]
  exact layerSet_rebuiltFrom_unicodeData ls t

/-- Font: the same for every layer of the rebuilt font (so also for `font.unicodeData`, the default layer's),
whatever observers hang on the new font's dispatcher (`t.layers.peekAt`). -/
theorem rebuilt_unicodeData_font (f t : Font) (ht : t.Fresh) (hw : f.WF) :
    (Font.deser (f.ser none none) t).layers.layers.map (fun nl => (nl.1, nl.2.unicodeData)) =
      f.layers.layers.map (fun nl => (nl.1, cmapOfGlyphs nl.2.glyphs)) := by
  rw [font_rebuild f t ht hw]
  exact layerSet_rebuiltFrom_unicodeData f.layers _

/-- … "new" matters here as well: a target whose unicode data already list something (an object with
content, outside the property) keeps that entry — nothing on this path rebuilds the object. -/
theorem unicodeData_needs_a_new_layer :
    ¬ ∀ ly t : Layer, t.Fresh → ly.WF → (Layer.deser (ly.ser none none) t).unicodeData = cmapOfGlyphs ly.glyphs := by
  intro h
  have := h {} { ucache := some [("s:ghost", "[1]")] } ⟨rfl, rfl⟩
    ⟨by decide, by decide, by decide, (fun _ h => nomatch h), (fun _ h => nomatch h)⟩
  revert this
  decide

/-- a layer with two encoded glyphs and one without unicodes -/
def exLayer : Layer :=
  { name := "s:public.default",
    glyphs := [("s:A", exGlyph), ("s:B", { exShallow with name := "s:B", unicodes := "[66, 937]" }),
               ("s:A.alt", { name := "s:A.alt" })] }

example : exLayer.WF := by
  refine ⟨by decide, by decide, by decide, by decide, ?_⟩
  intro ng hng
  simp only [exLayer, List.mem_cons, List.mem_nil_iff, or_false] at hng
  rcases hng with rfl | rfl | rfl <;> exact ⟨by decide, by decide, by decide, by decide, by decide⟩
example : cmapOfGlyphs exLayer.glyphs = [("s:A", "[65]"), ("s:B", "[66, 937]")] := by decide
/-- nobody looks: no object is kept, the first read builds it -/
example : (Layer.deser (exLayer.ser none none) {}).ucache = none ∧
    (Layer.deser (exLayer.ser none none) {}).unicodeData = [("s:A", "[65]"), ("s:B", "[66, 937]")] := by decide +kernel
/-- looked at first: the object exists and is told about every glyph -/
example : (Layer.deser (exLayer.ser none none) { ucache := some [] }).ucache =
    some [("s:A", "[65]"), ("s:B", "[66, 937]")] := by decide +kernel
/-- an observer reads at the first `Layer.GlyphAdded` (inside a font): built then, told about the rest -/
example : (Layer.deser (exLayer.ser none none) { parent := true, observed := true, disp := true, peekAt := [1] }).ucache =
    some [("s:A", "[65]"), ("s:B", "[66, 937]")] := by decide +kernel
/-- the same at font level: the observers of the new font watch the layers of the new layer set -/
example : (Font.deser (exFont.ser none none) { layers := { parent := true, observed := true, disp := true, peekAt := [1] } }
    ).layers.layers.map (fun nl => (nl.1, nl.2.ucache)) =
    [("s:public.default", some [("s:A", "[65]")]), ("s:bg", some [("s:A", "[65]")])] := by decide +kernel

end DefconModel.Props.C14
