/-
C05 — External-change detection is sound and complete, and reloading converges.

Property theorems about M-Ext (`DefconModel/Ext.lean`, the executable model of defcon's stamping,
`testForExternalChanges` and `reload*` code as it stands after the fixes repo_fixes/C05-*.diff).
Definitions used in the statements are in `Spec/Ext.lean`, helper lemmas in `Lemmas/Ext.lean`.

Reading guide.  `Synced s` = every stamp in the font holds the bytes that are on disk now and the
listings the font knows are the listings on disk: "the UFO on disk is byte-identical to what the
font last read or wrote".  It never mentions modification times, in-memory values or dirty flags.
`report s` = the dictionary `Font.testForExternalChanges()` returns in state `s`;
`quietReport s` = the dictionary that names nothing.
`Tidy s` = nothing is pending in the font's bookkeeping beyond the stamps (no recorded layer deletion
or default-layer change left to replay, no name both listed and scheduled, names unique on disk);
`SyncedM s` = `Synced s` except for glyphs that exist in memory only (created or renamed in memory
under a name the UFO does not hold yet).
-/
import DefconModel.Lemmas.ExtReload

namespace DefconModel.Props.C05
open DefconModel DefconModel.Ext

/-! ## 1. Soundness -/

/-- SOUND (any state).  If the UFO on disk is byte-identical to what the font last read or wrote,
`testForExternalChanges` reports nothing — whatever the modification times of the files, whatever
has been edited in memory, whatever is dirty. -/
theorem detect_sound (s : State) (h : Synced s) : report s = quietReport s := report_quiet h

/-- A font that has just been opened is in step with its UFO (nothing is loaded, the listings are
the ones just read). -/
theorem synced_open (zip : Bool) (d : Disk) (empty : Blob) (hn : (layerNames d).Nodup)
    (hi : (AL.keys d.images).Nodup) (hd : (AL.keys d.data).Nodup) :
    Synced (openFont zip d empty) := synced_openFont zip d empty hn hi hd

/-- … and its bookkeeping is tidy (glyph names unique within every layer of the UFO). -/
theorem tidy_open (zip : Bool) (d : Disk) (empty : Blob) (hi : (AL.keys d.images).Nodup) (hd : (AL.keys d.data).Nodup)
    (hg : ∀ ln dl, AL.get? d.layers ln = some dl → (AL.keys dl.glifs).Nodup) : Tidy (openFont zip d empty) :=
  tidy_openFont zip d empty ⟨hg, hi, hd⟩

/-- Every quiet operation keeps the font in step with its UFO (and its bookkeeping tidy): lazy reads
of top-level objects, glyphs, images and data; edits of their values; deletion of glyphs, images and
data (scheduled for deletion, with a stamp of the file scheduled); touch-only external edits of any
stamped file (new modification time, same bytes); the test itself (which re-binds the layers and
replaces the font's reader); reloading a top-level object; the in-place save (every stamp then holds
what was just written, nothing stays scheduled for deletion); save-as to a new path (the font is then
in step with the UFO it wrote, which is the UFO from then on). -/
theorem synced_step (s : State) (h : Synced s) (ht : Tidy s) (op : Op) (hq : Quiet op) :
    Synced (step s op).1 ∧ Tidy (step s op).1 := inv_step h ht op hq

/-- SOUND (histories).  For every UFO (layer names, glyph names within a layer, image names and data
paths unique), package or zip, and every interleaving of quiet operations — in-memory edits, lazy
reads, deletions, touch-only external edits, tests, in-place saves at any point, save-as — the next
test reports nothing.  This is the proved part of `DetectSound` below. -/
theorem detect_sound_partial (zip : Bool) (d : Disk) (empty : Blob) (hn : (layerNames d).Nodup)
    (hi : (AL.keys d.images).Nodup) (hd : (AL.keys d.data).Nodup)
    (hg : ∀ ln dl, AL.get? d.layers ln = some dl → (AL.keys dl.glifs).Nodup) (ops : List Op)
    (hq : ∀ op ∈ ops, Quiet op) :
    report (run (openFont zip d empty) ops) = quietReport (run (openFont zip d empty) ops) :=
  report_quiet (inv_run (synced_openFont zip d empty hn hi hd) (tidy_openFont zip d empty ⟨hg, hi, hd⟩) ops hq).1

/-- … and for histories without in-place saves the glyph names need not even be unique (the
statement of the earlier rounds, kept at full strength). -/
theorem detect_sound_partial_savefree (zip : Bool) (d : Disk) (empty : Blob) (hn : (layerNames d).Nodup)
    (hi : (AL.keys d.images).Nodup) (hd : (AL.keys d.data).Nodup) (ops : List Op)
    (hq : ∀ op ∈ ops, Quiet op) (hs : ∀ op ∈ ops, ∀ a b, op ≠ .save a b) :
    report (run (openFont zip d empty) ops) = quietReport (run (openFont zip d empty) ops) :=
  report_quiet (synced_run_nosave (synced_openFont zip d empty hn hi hd) ops hq hs)

/-- operations that change no byte on disk that the font has not written itself: the quiet ones and
the structural in-memory edits (creating or renaming a glyph, creating a layer, deleting or
reordering layers, changing the default layer) -/
def ByteQuiet : Op → Prop
  | .gnew _ _ | .grename _ _ _ | .lnew _ | .ldel _ | .lorder _ | .ldefault _ => True
  | op => Quiet op

/-- The full soundness statement of the property: nothing is reported as long as no byte changes
on disk, *whatever has been edited in memory*.  The code does not satisfy it (finding F8). -/
def DetectSound : Prop :=
  ∀ (zip : Bool) (d : Disk) (empty : Blob) (ops : List Op), (layerNames d).Nodup → (AL.keys d.images).Nodup →
    (AL.keys d.data).Nodup → (∀ op ∈ ops, ByteQuiet op) →
    report (run (openFont zip d empty) ops) = quietReport (run (openFont zip d empty) ops)

/-- a UFO with two layers, one glyph -/
def demoDisk : Disk :=
  { parts := [(.info, ⟨1, 0⟩), (.lib, ⟨2, 0⟩)]
    layers := [("fore", { info := 0, glifs := [("A", ⟨5, 0⟩)] }), ("back", {})]
    default := some "fore"
    images := [("i.png", ⟨7, 0⟩)], data := [("d.txt", ⟨8, 0⟩)] }

/-- F8.1: a glyph created in memory (not saved yet) is reported as externally deleted. -/
theorem f8_memory_only_glyph_violated :
    (report (run (openFont false demoDisk 9) [.gnew "fore" "new"])).modified =
      [("fore", { info := false, modified := [], added := [], deleted := ["new"] })] := by decide

/-- F8.2 / F8.3: a layer created in memory is reported as externally deleted, and as an order change. -/
theorem f8_memory_only_layer_violated :
    (report (run (openFont false demoDisk 9) [.lnew "sketch"])).deleted = ["sketch"] ∧
    (report (run (openFont false demoDisk 9) [.lnew "sketch"])).order = true := by decide

/-- F8.3: a layer order changed in memory is reported as an external order change. -/
theorem f8_memory_order_violated :
    (report (run (openFont false demoDisk 9) [.lorder ["back", "fore"]])).order = true := by decide

/-- F8.4: a default layer changed in memory is reported as an external default-layer change. -/
theorem f8_memory_default_violated :
    (report (run (openFont false demoDisk 9) [.ldefault "back"])).defaultLayer = true := by decide

/-- F8.5 / F8.6: a layer deleted and created again in memory under the name of a layer on disk: its
layer info and its glyphs on disk are reported as external changes. -/
theorem f8_memory_replaced_layer_violated :
    (report (run (openFont false demoDisk 9) [.ldefault "back", .ldel "fore", .lnew "fore"])).modified =
      [("fore", { info := true, modified := [], added := ["A"], deleted := [] })] := by decide

/-- The full statement fails: the witness of F8.1 (no byte changed, yet an entry is reported). -/
theorem detect_sound_violated : ¬ DetectSound := by
  intro h
  have := h false demoDisk 9 [.gnew "fore" "new"] (by decide) (by decide) (by decide)
    (by intro op hop; simp at hop; subst hop; trivial)
  revert this
  decide

/-! ## 2. Exactness of every entry (completeness and "nothing else"), in any state -/

/-- A top-level entry (info, kerning, groups, features, lib) is `None` exactly when the object is not
loaded; otherwise it is `True` exactly when the bytes of the file differ from the bytes last read /
written (a missing file counts as different from any bytes) AND, if the file exists, its
modification time differs from the stamped one.  (F7 fix: deletion of a loaded file is reported.) -/
theorem part_entry_exact (s : State) (p : Part) :
    AL.get? (report s).parts p = some ((getPart s p).map fun mp => partChanged s.disk p mp.stamp) ∧
    ∀ st : PStamp, (partChanged s.disk p st = true ↔
      st.data ≠ diskData s.disk p ∧ ∀ f, AL.get? s.disk.parts p = some f → f.mtime ≠ st.time) :=
  ⟨get?_report_parts s p, fun st => partChanged_iff s.disk p st⟩

/-- `modified` of a layer lists exactly the loaded glyphs that carry a stamp, whose file exists,
has another modification time than the stamp AND other bytes. -/
theorem glyph_modified_exact (d : Disk) (ln : String) (l : MLayer) (gn : String) :
    gn ∈ layerModified d ln l ↔
      ∃ g f st, (gn, g) ∈ l.glyphs ∧ glifOf d ln gn = some f ∧ g.stamp = some st ∧
        f.mtime ≠ st.mtime ∧ f.blob ≠ st.blob := mem_layerModified_iff d ln l gn

/-- `added` of a layer lists exactly the names on disk that are not among the layer's keys, except
names scheduled for deletion whose file still is the file that was scheduled (same time, or same
bytes — F9 fix). -/
theorem glyph_added_exact (d : Disk) (ln : String) (l : MLayer) (gn : String) :
    gn ∈ layerAdded d ln l ↔
      gn ∈ glifNames d ln ∧ gn ∉ l.keys ∧
        (AL.get? l.sched gn = none ∨ AL.get? l.sched gn = some none ∨
          ∃ st f, AL.get? l.sched gn = some (some st) ∧ glifOf d ln gn = some f ∧
            f.mtime ≠ st.mtime ∧ f.blob ≠ st.blob) := mem_layerAdded_iff d ln l gn

/-- `deleted` of a layer lists exactly the keys that are not on disk. -/
theorem glyph_deleted_exact (d : Disk) (ln : String) (l : MLayer) (gn : String) :
    gn ∈ layerDeleted d ln l ↔ gn ∈ l.keys ∧ gn ∉ glifNames d ln := mem_layerDeleted_iff d ln l gn

/-- images / data `modified`: exactly the loaded entries whose file exists with another time than
stamped AND other bytes than last read / written (not: than the data now in memory — fix 6). -/
theorem file_modified_exact (files : List (String × File)) (fs : FileSet) (n : String) :
    n ∈ (fsTest files fs).modified ↔
      ∃ e f b, (n, e) ∈ fs.entries ∧ AL.get? files n = some f ∧ e.data = some b ∧
        e.modTime ≠ some f.mtime ∧ e.digest ≠ some f.blob := mem_fsModified_iff files fs n

/-- images / data `added`: exactly the files that are not listed, except files scheduled for
deletion that still are what was scheduled. -/
theorem file_added_exact (files : List (String × File)) (fs : FileSet) (n : String) :
    n ∈ (fsTest files fs).added ↔
      n ∈ AL.keys files ∧ AL.contains fs.entries n = false ∧
        (AL.get? fs.sched n = none ∨
          ∃ e, AL.get? fs.sched n = some e ∧
            (e.onDisk = false ∨ ∃ f, AL.get? files n = some f ∧ e.modTime ≠ some f.mtime ∧ e.digest ≠ some f.blob)) :=
  mem_fsAdded_iff files fs n

/-- images / data `deleted`: exactly the listed entries believed to be on disk whose file is gone. -/
theorem file_deleted_exact (files : List (String × File)) (fs : FileSet) (n : String) :
    n ∈ (fsTest files fs).deleted ↔ ∃ e, (n, e) ∈ fs.entries ∧ AL.contains files n = false ∧ e.onDisk = true :=
  mem_fsDeleted_iff files fs n

/-- layers `added` / `deleted` / `order` / `defaultLayer`: layers on disk the font does not hold
(and has not deleted itself); layers it holds that are not on disk; the two orders differ; the two
default layers differ. -/
theorem layers_exact (s : State) (ln : String) :
    (ln ∈ (report s).added ↔ ln ∈ layerNames s.disk ∧ ln ∉ s.font.order ∧ Action.delete ln ∉ s.font.history) ∧
    (ln ∈ (report s).deleted ↔ ln ∈ s.font.order ∧ ln ∉ layerNames s.disk) ∧
    ((report s).order = true ↔ layerNames s.disk ≠ s.font.order) ∧
    ((report s).defaultLayer = true ↔ s.font.default ≠ s.disk.default) :=
  ⟨mem_layersAdded_iff s ln, mem_layersDeleted_iff s ln, by simp [report], by simp [report]⟩

/-- a layer's `info` entry: the packed layer info on disk differs from the one last read / written -/
theorem layer_info_exact (d : Disk) (ln : String) (l : MLayer) (dl : DLayer) :
    (layerRep d ln l dl).info = true ↔ l.infoStamp ≠ some dl.info := by simp [layerRep]

/-! ## 3. Completeness from a font in step: one external edit, exactly the matching entry -/

/-- COMPLETE, top-level files.  The font is in step with its UFO; another program writes, creates,
touches or deletes the file of `p`.  Then the report names nothing but possibly `p`: every other
entry is as in the quiet report, and `p`'s entry is the comparison of its stamp with the new file. -/
theorem detect_complete_part (s : State) (h : Synced s) (p : Part) (a : XAct) (t : Option Time) (d' : Disk)
    (hx : xPart s.zip s.disk p a t = some d') :
    report { s with disk := d' } =
      { quietReport s with
        parts := allParts.map fun q =>
          (q, (getPart s q).map fun mp => if q = p then partChanged d' p mp.stamp else false) } :=
  report_after_xpart h hx

/-- … and that entry is `True` when the object is loaded, the bytes now on disk (or the absence of
the file) differ from what was last read / written, and the file, if there is one, carries a
modification time other than the stamped one. -/
theorem detect_complete_part_reported (d' : Disk) (p : Part) (st : PStamp)
    (hbytes : st.data ≠ diskData d' p) (htime : ∀ f, AL.get? d'.parts p = some f → f.mtime ≠ st.time) :
    partChanged d' p st = true := (partChanged_iff d' p st).2 ⟨hbytes, htime⟩

/-- The clause "with a different modification time" is needed: a byte change that keeps the stamped
modification time is not noticed (the bytes are compared only when the times differ). -/
theorem undetected_when_mtime_kept (d : Disk) (p : Part) (st : PStamp) (f : File)
    (hf : AL.get? d.parts p = some f) (ht : f.mtime = st.time) : partChanged d p st = false := by
  simp [partChanged, hf, ht]

/-- COMPLETE, glyph files, from a font in step.  Another program rewrites the file of a loaded,
stamped glyph with other bytes and another modification time.  Then the report is the quiet report
except for exactly one layer entry, whose `modified` is exactly that glyph (info unchanged, nothing
added, nothing deleted); every top-level entry, every other layer, images and data: nothing. -/
theorem detect_complete_glyph (s : State) (h : Synced s) (ln gn : String) (l : MLayer) (g : MGlyph) (st : File)
    (dl : DLayer) (b : Blob) (t : Time)
    (hord : ln ∈ s.font.order) (hl : getLayer s ln = some l) (hdl : AL.get? s.disk.layers ln = some dl)
    (hg : AL.get? l.glyphs gn = some g) (hst : g.stamp = some st) (hk : gn ∈ l.keys)
    (hnodup : (AL.keys l.glyphs).Nodup) (hb : b ≠ st.blob) (ht : t ≠ st.mtime) :
    report { s with disk := { s.disk with
        layers := AL.set s.disk.layers ln { dl with glifs := AL.set dl.glifs gn ⟨b, t⟩ } } } =
      { quietReport s with modified := [(ln, ⟨false, [gn], [], []⟩)] } :=
  report_after_xglyph_write h hord hl hdl hg hst hk hnodup hb ht

/-- COMPLETE, glyph files: a loaded, stamped glyph whose file now has other bytes and another
modification time than the stamp is in `modified`. -/
theorem detect_complete_glyph_modified (d : Disk) (ln gn : String) (l : MLayer) (g : MGlyph) (f st : File)
    (hg : (gn, g) ∈ l.glyphs) (hst : g.stamp = some st) (hf : glifOf d ln gn = some f)
    (hb : f.blob ≠ st.blob) (ht : f.mtime ≠ st.mtime) : gn ∈ layerModified d ln l :=
  (mem_layerModified_iff d ln l gn).2 ⟨g, f, st, hg, hf, hst, ht, hb⟩

/-- COMPLETE, glyph listing: a glyph file that appears on disk under a name the layer neither holds
nor has scheduled for deletion is in `added`; a key whose file vanished is in `deleted`. -/
theorem detect_complete_glyph_listing (d : Disk) (ln gn : String) (l : MLayer) :
    (gn ∈ glifNames d ln → gn ∉ l.keys → AL.get? l.sched gn = none → gn ∈ layerAdded d ln l) ∧
    (gn ∈ l.keys → gn ∉ glifNames d ln → gn ∈ layerDeleted d ln l) :=
  ⟨fun h1 h2 h3 => (mem_layerAdded_iff d ln l gn).2 ⟨h1, h2, Or.inl h3⟩,
   fun h1 h2 => (mem_layerDeleted_iff d ln l gn).2 ⟨h1, h2⟩⟩

/-! ## 4. Reloading converges -/

/-- RELOAD, top-level objects.  After `reloadInfo/Kerning/Groups/Features/Lib` the object is loaded,
its value is what a fresh read of the file gives, its stamp is the file, and a second test reports
`False` for it. -/
theorem reload_part_converges (s : State) (p : Part) :
    ∃ mp, getPart (reloadPart s p) p = some mp ∧ mp.value = readPart (reloadPart s p).disk p ∧
      AL.get? (report (reloadPart s p)).parts p = some (some false) := by
  obtain ⟨mp, h1, h2, h3, h4⟩ := reloadPart_spec s p
  refine ⟨mp, h1, by rw [h4]; exact h2, ?_⟩
  rw [get?_report_parts, h1, h4]
  simp [h3, partChanged_stampOf]

/-- RELOAD, histories.  The font is in step with its UFO; another program edits the top-level file
of `p` in any way (rewrite, create, touch, delete); `reloadInfo/…/reloadLib` for `p` then brings the
font back in step — so the second test reports nothing at all (`detect_sound`), and so does every
test after any further quiet history (`synced_step`). -/
theorem reload_part_resyncs (s : State) (h : Synced s) (p : Part) (a : XAct) (t : Option Time) (d' : Disk)
    (hx : xPart s.zip s.disk p a t = some d') :
    Synced (reloadPart { s with disk := d' } p) ∧
    report (reloadPart { s with disk := d' } p) = quietReport (reloadPart { s with disk := d' } p) :=
  ⟨synced_reload_after_xpart h hx, report_quiet (synced_reload_after_xpart h hx)⟩

/-- RELOAD, glyphs.  After a test, `reloadGlyphs` of a glyph whose file is on disk (modified: it is
loaded; added: it is not scheduled for deletion) succeeds, leaves the glyph with the file's content
and the file's stamp, and the second test does not list it as modified. -/
theorem reload_glyph_converges (s : State) (ln gn : String) (l : MLayer) (f : File) (hb : Bound s ln)
    (hl : getLayer s ln = some l) (hok : (AL.get? l.glyphs gn).isSome ∨ AL.contains l.sched gn = false)
    (hf : glifOf s.disk ln gn = some f) :
    ∃ s' l', reloadGlyph ln s gn = (s', none) ∧ s'.disk = s.disk ∧ getLayer s' ln = some l' ∧
      AL.get? l'.glyphs gn = some ⟨f.blob, false, some f⟩ ∧
      isModifiedGlyph s'.disk ln (gn, ⟨f.blob, false, some f⟩) = none := by
  obtain ⟨s', l', h1, h2, h3, h4⟩ := reloadGlyph_bound hb hl hok hf
  exact ⟨s', l', h1, h2, h3, h4, by rw [h2]; exact isModifiedGlyph_of_stamp hf⟩

/-- RELOAD, images and data.  When the font's reader sees the UFO as it is (always for a package;
for a zip after a test or a save), `reloadImages/reloadData` of a file that is on disk succeeds, the
entry holds the file's bytes with the file's stamp, and the second test does not list it. -/
theorem reload_file_converges (s : State) (img : Bool) (n : String) (f : File)
    (hz : s.zip = true → s.reader = s.disk) (hf : AL.get? (fsFiles s.disk img) n = some f) :
    ∃ s', reloadFile img s n = (s', none) ∧ s'.disk = s.disk ∧
      AL.get? (getFS s' img).entries n = some ⟨some f.blob, false, true, some f.mtime, some f.blob⟩ ∧
      isModifiedFile (fsFiles s'.disk img) (n, ⟨some f.blob, false, true, some f.mtime, some f.blob⟩) = none := by
  obtain ⟨s', h1, h2, h3⟩ := reloadFile_spec img hz hf
  exact ⟨s', h1, h2, h3, by rw [h2]; exact isModifiedFile_of_stamp hf⟩

/-! ## 4a. Reloading everything the report lists -/

/-- RELOAD, everything.  The font is in step with its UFO (and its bookkeeping tidy).  Another
program then changes the UFO in any way that deletes nothing the font lists (`Keeps`: there is no
reload method for deletions) — it may rewrite, touch, create or delete top-level files, rewrite and
add glyphs, change layer infos, rewrite and add images and data files, add layers, reorder them,
change the default layer (the result `d'` is a UFO: names unique, its default layer exists).  Then
`testForExternalChanges`, then the reload method for every entry of the report — `reloadInfo/…/
reloadLib` for the flagged objects, `reloadImages`, `reloadData` for the modified and added names,
`reloadLayers` with the added layers, the info and the modified and added glyphs of the modified
layers, the order and the default flags: no reload raises, and the second test names nothing. -/
theorem reload_all_converges (s : State) (h : Synced s) (ht : Tidy s) (d' : Disk) (hd : DiskOk d')
    (hn : (layerNames d').Nodup) (hdef : ∃ dn, d'.default = some dn ∧ dn ∈ layerNames d') (hk : Keeps s.disk d') :
    ∃ s3, reloadAuto (test { s with disk := d' }).1 = (s3, none) ∧ s3.disk = d' ∧
      report s3 = quietReport s3 := by
  obtain ⟨s3, e, hdisk, hs, _⟩ := reload_all h ht hd hn hdef hk
  exact ⟨s3, e, hdisk, report_settled hs⟩

/-- RELOAD, layers (after the repairs F58–F60).  In the same situation, after the reloads: the
second report lists nothing for layers (none added, none deleted, no order change, no default-layer
change, no layer entry); the layer set is the one a fresh open of the UFO reads — the same order, the
same default layer, the same layer names; every layer, the ones just added included, is bound to an
open glyph set of the font's reader that lists the glyphs on disk (F58: unread glyphs can be read,
`usable_lazy_read`); and the layer history holds no deletion and no default-layer change that a later
save would replay over the UFO (F60). -/
theorem reload_layers_converges (s : State) (h : Synced s) (ht : Tidy s) (d' : Disk) (hd : DiskOk d')
    (hn : (layerNames d').Nodup) (hdef : ∃ dn, d'.default = some dn ∧ dn ∈ layerNames d') (hk : Keeps s.disk d') :
    ∃ s3, reloadAuto (test { s with disk := d' }).1 = (s3, none) ∧
      ((report s3).added = [] ∧ (report s3).deleted = [] ∧ (report s3).order = false ∧
        (report s3).defaultLayer = false ∧ (report s3).modified = []) ∧
      (s3.font.order = (openFont s.zip d' s.emptyGlyph).font.order ∧
        s3.font.default = (openFont s.zip d' s.emptyGlyph).font.default ∧
        ∀ ln, AL.contains s3.font.layers ln = AL.contains (openFont s.zip d' s.emptyGlyph).font.layers ln) ∧
      (∀ ln, ln ∈ s3.font.order → Bound s3 ln) ∧
      (∀ a, a ∈ s3.font.history → TameAction s3.font.default a) := by
  obtain ⟨s3, e, hdisk, hs, hb, hh, honly⟩ := reload_all h ht hd hn hdef hk
  have hq := report_settled hs
  refine ⟨s3, e, ?_, ⟨?_, ?_, ?_⟩, hb, hh⟩
  · rw [hq]; exact ⟨rfl, rfl, rfl, rfl, rfl⟩
  · rw [hs.order, hdisk]; rfl
  · rw [hs.default, hdisk]; rfl
  · intro ln
    have e2 : AL.contains (openFont s.zip d' s.emptyGlyph).font.layers ln = AL.contains d'.layers ln :=
      contains_map_val openLayer d'.layers ln
    rw [e2]
    cases hc : AL.contains s3.font.layers ln with
    | true =>
      have := honly ln hc
      rw [hs.order, hdisk] at this
      exact ((AL_mem_keys_iff_contains _ _).1 this).symm
    | false =>
      cases hc2 : AL.contains d'.layers ln with
      | false => rfl
      | true =>
        exfalso
        have hin : ln ∈ s3.font.order := by
          rw [hs.order, hdisk]; exact (AL_mem_keys_iff_contains _ _).2 hc2
        obtain ⟨l, _, hg, _⟩ := hs.layers ln hin
        simp [AL.contains, hg] at hc

/-! ## 4b. Save-as -/

/-- SAVE-AS, in step.  A save-as (to a path where nothing exists) from a font in step with its UFO
leaves the font in step with the UFO it wrote: every top-level object, every glyph, every loaded
image and data file is stamped with what was written, the listings are what was written; so a test
right after it reports nothing, and so does every test after any further quiet history. -/
theorem saveas_resyncs (s s' : State) (h : Synced s) (tD tS : Time) (hr : saveAs s tD tS = .ok s') :
    Synced s' ∧ report s' = quietReport s' :=
  ⟨synced_saveAs h hr, report_quiet (synced_saveAs h hr)⟩

/-- SAVE-AS, pending deletions.  After a save-as (from any state) nothing is scheduled for deletion
any more — no glyph in any layer, no image, no data file: the deleted things were simply not
written to the new UFO, nothing is left to delete there. -/
theorem saveas_drops_schedules (s s' : State) (tD tS : Time) (hr : saveAs s tD tS = .ok s') :
    (∀ ln l, getLayer s' ln = some l → l.sched = []) ∧ s'.font.images.sched = [] ∧ s'.font.data.sched = [] :=
  saveAs_sched hr

/-- SAVE-AS, completeness.  Hence a glyph that another program later puts into the new UFO under a
name the layer does not hold is reported as added whatever its bytes and modification time — also
when it is, byte for byte, a glyph the font had deleted before the save-as. -/
theorem saveas_then_added_is_reported (s s' : State) (tD tS : Time) (hr : saveAs s tD tS = .ok s')
    (d' : Disk) (ln gn : String) (l : MLayer) (hl : getLayer s' ln = some l)
    (hon : gn ∈ glifNames d' ln) (hk : gn ∉ l.keys) : gn ∈ layerAdded d' ln l := by
  have hs := (saveAs_sched hr).1 ln l hl
  exact (mem_layerAdded_iff d' ln l gn).2 ⟨hon, hk, Or.inl (by rw [hs]; rfl)⟩

/-! ## 4c. In-place save -/

/-- SAVE, in step.  A completed in-place save of a font that is in step with its UFO — or in step
except for glyphs that exist in memory only — leaves the font in step with the UFO: every top-level
object, every glyph that was written, every image and data file that was written is stamped with
what was just written, the layer set has nothing left to replay; a test right after it reports
nothing, and so does every test after any further quiet history (`synced_step`). -/
theorem save_resyncs (s s' : State) (h : SyncedM s) (ht : Tidy s) (tD tS : Time) (hr : save s tD tS = .ok s') :
    Synced s' ∧ Tidy s' ∧ report s' = quietReport s' :=
  ⟨(synced_save_M h ht hr).1, (synced_save_M h ht hr).2, report_quiet (synced_save_M h ht hr).1⟩

/-- SAVE, pending deletions.  After a completed in-place save nothing is scheduled for deletion any
more — no glyph in any layer of the layer order, no image, no data file: the files were removed. -/
theorem save_drops_schedules (s s' : State) (h : SyncedM s) (ht : Tidy s) (tD tS : Time) (hr : save s tD tS = .ok s') :
    (∀ ln l, ln ∈ s'.font.order → getLayer s' ln = some l → l.sched = []) ∧
      s'.font.images.sched = [] ∧ s'.font.data.sched = [] := save_sched h ht hr

example : (run (openFont false demoDisk 9) [.gget "fore" "A", .gdel "fore" "A", .fget true "i.png", .fset true "i.png" none,
      .save 100 101]).font.images.sched = [] ∧
    (getLayer (run (openFont false demoDisk 9) [.gget "fore" "A", .gdel "fore" "A", .fget true "i.png", .fset true "i.png" none,
      .save 100 101]) "fore").map (·.sched) = some [] ∧
    (run (openFont false demoDisk 9) [.gget "fore" "A", .gdel "fore" "A", .fget true "i.png", .fset true "i.png" none,
      .save 100 101]).disk.images = [] := by decide

/-! ## 4d. Creating and renaming glyphs in memory -/

/-- EDITING.  Reading, editing, deleting, creating (`newGlyph`) and renaming (`glyph.name = …`)
glyphs, reading and editing top-level objects and layer info keep the font in step with its UFO
except for glyphs that exist in memory only.  Renaming schedules the file of the old name for
deletion with the stamp of that file; the glyph under its new name carries no stamp (fix F95) and is
dirty: the new name exists in memory only until the next save. -/
theorem edit_keeps_syncedM (s : State) (h : SyncedM s) (ht : Tidy s) (op : Op) (he : EditOp op) :
    SyncedM (step s op).1 ∧ Tidy (step s op).1 := edit_step h ht op he

/-- EDITING, the report.  In such a state the test names nothing at all except, per layer, as
`deleted` … -/
theorem report_memory_only (s : State) (h : SyncedM s) :
    report s = { quietReport s with modified := s.font.order.filterMap (memOnlyEntry s) } := report_memOnly h

/-- … exactly the glyphs that exist in memory only (finding F8.1: a glyph that was created or renamed
in memory and not saved yet is reported as externally deleted — and nothing else is ever wrong). -/
theorem memory_only_exact (d : Disk) (ln : String) (dl : DLayer) (l : MLayer) (hd : AL.get? d.layers ln = some dl)
    (h : LayerSyncedM ln dl l) (gn : String) :
    gn ∈ layerDeleted d ln l ↔ gn ∈ l.keys ∧ gn ∉ AL.keys dl.glifs ∧ MemOnly l gn := mem_layerDeleted_M hd h gn

/-- EDITING, then SAVE.  From a font in step: any sequence of such edits (glyphs created, renamed —
loaded or not —, deleted, created again, edited …), then a completed in-place save: the font is in
step again, the test reports nothing. -/
theorem edits_then_save_resyncs (s s' : State) (h : Synced s) (ht : Tidy s) (ops : List Op)
    (he : ∀ op ∈ ops, EditOp op) (tD tS : Time) (hr : save (run s ops) tD tS = .ok s') :
    Synced s' ∧ Tidy s' ∧ report s' = quietReport s' := by
  obtain ⟨h1, h2⟩ := edit_run h.toM ht ops he
  exact save_resyncs _ _ h1 h2 tD tS hr

/-- RE-CREATION.  Creating a glyph under a name whose file is on disk — a glyph deleted in memory
and created again under the same name, or a glyph replaced by a fresh one — keeps the font in step:
the pending deletion is dropped, the new glyph carries no stamp, nothing is reported (fix F57). -/
theorem recreate_keeps_synced (s s' : State) (h : Synced s) (ht : Tidy s) (ln gn : String)
    (hon : gn ∈ glifNames s.disk ln) (hr : newGlyph s ln gn = .ok s') :
    Synced s' ∧ report s' = quietReport s' :=
  ⟨synced_newGlyph_onDisk h ht hon hr, report_quiet (synced_newGlyph_onDisk h ht hon hr)⟩

/-- RENAMING onto a name whose file is on disk (deleted in memory before, or simply replaced) keeps
the font in step: the old file is scheduled for deletion with its own stamp, the file of the new name
is not compared with anything the glyph never read (fix F95), nothing is reported. -/
theorem rename_onto_file_keeps_synced (s : State) (h : Synced s) (ht : Tidy s) (ln old new : String)
    (hon : new ∈ glifNames s.disk ln) :
    Synced (renameGlyph s ln old new).1 ∧
      report (renameGlyph s ln old new).1 = quietReport (renameGlyph s ln old new).1 :=
  ⟨synced_renameGlyph_onDisk h ht ln old new hon, report_quiet (synced_renameGlyph_onDisk h ht ln old new hon)⟩

/-- F8.1 by renaming: the new name of a renamed glyph is reported as externally deleted until saved;
the old file, scheduled for deletion, is not reported as added. -/
theorem f8_renamed_glyph_violated :
    (report (run (openFont false demoDisk 9) [.grename "fore" "A" "A2"])).modified =
      [("fore", { info := false, modified := [], added := [], deleted := ["A2"] })] := by decide

/-! ## 5. The font stays usable after a test -/

/-- USABLE (F6 fix).  After `testForExternalChanges` every layer of the font that is on disk is bound
to an open glyph set of the font's new reader, whose contents are the glyphs on disk now; for a zip
that reader has the archive open as it is now. -/
theorem usable_after_test (s : State) (ln : String) (l : MLayer) (hord : ln ∈ s.font.order)
    (hdisk : AL.contains s.disk.layers ln = true) (hl : getLayer s ln = some l) : Bound (test s).1 ln :=
  bound_after_test hord hdisk hl

/-- USABLE, lazy reads.  Through a layer bound like that, every glyph that is on disk, not loaded
and not scheduled for deletion can be read: the read succeeds and yields the file's content. -/
theorem usable_lazy_read (s : State) (ln gn : String) (l : MLayer) (f : File) (hb : Bound s ln)
    (hl : getLayer s ln = some l) (hun : AL.get? l.glyphs gn = none) (hsc : AL.contains l.sched gn = false)
    (hf : glifOf s.disk ln gn = some f) :
    ∃ s', getGlyph s ln gn = .ok (s', ⟨f.blob, false, some f⟩) ∧ s'.disk = s.disk :=
  lazy_read_bound hb hl hun hsc hf

/-- USABLE, save.  The model's in-place save has no failing path except the two situations that are
outside the modelled domain (replaying the layer history would move a glyph directory onto the
occupied default directory — finding F53 —, or the UFO holds a layer the font does not hold): in
every other state a save after a test / a reload returns normally.  (That the real save does is
what the correspondence runs and the oracle check.) -/
theorem usable_save (s : State) (tD tS : Time) (e : Err) (h : save s tD tS = .error e) : e = .outsideDomain :=
  save_error_outside s tD tS e h

/-! ## 6. Non-vacuity: concrete states meeting the hypotheses, and the laws in action -/

def demo : State := run (openFont false demoDisk 9)
  [.touch .info, .gget "fore" "A", .fget true "i.png", .pset .info 3, .gset "fore" "A" 6, .fset false "d.txt" none,
   .xpart .info .touch (some 4), .xglyph "fore" "A" .touch (some 5), .test]

/-- (non-vacuity helper) the glyph names of the demonstration UFO are unique -/
def demoGlifs : ∀ ln dl, AL.get? demoDisk.layers ln = some dl → (AL.keys dl.glifs).Nodup := by
  intro ln dl h
  simp only [demoDisk, AL.get?_cons, AL.get?_nil] at h
  split at h
  · injection h with h; subst h; decide
  · split at h
    · injection h with h; subst h; decide
    · cases h

example : Synced demo ∧ Tidy demo :=
  inv_run (synced_openFont false demoDisk 9 (by decide) (by decide) (by decide))
    (tidy_open false demoDisk 9 (by decide) (by decide) demoGlifs) _ (by
    intro op hop
    simp only [List.mem_cons, List.mem_nil_iff, or_false] at hop
    rcases hop with h | h | h | h | h | h | h | h | h <;> subst h <;> trivial)
example : report demo = quietReport demo := by decide
/-- an external rewrite of the loaded fontinfo with a new time: exactly `info` is reported -/
example : (report (step demo (.xpart .info (.write 11) (some 6))).1).parts =
    [(.info, some true), (.kerning, none), (.groups, none), (.features, none), (.lib, none)] := by decide
/-- … the same bytes written back (byte-identical, new time): nothing -/
example : report (run demo [.xpart .info (.write 11) (some 6), .xpart .info (.write 1) (some 7)]) =
    quietReport demo := by decide
/-- deletion of a loaded top-level file is reported (F7), reload converges -/
example : (report (step demo (.xpart .info .delete none)).1).parts.head? = some (.info, some true) ∧
    (report (run demo [.xpart .info .delete none, .reloadpart .info])).parts.head? = some (.info, some false) := by
  decide
/-- a glyph rewritten externally is `modified`; after `reload` and a second test nothing is left -/
example : (report (step demo (.xglyph "fore" "A" (.write 12) (some 8))).1).modified =
    [("fore", { info := false, modified := ["A"], added := [], deleted := [] })] ∧
    (report (run demo [.xglyph "fore" "A" (.write 12) (some 8), .test, .reload])).modified = [] := by decide
/-- a glyph added externally is reported once, can then be read lazily (F6) -/
example : ((step (run demo [.xglyph "back" "B" (.write 13) (some 9), .test]) (.gget "back" "B")).2 matches .blob 13) := by
  decide
/-- the hypotheses of `reload_part_resyncs` / `usable_save` are met by concrete states -/
example : xPart demo.zip demo.disk .info (.write 11) (some 6) ≠ none := by decide
example : (save demo 100 101 matches .ok _) = true := by decide
/-- save-as: a glyph deleted in memory, save-as, the same bytes (5) put back by another program with a
new time: reported as added; after reload and a second test nothing is left, and it is in step -/
def demoSaveAs : State := run (openFont false demoDisk 9) [.gget "fore" "A", .gdel "fore" "A", .fset true "i.png" none,
  .saveas 50 51]
example : (saveAs (run (openFont false demoDisk 9) [.gget "fore" "A", .gdel "fore" "A"]) 50 51 matches .ok _) = true := by
  decide
example : report demoSaveAs = quietReport demoSaveAs := by decide
example : (report (step demoSaveAs (.xglyph "fore" "A" (.write 5) (some 3))).1).modified =
    [("fore", { info := false, modified := [], added := ["A"], deleted := [] })] ∧
    (report (run demoSaveAs [.xglyph "fore" "A" (.write 5) (some 3), .test, .reload])).modified = [] := by decide
example : (report (step demoSaveAs (.xfile true "i.png" (.write 7) (some 4))).1).images.added = ["i.png"] := by decide
example : Bound (test demo).1 "fore" := usable_after_test demo "fore" _ (by decide) (by decide) rfl

/-- another program rewrites fontinfo, creates kerning.plist, rewrites the loaded glyph `A`, adds a
glyph, changes a layer info, adds an image, rewrites the data file the font has scheduled for
deletion, adds a layer, reorders the layers and changes the default layer — and deletes nothing -/
def demoDisk2 : Disk :=
  { parts := [(.info, ⟨11, 6⟩), (.lib, ⟨2, 0⟩), (.kerning, ⟨21, 6⟩)]
    layers := [("new", { info := 4, glifs := [("N", ⟨14, 6⟩)] }), ("back", { info := 3, glifs := [("B", ⟨13, 6⟩)] }),
               ("fore", { info := 0, glifs := [("A", ⟨12, 6⟩), ("C", ⟨15, 6⟩)] })]
    default := some "back"
    images := [("i.png", ⟨7, 0⟩), ("j.png", ⟨17, 6⟩)], data := [("d.txt", ⟨18, 6⟩)] }
example : Keeps demo.disk demoDisk2 := by
  refine ⟨by decide, ?_, by decide, by decide⟩
  intro ln gn hgn
  by_cases e1 : ln = "fore"
  · subst e1; revert gn; decide
  · by_cases e2 : ln = "back"
    · subst e2; revert gn; decide
    · have : glifNames demo.disk ln = [] := by
        have hl : demo.disk.layers = [("fore", { info := 0, glifs := [("A", ⟨5, 5⟩)] }), ("back", {})] := by decide
        simp [glifNames, hl, AL.get?_cons, Ne.symm e1, Ne.symm e2]
      rw [this] at hgn
      cases hgn
example : DiskOk demoDisk2 := by
  refine ⟨?_, by decide, by decide⟩
  intro ln dl h
  simp only [demoDisk2, AL.get?_cons, AL.get?_nil] at h
  split at h
  · injection h with h; subst h; decide
  · split at h
    · injection h with h; subst h; decide
    · split at h
      · injection h with h; subst h; decide
      · cases h
example : (report { demo with disk := demoDisk2 }).added = ["new"] ∧ (report { demo with disk := demoDisk2 }).order = true ∧
    (report { demo with disk := demoDisk2 }).defaultLayer = true ∧
    (report { demo with disk := demoDisk2 }).modified =
      [("fore", { info := false, modified := ["A"], added := ["C"], deleted := [] }),
       ("back", { info := true, modified := [], added := ["B"], deleted := [] })] ∧
    (report { demo with disk := demoDisk2 }).images.added = ["j.png"] ∧
    (report { demo with disk := demoDisk2 }).data.added = ["d.txt"] := by decide
example : (reloadAuto (test { demo with disk := demoDisk2 }).1).2 = none ∧
    report (reloadAuto (test { demo with disk := demoDisk2 }).1).1 =
      quietReport (reloadAuto (test { demo with disk := demoDisk2 }).1).1 ∧
    (reloadAuto (test { demo with disk := demoDisk2 }).1).1.font.order = ["new", "back", "fore"] ∧
    (reloadAuto (test { demo with disk := demoDisk2 }).1).1.font.default = some "back" := by decide
/-- … and the next in-place save keeps every glyph file (F60) -/
example : ((save (reloadAuto (test { demo with disk := demoDisk2 }).1).1 100 101).toOption.map fun s' =>
    s'.disk.layers.map fun p => (p.1, AL.keys p.2.glifs)) =
      some [("new", ["N"]), ("back", ["B"]), ("fore", ["A", "C"])] := by decide

/-- in-place saves in the middle of a quiet history: values edited, a glyph and an image deleted in
memory, save, the deleted image created again, save, test -/
def demoSaves : List Op :=
  [.touch .info, .pset .info 3, .gget "fore" "A", .gset "fore" "A" 6, .fget true "i.png", .fset true "i.png" none,
   .save 100 101, .xpart .info .touch (some 4), .fset true "i.png" (some 7), .gdel "fore" "A", .save 102 103, .test]
example : ∀ op ∈ demoSaves, Quiet op := by
  intro op hop
  simp only [demoSaves, List.mem_cons, List.mem_nil_iff, or_false] at hop
  rcases hop with h | h | h | h | h | h | h | h | h | h | h | h <;> subst h <;> trivial
example : report (run (openFont false demoDisk 9) demoSaves) = quietReport (run (openFont false demoDisk 9) demoSaves) := by
  decide
example : (run (openFont true demoDisk 9) demoSaves).disk.layers = [("fore", { info := 0, glifs := [] }), ("back", {})] := by
  decide
example : Tidy (openFont false demoDisk 9) := tidy_open false demoDisk 9 (by decide) (by decide) demoGlifs
/-- an editing session: a glyph created, one renamed (never read before), one renamed onto a name on
disk after that glyph was deleted; the new names are reported as deleted (F8.1) until the save -/
def demoEdits : List Op := [.gnew "fore" "new", .grename "fore" "A" "A2", .gnew "back" "B", .gdel "back" "B", .gnew "back" "B"]
example : ∀ op ∈ demoEdits, EditOp op := by
  intro op hop
  simp only [demoEdits, List.mem_cons, List.mem_nil_iff, or_false] at hop
  rcases hop with h | h | h | h | h <;> subst h <;> trivial
example : (report (run (openFont false demoDisk 9) demoEdits)).modified =
    [("fore", { info := false, modified := [], added := [], deleted := ["new", "A2"] }),
     ("back", { info := false, modified := [], added := [], deleted := ["B"] })] := by decide
example : (save (run (openFont false demoDisk 9) demoEdits) 100 101 matches .ok _) = true := by decide
example : report (run (openFont false demoDisk 9) (demoEdits ++ [.save 100 101])) =
    quietReport (run (openFont false demoDisk 9) (demoEdits ++ [.save 100 101])) := by decide
/-- deletion and re-creation under the same name, renaming onto a file: nothing is reported -/
example : report (run (openFont false demoDisk 9) [.gget "fore" "A", .gdel "fore" "A", .gnew "fore" "A"]) =
    quietReport (run (openFont false demoDisk 9) [.gget "fore" "A", .gdel "fore" "A", .gnew "fore" "A"]) := by decide
def demoTwo : Disk := { demoDisk with layers := [("fore", { info := 0, glifs := [("A", ⟨5, 0⟩), ("B", ⟨6, 0⟩)] })] }
example : report (run (openFont false demoTwo 9) [.gdel "fore" "B", .grename "fore" "A" "B"]) =
    quietReport (run (openFont false demoTwo 9) [.gdel "fore" "B", .grename "fore" "A" "B"]) := by decide
example : "B" ∈ glifNames (run (openFont false demoTwo 9) [.gdel "fore" "B"]).disk "fore" := by decide

end DefconModel.Props.C05
