/-
C10 — Identifiers stay unique and the identifier registry matches what is in use.
(work in progress)
-/
import DefconModel.Ident

namespace DefconModel.Props.C10
open DefconModel DefconModel.Ident

/-- `makeRandomIdentifier` only ever returns a candidate that is not in `existing`. -/
theorem makeId_fresh (existing : List Id) (fuel : Nat) (cands : List Id) (x : Id)
    (h : makeId existing fuel cands = .ok x) : x ∉ existing := by
  induction fuel generalizing cands with
  | zero => simp [makeId] at h
  | succ n ih =>
    cases cands with
    | nil => simp [makeId] at h
    | cons c cs =>
      simp only [makeId] at h
      split at h
      · exact ih cs h
      · cases h; assumption

end DefconModel.Props.C10
