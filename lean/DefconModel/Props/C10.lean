/-
C10 — Identifiers stay unique and the identifier registry matches what is in use.

Property theorems about M-Ident (`DefconModel/Ident.lean`, the executable model of defcon's
identifier bookkeeping after the `repo_fixes/C10-*.diff` patches).  Definitions of "carried",
"held", `Exact`, `Inv` are in `Spec/Ident.lean`, helper lemmas in `Lemmas/Ident.lean`.

A *container* is a glyph or the font (`World.conts`); `g.reg` is its `identifiers` set,
`g.carried` the identifiers read off the contours, points, components, anchors and guidelines that
are in it.  `run {} ops` is the world after the operation sequence `ops` (any of the 62 kinds of
operation of `Ident.Op`, any arguments, any length).

Round 3: a glyph read from a GLIF (`reopen`), or fed the serialisation of such a glyph, holds its contours
in the lazily loaded *shallow* form (`g.shallow`): recorded pen calls whose identifiers are reserved in
`g.reg`.  `g.contours` then are those records, and `g.carried` counts their identifiers as in use.
`step w op = stepL (preload w op) op`: every operation first loads (`deepen`) the glyphs whose contours it
looks at, exactly where the code does (`preload`); drawing into a shallow glyph loads it at the first
`endPath` (`penEnd`); `setDataFromSerialization` of a shallow source makes the target shallow.  Every
theorem of sections 1-2 and 4-5 is stated over `step` / `run` and therefore covers every operation as the
FIRST touch of a shallow glyph; section 3 is restated "up to loading", section 6 is new.
-/
import DefconModel.Lemmas.IdentShallow

namespace DefconModel.Props.C10
open DefconModel DefconModel.Ident

/-! ## 1. The invariant of every reachable state -/

/-- One operation of any kind, with any arguments, on any world whose containers satisfy the
invariant, yields a world whose containers satisfy it: every identifier is held (by an inserted
object, by an object still being built for the container, or by an abandoned one) exactly as many
times as it is registered — once or not at all. -/
theorem inv_step (w : World) (op : Op) (h : WInv w) : WInv (step w op).1 := winv_step h op

/-- Every state reachable from the empty world by any operation sequence satisfies the invariant
(induction over the sequence). -/
theorem inv_reachable (ops : List Op) : WInv (run {} ops) := winv_run winv_init ops

/-- What the invariant says, in terms of lists: no identifier is held twice, the registry has no
repetition, and the registry is exactly the set of identifiers held. -/
theorem held_exact (g : Glyph) (h : Inv g) :
    g.held.Nodup ∧ g.reg.Nodup ∧ ∀ x, x ∈ g.reg ↔ x ∈ g.held := by
  refine ⟨?_, h.nodup, fun x => ?_⟩
  · rw [List.nodup_iff_count]
    intro x; rw [count_held, h.exact]; exact ind_le_one _ _
  · rw [← List.count_pos_iff (a := x) (l := g.held), count_held, h.exact]
    unfold ind; split <;> simp [*]

/-! ## 2. `ids_exact` : the registry equals the identifiers carried, and nobody shares one -/

/-- The full statement of the property for one history: after `ops`, in every container, no two
objects share an identifier and the registry is exactly the set of identifiers carried by the
objects in it. -/
def IdsExactAfter (ops : List Op) : Prop := ∀ g ∈ (run {} ops).conts, Exact g

/-- The full statement: for every history. -/
def IdsExactFull : Prop := ∀ ops, IdsExactAfter ops

/-- Between operations nothing is half-built: in every reachable state no container has a pen
contour in progress or instantiated-but-uninserted objects pending. -/
theorem settled_reachable (ops : List Op) : ∀ g ∈ (run {} ops).conts, g.Settled := by
  suffices H : ∀ (w : World), (∀ g ∈ w.conts, Q False g) → ∀ g ∈ (run w ops).conts, Q False g by
    intro g hg
    refine (H {} ?_ g hg).1
    intro g hg
    simp only [List.mem_cons, List.not_mem_nil, or_false] at hg
    rcases hg with rfl | rfl | rfl | rfl <;> exact q_empty False
  induction ops with
  | nil => intro w h; exact h
  | cons op ops ih =>
    intro w h
    exact ih _ (q_step False w op h (fun f => f.elim))

/-- PARTIAL (proved): in every reachable state, a container that holds no identifier of an
abandoned object (`leaked = []`, finding F29) satisfies the full statement: no identifier is
carried twice, and `identifiers` = the identifiers carried.
What is missing for the full statement is exactly F29: identifiers registered by objects that were
created for the container (`instantiate*`, a pen's contour) and then dropped before insertion. -/
theorem ids_exact_partial (ops : List Op) (g : Glyph) (hg : g ∈ (run {} ops).conts)
    (hl : g.leaked = []) : Exact g := by
  have h := held_exact g (inv_reachable ops g hg)
  obtain ⟨h1, h2, h3, h4, h5⟩ := settled_reachable ops g hg
  have hheld : g.held = g.carried := by
    simp [Glyph.held, Glyph.stagedIds, h1, h2, h3, h4, h5, hl]
  rw [hheld] at h
  exact ⟨h.1, h.2.2⟩

/-- F29 is the only way to leak: an operation that is not an `instantiate*`-without-insertion, and
that is not a composite cut short by a rejection, leaves a leak-free world leak-free. -/
theorem leak_only_at_f29 (w : World) (op : Op) (hS : ∀ g ∈ w.conts, g.Settled ∧ g.leaked = [])
    (hi : Op.inst op = false) (hc : Op.composite op = true → (step w op).2 = .ok) :
    ∀ g ∈ (step w op).1.conts, g.Settled ∧ g.leaked = [] := by
  intro g hg
  have := q_step True w op (fun g hg => ⟨(hS g hg).1, fun _ => (hS g hg).2⟩) (fun _ => ⟨hi, hc⟩) g hg
  exact ⟨this.1, this.2 trivial⟩

/-- `ids_exact` for every history that stays clear of F29 (`Clean`: no `instantiate*` without
insertion, no composite operation cut short — any other operations, any arguments, any length,
rejected single-object operations included): afterwards, in every container, no two objects share
an identifier and the registry is exactly the set of identifiers carried. -/
theorem ids_exact_clean (ops : List Op) (hclean : Clean {} ops) : IdsExactAfter ops := by
  have key : ∀ (ops : List Op) (w : World), (∀ g ∈ w.conts, g.Settled ∧ g.leaked = []) → Clean w ops →
      ∀ g ∈ (run w ops).conts, g.Settled ∧ g.leaked = [] := by
    intro ops
    induction ops with
    | nil => intro w h _; exact h
    | cons op ops ih =>
      intro w h hc
      exact ih _ (leak_only_at_f29 w op h hc.1 hc.2.1) hc.2.2
  intro g hg
  have h0 : ∀ g ∈ ({} : World).conts, g.Settled ∧ g.leaked = [] := by
    intro g hg
    simp only [List.mem_cons, List.not_mem_nil, or_false] at hg
    rcases hg with rfl | rfl | rfl | rfl <;> exact ⟨⟨rfl, rfl, rfl, rfl, rfl⟩, rfl⟩
  exact ids_exact_partial ops g hg (key ops {} h0 hclean g hg).2

/-- In every reachable state, whatever was leaked: no two objects of a container share an
identifier, and every identifier carried by an object is registered. -/
theorem carried_unique_and_registered (ops : List Op) (g : Glyph) (hg : g ∈ (run {} ops).conts) :
    g.carried.Nodup ∧ ∀ x ∈ g.carried, x ∈ g.reg := by
  have h := held_exact g (inv_reachable ops g hg)
  refine ⟨?_, fun x hx => (h.2.2 x).mpr ?_⟩
  · have : g.carried.Sublist g.held := by
      unfold Glyph.held
      rw [List.append_assoc]
      exact List.sublist_append_left _ _
    exact this.nodup h.1
  · unfold Glyph.held; simp [hx]

/-- VIOLATED (F29): `glyph.instantiateAnchor({"identifier": 1})` registers 1 although no object of
the glyph carries it. -/
theorem ids_exact_violated : ¬ IdsExactFull := by
  intro h
  have h1 := h [.instAnchor 0 (some 1)] ((run {} [.instAnchor 0 (some 1)]).get 0) (by decide)
  exact absurd ((h1.same 1).mp (by decide)) (by decide)

/-- VIOLATED (F29, pen): a contour drawn through the glyph's pen is rejected at its second point
(identifier 2 is taken by an anchor); the contour is dropped, but its identifier 1 and its first
point's identifier 3 stay registered. -/
theorem ids_exact_violated_pen :
    ¬ IdsExactAfter [.insAnchor 0 0 (some 2) false,
                     .draw 0 [⟨some 1, [⟨.line, some 3⟩, ⟨.line, some 2⟩]⟩] [] false] := by
  intro h
  have h1 := h ((run {} [.insAnchor 0 0 (some 2) false,
      .draw 0 [⟨some 1, [⟨.line, some 3⟩, ⟨.line, some 2⟩]⟩] [] false]).get 0) (by decide)
  exact absurd ((h1.same 3).mp (by decide)) (by decide)

/-- VIOLATED (F29, copy): the same through `copyDataFromGlyph`. -/
theorem ids_exact_violated_copy :
    ¬ IdsExactAfter [.insContour 1 0 ⟨some 1, [⟨.line, some 3⟩, ⟨.line, some 2⟩]⟩,
                     .insComp 0 0 ⟨9, some 2⟩, .copyFrom 0 1] := by
  intro h
  have h1 := h ((run {} [.insContour 1 0 ⟨some 1, [⟨.line, some 3⟩, ⟨.line, some 2⟩]⟩,
      .insComp 0 0 ⟨9, some 2⟩, .copyFrom 0 1]).get 0) (by decide)
  exact absurd ((h1.same 3).mp (by decide)) (by decide)

/-- VIOLATED (F29, drawPoints into another glyph's pen): as `ids_exact_violated_pen`, the outline
coming from glyph 1. -/
theorem ids_exact_violated_drawFrom :
    ¬ IdsExactAfter [.insContour 1 0 ⟨some 1, [⟨.line, some 3⟩, ⟨.line, some 2⟩]⟩,
                     .insAnchor 0 0 (some 2) false, .drawFrom 0 1 false] := by
  intro h
  have h1 := h ((run {} [.insContour 1 0 ⟨some 1, [⟨.line, some 3⟩, ⟨.line, some 2⟩]⟩,
      .insAnchor 0 0 (some 2) false, .drawFrom 0 1 false]).get 0) (by decide)
  exact absurd ((h1.same 3).mp (by decide)) (by decide)

/-- VIOLATED (F29, deserialisation): identifier 2 is still held by an abandoned anchor; the
deserialised contour is rejected at its second point, its identifiers 1 and 3 stay registered. -/
theorem ids_exact_violated_deserialize :
    ¬ IdsExactAfter [.insContour 1 0 ⟨some 1, [⟨.line, some 3⟩, ⟨.line, some 2⟩]⟩,
                     .instAnchor 0 (some 2), .deserializeFrom 0 1] := by
  intro h
  have h1 := h ((run {} [.insContour 1 0 ⟨some 1, [⟨.line, some 3⟩, ⟨.line, some 2⟩]⟩,
      .instAnchor 0 (some 2), .deserializeFrom 0 1]).get 0) (by decide)
  exact absurd ((h1.same 3).mp (by decide)) (by decide)

/-- VIOLATED (F29, reload): the same when the contour comes from the glyph's file. -/
theorem ids_exact_violated_reload :
    ¬ IdsExactAfter [.instAnchor 0 (some 2),
                     .reload 0 { contours := [⟨some 1, [⟨.line, some 3⟩, ⟨.line, some 2⟩]⟩] }] := by
  intro h
  have h1 := h ((run {} [.instAnchor 0 (some 2),
      .reload 0 { contours := [⟨some 1, [⟨.line, some 3⟩, ⟨.line, some 2⟩]⟩] }]).get 0) (by decide)
  exact absurd ((h1.same 3).mp (by decide)) (by decide)

-- non-vacuity: a reachable, settled, leak-free container with a non-trivial registry
example : ((run {} [.insContour 0 0 ⟨some 1, [⟨.line, some 2⟩, ⟨.off, none⟩]⟩, .insAnchor 0 0 (some 3) true,
    .rmPoint 0 0 0]).get 0).reg = [1, 3] := by decide
example : Clean {} [.insContour 0 0 ⟨some 1, [⟨.line, some 2⟩]⟩, .insAnchor 0 0 (some 2) true,
    .copyFrom 1 0, .reverse 0 0, .rmContour 0 0] := by decide
example : ((run {} [.insAnchor 0 0 (some 2) false,
    .draw 0 [⟨some 1, [⟨.line, some 3⟩, ⟨.line, some 2⟩]⟩] [] false]).get 0).leaked = [1, 3] := by decide

/-! ## 3. `reject_unchanged` : a rejected duplicate leaves the container unchanged -/

/-- `insertContour` (patched, F15) rejects exactly when one of the contour's identifiers (its own or
a point's) is already registered or occurs twice in the contour … -/
theorem insertContour_rejects_iff (g : Glyph) (idx : Nat) (c : Contour) :
    (insertContour g idx c).2 = .err .assertion ↔ ((∃ y ∈ c.ids, y ∈ g.reg) ∨ ¬ c.ids.Nodup) := by
  unfold insertContour
  cases hf : freshAll g.reg [] c.ids with
  | true =>
    have := freshAll_spec hf
    simp only [if_true]
    constructor
    · intro h; cases h
    · rintro (⟨y, hy, hr⟩ | hn)
      · exact absurd hr (this.2 y hy).1
      · exact absurd this.1 hn
  | false => simpa using freshAll_false hf

/-- … and then the glyph — registry included — is unchanged; otherwise it registers every
identifier of the contour. -/
theorem insertContour_reject_unchanged (g : Glyph) (idx : Nat) (c : Contour)
    (h : (insertContour g idx c).2 ≠ .ok) : (insertContour g idx c).1 = g := by
  unfold insertContour at h ⊢
  split
  · rename_i hf; simp [hf] at h
  · rfl

/-- Inserting a component / anchor / guideline whose identifier is registered is rejected, and only
then. -/
theorem insertObject_rejects_iff (g : Glyph) (idx : Nat) (k : Comp) (v : Option Id) :
    ((insertComp g idx k).2 = .err .assertion ↔ ∃ x, k.id = some x ∧ x ∈ g.reg) ∧
    ((insertAnchor g idx v).2 = .err .assertion ↔ ∃ x, v = some x ∧ x ∈ g.reg) ∧
    ((insertGuide g idx v).2 = .err .assertion ↔ ∃ x, v = some x ∧ x ∈ g.reg) := by
  have key : ∀ (reg : List Id) (v : Option Id), claimOpt reg v = none ↔ ∃ x, v = some x ∧ x ∈ reg := by
    intro reg v
    cases v with
    | none => simp [claimOpt]
    | some y => by_cases hy : y ∈ reg <;> simp [claimOpt, hy]
  refine ⟨?_, ?_, ?_⟩
  · unfold insertComp; rw [← key]; cases claimOpt g.reg k.id <;> simp
  · unfold insertAnchor; rw [← key]; cases claimOpt g.reg v <;> simp
  · unfold insertGuide; rw [← key]; cases claimOpt g.reg v <;> simp

/-- The identifier setter of a contour, component, anchor or guideline that is in a container
rejects a registered value, and then neither the object nor the registry changes. -/
theorem setIdent_reject_unchanged (cur : Option Id) (reg : List Id) (v : Option Id) :
    ((setIdent cur reg v).2.2 = .err .assertion ↔ (cur = none ∧ ∃ x, v = some x ∧ x ∈ reg)) ∧
    ((setIdent cur reg v).2.2 ≠ .ok → (setIdent cur reg v).1 = cur ∧ (setIdent cur reg v).2.1 = reg) := by
  refine ⟨?_, setIdent_err⟩
  unfold setIdent
  cases cur with
  | some c => simp
  | none =>
    cases v with
    | none => simp
    | some x => by_cases hx : x ∈ reg <;> simp [hx]

/-- `reject_unchanged`: when an operation that introduces a single object or a single identifier
(insertion or re-insertion of a contour, point, component, anchor or guideline; an identifier
setter; `generateIdentifier*`) is rejected with an AssertionError, the whole world — every
container's objects and registry, and the limbo of detached objects — is exactly what it was once
the glyphs the operation looks at first were loaded (`preload`: `insertContour` asks
`contour not in self` before it checks anything, so a glyph whose contours were still shallow is
loaded even when the contour is rejected) … -/
theorem reject_unchanged (w : World) (op : Op) (hs : Op.single op = true)
    (h : (step w op).2 = .err .assertion) : (step w op).1 = preload w op :=
  stepL_reject_unchanged (preload w op) op hs h

/-- … which no observer can tell from the world before the call: in every reachable world (any
world satisfying the invariant) the world after a rejected single-object operation holds the same
objects and registers the same identifiers, container by container, as the world before it. -/
theorem reject_unchanged_observably (w : World) (hw : WInv w) (op : Op) (hs : Op.single op = true)
    (h : (step w op).2 = .err .assertion) : ((step w op).1).Same w := by
  rw [reject_unchanged w op hs h]; exact preload_same hw op

/-- … and when every glyph's contours are loaded already (the setting of rounds 1 and 2) it IS the
world before the call. -/
theorem reject_unchanged_loaded (w : World) (hl : w.Loaded) (op : Op) (hs : Op.single op = true)
    (h : (step w op).2 = .err .assertion) : (step w op).1 = w := by
  rw [reject_unchanged w op hs h]; exact preload_of_loaded hl op

-- non-vacuity: a rejected insertion (identifier 1 is taken) and a rejected setter
example : (step (run {} [.insAnchor 0 0 (some 1) true]) (.insContour 0 0 ⟨some 2, [⟨.line, some 1⟩]⟩)).2
    = .err .assertion := by decide
example : (step (run {} [.insAnchor 0 0 (some 1) true, .insGuide 0 0 none false]) (.setGuideId 0 0 (some 1))).2
    = .err .assertion := by decide

/-! ## 3b. Refused calls: nothing is freed, nothing is registered -/

/-- `refused_unchanged`: a call the container has to refuse — `removePoint` / `removeContour` /
`removeComponent` / `removeAnchor` / `removeGuideline` with an object that is not in the container
(a point of a sibling contour, the Point object that `reverse()` replaced, an object that was removed
before, an object of another glyph), or the insertion of an anchor / guideline dict whose colour is
not a colour — answers with an error and leaves the whole world exactly as it was once the glyphs it
looks at first were loaded (`removeContour` asks `contour not in self`, which loads a shallow glyph
before the stranger is refused): no identifier is freed although the stranger carries it, none is
registered although the dict names one. -/
theorem refused_unchanged (w : World) (op : Op) (h : Op.refused op = true) :
    (step w op).1 = preload w op ∧ ∃ e, (step w op).2 = .err e :=
  stepL_refused_unchanged (preload w op) op h

/-- … which no observer can tell from the world before the call (reachable worlds), and which is the
world before the call when every glyph is loaded. -/
theorem refused_unchanged_observably (w : World) (hw : WInv w) (op : Op) (h : Op.refused op = true) :
    ((step w op).1).Same w ∧ (w.Loaded → (step w op).1 = w) := by
  rw [(refused_unchanged w op h).1]
  exact ⟨preload_same hw op, fun hl => preload_of_loaded hl op⟩

/-- … and the error is the one Python raises: ValueError from `list.remove` for a point that is not in
the contour the call names (whenever the glyph, its contours loaded, has a contour at all). -/
theorem rmAbsentPoint_valueError (w : World) (t rc : Nat) (h : ((w.load t).get t).contours ≠ []) :
    step w (.rmAbsentPoint t rc) = (w.load t, .err .value) := by
  simp only [step, preload, stepL, pick]
  have : ((w.load t).get t).contours.length ≠ 0 := fun h0 => h (List.length_eq_zero_iff.mp h0)
  simp [this]

/-- An assignment `glyph.anchors = [...]` / `container.guidelines = [...]` of dicts that is cut short by
a dict with an invalid colour leaves exactly the world the assignment of the valid dicts before it
leaves (so the invariant and exactness theorems above apply to it), and does not answer "ok". -/
theorem setDictsBad_as_valid_prefix (w : World) (t : Nat) (vs : List (Option Id)) :
    (step w (.setAnchorsBad t vs)).1 = (step w (.setAnchors t vs)).1 ∧
    (step w (.setAnchorsBad t vs)).2 ≠ .ok ∧
    (step w (.setGuidesBad t vs)).1 = (step w (.setGuides t vs)).1 ∧
    (step w (.setGuidesBad t vs)).2 ≠ .ok := by
  refine ⟨rfl, ?_, rfl, ?_⟩
  · simp only [step, preload, stepL]
    split
    · intro hh; cases hh
    · rename_i hne; exact fun hh => hne (by rw [hh])
  · simp only [step, preload, stepL]
    split
    · intro hh; cases hh
    · rename_i hne; exact fun hh => hne (by rw [hh])

-- non-vacuity: the Point object kept from before `reverse()` is refused, identifier 3 stays registered
-- (the reversed contour's new point carries it), so an anchor with identifier 3 is still rejected
example : (step (run {} [.insContour 0 0 ⟨some 1, [⟨.line, some 2⟩, ⟨.line, some 3⟩, ⟨.line, some 4⟩]⟩,
    .reverse 0 0]) (.rmAbsentPoint 0 0)).2 = .err .value := by decide
example : (step (run {} [.insContour 0 0 ⟨some 1, [⟨.line, some 2⟩, ⟨.line, some 3⟩, ⟨.line, some 4⟩]⟩,
    .reverse 0 0, .rmAbsentPoint 0 0]) (.insAnchor 0 0 (some 3) true)).2 = .err .assertion := by decide
-- an anchor of glyph 1 handed to glyph 0's removeAnchor; a rejected dict; a cut-short assignment
example : (step (run {} [.insAnchor 1 0 (some 1) true, .insAnchor 0 0 (some 1) false])
    (.rmForeign 2 0 1 0)).2 = .err .value := by decide
example : ((run {} [.insAnchor 0 0 (some 1) true, .insAnchorBad 0 1 (some 2), .setAnchorsBad 0 [some 3, none]]).get 0).reg
    = [3] := by decide
example : Clean {} [.insAnchor 0 0 (some 1) true, .insAnchorBad 0 1 (some 2), .rmAbsent 2 0 0,
    .setGuidesBad 3 [some 3]] := by decide

/-! ## 4. `generated_fresh` : generated identifiers are new -/

/-- `makeRandomIdentifier(existing)` (candidates are inputs, at most 50 attempts): whatever it
returns is one of the candidates and is not in `existing` — freshness is the retry loop's exit
condition. -/
theorem makeId_fresh_spec (existing : List Id) (fuel : Nat) (cands : List Id) (x : Id)
    (h : makeId existing fuel cands = .ok x) : x ∉ existing ∧ x ∈ cands :=
  ⟨makeId_fresh h, makeId_mem h⟩

/-- … and it gives up (NotImplementedError) only after 50 colliding candidates. -/
theorem makeId_gives_up (existing : List Id) (cands : List Id)
    (h : makeId existing 50 cands = .error .notImplemented) :
    50 ≤ cands.length ∧ ∀ c ∈ cands.take 50, c ∈ existing := by
  suffices H : ∀ (n : Nat) (cands : List Id), makeId existing n cands = .error .notImplemented →
      n ≤ cands.length ∧ ∀ c ∈ cands.take n, c ∈ existing from H 50 cands h
  intro n
  induction n with
  | zero => intro cands _; simp
  | succ n ih =>
    intro cands h
    cases cands with
    | nil => simp [makeId] at h
    | cons c cs =>
      simp only [makeId] at h
      split at h
      · rename_i hc
        obtain ⟨h1, h2⟩ := ih cs h
        refine ⟨by simp; omega, ?_⟩
        intro d hd
        simp only [List.take_succ_cons, List.mem_cons] at hd
        rcases hd with rfl | hd
        · exact hc
        · exact h2 d hd
      · cases h

/-- `Contour.generateIdentifier()` on a contour of a container: an existing identifier is returned
as it is and nothing changes; otherwise the returned identifier was not registered before, is
registered afterwards, and is the contour's identifier. -/
theorem generated_fresh_contour (g : Glyph) (ci : Nat) (cands : List Id) (c : Contour)
    (hc : g.contours[ci]? = some c) (v : Option Id) (h : (genContourId g ci cands).2 = .gen v) :
    (∀ y, c.id = some y → v = some y ∧ (genContourId g ci cands).1 = g) ∧
    (c.id = none → ∃ x, v = some x ∧ x ∉ g.reg ∧ x ∈ (genContourId g ci cands).1.reg ∧
      (genContourId g ci cands).1.contours[ci]? = some { c with id := some x }) := by
  unfold genContourId at h ⊢
  simp only [hc] at h ⊢
  cases hid : c.id with
  | some y =>
    simp only [hid] at h
    simp only [Res.gen.injEq] at h
    refine ⟨fun y' hy' => ?_, fun hn => by cases hn⟩
    cases hy'
    exact ⟨h.symm, rfl⟩
  | none =>
    simp only [hid] at h
    refine ⟨fun y hy => (by cases hy), fun _ => ?_⟩
    dsimp only
    cases hm : makeId g.reg 50 cands with
    | error e => simp [hm] at h
    | ok x =>
      have hx := makeId_fresh hm
      simp only [hm, setIdent, hx, if_false] at h ⊢
      simp only [Res.gen.injEq] at h
      refine ⟨x, h.symm, hx, ?_, ?_⟩
      · simp [mem_regAdd]
      · simp [(List.getElem?_eq_some_iff.mp hc).1]

/-- `Contour.generateIdentifierForPoint(point)`: same for a point of a contour of a container. -/
theorem generated_fresh_point (g : Glyph) (ci pi : Nat) (cands : List Id) (c : Contour) (p : Point)
    (hc : g.contours[ci]? = some c) (hp : c.pts[pi]? = some p) (v : Option Id)
    (h : (genPointId g ci pi cands).2 = .gen v) :
    (∀ y, p.id = some y → v = some y ∧ (genPointId g ci pi cands).1 = g) ∧
    (p.id = none → ∃ x, v = some x ∧ x ∉ g.reg ∧ x ∈ (genPointId g ci pi cands).1.reg ∧
      (genPointId g ci pi cands).1.contours[ci]? =
        some { c with pts := c.pts.set pi { p with id := some x } }) := by
  unfold genPointId at h ⊢
  simp only [hc, hp] at h ⊢
  cases hid : p.id with
  | some y =>
    simp only [hid] at h
    simp only [Res.gen.injEq] at h
    refine ⟨fun y' hy' => ?_, fun hn => by cases hn⟩
    cases hy'
    exact ⟨h.symm, rfl⟩
  | none =>
    simp only [hid] at h
    refine ⟨fun y hy => (by cases hy), fun _ => ?_⟩
    dsimp only
    cases hm : makeId g.reg 50 cands with
    | error e => simp [hm] at h
    | ok x =>
      have hx := makeId_fresh hm
      simp only [hm] at h ⊢
      simp only [Res.gen.injEq] at h
      refine ⟨x, h.symm, hx, ?_, ?_⟩
      · simp [mem_regAdd]
      · simp [setPts, (List.getElem?_eq_some_iff.mp hc).1]

/-- `generateIdentifier()` of a component, an anchor, a guideline of a container: when the object
has no identifier, the one returned was not registered before and is registered afterwards. -/
theorem generated_fresh_object (g : Glyph) (i : Nat) (cands : List Id) (x : Id) :
    (∀ k, g.comps[i]? = some k → k.id = none → (genCompId g i cands).2 = .gen (some x) →
        x ∉ g.reg ∧ x ∈ (genCompId g i cands).1.reg ∧
        (genCompId g i cands).1.comps[i]? = some { k with id := some x }) ∧
    (g.anchors[i]? = some none → (genAnchorId g i cands).2 = .gen (some x) →
        x ∉ g.reg ∧ x ∈ (genAnchorId g i cands).1.reg ∧ (genAnchorId g i cands).1.anchors[i]? = some (some x)) ∧
    (g.guides[i]? = some none → (genGuideId g i cands).2 = .gen (some x) →
        x ∉ g.reg ∧ x ∈ (genGuideId g i cands).1.reg ∧ (genGuideId g i cands).1.guides[i]? = some (some x)) := by
  refine ⟨?_, ?_, ?_⟩
  · intro k hk hid h
    unfold genCompId genFor at h ⊢
    simp only [hk, hid] at h ⊢
    cases hm : makeId g.reg 50 cands with
    | error e => simp [hm] at h
    | ok y =>
      have hy := makeId_fresh hm
      simp only [hm, setCompId, hk, setIdent, hid, hy, if_false] at h ⊢
      simp only [Res.gen.injEq, Option.some.injEq] at h
      subst h
      refine ⟨hy, by simp [mem_regAdd], ?_⟩
      simp [(List.getElem?_eq_some_iff.mp hk).1]
  · intro hk h
    unfold genAnchorId genFor at h ⊢
    simp only [hk] at h ⊢
    cases hm : makeId g.reg 50 cands with
    | error e => simp [hm] at h
    | ok y =>
      have hy := makeId_fresh hm
      simp only [hm, setAnchorId, hk, setIdent, hy, if_false] at h ⊢
      simp only [Res.gen.injEq, Option.some.injEq] at h
      subst h
      refine ⟨hy, by simp [mem_regAdd], ?_⟩
      simp [(List.getElem?_eq_some_iff.mp hk).1]
  · intro hk h
    unfold genGuideId genFor at h ⊢
    simp only [hk] at h ⊢
    cases hm : makeId g.reg 50 cands with
    | error e => simp [hm] at h
    | ok y =>
      have hy := makeId_fresh hm
      simp only [hm, setGuideId, hk, setIdent, hy, if_false] at h ⊢
      simp only [Res.gen.injEq, Option.some.injEq] at h
      subst h
      refine ⟨hy, by simp [mem_regAdd], ?_⟩
      simp [(List.getElem?_eq_some_iff.mp hk).1]

-- non-vacuity: two colliding candidates, then a fresh one
example : (step (run {} [.insContour 0 0 ⟨none, [⟨.line, some 1⟩, ⟨.line, some 2⟩]⟩])
    (.genContourId 0 0 [1, 2, 7])).2 = .gen (some 7) := by decide
example : makeId [1, 2] 50 [1, 2, 1, 7, 8] = .ok 7 := by rfl

/-! ## 5. Removal never fails: `identifiers.remove` finds what it frees -/

/-- Under the invariant, removing a contour, component, anchor, guideline or point, or clearing a
whole list, never raises KeyError: every identifier an object carries is registered. -/
theorem remove_no_keyError (g : Glyph) (h : Inv g) (i j : Nat) :
    (removeContour g i).2.1 ≠ .err .key ∧ (removeComp g i).2.1 ≠ .err .key ∧
    (removeAnchor g i).2.1 ≠ .err .key ∧ (removeGuide g i).2.1 ≠ .err .key ∧
    (removePoint g i j).2 ≠ .err .key ∧ (clearContours i g).2.1 ≠ .err .key ∧
    (clearComps i g).2.1 ≠ .err .key ∧ (clearAnchors i g).2.1 ≠ .err .key ∧
    (clearGuides i g).2.1 ≠ .err .key :=
  ⟨(removeContour_spec h i).2, (removeComp_spec h i).2, (removeAnchor_spec h i).2,
   (removeGuide_spec h i).2, removePoint_no_keyError h i j, (clearContours_spec h i).2,
   (clearComps_spec h i).2, (clearAnchors_spec h i).2, (clearGuides_spec h i).2⟩

/-! ## 6. Lazily loaded (shallow) contours: their identifiers are in use, and loading them is invisible -/

/-- `deepen_invisible`: fully loading the contours of a glyph (`Glyph._fullyLoadShallowLoadedContours`, run by
any read access: `len`, iteration, indexing, `in`, `contourIndex`) in a container that satisfies the invariant
changes neither the objects — the contours and points that come out are the records that went in, with their
identifiers; components, anchors, guidelines, staged and abandoned objects are not touched — nor the set of
registered identifiers (the reservations are discarded and registered again: `identifiers` is a set, only its
listing order may change), nor, hence, the identifiers in use; the invariant is kept, and the glyph is loaded. -/
theorem deepen_invisible (g : Glyph) (h : Inv g) :
    (deepen g).Same g ∧ (deepen g).carried = g.carried ∧ (deepen g).held = g.held ∧
    Inv (deepen g) ∧ (deepen g).shallow = false := by
  have hs := deepen_same h
  refine ⟨hs, ?_, ?_, inv_deepen h, deepen_shallow g⟩
  · simp only [Glyph.carried, hs.contours, hs.comps, hs.anchors, hs.guides]
  · simp only [Glyph.held, Glyph.carried, Glyph.stagedIds, hs.contours, hs.comps, hs.anchors, hs.guides, hs.cur,
      hs.stC, hs.stK, hs.stA, hs.stG, hs.leaked]

/-- The read access itself cannot fail: in a container that satisfies the invariant the pen that loads the
records never meets an identifier that is taken (`Contour.identifier = …` / `Contour.insertPoint` assert it),
whatever else is registered — anchors, guidelines, components, contours being drawn, leaked identifiers. -/
theorem deepen_never_rejects (g : Glyph) (h : Inv g) :
    ∃ r, loadContours (discardAll g.reg (g.contours.flatMap Contour.ids)) [] g.contours = some r :=
  Ident.deepen_never_rejects h

/-- `load_invisible`, for histories: after any operation sequence, looking at the contours of any glyph
(`len(glyph)`) succeeds, leaves every container with the same objects and the same registered identifiers,
and the glyph's contours are loaded afterwards. -/
theorem load_invisible (ops : List Op) (t : Nat) :
    (step (run {} ops) (.load t)).2 = .ok ∧ ((step (run {} ops) (.load t)).1).Same (run {} ops) ∧
    (t < (run {} ops).conts.length → (((step (run {} ops) (.load t)).1).get t).shallow = false) :=
  ⟨rfl, load_same (inv_reachable ops) t, load_loads _ t⟩

/-- Before anything else an operation loads the glyphs whose contours it looks at first; in every reachable
world that changes nothing an observer can tell, and in a world whose glyphs are all loaded it changes nothing
at all.  Hence every operation of the model — clear, clearContours, setDataFromSerialization, copyDataFromGlyph,
drawing from and into, insertContour, removeContour, decomposeComponent, reloadGlyphs, insertGlyph … — can be
the FIRST touch of a shallow glyph, and the theorems above (stated over `step`) speak about exactly that. -/
theorem preload_invisible (ops : List Op) (op : Op) :
    (preload (run {} ops) op).Same (run {} ops) ∧ ((run {} ops).Loaded → preload (run {} ops) op = run {} ops) :=
  ⟨preload_same (inv_reachable ops) op, fun hl => preload_of_loaded hl op⟩

/-- The loaded twin, exactly: an operation whose first action is a read access to the contours of glyph `t`
(`insertContour`, `removeContour`, `clearContours`, `clear`, `reloadGlyphs`, every call that names a contour by its
index, `len(glyph)`) has the same result and leaves the same world — not just an indistinguishable one — whether
glyph `t` was still shallow or had been loaded beforehand. -/
theorem loaded_twin_exact (w : World) (op : Op) (t : Nat) (h : Op.looksFirst op = some t) :
    step (w.load t) op = step w op := step_load_eq w op t h

/-- The identifiers reserved by contours that are still shallow count as in use: in every reachable state, every
identifier of a shallow record (the contour's own, its points') is registered, and nothing else in the container
— no other record, no component, anchor or guideline — carries it. -/
theorem shallow_reserved_in_use (ops : List Op) (g : Glyph) (hg : g ∈ (run {} ops).conts)
    (c : Contour) (hc : c ∈ g.contours) (x : Id) (hx : x ∈ c.ids) :
    x ∈ g.reg ∧ g.carried.count x = 1 := by
  have h := carried_unique_and_registered ops g hg
  have hm : x ∈ g.carried := by
    unfold Glyph.carried
    simp only [List.mem_append, List.mem_flatMap]
    exact Or.inl (Or.inl (Or.inl ⟨c, hc, hx⟩))
  exact ⟨h.2 x hm, by rw [h.1.count]; simp [hm]⟩

/-- `clear_releases` (the seeded fault C10-9, ruled out for the model): `glyph.clearContours()` — the first
statement of `glyph.clear()` and of `glyph.setDataFromSerialization()` too — in any world that satisfies the
invariant, on a glyph whose contours are loaded or still shallow: the call succeeds, the glyph has no contour
left and is loaded, and every identifier that its contours or their points carried (reserved, for shallow ones) is
free again — the same outline can be drawn anew. -/
theorem clear_releases (w : World) (hw : WInv w) (t : Nat) (ht : t < w.conts.length) :
    (step w (.clearContours t)).2 = .ok ∧ ((step w (.clearContours t)).1.get t).contours = [] ∧
    ((step w (.clearContours t)).1.get t).shallow = false ∧
    ∀ c ∈ (w.get t).contours, ∀ x ∈ c.ids, x ∉ ((step w (.clearContours t)).1.get t).reg := by
  have hd := deepen_invisible (w.get t) (winv_get hw t)
  have hlen : t < (w.load t).conts.length := by simp [World.load, World.put, ht]
  have hget : (w.load t).get t = deepen (w.get t) := by
    unfold World.load; rw [get_put]; simp [ht]
  have hstep : (step w (.clearContours t)).1.get t
      = (clearContours (deepen (w.get t)).contours.length (deepen (w.get t))).1 := by
    simp only [step, preload, stepL, hget]
    have := get_put (w.load t) t t (clearContours (deepen (w.get t)).contours.length (deepen (w.get t))).1
    simp only [hlen, and_self, if_true] at this
    exact this
  have hres : (step w (.clearContours t)).2
      = (clearContours (deepen (w.get t)).contours.length (deepen (w.get t))).2.1 := by
    simp only [step, preload, stepL, hget]
  have hall := clearContours_all hd.2.2.2.1 (deepen (w.get t)).contours.length (Nat.le_refl _)
  have hfr := frame_clearContours (deepen (w.get t)).contours.length (deepen (w.get t))
  have haux := aux_clearContours (deepen (w.get t)).contours.length (deepen (w.get t))
  have hinv := inv_clearContours hd.2.2.2.1 (deepen (w.get t)).contours.length
  have hnil : (clearContours (deepen (w.get t)).contours.length (deepen (w.get t))).1.contours = [] :=
    List.length_eq_zero_iff.mp (by rw [hall.1]; omega)
  rw [hstep, hres]
  refine ⟨hall.2, hnil, hfr.2.2.2.trans hd.2.2.2.2, ?_⟩
  intro c hc x hx hreg
  -- `x` is held by a contour of the glyph before the call, hence by nothing else; afterwards nothing holds it
  have h1 := hinv.exact x
  rw [ind_of_mem hreg] at h1
  have h0 := (winv_get hw t).ex.le_one x
  have hcs : 0 < cntCs x (w.get t).contours := by
    rw [cntCs_eq_count]
    exact List.count_pos_iff.mpr (List.mem_flatMap.mpr ⟨c, hc, hx⟩)
  unfold Glyph.aux at haux
  simp only [Prod.mk.injEq] at haux
  have hs := hd.1
  simp only [Glyph.cnt, hnil, cntCs_nil, hfr.1, hfr.2.1, hfr.2.2.1, haux.1, haux.2.1, haux.2.2.1, haux.2.2.2.1,
    haux.2.2.2.2.1, haux.2.2.2.2.2, hs.comps, hs.anchors, hs.guides, hs.cur, hs.stC, hs.stK, hs.stA, hs.stG,
    hs.leaked] at h1
  simp only [Glyph.cnt] at h0
  omega

-- non-vacuity: a UFO is opened (glyph 0: contour 1 with points 2 and none; anchor 3), the contours stay shallow
-- while an anchor is refused identifier 2 (reserved) and accepted with 4; then the first touch
private def d0 : Data := { contours := [⟨some 1, [⟨.line, some 2⟩, ⟨.line, none⟩]⟩], anchors := [some 3] }
example : ((run {} [.reopen [d0, {}, {}] [] none]).get 0).shallow = true := by decide
example : (step (run {} [.reopen [d0, {}, {}] [] none]) (.insAnchor 0 0 (some 2) true)).2 = .err .assertion := by decide
example : ((run {} [.reopen [d0, {}, {}] [] none, .insAnchor 0 0 (some 4) true]).get 0).shallow = true := by decide
-- clearContours as the first touch: the reservations 1 and 2 are released, the outline can be drawn again
example : ((run {} [.reopen [d0, {}, {}] [] none, .clearContours 0]).get 0).reg = [3] := by decide
example : (step (run {} [.reopen [d0, {}, {}] [] none, .clearContours 0])
    (.draw 0 d0.contours [] false)).2 = .ok := by decide
-- setDataFromSerialization of the shallow glyph 0 into glyph 1: glyph 1 is shallow too and has reserved 1 and 2
example : ((run {} [.reopen [d0, {}, {}] [] none, .deserializeFrom 1 0]).get 1).shallow = true ∧
    ((run {} [.reopen [d0, {}, {}] [] none, .deserializeFrom 1 0]).get 1).reg = [1, 2, 3] := by decide
-- a rejected insertContour is the first touch: the glyph is loaded, nothing else changes
example : (step (run {} [.reopen [d0, {}, {}] [] none]) (.insContour 0 0 ⟨some 2, []⟩)).2 = .err .assertion ∧
    ((step (run {} [.reopen [d0, {}, {}] [] none]) (.insContour 0 0 ⟨some 2, []⟩)).1.get 0).shallow = false := by decide
-- refused calls as the first touch: a stranger Point handed to `removePoint` (the contour is fetched: the glyph is
-- loaded), a detached contour (removed from glyph 1) handed to the shallow glyph 0's `removeContour`
example : (step (run {} [.reopen [d0, {}, {}] [] none]) (.rmAbsentPoint 0 0)).2 = .err .value ∧
    ((step (run {} [.reopen [d0, {}, {}] [] none]) (.rmAbsentPoint 0 0)).1.get 0).shallow = false := by decide
example : (step (run {} [.reopen [d0, d0, {}] [] none, .rmContour 1 0]) (.rmAbsent 0 0 0)).2 = .err .index ∧
    ((run {} [.reopen [d0, d0, {}] [] none, .rmContour 1 0]).get 0).shallow = true ∧
    ((step (run {} [.reopen [d0, d0, {}] [] none, .rmContour 1 0]) (.rmAbsent 0 0 0)).1.get 0).shallow = false ∧
    ((step (run {} [.reopen [d0, d0, {}] [] none, .rmContour 1 0]) (.rmAbsent 0 0 0)).1.get 0).reg = [3, 1, 2] := by
  decide
-- drawing into a shallow glyph: identifier 2 is reserved, the pen skips it; the glyph is loaded at the first endPath
example : ((run {} [.reopen [d0, {}, {}] [] none, .draw 0 [⟨some 5, [⟨.line, some 2⟩]⟩] [] true]).get 0).contours
    = [⟨some 1, [⟨.line, some 2⟩, ⟨.line, none⟩]⟩, ⟨some 5, [⟨.line, none⟩]⟩] ∧
    ((run {} [.reopen [d0, {}, {}] [] none, .draw 0 [⟨some 5, [⟨.line, some 2⟩]⟩] [] true]).get 0).shallow = false := by
  decide
-- a drawing that only adds a component never looks at the contours: the glyph stays shallow
example : ((run {} [.reopen [d0, {}, {}] [] none, .draw 0 [] [⟨9, some 6⟩] false]).get 0).shallow = true := by decide
example : Op.looksFirst (.clearContours 0) = some 0 ∧
    (((run {} [.reopen [d0, {}, {}] [] none]).load 0).get 0).shallow = false ∧
    ((run {} [.reopen [d0, {}, {}] [] none]).get 0).shallow = true := by decide
example : Clean {} [.reopen [d0, {}, {}] [] none, .insAnchor 0 0 (some 4) true, .drawFrom 1 0 false,
    .insertGlyphVia 1 0, .copyFrom 2 0, .clearGlyph 0, .load 1, .roundtrip 1] := by decide

end DefconModel.Props.C10
