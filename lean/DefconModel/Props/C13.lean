/-
C13 — Pen round trips and glyph copies are faithful and independent.

Property theorems about M-Pen (`DefconModel/Pen.lean`, the executable model of defcon's pens,
`Glyph.drawPoints/draw/getPointPen/getPen`, `copyDataFromGlyph`, `Layer.insertGlyph`,
`decomposeComponent(s)` and the fontTools pieces they use).  Spec-side definitions (`identsOf`,
`Valid`, `obs`, `dedupe`, `flatten`, …) are in `Spec/Pen.lean`, helper lemmas in `Lemmas/Pen.lean`.

Coordinates range over an arbitrary type `R`; theorems that need arithmetic hold over every
commutative ring (so over ℤ and ℚ); the examples are evaluated over `Int`.

NOT a theorem here: INDEPENDENCE of a copy ("shares no mutable state").  Lean values are immutable,
so the statement has no content for the model; it is checked on the implementation only
(harness/props/c13.py, `oracle_independence`) and labelled correspondence-only in the evidence.

The model of `_decomposeComponent` is that of the code WITH repo_fixes/C13-decompose-shallow.diff
(the unfixed code raises AssertionError for a shallow-loaded glyph whose own identifiers recur in
the base glyph).
-/
import DefconModel.Lemmas.Pen

namespace DefconModel.Props.C13
open DefconModel DefconModel.Pen

variable {R : Type}

/-! ## 1. Point-pen round trip: `build (draw o) = o` -/

/-- Drawing ANY outline (any contours: open, closed, off-curve only, empty, any point types, smooth
flags, names; any components and transformations; identifiers anywhere) with a point pen into a glyph
that holds no shallow contours appends exactly that outline — same contours, points, types, smooth
flags, names, identifiers, components, transformations — and registers exactly its identifiers,
provided no identifier is used twice (in the glyph or in the outline). -/
theorem build_draw (g : Glyph R) (cs : List (Contour R)) (ks : List (Component R)) (hs : g.shallow = none)
    (h : (g.ids ++ identsOf cs ks).Nodup) :
    build false (cs.flatMap drawContour ++ ks.flatMap drawComponent) g =
      .ok { g with contours := g.contours ++ cs, components := g.components ++ ks,
                   ids := g.ids ++ identsOf cs ks } :=
  build_outline g cs ks hs h

section Fresh
variable [OfNat R 0] [OfNat R 1]

/-- Into an EMPTY glyph: the rebuilt glyph has exactly the drawn outline, and a recording pen sees the
same call stream from the rebuilt glyph as from the source. -/
theorem build_draw_empty (n : Option String) (cs : List (Contour R)) (ks : List (Component R))
    (h : (identsOf cs ks).Nodup) :
    ∃ g', build false (cs.flatMap drawContour ++ ks.flatMap drawComponent) (Glyph.fresh n) = .ok g' ∧
      g'.contours = cs ∧ g'.components = ks ∧ g'.ids = identsOf cs ks ∧
      g'.draw = cs.flatMap drawContour ++ ks.flatMap drawComponent := by
  refine ⟨_, build_outline (Glyph.fresh n) cs ks rfl (by simpa [Glyph.fresh] using h), ?_, ?_, ?_, ?_⟩ <;>
    simp [Glyph.fresh, Glyph.draw]

/-- The same for a glyph in ANY source state (new, shallow-loaded, fully loaded): drawing it into an
empty glyph reproduces its outline and its call stream. -/
theorem rebuild_any_state (n : Option String) (src : Glyph R) (h : (identsOf src.outline src.components).Nodup) :
    ∃ g', build false src.draw (Glyph.fresh n) = .ok g' ∧
      g'.contours = src.outline ∧ g'.components = src.components ∧ g'.draw = src.draw := by
  obtain ⟨g', h1, h2, h3, _, h5⟩ := build_draw_empty n src.outline src.components h
  exact ⟨g', by rw [draw_eq_outline]; exact h1, h2, h3, by rw [h5, draw_eq_outline]⟩

/-- A single contour / a single component drawn into an empty glyph. -/
theorem build_draw_contour (n : Option String) (c : Contour R) (h : (present c.slots).Nodup) :
    ∃ g', build false (drawContour c) (Glyph.fresh n) = .ok g' ∧ g'.contours = [c] ∧ g'.components = [] ∧
      g'.draw = drawContour c := by
  obtain ⟨g', h1, h2, h3, _, h5⟩ := build_draw_empty n [c] ([] : List (Component R))
    (by simpa [identsOf, slotsOf, compSlots] using h)
  exact ⟨g', by simpa using h1, h2, h3, by simpa using h5⟩

theorem build_draw_component (n : Option String) (k : Component R) :
    ∃ g', build false (drawComponent k) (Glyph.fresh n) = .ok g' ∧ g'.contours = [] ∧ g'.components = [k] ∧
      g'.draw = drawComponent k := by
  obtain ⟨g', h1, h2, h3, _, h5⟩ := build_draw_empty n ([] : List (Contour R)) [k]
    (by cases hk : k.ident <;> simp [identsOf, slotsOf, compSlots, hk])
  exact ⟨g', by simpa using h1, h2, h3, by simpa using h5⟩

/-- The hypothesis is exact: an outline is accepted by an empty glyph IFF its identifiers are pairwise
distinct (the code asserts on the first repeated one). -/
theorem build_draw_accepts_iff (n : Option String) (cs : List (Contour R)) (ks : List (Component R)) :
    (∃ g', build false (cs.flatMap drawContour ++ ks.flatMap drawComponent) (Glyph.fresh n) = .ok g') ↔
      (identsOf cs ks).Nodup := by
  constructor
  · rintro ⟨g', h⟩
    unfold build at h
    rw [run_eq_runCore false _ _ rfl] at h
    cases hr : runCore false (cs.flatMap drawContour ++ ks.flatMap drawComponent) ⟨Glyph.fresh n, none⟩ with
    | error x => simp [hr, bind, Except.bind] at h
    | ok s' =>
      have := (runCore_false_ids hr (by simp [Glyph.fresh])).2
      simpa [Glyph.fresh, evSlots_append, evSlots_contours, evSlots_components, identsOf] using this
  · intro h
    obtain ⟨g', h1, _⟩ := build_draw_empty n cs ks h
    exact ⟨g', h1⟩

end Fresh

/-- Whatever a strict pen accepts, the registry afterwards is the old one plus exactly the identifiers
the stream carried, without repetition. -/
theorem strict_pen_registers_exactly (evs : List (Ev R)) (s s' : PenSt R)
    (h : runCore false evs s = .ok s') (hn : s.g.ids.Nodup) :
    s'.g.ids = s.g.ids ++ present (evSlots evs) ∧ s'.g.ids.Nodup := by
  obtain ⟨h1, h2⟩ := runCore_false_ids h hn
  exact ⟨h1, h1 ▸ h2⟩

/-! ## 2. Shallow-loaded sources -/

/-- A glyph draws the same call stream whether its contours are still the raw tuples stored by the
loading pen or have been deepened into contour objects; deepening yields exactly the outline. -/
theorem drawShallow_eq (g g' : Glyph R) (raws : List (RawContour R)) (hs : g.shallow = some raws)
    (hinv : g.contours = []) (hn : g.ids.Nodup) (h : deepen g = .ok g') :
    g'.draw = g.draw ∧ g'.shallow = none ∧ g'.contours = g.outline ∧ g'.components = g.components := by
  obtain ⟨_, rfl⟩ := deepen_result hs hn h
  cases raws with
  | nil => simp [Glyph.draw, Glyph.outline, hs, hinv, slotsOf]
  | cons c cs => simp [Glyph.draw, Glyph.outline, hs, hinv, drawRaw_eq]

/-- Deepening succeeds exactly when the stored identifiers are new and distinct. -/
theorem deepen_accepts (g : Glyph R) (raws : List (RawContour R)) (hs : g.shallow = some raws)
    (h : (g.ids ++ present (slotsOf (raws.map RawContour.toContour))).Nodup) :
    ∃ g', deepen g = .ok g' := ⟨_, deepen_ok hs h⟩

section Fresh
variable [OfNat R 0] [OfNat R 1]

/-- Every source state shows the same data: for valid content, the glyph assembled through the API
(`new`), the glyph as `Layer.loadGlyph` leaves it (`shallow`) and the loaded glyph after its contours
were touched (`full`) all exist and have the content's observable data and call stream. -/
theorem source_states_agree (n : Option String) (c : Content R) (h : c.Valid) :
    ∃ gNew gShallow gFull,
      Glyph.ofContent (Glyph.fresh n) c = .ok gNew ∧
      Glyph.load (Glyph.fresh n) c = .ok gShallow ∧
      deepen gShallow = .ok gFull ∧
      gNew.obs = c.obs ∧ gShallow.obs = c.obs ∧ gFull.obs = c.obs ∧
      gShallow.shallow = some (c.contours.map Contour.toRaw) ∧ gFull.shallow = none ∧ gFull.contours = c.contours := by
  have hl := load_fresh n c h
  have hperm : ((present (compSlots c.components) ++ present (c.guidelines.map (·.ident)) ++
      present (c.anchors.map (·.ident))) ++ present (slotsOf c.contours)).Nodup := by
    have h' := h
    unfold Content.Valid Content.allIdents identsOf at h'
    exact (perm_load _ _ _ _).nodup_iff.mpr (by simpa using h')
  refine ⟨_, _, _, ofContent_fresh n c h, hl, deepen_ok rfl ?hnd, ?_, ?_, ?_, rfl, rfl, ?_⟩
  case hnd => simpa [List.append_assoc] using hperm
  · simp [Glyph.obs, Content.obs, Glyph.draw, Content.draw]
  · simp only [Glyph.obs, Content.obs, draw_eq_outline, Content.draw]
    rw [outline_of_shallow (raws := c.contours.map Contour.toRaw) rfl rfl]
    simp
  · simp [Glyph.obs, Content.obs, Glyph.draw, Content.draw]
  · simp

/-! ## 3. Copies -/

/-- `copyDataFromGlyph` into a fresh glyph: for a valid source in ANY state the copy exists, every
observable datum (width, height, unicodes, note, image, anchors, guidelines, lib, the recorded pen
stream) equals the source's, the name is the destination's own, and the copy is not shallow. -/
theorem copy_equal (n : Option String) (src : Glyph R) (h : src.Valid) :
    ∃ d, copyData (Glyph.fresh n) src = .ok d ∧ d.obs = src.obs ∧ d.name = n ∧
      d.shallow = none ∧ d.contours = src.outline ∧ d.components = src.components ∧ d.ids = src.allIdents := by
  refine ⟨_, copy_fresh n src h, ?_, rfl, rfl, rfl, rfl, rfl⟩
  simp [Glyph.obs, draw_eq_outline, Glyph.outline]

/-- `Layer.insertGlyph(glyph, name)` (same layer, another layer, another font): the layer then holds,
under `name`, a glyph equal to the source in every observable datum; other entries are untouched. -/
theorem insert_equal (l : Layer R) (src : Glyph R) (nm : String) (h : src.Valid) :
    ∃ l' d, insertGlyph l src (some nm) = .ok (l', d) ∧ d.obs = src.obs ∧ d.name = some nm ∧
      AL.get? l' nm = some d ∧ ∀ other, other ≠ nm → AL.get? l' other = AL.get? l other := by
  obtain ⟨d, h1, h2, h3, _⟩ := copy_equal (some nm) src h
  refine ⟨AL.set l nm d, d, ?_, h2, h3, by simp, ?_⟩
  · simp [insertGlyph, h1, bind, Except.bind]
  · intro other ho
    exact AL.get?_set_ne l nm other d (fun e => ho e.symm)

/-- A copy of a copy is a copy: copying is idempotent on observable data. -/
theorem copy_copy (n m : Option String) (src d : Glyph R) (h : src.Valid)
    (hd : copyData (Glyph.fresh n) src = .ok d) :
    ∃ e, copyData (Glyph.fresh m) d = .ok e ∧ e.obs = src.obs := by
  obtain ⟨d', h1, h2, _, h4, h5, h6, _⟩ := copy_equal n src h
  rw [hd] at h1
  cases h1
  have hv : d.Valid := by
    have hga : d.guidelines = src.guidelines ∧ d.anchors = src.anchors := by
      have e1 := congrArg Obs.guidelines h2
      have e2 := congrArg Obs.anchors h2
      exact ⟨e1, e2⟩
    have ho : d.outline = src.outline := by simp [Glyph.outline, h4, h5]
    unfold Glyph.Valid Glyph.allIdents at h ⊢
    rw [ho, hga.1, hga.2, h6]
    exact h
  obtain ⟨e, k1, k2, _⟩ := copy_equal m d hv
  exact ⟨e, k1, k2.trans h2⟩

end Fresh

/-! ## 4. Decomposition -/

/-- With the skip flag nothing is ever rejected, and the registry stays duplicate-free. -/
theorem skip_pen_never_rejects (cs : List (Contour R)) (g : Glyph R) (hs : g.shallow = none) (hn : g.ids.Nodup) :
    ∃ g', build true (cs.flatMap drawContour) g = .ok g' ∧ g'.ids.Nodup := by
  obtain ⟨cs', h1, h2, _⟩ := runCore_contours_skip cs g
  refine ⟨_, by unfold build; rw [run_eq_runCore true _ _ hs, h1]; rfl, ?_⟩
  simp only [h2]
  exact nodup_dedupe g.ids (slotsOf cs) hn


/-- what removing the component does -/
theorem removeComponentAt_spec (g : Glyph R) (idx : Nat) (k : Component R) (hk : g.components[idx]? = some k) :
    (removeComponentAt g idx).components = g.components.eraseIdx idx ∧
    (removeComponentAt g idx).contours = g.contours ∧
    (removeComponentAt g idx).ids = (match k.ident with | none => g.ids | some i => g.ids.erase i) ∧
    (removeComponentAt g idx).obs.width = g.obs.width ∧ (removeComponentAt g idx).anchors = g.anchors ∧
    (removeComponentAt g idx).guidelines = g.guidelines ∧ (removeComponentAt g idx).lib = g.lib := by
  cases hki : k.ident <;> simp [removeComponentAt, hk, hki, Glyph.obs]

section Ring
variable [Lean.Grind.CommRing R]

/-- fontTools' `Transform.transform` composes: `t.transform u` maps a point like `u` then `t`. -/
theorem transform_composes (t u : Transform R) (x y : R) :
    (t.transform u).apply x y = t.apply (u.apply x y).1 (u.apply x y).2 :=
  Transform.transform_apply t u x y

/-- the default transformation changes nothing; composition is associative with the identity as unit -/
theorem transform_monoid (a b c : Transform R) (x y : R) :
    (Transform.id : Transform R).apply x y = (x, y) ∧
    (Transform.id : Transform R).transform a = a ∧ a.transform (Transform.id : Transform R) = a ∧
    (a.transform b).transform c = a.transform (b.transform c) :=
  ⟨Transform.apply_id x y, Transform.id_transform a, Transform.transform_id a, Transform.transform_assoc a b c⟩

/-- What "recursively" means: the flattened outline of a glyph under `t` is its flattened outline
mapped through `t` — so a component nested under transformations `t₁, t₂, …` contributes its base
glyph's points under the composed affine map `t₁ ∘ t₂ ∘ …`. -/
theorem flatten_under (fuel : Nat) (l : Layer R) (b : String) (t : Transform R) :
    flatten fuel l b t = (flatten fuel l b (Transform.id : Transform R)).map (·.map (Contour.transform t)) :=
  flatten_transform fuel l b t

/-- Acyclic component references (some rank decreases along every reference): flattening terminates
with any fuel above the glyph's rank, and more fuel never changes the answer. -/
theorem flatten_terminates (l : Layer R) (rank : String → Nat) (hac : Acyclic l rank) (fuel : Nat)
    (b : String) (t : Transform R) (h : rank b < fuel) :
    ∃ r, flatten fuel l b t = some r ∧ flatten (fuel + 1) l b t = some r := by
  have := flatten_isSome_of_acyclic hac fuel b t h
  cases hf : flatten fuel l b t with
  | none => simp [hf] at this
  | some r => exact ⟨r, rfl, flatten_fuel_succ fuel l b t r hf⟩

variable [DecidableEq R]

/-- The decomposing pen (`DecomposeComponentPointPen`, wrapped in `TransformPointPen`s as the code does,
including its "default transformation ⇒ no wrapper" shortcut) feeds the glyph pen exactly the drawing
of the flattened outline. -/
theorem decompose_pen_stream (fuel : Nat) (l : Layer R) (b : String) (t : Transform R) :
    expand fuel l b t = (flatten fuel l b t).map (·.flatMap drawContour) :=
  expand_eq_flatten fuel l b t

/-- `decomposeComponent`: in a glyph without shallow contours, decomposing the component at `idx`
(base `k.base`, transformation `k.t`, base outline flattening to `F`) never fails; it appends contours
`cs'` that are `F` in everything but identifiers (same points, coordinates under the composed maps,
types, smooth flags, names, same order), whose identifier slots are those of `F` with every
identifier already in use — in the glyph or earlier in `F` — dropped; and it removes the component
(and frees its identifier).  Nothing else changes. -/
theorem decompose_spec (fuel : Nat) (l : Layer R) (g : Glyph R) (idx : Nat) (k : Component R)
    (F : List (Contour R)) (hs : g.shallow = none) (hk : g.components[idx]? = some k)
    (hF : flatten fuel l k.base k.t = some F) :
    ∃ cs', decomposeAt fuel l g idx =
        .ok (removeComponentAt { g with contours := g.contours ++ cs', ids := g.ids ++ present (slotsOf cs') } idx) ∧
      cs'.map Contour.eraseIds = F.map Contour.eraseIds ∧
      slotsOf cs' = dedupe g.ids (slotsOf F) := by
  obtain ⟨cs', h1, h2, h3⟩ := runCore_contours_skip F g
  refine ⟨cs', ?_, h3, h2⟩
  unfold decomposeAt
  simp only [deepen_of_not_shallow hs, bind, Except.bind, hk, expand_eq_flatten, hF, Option.map_some]
  unfold build
  rw [run_eq_runCore true _ _ hs, h1]
  rfl

/-- The source state does not matter: a shallow-loaded glyph is deepened first, then decomposed like
the fully loaded one (this is what repo_fixes/C13-decompose-shallow.diff establishes). -/
theorem decompose_shallow (fuel : Nat) (l : Layer R) (g g' : Glyph R) (idx : Nat) (h : deepen g = .ok g')
    (hs' : g'.shallow = none) :
    decomposeAt fuel l g idx = decomposeAt fuel l g' idx := by
  unfold decomposeAt
  simp [h, deepen_of_not_shallow hs', bind, Except.bind]

end Ring

end DefconModel.Props.C13
