import DefconModel.Pen
namespace DefconModel.Props.C13
open DefconModel DefconModel.Pen
theorem placeholder : True := trivial
end DefconModel.Props.C13
