/-
C13 — Pen round trips and glyph copies are faithful and independent.

Property theorems about M-Pen (`DefconModel/Pen.lean`, the executable model of defcon's pens,
`Glyph.drawPoints/draw/getPointPen/getPen`, `copyDataFromGlyph`, `Layer.insertGlyph`,
`decomposeComponent(s)` and the fontTools pieces they use).  Spec-side definitions (`identsOf`,
`Valid`, `obs`, `dedupe`, `flatten`, …) are in `Spec/Pen.lean`, helper lemmas in `Lemmas/Pen.lean`.

Coordinates range over an arbitrary type `R`; theorems that need arithmetic hold over every
commutative ring (so over ℤ and ℚ); the examples are evaluated over `Int`.

INDEPENDENCE of a copy ("shares no mutable state") is a statement about identities, which the immutable
records of M-Pen cannot express; it is stated and proved in section 7 about M-Cells (`DefconModel/Cells.lean`:
Python values as trees of cells with identities; `deepcopy` / rebuild / alias per field of the glyph), tied
to the code by the harness's walk over `id()`s of both object graphs after every copy and by the table of
syntactic forms regenerated from the AST (`Gen/CopyForms.lean`).  Section 3b states what `copyDataFromGlyph`
does to a destination that is NOT fresh (what is replaced, what is kept; findings F120 / F121).

The model is that of the code with the defcon fixes "decomposing a component of a glyph whose contours
are still shallow loaded …" (repo_fixes/C13-decompose-shallow.diff, found by this check) and "lazily
loaded contours reserve their identifiers until they are fully loaded" (C10-6): the loading pen
registers the identifiers it stores, `deepen` hands them over.  The Lean witness of the former defect
(`unfixed_decompose_shallow_violated`) was stated about the pre-C10-6 loading pen and was removed with it.
-/
import DefconModel.Lemmas.Pen
import DefconModel.Lemmas.PenCopyInto
import DefconModel.Lemmas.Cells
import DefconModel.Gen.CopyForms

namespace DefconModel.Props.C13
open DefconModel DefconModel.Pen

variable {R : Type}

/-! ## 1. Point-pen round trip: `build (draw o) = o` -/

/-- Drawing ANY outline (any contours: open, closed, off-curve only, empty, any point types, smooth
flags, names; any components and transformations; identifiers anywhere) with a point pen into a glyph
that holds no shallow contours appends exactly that outline — same contours, points, types, smooth
flags, names, identifiers, components, transformations — and registers exactly its identifiers,
provided no identifier is used twice (in the glyph or in the outline). -/
theorem build_draw (g : Glyph R) (cs : List (Contour R)) (ks : List (Component R)) (hs : g.shallow = none)
    (h : (g.ids ++ identsOf cs ks).Nodup) :
    build false (cs.flatMap drawContour ++ ks.flatMap drawComponent) g =
      .ok { g with contours := g.contours ++ cs, components := g.components ++ ks,
                   ids := g.ids ++ identsOf cs ks } :=
  build_outline g cs ks hs h

section Fresh
variable [OfNat R 0] [OfNat R 1]

/-- Into an EMPTY glyph: the rebuilt glyph has exactly the drawn outline, and a recording pen sees the
same call stream from the rebuilt glyph as from the source. -/
theorem build_draw_empty (n : Option String) (cs : List (Contour R)) (ks : List (Component R))
    (h : (identsOf cs ks).Nodup) :
    ∃ g', build false (cs.flatMap drawContour ++ ks.flatMap drawComponent) (Glyph.fresh n) = .ok g' ∧
      g'.contours = cs ∧ g'.components = ks ∧ g'.ids = identsOf cs ks ∧
      g'.draw = cs.flatMap drawContour ++ ks.flatMap drawComponent := by
  refine ⟨_, build_outline (Glyph.fresh n) cs ks rfl (by simpa [Glyph.fresh] using h), ?_, ?_, ?_, ?_⟩ <;>
    simp [Glyph.fresh, Glyph.draw]

/-- The same for a glyph in ANY source state (new, shallow-loaded, fully loaded): drawing it into an
empty glyph reproduces its outline and its call stream. -/
theorem rebuild_any_state (n : Option String) (src : Glyph R) (h : (identsOf src.outline src.components).Nodup) :
    ∃ g', build false src.draw (Glyph.fresh n) = .ok g' ∧
      g'.contours = src.outline ∧ g'.components = src.components ∧ g'.draw = src.draw := by
  obtain ⟨g', h1, h2, h3, _, h5⟩ := build_draw_empty n src.outline src.components h
  exact ⟨g', by rw [draw_eq_outline]; exact h1, h2, h3, by rw [h5, draw_eq_outline]⟩

/-- A single contour / a single component drawn into an empty glyph. -/
theorem build_draw_contour (n : Option String) (c : Contour R) (h : (present c.slots).Nodup) :
    ∃ g', build false (drawContour c) (Glyph.fresh n) = .ok g' ∧ g'.contours = [c] ∧ g'.components = [] ∧
      g'.draw = drawContour c := by
  obtain ⟨g', h1, h2, h3, _, h5⟩ := build_draw_empty n [c] ([] : List (Component R))
    (by simpa [identsOf, slotsOf, compSlots] using h)
  exact ⟨g', by simpa using h1, h2, h3, by simpa using h5⟩

theorem build_draw_component (n : Option String) (k : Component R) :
    ∃ g', build false (drawComponent k) (Glyph.fresh n) = .ok g' ∧ g'.contours = [] ∧ g'.components = [k] ∧
      g'.draw = drawComponent k := by
  obtain ⟨g', h1, h2, h3, _, h5⟩ := build_draw_empty n ([] : List (Contour R)) [k]
    (by cases hk : k.ident <;> simp [identsOf, slotsOf, compSlots, hk])
  exact ⟨g', by simpa using h1, h2, h3, by simpa using h5⟩

/-- The hypothesis is exact: an outline is accepted by an empty glyph IFF its identifiers are pairwise
distinct (the code asserts on the first repeated one). -/
theorem build_draw_accepts_iff (n : Option String) (cs : List (Contour R)) (ks : List (Component R)) :
    (∃ g', build false (cs.flatMap drawContour ++ ks.flatMap drawComponent) (Glyph.fresh n) = .ok g') ↔
      (identsOf cs ks).Nodup := by
  constructor
  · rintro ⟨g', h⟩
    unfold build at h
    rw [run_eq_runCore false _ _ rfl] at h
    cases hr : runCore false (cs.flatMap drawContour ++ ks.flatMap drawComponent) ⟨Glyph.fresh n, none⟩ with
    | error x => simp [hr, bind, Except.bind] at h
    | ok s' =>
      have := (runCore_false_ids hr (by simp [Glyph.fresh])).2
      simpa [Glyph.fresh, evSlots_append, evSlots_contours, evSlots_components, identsOf] using this
  · intro h
    obtain ⟨g', h1, _⟩ := build_draw_empty n cs ks h
    exact ⟨g', h1⟩

end Fresh

/-! ## 1b. Point pens that predate identifiers ("identifiers where the protocol carries them") -/

/-- A pen that lacks the `identifier` keyword in some (or all) of its methods is told, by a glyph in ANY
source state (new, shallow-loaded, fully loaded), exactly the calls a pen of today's protocol is told,
in the same order, minus the identifiers it has no keyword for (`capEv`): the fallbacks of
`Contour.drawPoints`, `Component.drawPoints` and `Glyph._drawShallowLoadedContours` drop nothing else. -/
theorem restricted_pen_stream (caps : PenCaps) (g : Glyph R) : g.drawTo caps = g.draw.map (capEv caps) :=
  drawTo_eq_map caps g

/-- a pen of today's protocol sees the stream `Glyph.draw` describes -/
theorem full_pen_stream (g : Glyph R) : g.drawTo PenCaps.full = g.draw := drawTo_full g

/-- What the fallback keeps of a point: coordinates, segment type, smooth flag and NAME always; the
identifier exactly when the pen's `addPoint` accepts it.  Likewise a component keeps its base glyph and
transformation, a contour its points. -/
theorem capEv_keeps (caps : PenCaps) (p : Point R) (k : Component R) :
    (∃ q, capEv caps (.addPoint p) = .addPoint q ∧ q.x = p.x ∧ q.y = p.y ∧ q.seg = p.seg ∧
      q.smooth = p.smooth ∧ q.name = p.name ∧ q.ident = (if caps.point then p.ident else none)) ∧
    (∃ j, capEv caps (.addComponent k) = .addComponent j ∧ j.base = k.base ∧ j.t = k.t ∧
      j.ident = (if caps.component then k.ident else none)) ∧
    capEv caps (.endPath : Ev R) = .endPath := by
  refine ⟨?_, ?_, rfl⟩
  · cases h : caps.point <;> simp [capEv, h]
  · cases h : caps.component <;> simp [capEv, h]

section Fresh
variable [OfNat R 0] [OfNat R 1]

/-- A glyph in any source state drawn THROUGH such a pen (a filter pen written against the old protocol,
in front of an empty glyph's own pen): the empty glyph receives the outline with every contour, point,
type, smooth flag, name, component and transformation, and with the identifiers the pen could be told —
provided those are pairwise distinct. -/
theorem rebuild_through_restricted_pen (caps : PenCaps) (n : Option String) (src : Glyph R)
    (h : (identsOf (src.outline.map (Contour.cap caps)) (src.components.map (Component.cap caps))).Nodup) :
    ∃ g', build false (src.drawTo caps) (Glyph.fresh n) = .ok g' ∧
      g'.contours = src.outline.map (Contour.cap caps) ∧
      g'.components = src.components.map (Component.cap caps) ∧
      g'.draw = src.draw.map (capEv caps) := by
  obtain ⟨g', h1, h2, h3, _, h5⟩ := build_draw_empty n _ _ h
  exact ⟨g', by rw [drawTo_eq_outline]; exact h1, h2, h3, by rw [h5, ← drawTo_eq_outline, drawTo_eq_map]⟩

/-- Through a pen of the protocol as it was before identifiers were added, EVERY glyph — whatever
identifiers it carries, even repeated ones — is reproduced in an empty glyph: same contours, point
coordinates, types, smooth flags, names (`Contour.eraseIds` removes identifiers and nothing else), same
components and transformations; no identifier is registered. -/
theorem rebuild_through_old_pen (n : Option String) (src : Glyph R) :
    ∃ g', build false (src.drawTo PenCaps.old) (Glyph.fresh n) = .ok g' ∧
      g'.contours = src.outline.map Contour.eraseIds ∧
      g'.components = src.components.map (fun k => { k with ident := none }) ∧ g'.ids = [] := by
  obtain ⟨g', h1, h2, h3, h4, _⟩ := build_draw_empty n (src.outline.map (Contour.cap PenCaps.old))
    (src.components.map (Component.cap PenCaps.old)) (by rw [identsOf_old]; exact List.nodup_nil)
  refine ⟨g', by rw [drawTo_eq_outline]; exact h1, ?_, ?_, by rw [h4, identsOf_old]⟩
  · rw [h2]; exact List.map_congr_left (fun c _ => Contour.cap_old c)
  · rw [h3]; exact List.map_congr_left (fun k _ => Component.cap_old k)

end Fresh

/-- The driver's pen op runs `buildKeep` (which also says what glyph a REJECTED call leaves behind): on
accepted streams it is `build`. -/
theorem buildKeep_accepts_iff (skip : Bool) (evs : List (Ev R)) (g g' : Glyph R) :
    buildKeep skip evs g = (g', none) ↔ build skip evs g = .ok g' := by
  unfold buildKeep build
  rw [runKeep_spec skip evs ⟨g, none⟩]
  rcases h : runKeep skip evs ⟨g, none⟩ with ⟨s', _ | e⟩ <;> simp [bind, Except.bind]

/-- No reachable glyph holds shallow-loaded contours and contour objects at the same time (the
hypothesis `g.contours = []` of `drawShallow_eq`): every pen call preserves it. -/
theorem shallow_invariant (skip : Bool) (evs : List (Ev R)) (g g' : Glyph R) (h : build skip evs g = .ok g')
    (hinv : g.ShallowInv) : g'.ShallowInv := by
  unfold build at h
  cases hr : run skip evs ⟨g, none⟩ with
  | error x => simp [hr, bind, Except.bind] at h
  | ok s' =>
    simp [hr, bind, Except.bind] at h
    rw [← h]
    exact run_shallowInv hr hinv

/-- Whatever a strict pen accepts, the registry afterwards is the old one plus exactly the identifiers
the stream carried, without repetition. -/
theorem strict_pen_registers_exactly (evs : List (Ev R)) (s s' : PenSt R)
    (h : runCore false evs s = .ok s') (hn : s.g.ids.Nodup) :
    s'.g.ids = s.g.ids ++ present (evSlots evs) ∧ s'.g.ids.Nodup := by
  obtain ⟨h1, h2⟩ := runCore_false_ids h hn
  exact ⟨h1, h1 ▸ h2⟩

/-! ## 2. Shallow-loaded sources -/

/-- A glyph draws the same call stream whether its contours are still the raw tuples stored by the
loading pen or have been deepened into contour objects; deepening yields exactly the outline. -/
theorem drawShallow_eq (g g' : Glyph R) (raws : List (RawContour R)) (hs : g.shallow = some raws)
    (hinv : g.contours = []) (hn : g.ids.Nodup) (h : deepen g = .ok g') :
    g'.draw = g.draw ∧ g'.shallow = none ∧ g'.contours = g.outline ∧ g'.components = g.components := by
  obtain ⟨_, rfl⟩ := deepen_result hs hn h
  cases raws with
  | nil => simp [Glyph.draw, Glyph.outline, hs, hinv, slotsOf]
  | cons c cs => simp [Glyph.draw, Glyph.outline, hs, hinv, drawRaw_eq]

/-- Deepening hands the reserved identifiers over to the contour and point objects and never collides:
a duplicate-free registry and pairwise distinct stored identifiers suffice (whether or not the stored
identifiers were reserved in the registry). -/
theorem deepen_accepts (g : Glyph R) (raws : List (RawContour R)) (hs : g.shallow = some raws)
    (hn : g.ids.Nodup) (hr : (rawIdents raws).Nodup) :
    ∃ g', deepen g = .ok g' ∧ g'.ids = releaseAll g.ids (rawIdents raws) ++ rawIdents raws ∧ g'.ids.Nodup := by
  have h := nodup_handover g.ids (rawIdents raws) hn hr
  refine ⟨_, deepen_ok hs (by rw [← rawIdents_eq]; exact h), ?_, ?_⟩
  · simp [rawIdents_eq]
  · simpa [rawIdents_eq] using h

/-- While a glyph is shallow-loaded, the identifiers of its stored contours and points are RESERVED in
its registry: a strict pen asserts on them, a pen with `skipConflictingIdentifiers` drops them. -/
theorem reserved_identifier_conflicts (s : PenSt R) (x : Ident) (hx : x ∈ s.g.ids) (k : Component R)
    (p : Point R) (hk : k.ident = some x) (hp : p.ident = some x) :
    stepCore false s (.beginPath (some x)) = .error .assertion ∧
    stepCore false s (.addComponent k) = .error .assertion ∧
    (s.cur.isSome → stepCore false s (.addPoint p) = .error .assertion) ∧
    stepCore true s (.beginPath (some x)) = .ok { s with cur := some ⟨none, []⟩ } ∧
    stepCore true s (.addComponent k) =
      .ok { s with g := { s.g with components := s.g.components ++ [{ k with ident := none }] } } := by
  refine ⟨?_, ?_, ?_, ?_, ?_⟩
  · simp [stepCore, penBeginPath, claim, hx, bind, Except.bind]
  · simp [stepCore, penAddComponent, claim, hk, hx, bind, Except.bind]
  · intro hc
    cases hcur : s.cur with
    | none => simp [hcur] at hc
    | some c => simp [stepCore, penAddPoint, hcur, claim, hp, hx, bind, Except.bind]
  · simp [stepCore, penBeginPath, effIdent, claim, hx, bind, Except.bind]
  · simp [stepCore, penAddComponent, effIdent, claim, hk, hx, bind, Except.bind]

section Fresh
variable [OfNat R 0] [OfNat R 1]

/-- Every source state shows the same data: for valid content, the glyph assembled through the API
(`new`), the glyph as `Layer.loadGlyph` leaves it (`shallow`) and the loaded glyph after its contours
were touched (`full`) all exist and have the content's observable data and call stream; and in all
three the registry holds exactly the content's identifiers (the shallow one by reservation). -/
theorem source_states_agree (n : Option String) (c : Content R) (h : c.Valid) :
    ∃ gNew gShallow gFull,
      Glyph.ofContent (Glyph.fresh n) c = .ok gNew ∧
      Glyph.load (Glyph.fresh n) c = .ok gShallow ∧
      deepen gShallow = .ok gFull ∧
      gNew.obs = c.obs ∧ gShallow.obs = c.obs ∧ gFull.obs = c.obs ∧
      gShallow.shallow = some (c.contours.map Contour.toRaw) ∧ gFull.shallow = none ∧ gFull.contours = c.contours ∧
      gNew.ids = c.allIdents ∧ gShallow.ids.Perm c.allIdents ∧ gFull.ids.Perm c.allIdents := by
  have hl := load_fresh n c h
  have h' := h
  unfold Content.Valid Content.allIdents identsOf at h'
  have hperm := perm_load (present (slotsOf c.contours)) (present (compSlots c.components))
    (present (c.guidelines.map (·.ident))) (present (c.anchors.map (·.ident)))
  have hv := hperm.nodup_iff.mpr (by simpa using h')
  have hassoc : present (slotsOf c.contours) ++ present (compSlots c.components) ++
      present (c.guidelines.map (·.ident)) ++ present (c.anchors.map (·.ident)) =
      present (slotsOf c.contours) ++ (present (compSlots c.components) ++
      present (c.guidelines.map (·.ident)) ++ present (c.anchors.map (·.ident))) := by
    simp [List.append_assoc]
  have hrel : releaseAll (present (slotsOf c.contours) ++ present (compSlots c.components) ++
      present (c.guidelines.map (·.ident)) ++ present (c.anchors.map (·.ident)))
      (rawIdents (c.contours.map Contour.toRaw)) =
      present (compSlots c.components) ++ present (c.guidelines.map (·.ident)) ++
      present (c.anchors.map (·.ident)) := by
    rw [rawIdents_eq, map_toRaw_toContour, hassoc]
    exact releaseAll_append_left _ _ (hassoc ▸ hv)
  have hfull : (present (compSlots c.components) ++ present (c.guidelines.map (·.ident)) ++
      present (c.anchors.map (·.ident)) ++ present (slotsOf c.contours)).Perm
      (present (slotsOf c.contours) ++ present (compSlots c.components) ++
      present (c.guidelines.map (·.ident)) ++ present (c.anchors.map (·.ident))) := by
    rw [hassoc]; exact perm_handover _ _
  refine ⟨_, _, _, ofContent_fresh n c h, hl, deepen_ok rfl ?hnd, ?_, ?_, ?_, rfl, rfl, ?_, rfl, ?_, ?_⟩
  case hnd =>
    simp only [hrel, map_toRaw_toContour]
    exact hfull.nodup_iff.mpr hv
  · simp [Glyph.obs, Content.obs, Glyph.draw, Content.draw]
  · simp only [Glyph.obs, Content.obs, draw_eq_outline, Content.draw]
    rw [outline_of_shallow (raws := c.contours.map Contour.toRaw) rfl rfl]
    simp
  · simp [Glyph.obs, Content.obs, Glyph.draw, Content.draw]
  · simp
  · simpa [Content.allIdents, identsOf] using hperm
  · simp only [hrel, map_toRaw_toContour]
    exact hfull.trans (by simpa [Content.allIdents, identsOf] using hperm)

/-! ## 3. Copies -/

/-- `copyDataFromGlyph` into a fresh glyph: for a valid source in ANY state the copy exists, every
observable datum (width, height, unicodes, note, image, anchors, guidelines, lib, the recorded pen
stream) equals the source's, the name is the destination's own, and the copy is not shallow. -/
theorem copy_equal (n : Option String) (src : Glyph R) (h : src.Valid) :
    ∃ d, copyData (Glyph.fresh n) src = .ok d ∧ d.obs = src.obs ∧ d.name = n ∧
      d.shallow = none ∧ d.contours = src.outline ∧ d.components = src.components ∧ d.ids = src.allIdents := by
  refine ⟨_, copy_fresh n src h, ?_, rfl, rfl, rfl, rfl, rfl⟩
  simp [Glyph.obs, draw_eq_outline, Glyph.outline]

/-- `Layer.insertGlyph(glyph, name)` (same layer, another layer, another font): the layer then holds,
under `name`, a glyph equal to the source in every observable datum; other entries are untouched. -/
theorem insert_equal (l : Layer R) (src : Glyph R) (nm : String) (h : src.Valid) :
    ∃ l' d, insertGlyph l src (some nm) = .ok (l', d) ∧ d.obs = src.obs ∧ d.name = some nm ∧
      AL.get? l' nm = some d ∧ ∀ other, other ≠ nm → AL.get? l' other = AL.get? l other := by
  obtain ⟨d, h1, h2, h3, _⟩ := copy_equal (some nm) src h
  refine ⟨AL.set l nm d, d, ?_, h2, h3, by simp, ?_⟩
  · simp [insertGlyph, h1, bind, Except.bind]
  · intro other ho
    exact AL.get?_set_ne l nm other d (fun e => ho e.symm)

/-- A copy of a copy is a copy: copying is idempotent on observable data. -/
theorem copy_copy (n m : Option String) (src d : Glyph R) (h : src.Valid)
    (hd : copyData (Glyph.fresh n) src = .ok d) :
    ∃ e, copyData (Glyph.fresh m) d = .ok e ∧ e.obs = src.obs := by
  obtain ⟨d', h1, h2, _, h4, h5, h6, _⟩ := copy_equal n src h
  rw [hd] at h1
  cases h1
  have hv : d.Valid := by
    have hga : d.guidelines = src.guidelines ∧ d.anchors = src.anchors := by
      have e1 := congrArg Obs.guidelines h2
      have e2 := congrArg Obs.anchors h2
      exact ⟨e1, e2⟩
    have ho : d.outline = src.outline := by simp [Glyph.outline, h4, h5]
    unfold Glyph.Valid Glyph.allIdents at h ⊢
    rw [ho, hga.1, hga.2, h6]
    exact h
  obtain ⟨e, k1, k2, _⟩ := copy_equal m d hv
  exact ⟨e, k1, k2.trans h2⟩

end Fresh

/-! ## 3b. Copies into a glyph that already holds data: what is replaced, what is kept -/

/-- `copyDataFromGlyph` into ANY destination that holds contour objects (a glyph that is not fresh: its
own contours, components, anchors, guidelines, lib, image, unicodes), when the copy is accepted (the
three registrations meet no identifier in use: `copy_into_accepts_of_disjoint` below): width, height,
unicodes, note, image, anchors, guidelines and lib are REPLACED by the source's; the destination's
contours and components are KEPT and the source's outline is appended after them; the name stays; the
registry is what the replaced guidelines / anchors leave plus the outline's identifiers. -/
theorem copy_into_replaces_and_keeps (dst src : Glyph R) (hs : dst.shallow = none)
    (h1 : (dst.ids ++ present (src.guidelines.map (·.ident))).Nodup)
    (h2 : (releaseAll (dst.ids ++ present (src.guidelines.map (·.ident))) (oldGuideIds dst) ++
      present (src.anchors.map (·.ident))).Nodup)
    (h3 : (idsAfterSwap dst src ++ identsOf src.outline src.components).Nodup) :
    ∃ d, copyData dst src = .ok d ∧
      d.width = src.width ∧ d.height = src.height ∧ d.unicodes = src.unicodes ∧ d.note = src.note ∧
      d.image = src.image ∧ d.anchors = src.anchors ∧ d.guidelines = src.guidelines ∧ d.lib = src.lib ∧
      d.contours = dst.contours ++ src.outline ∧ d.components = dst.components ++ src.components ∧
      d.name = dst.name ∧ d.ids = idsAfterSwap dst src ++ identsOf src.outline src.components :=
  ⟨_, copy_into dst src hs h1 h2 h3, rfl, rfl, rfl, rfl, rfl, rfl, rfl, rfl, rfl, rfl, rfl, rfl⟩

/-- The copy is accepted whenever no identifier of the source is registered in the destination. -/
theorem copy_into_accepted_of_disjoint (dst src : Glyph R) (hs : dst.shallow = none)
    (hd : (dst.ids ++ src.allIdents).Nodup) : ∃ d, copyData dst src = .ok d := by
  obtain ⟨h1, h2, h3⟩ := copy_into_accepts_of_disjoint dst src hd
  exact ⟨_, copy_into dst src hs h1 h2 h3⟩

/-- FULL statement of the property's sentence "copying a glyph's data into another glyph yields an equal
glyph", for ANY destination. -/
def CopyIntoEqual (R : Type) : Prop :=
  ∀ (dst src d : Glyph R), copyData dst src = .ok d → d.obs = src.obs

/-- FULL statement: a valid source is accepted by any destination whose registry is duplicate-free. -/
def CopyIntoAccepted (R : Type) : Prop :=
  ∀ (dst src : Glyph R), src.Valid → dst.ids.Nodup → ∃ d, copyData dst src = .ok d

/-- The proved part (finding F120): into a destination WITHOUT outline of its own (no contours, no
components; anchors, guidelines, lib, image, unicodes, note, metrics of its own are all replaced) that
shares no identifier with the source, the copy exists and equals the source in every observable datum. -/
theorem copy_into_equal_partial (dst src : Glyph R) (hs : dst.shallow = none)
    (he : dst.contours = [] ∧ dst.components = []) (hd : (dst.ids ++ src.allIdents).Nodup) :
    ∃ d, copyData dst src = .ok d ∧ d.obs = src.obs ∧ d.name = dst.name := by
  obtain ⟨h1, h2, h3⟩ := copy_into_accepts_of_disjoint dst src hd
  refine ⟨_, copy_into dst src hs h1 h2 h3, ?_, rfl⟩
  simp only [Glyph.obs]
  rw [draw_eq_outline src]
  simp [Glyph.draw, hs, he.1, he.2]


section Witness
open DefconModel.Pen

/-- a destination that already holds a contour and a component, an anchor `a1`, a lib, a unicode -/
def exDst : Glyph Int :=
  { (Glyph.fresh (some "dst")) with
      width := 100, unicodes := [66], anchors := [⟨some 9, some 9, some "old", none, some "a1"⟩],
      guidelines := [⟨some 1, none, none, none, none, some "g9"⟩], lib := "{\"old\":1}",
      contours := [⟨some "c9", [⟨7, 7, some .line, false, none, none⟩]⟩],
      components := [⟨"B", ⟨1, 0, 0, 1, 0, 0⟩, none⟩], ids := ["a1", "g9", "c9"] }

/-- a source without identifiers in common with `exDst` -/
def exSrc : Glyph Int :=
  { (Glyph.fresh (some "src")) with
      width := 500, unicodes := [65], anchors := [⟨some 1, some 2, some "top", none, some "a2"⟩],
      lib := "{\"k\":[1]}", contours := [⟨none, [⟨0, 0, some .line, false, none, some "p1"⟩]⟩],
      components := [⟨"A", ⟨2, 0, 0, 2, 0, 0⟩, some "k1"⟩], ids := ["a2", "p1", "k1"] }

/-- a source whose anchor carries the identifier the destination's anchor — which the copy is about to
replace — carries -/
def exSrcClash : Glyph Int := { exSrc with anchors := [⟨some 1, some 2, some "top", none, some "a1"⟩], ids := ["a1", "p1", "k1"] }

end Witness

/-- Finding F120 (recorded, not repaired: "Glyph Absorption" appends by design of long standing): copied
into a glyph that has an outline of its own, the result holds the destination's old contours and
components in front of the source's — it does not equal the source. -/
theorem copy_into_equal_violated : ¬ CopyIntoEqual Int := by
  intro h
  have := h exDst exSrc _ (copy_into exDst exSrc rfl (by decide) (by decide) (by decide))
  revert this
  decide

/-- Finding F121 (recorded): the new guidelines / anchors are registered BEFORE the old ones are released,
and the outline is appended to the old one, so a valid source that has an identifier in common with the
destination is rejected (`AssertionError`) — also when that identifier belongs to an anchor the copy was
about to replace (copying the same source into the same glyph twice is the common case). -/
theorem copy_into_accepted_violated : ¬ CopyIntoAccepted Int := by
  intro h
  obtain ⟨d, hd⟩ := h exDst exSrcClash (by decide) (by decide)
  revert hd
  have : copyData exDst exSrcClash = .error .assertion := by decide
  rw [this]
  intro hd
  cases hd

example : exSrc.Valid ∧ exSrcClash.Valid ∧ exDst.ids.Nodup ∧ exDst.shallow = none := by decide
example : (exDst.ids ++ exSrc.allIdents).Nodup := by decide
/-- what is replaced, what is kept, on the witness: the old contour `c9` and component `B` stay in front -/
example :
    (copyData exDst exSrc).toOption.map (fun d => (d.width, d.unicodes)) = some ((500 : Int), [65]) ∧
    (copyData exDst exSrc).toOption.map (fun d => (d.anchors.map (·.name), d.guidelines.length)) = some ([some "top"], 0) ∧
    (copyData exDst exSrc).toOption.map (fun d => d.lib) = some "{\"k\":[1]}" ∧
    (copyData exDst exSrc).toOption.map (fun d => (d.contours.map (·.ident), d.components.map (·.base))) =
      some ([some "c9", none], ["B", "A"]) ∧
    (copyData exDst exSrc).toOption.map (fun d => (d.ids, d.name)) = some (["c9", "a2", "p1", "k1"], some "dst") := by
  decide
/-- the partial theorem's hypotheses on a destination with anchors / guidelines / lib of its own but no outline -/
example : ({ exDst with contours := [], components := [], ids := ["a1", "g9"] } : Glyph Int).shallow = none ∧
    (["a1", "g9"] ++ exSrc.allIdents).Nodup := by decide

/-! ## 4. Decomposition -/

/-- With the skip flag nothing is ever rejected, and the registry stays duplicate-free. -/
theorem skip_pen_never_rejects (cs : List (Contour R)) (g : Glyph R) (hs : g.shallow = none) (hn : g.ids.Nodup) :
    ∃ g', build true (cs.flatMap drawContour) g = .ok g' ∧ g'.ids.Nodup := by
  obtain ⟨cs', h1, h2, _⟩ := runCore_contours_skip cs g
  refine ⟨_, by unfold build; rw [run_eq_runCore true _ _ hs, h1]; rfl, ?_⟩
  simp only [h2]
  exact nodup_dedupe g.ids (slotsOf cs) hn


/-- what removing the component does -/
theorem removeComponentAt_spec (g : Glyph R) (idx : Nat) (k : Component R) (hk : g.components[idx]? = some k) :
    (removeComponentAt g idx).components = g.components.eraseIdx idx ∧
    (removeComponentAt g idx).contours = g.contours ∧
    (removeComponentAt g idx).ids = (match k.ident with | none => g.ids | some i => g.ids.erase i) ∧
    (removeComponentAt g idx).obs.width = g.obs.width ∧ (removeComponentAt g idx).anchors = g.anchors ∧
    (removeComponentAt g idx).guidelines = g.guidelines ∧ (removeComponentAt g idx).lib = g.lib := by
  cases hki : k.ident <;> simp [removeComponentAt, hk, hki, Glyph.obs]

section Ring
variable [Lean.Grind.CommRing R]

/-- fontTools' `Transform.transform` composes: `t.transform u` maps a point like `u` then `t`. -/
theorem transform_composes (t u : Transform R) (x y : R) :
    (t.transform u).apply x y = t.apply (u.apply x y).1 (u.apply x y).2 :=
  Transform.transform_apply t u x y

/-- the default transformation changes nothing; composition is associative with the identity as unit -/
theorem transform_monoid (a b c : Transform R) (x y : R) :
    (Transform.id : Transform R).apply x y = (x, y) ∧
    (Transform.id : Transform R).transform a = a ∧ a.transform (Transform.id : Transform R) = a ∧
    (a.transform b).transform c = a.transform (b.transform c) :=
  ⟨Transform.apply_id x y, Transform.id_transform a, Transform.transform_id a, Transform.transform_assoc a b c⟩

/-- What "recursively" means: the flattened outline of a glyph under `t` is its flattened outline
mapped through `t` — so a component nested under transformations `t₁, t₂, …` contributes its base
glyph's points under the composed affine map `t₁ ∘ t₂ ∘ …`. -/
theorem flatten_under (fuel : Nat) (l : Layer R) (b : String) (t : Transform R) :
    flatten fuel l b t = (flatten fuel l b (Transform.id : Transform R)).map (·.map (Contour.transform t)) :=
  flatten_transform fuel l b t

/-- Acyclic component references (some rank decreases along every reference): flattening terminates
with any fuel above the glyph's rank, and more fuel never changes the answer. -/
theorem flatten_terminates (l : Layer R) (rank : String → Nat) (hac : Acyclic l rank) (fuel : Nat)
    (b : String) (t : Transform R) (h : rank b < fuel) :
    ∃ r, flatten fuel l b t = some r ∧ flatten (fuel + 1) l b t = some r := by
  have := flatten_isSome_of_acyclic hac fuel b t h
  cases hf : flatten fuel l b t with
  | none => simp [hf] at this
  | some r => exact ⟨r, rfl, flatten_fuel_succ fuel l b t r hf⟩

variable [DecidableEq R]

/-- The decomposing pen (`DecomposeComponentPointPen`, wrapped in `TransformPointPen`s as the code does,
including its "default transformation ⇒ no wrapper" shortcut) feeds the glyph pen exactly the drawing
of the flattened outline. -/
theorem decompose_pen_stream (fuel : Nat) (l : Layer R) (b : String) (t : Transform R) :
    expand fuel l b t = (flatten fuel l b t).map (·.flatMap drawContour) :=
  expand_eq_flatten fuel l b t

/-- `decomposeComponent`: in a glyph without shallow contours, decomposing the component at `idx`
(base `k.base`, transformation `k.t`, base outline flattening to `F`) never fails; it appends contours
`cs'` that are `F` in everything but identifiers (same points, coordinates under the composed maps,
types, smooth flags, names, same order), whose identifier slots are those of `F` with every
identifier already in use — in the glyph or earlier in `F` — dropped; and it removes the component
(and frees its identifier).  Nothing else changes. -/
theorem decompose_spec (fuel : Nat) (l : Layer R) (g : Glyph R) (idx : Nat) (k : Component R)
    (F : List (Contour R)) (hs : g.shallow = none) (hk : g.components[idx]? = some k)
    (hF : flatten fuel l k.base k.t = some F) :
    ∃ cs', decomposeAt fuel l g idx =
        .ok (removeComponentAt { g with contours := g.contours ++ cs', ids := g.ids ++ present (slotsOf cs') } idx) ∧
      cs'.map Contour.eraseIds = F.map Contour.eraseIds ∧
      slotsOf cs' = dedupe g.ids (slotsOf F) := by
  obtain ⟨cs', h1, h2, h3⟩ := runCore_contours_skip F g
  refine ⟨cs', ?_, h3, h2⟩
  unfold decomposeAt
  simp only [deepen_of_not_shallow hs, bind, Except.bind, hk, expand_eq_flatten, hF, Option.map_some]
  unfold build
  rw [run_eq_runCore true _ _ hs, h1]
  rfl

/-- The source state does not matter: a shallow-loaded glyph is deepened first, then decomposed like
the fully loaded one (this is what repo_fixes/C13-decompose-shallow.diff establishes). -/
theorem decompose_shallow (fuel : Nat) (l : Layer R) (g g' : Glyph R) (idx : Nat) (h : deepen g = .ok g')
    (hs' : g'.shallow = none) :
    decomposeAt fuel l g idx = decomposeAt fuel l g' idx := by
  unfold decomposeAt
  simp [h, deepen_of_not_shallow hs', bind, Except.bind]

end Ring

/-- `decomposeAllComponents`: with every base outline flattening (acyclic references, enough fuel),
all components are decomposed in order; the glyph ends without components, its contours are the old ones
followed by contours that equal — identifiers aside — the flattened outlines of the components, in
component order. -/
theorem decomposeAll_spec [Lean.Grind.CommRing R] [DecidableEq R] (fuel : Nat) (l : Layer R)
    (ks : List (Component R)) (g : Glyph R) (hs : g.shallow = none) (hk : g.components = ks)
    (hF : ∀ k ∈ ks, (flatten fuel l k.base k.t).isSome = true) :
    ∃ g' cs', decomposeAll fuel l ks.length g = .ok g' ∧ g'.components = [] ∧ g'.shallow = none ∧
      g'.contours = g.contours ++ cs' ∧
      cs'.map Contour.eraseIds =
        (ks.flatMap (fun k => (flatten fuel l k.base k.t).getD [])).map Contour.eraseIds := by
  induction ks generalizing g with
  | nil => exact ⟨g, [], rfl, hk, hs, by simp, rfl⟩
  | cons k ks ih =>
    obtain ⟨F, hFk⟩ : ∃ F, flatten fuel l k.base k.t = some F := by
      have := hF k (by simp)
      cases hx : flatten fuel l k.base k.t with
      | none => simp [hx] at this
      | some F => exact ⟨F, rfl⟩
    have hk0 : g.components[0]? = some k := by simp [hk]
    obtain ⟨cs1, h1, h2, _⟩ := decompose_spec fuel l g 0 k F hs hk0 hFk
    have hcomp : (removeComponentAt { g with contours := g.contours ++ cs1, ids := g.ids ++ present (slotsOf cs1) } 0).components = ks := by
      simp [removeComponentAt, hk]
    have hsh : (removeComponentAt { g with contours := g.contours ++ cs1, ids := g.ids ++ present (slotsOf cs1) } 0).shallow = none := by
      simp [removeComponentAt, hk, hs]
    have hcont : (removeComponentAt { g with contours := g.contours ++ cs1, ids := g.ids ++ present (slotsOf cs1) } 0).contours = g.contours ++ cs1 := by
      simp [removeComponentAt, hk]
    obtain ⟨g', cs2, k1, k2, k3, k4, k5⟩ := ih _ hsh hcomp (fun k' hk' => hF k' (List.mem_cons_of_mem _ hk'))
    refine ⟨g', cs1 ++ cs2, ?_, k2, k3, ?_, ?_⟩
    · simp only [List.length_cons, decomposeAll, h1, bind, Except.bind]
      exact k1
    · rw [k4, hcont, List.append_assoc]
    · simp [h2, k5, hFk]

/-! ## 5. Segment pens (`Glyph.draw(pen)` into `otherGlyph.getPen()`) -/

section Seg
variable [DecidableEq R]

/-- Point pen → `PointToSegmentPen` → segment protocol → `SegmentToPointPen` → point pen, for one contour
in the domain the segment protocol can express (`SegFaithful`: see its definition): exactly one contour
comes back, with the same points in the same cyclic order — same coordinates, same segment types —
starting at the first on-curve point (closed contours that begin with off-curve points are rotated;
everything else is unchanged).  Smooth flags, names and identifiers are NOT carried by the segment
protocol: they come back as `False` / `None` (`Point.strip`); fontTools then re-guesses `smooth`
from angles, which is outside the model. -/
theorem segment_roundtrip (pts : List (Point R)) (h : SegFaithful pts) :
    segRoundTrip pts = some (drawContour ⟨none, (rotateToFirstOn pts).map Point.strip⟩) :=
  segRoundTrip_faithful pts h

/-- Rebuilt through a glyph pen: the empty glyph receives exactly that one contour. -/
theorem segment_roundtrip_build [OfNat R 0] [OfNat R 1] (n : Option String) (pts : List (Point R))
    (h : SegFaithful pts) :
    ∃ evs g', segRoundTrip pts = some evs ∧ build false evs (Glyph.fresh n) = .ok g' ∧
      g'.contours = [⟨none, (rotateToFirstOn pts).map Point.strip⟩] ∧ g'.components = [] := by
  obtain ⟨g', h1, h2, h3, _⟩ := build_draw_contour (R := R) n ⟨none, (rotateToFirstOn pts).map Point.strip⟩
    (by rw [show (⟨none, (rotateToFirstOn pts).map Point.strip⟩ : Contour R).slots =
              none :: ((rotateToFirstOn pts).map Point.strip).map (·.ident) from rfl, present_none, present_strip]
        exact List.nodup_nil)
  exact ⟨_, g', segment_roundtrip pts h, h1, h2, h3⟩

/-- A whole glyph — in any source state — drawn with `Glyph.draw` into `SegmentToPointPen` (what
`otherGlyph.getPen()` returns): every contour comes back as in `segment_roundtrip`, in order, followed
by the components with their base names and transformations (component identifiers are not carried). -/
theorem segment_roundtrip_glyph (g : Glyph R) (hf : ∀ c ∈ g.outline, SegFaithful c.points) :
    g.drawSeg.bind (stpRun none) =
      some ((g.outline.map (fun c => (⟨none, (rotateToFirstOn c.points).map Point.strip⟩ : Contour R))).flatMap drawContour ++
            g.components.flatMap (fun k => drawComponent { k with ident := none })) :=
  glyph_segRoundTrip g hf

/-- An open contour and a closed contour that starts on an on-curve point come back point for point. -/
theorem segment_roundtrip_unrotated (pts : List (Point R)) (p : Point R) (r : List (Point R))
    (hp : pts = p :: r) (hon : p.seg.isSome = true) (h : SegFaithful pts) :
    segRoundTrip pts = some (drawContour ⟨none, pts.map Point.strip⟩) := by
  rw [segment_roundtrip pts h]
  subst hp
  simp [rotateToFirstOn, firstOn, hon]

end Seg

/-! ## 6. Non-vacuity and witnesses (evaluated over `Int`) -/

section Examples

/-- closed contour starting with two off-curve points, names, smooth flag, identifiers -/
def exCurve : Contour Int :=
  ⟨some "c1", [⟨10, 0, none, false, some "n", none⟩, ⟨10, 10, none, false, none, none⟩,
               ⟨0, 10, some .curve, true, none, some "p2"⟩, ⟨0, 0, some .line, false, some "top", some "p1"⟩]⟩
/-- open contour with a quadratic run -/
def exOpen : Contour Int :=
  ⟨none, [⟨0, 0, some .move, false, none, none⟩, ⟨5, 9, none, false, none, none⟩, ⟨7, 3, none, false, none, none⟩,
          ⟨9, 0, some .qcurve, false, none, none⟩, ⟨20, 0, some .line, false, none, none⟩]⟩
/-- off-curve points only -/
def exOff : Contour Int := ⟨some "c3", [⟨0, 0, none, false, none, none⟩, ⟨4, 0, none, false, none, none⟩, ⟨4, 4, none, false, none, none⟩]⟩

def exA : Content Int :=
  { width := 500, height := 0, unicodes := [65], note := some "n", image := ⟨some "i.png", ⟨1, 0, 0, 1, 3, 4⟩, none⟩,
    anchors := [⟨some 1, some 2, some "top", none, some "a1"⟩], guidelines := [⟨some 5, none, none, none, none, some "g1"⟩],
    lib := "{}", contours := [exCurve, exOpen, exOff], components := [] }
/-- D = A scaled by 2 and shifted, plus an own contour REUSING A's identifiers c1, p1 -/
def exD : Content Int :=
  { exA with unicodes := [], anchors := [], guidelines := [],
             contours := [⟨some "c1", [⟨1, 1, some .move, false, none, some "p1"⟩]⟩],
             components := [⟨"A", ⟨2, 0, 0, 2, 5, 5⟩, some "k1"⟩, ⟨"missing", ⟨1, 0, 0, 1, 0, 0⟩, none⟩] }
/-- F = D rotated by 90 degrees (nested, transformed) and A untransformed -/
def exF : Content Int :=
  { exD with contours := [], components := [⟨"D", ⟨0, 1, -1, 0, 100, 0⟩, none⟩, ⟨"A", ⟨1, 0, 0, 1, 0, 0⟩, some "k2"⟩] }

def exGlyph (n : String) (c : Content Int) : Glyph Int := ((Glyph.ofContent (Glyph.fresh (some n)) c).toOption).getD (Glyph.fresh none)
def exShallow (n : String) (c : Content Int) : Glyph Int := ((Glyph.load (Glyph.fresh (some n)) c).toOption).getD (Glyph.fresh none)
def exLayer : Layer Int := [("A", exShallow "A" exA), ("D", exGlyph "D" exD), ("F", exGlyph "F" exF)]

example : exA.Valid ∧ exD.Valid ∧ exF.Valid := by decide
/-- the hypotheses of `build_draw_empty`/`rebuild_any_state` hold for a non-trivial outline, and the round trip is exact -/
example : (identsOf exA.contours exA.components).Nodup := by decide
example : (build false exA.draw (Glyph.fresh none)).toOption.map (·.draw) = some exA.draw := by decide
example : (build false exA.draw (Glyph.fresh none)).toOption.map (·.ids) = some ["c1", "p2", "p1", "c3"] := by decide
/-- a pen that predates identifiers: the stream of `exA` (names "n", "top", a smooth curve point) arrives with
every name and flag and without any identifier, from the new and from the shallow-loaded glyph alike; a pen
that only lacks the keyword in `addPoint` still gets the contour identifiers -/
example : (exGlyph "A" exA).drawTo PenCaps.old = (exShallow "A" exA).drawTo PenCaps.old ∧
    (exGlyph "A" exA).drawTo PenCaps.old = exA.draw.map (capEv PenCaps.old) ∧
    ((exGlyph "A" exA).drawTo PenCaps.old).take 5 =
      [.beginPath none, .addPoint ⟨10, 0, none, false, some "n", none⟩, .addPoint ⟨10, 10, none, false, none, none⟩,
       .addPoint ⟨0, 10, some .curve, true, none, none⟩, .addPoint ⟨0, 0, some .line, false, some "top", none⟩] ∧
    ((exShallow "A" exA).drawTo ⟨true, false, true⟩).take 4 =
      [.beginPath (some "c1"), .addPoint ⟨10, 0, none, false, some "n", none⟩, .addPoint ⟨10, 10, none, false, none, none⟩,
       .addPoint ⟨0, 10, some .curve, true, none, none⟩] := by decide
example : (build false ((exShallow "A" exA).drawTo PenCaps.old) (Glyph.fresh none)).toOption.map (fun g => (g.contours, g.ids)) =
    some (exA.contours.map Contour.eraseIds, []) := by decide
/-- a repeated identifier is rejected -/
example : build false (drawContour exCurve ++ drawContour exCurve) (Glyph.fresh (none : Option String)) = (.error .assertion : Except Err (Glyph Int)) := by decide
/-- shallow, full and new states of the same content: same stream; the shallow one holds its contour and
point identifiers by reservation -/
example : (exShallow "A" exA).shallow.isSome = true ∧ (exShallow "A" exA).ids = ["c1", "p2", "p1", "c3", "g1", "a1"] ∧
    (exShallow "A" exA).draw = exA.draw ∧ (exGlyph "A" exA).draw = exA.draw ∧
    (deepen (exShallow "A" exA)).toOption.map (·.draw) = some exA.draw := by decide
/-- copy of a shallow source into a fresh glyph: all data equal, name its own -/
example : (exShallow "A" exA).Valid := by decide
example : (copyData (Glyph.fresh (some "B")) (exShallow "A" exA)).toOption.map (fun d => (d.obs, d.name)) =
    some (exA.obs, some "B") := by decide
/-- decomposition, one level: base outline under the map, conflicting identifiers c1/p1 dropped, others kept;
the component with a missing base just disappears -/
example : (decomposeAll 8 exLayer 2 (exGlyph "D" exD)).toOption.map (fun g => (g.contours, g.components, g.ids)) =
    some ([⟨some "c1", [⟨1, 1, some .move, false, none, some "p1"⟩]⟩,
           ⟨none, [⟨25, 5, none, false, some "n", none⟩, ⟨25, 25, none, false, none, none⟩,
                   ⟨5, 25, some .curve, true, none, some "p2"⟩, ⟨5, 5, some .line, false, some "top", none⟩]⟩,
           ⟨none, [⟨5, 5, some .move, false, none, none⟩, ⟨15, 23, none, false, none, none⟩, ⟨19, 11, none, false, none, none⟩,
                   ⟨23, 5, some .qcurve, false, none, none⟩, ⟨45, 5, some .line, false, none, none⟩]⟩,
           ⟨some "c3", [⟨5, 5, none, false, none, none⟩, ⟨13, 5, none, false, none, none⟩, ⟨13, 13, none, false, none, none⟩]⟩],
          [], ["c1", "p1", "p2", "c3"]) := by decide
/-- two levels, composed transformation (rotate ∘ scale), and the hypotheses of `decompose_spec` / `flatten_terminates` -/
example : (flatten 8 exLayer "D" ⟨0, 1, -1, 0, 100, 0⟩).map (·.map (·.points.map (fun p => (p.x, p.y)))) =
    some [[(99, 1)], [(95, 25), (75, 25), (75, 5), (95, 5)], [(95, 5), (77, 15), (89, 19), (95, 23), (95, 45)],
          [(95, 5), (95, 13), (87, 13)]] := by decide
/-- too little fuel is reported, never silently truncated -/
example : flatten 1 exLayer "D" (⟨0, 1, -1, 0, 100, 0⟩ : Transform Int) = none := by decide
example : ((decomposeAt 8 exLayer (exGlyph "F" exF) 0).toOption.map (fun g => g.contours.map (·.points.map (fun p => (p.x, p.y))))) =
    some [[(99, 1)], [(95, 25), (75, 25), (75, 5), (95, 5)], [(95, 5), (77, 15), (89, 19), (95, 23), (95, 45)],
          [(95, 5), (95, 13), (87, 13)]] := by decide
example : Acyclic exLayer (fun n => if n = "F" then 2 else if n = "D" then 1 else 0) :=
  acyclic_of_forall _ _ (by decide)
/-- segment round trip: unrotated, rotated to the first on-curve point, off-curve only -/
example : SegFaithful exCurve.points ∧ SegFaithful exOpen.points ∧ SegFaithful exOff.points := by decide
example : segRoundTrip exCurve.points = some (drawContour ⟨none,
    [⟨0, 10, some .curve, false, none, none⟩, ⟨0, 0, some .line, false, none, none⟩,
     ⟨10, 0, none, false, none, none⟩, ⟨10, 10, none, false, none, none⟩]⟩) := by decide
example : segRoundTrip exOpen.points = some (drawContour ⟨none, exOpen.points.map Point.strip⟩) := by decide
/-- what the segment protocol does NOT carry (outside `SegFaithful`): a lone `line` point comes back as `move`;
an empty contour vanishes; an off-curve-only contour whose first and last points coincide loses one point -/
example : segRoundTrip [(⟨3, 4, some .line, false, none, none⟩ : Point Int)] =
    some (drawContour ⟨none, [⟨3, 4, some .move, false, none, none⟩]⟩) := by decide
example : segRoundTrip ([] : List (Point Int)) = some [] := by decide
example : segRoundTrip [(⟨0, 0, none, false, none, none⟩ : Point Int), ⟨4, 0, none, false, none, none⟩, ⟨0, 0, none, false, none, none⟩] =
    some (drawContour ⟨none, [⟨0, 0, none, false, none, none⟩, ⟨4, 0, none, false, none, none⟩]⟩) := by decide

/-- a shallow-loaded glyph whose own contour identifiers (`c1`, `p1`) recur in the base glyph (the
situation of the defect repaired by defcon commit "fix: decomposing a component of a glyph whose
contours are still shallow loaded …", repo_fixes/C13-decompose-shallow.diff) -/
def exDShallow : Glyph Int := exShallow "D" exD

/-- the shallow-loaded glyph decomposes exactly like the new / fully loaded one, the conflicting
identifiers `c1`, `p1` of the base glyph being dropped -/
theorem fixed_decompose_shallow_agrees :
    (decomposeAt 8 exLayer exDShallow 0).toOption.map (·.draw) =
      (decomposeAt 8 exLayer (exGlyph "D" exD) 0).toOption.map (·.draw) ∧
    (decomposeAt 8 exLayer exDShallow 0).toOption.isSome = true := by decide

/-- reservation at work: a strict pen cannot take `c1` while the glyph is still shallow, a skipping pen drops it -/
example : (build false [.beginPath (some "c1"), .endPath] exDShallow) = .error .assertion ∧
    (build true [.beginPath (some "c1"), .endPath] exDShallow).toOption.map (·.contours.map (·.ident)) =
      some [some "c1", none] := by decide

end Examples

/-! ## 7. Independence: a copy shares no mutable state with its source (M-Cells)

The records of M-Pen are immutable Lean values; sharing is a statement about the heap model of
`DefconModel/Cells.lean`: Python values as trees of cells with identities, `Reach h v q` = the cell at
address `q` belongs to the mutable state of `v`, `Disjoint h v w` = no cell belongs to both. -/

section Independence
open DefconModel.Cells

/-- `copy.deepcopy` (what `copyDataFromGlyph` applies to the lib): for a well-formed heap and ANY value —
any nesting of lists / dicts / sets / objects — the cells reachable from the copy are disjoint from the
cells reachable from the source, the copy denotes the value the source denoted, and the source still
denotes what it denoted. -/
theorem deepcopy_disjoint (n : Nat) (h h' : Heap) (v v' : Val) (hc : Closed h) (hv : InB h v)
    (e : deepcopy n h v = some (h', v')) :
    Disjoint h' v' v ∧ (∀ k, denote h' k v' = denote h k v) ∧ (∀ k, denote h' k v = denote h k v) := by
  obtain ⟨h1, h2, h3, _, _⟩ := copy_disjoint hc hv e (aliasFree_allDeep n [] h v)
  exact ⟨h1, h2, h3⟩

/-- ANY sequence of mutations — cells overwritten in place, new cells allocated, in any number and order —
that writes to no cell of the state of `v` leaves what `v` denotes, and the set of cells it reaches,
unchanged. -/
theorem mutation_invisible (h : Heap) (v : Val) (ms : List Mut) (hb : Bounded h v)
    (hw : ∀ p c, Mut.write p c ∈ ms → ¬ Reach h v p) :
    (∀ k, denote (applyAll h ms) k v = denote h k v) ∧ (∀ q, Reach (applyAll h ms) v q ↔ Reach h v q) :=
  muts_invisible ms h v hb hw

/-- By disjointness: whatever is done to the cells of one side (here `v`) — and to cells allocated later —
is invisible from the other side (`w`). -/
theorem mutation_of_other_side_invisible (h : Heap) (v w : Val) (ms : List Mut) (hb : Bounded h w)
    (hd : Disjoint h v w) (hw : ∀ p c, Mut.write p c ∈ ms → Reach h v p ∨ h.length ≤ p) :
    ∀ k, denote (applyAll h ms) k w = denote h k w := by
  refine (muts_invisible ms h w hb ?_).1
  intro p c hm r
  rcases hw p c hm with h1 | h1
  · exact hd p h1 r
  · exact absurd (hb p r) (Nat.not_lt.mpr h1)

/-- FULL statement of the independence clause for a copy route given by its field table: every glyph of
the shape the table's types describe, copied field by field as the table's modes say, shares no cell
with its copy. -/
def Independent (t : Table) : Prop :=
  ∀ (n : Nat) (h h' : Heap) (g g' : Val), Closed h → InB h g → conforms n t.ty [] h g = true →
    copyAt n t.mode [] h g = some (h', g') → Disjoint h' g' g

/-- Every table whose entries are all safe — `alias` only on fields that always hold immutable values,
`deepcopy` on fields of unknown structure, a fresh container otherwise — yields independent copies that
denote what the source denotes; later mutations of either side are invisible from the other. -/
theorem safe_table_independent (t : Table) (hs : t.safe = true) (n : Nat) (h h' : Heap) (g g' : Val)
    (hc : Closed h) (hg : InB h g) (hshape : conforms n t.ty [] h g = true)
    (e : copyAt n t.mode [] h g = some (h', g')) :
    Disjoint h' g' g ∧ (∀ k, denote h' k g' = denote h k g) ∧ (∀ k, denote h' k g = denote h k g) ∧
    (∀ ms : List Mut, (∀ p c, Mut.write p c ∈ ms → Reach h' g p ∨ h'.length ≤ p) →
      ∀ k, denote (applyAll h' ms) k g' = denote h k g) ∧
    (∀ ms : List Mut, (∀ p c, Mut.write p c ∈ ms → Reach h' g' p ∨ h'.length ≤ p) →
      ∀ k, denote (applyAll h' ms) k g = denote h k g) := by
  have ha : aliasFree n t.mode [] h g = true :=
    conforms_aliasFree t.ty t.mode (fun path => Table.safe_at t hs path) h n [] g hshape
  obtain ⟨h1, h2, h3, h4, h5⟩ := copy_disjoint hc hg e ha
  refine ⟨h1, h2, h3, ?_, ?_⟩
  · intro ms hw k
    rw [mutation_of_other_side_invisible h' g g' ms h5 (fun q r1 r2 => h1 q r2 r1) hw k, h2 k]
  · intro ms hw k
    rw [mutation_of_other_side_invisible h' g' g ms h4 h1 hw k, h3 k]

/-- The code's copy paths (`Glyph.copyDataFromGlyph`, hence `Layer.insertGlyph` and `Font.insertGlyph`):
by the table of what each statement does to each field (`Cells.codeTable`; tied to the source by the two
obligations below), every mutable field of the copy — the glyph object, its unicodes list, lib and every
nested lib value, image, anchors, guidelines, contours, their point lists and points, components,
identifier set — is disjoint from the source. -/
theorem copy_independent : Independent codeTable := by
  intro n h h' g g' hc hg hshape e
  exact (safe_table_independent codeTable (by decide) n h h' g g' hc hg hshape e).1

/-- An `alias` entry on a field that holds a cell refutes independence: the "copy" of that field IS the
source's cell. -/
theorem alias_entry_shares (n : Nat) (tbl : Path → Mode) (path : Path) (h : Heap) (p : Addr)
    (ha : tbl path = .alias) :
    copyAt (n + 1) tbl path h (.ref p) = some (h, .ref p) ∧ ¬ Disjoint h (.ref p) (.ref p) := by
  refine ⟨by simp [copyAt, ha], fun hd => hd p (Reach.here p) (Reach.here p)⟩

/-! ### witnesses: tables with an `alias` entry on a mutable field -/

/-- a glyph with one component whose transformation is a LIST (cell 0), as
`component.transformation = [1, 0, 0, 1, 0, 0]` stored it before the repair -/
def exHeapT : Heap :=
  [⟨.list, [], [.atom (.sc (.int 1)), .atom (.sc (.int 0)), .atom (.sc (.int 0)), .atom (.sc (.int 1)),
                .atom (.sc (.int 0)), .atom (.sc (.int 0))]⟩,
   ⟨.obj "Component", ["baseGlyph", "transformation", "identifier"], [.atom (.sc (.str "A")), .ref 0, .atom (.sc .none)]⟩,
   ⟨.list, [], [.ref 1]⟩,
   ⟨.obj "Glyph", ["width", "components"], [.atom (.sc (.int 500)), .ref 2]⟩]

/-- a glyph whose lib holds a nested list: `{"k": [1, {"a": [2]}]}` -/
def exHeapL : Heap :=
  [⟨.list, [], [.atom (.sc (.int 2))]⟩, ⟨.dict, ["a"], [.ref 0]⟩,
   ⟨.list, [], [.atom (.sc (.int 1)), .ref 1]⟩, ⟨.dict, ["k"], [.ref 2]⟩,
   ⟨.obj "Glyph", ["width", "lib"], [.atom (.sc (.int 500)), .ref 3]⟩]

/-- `exHeapT` after its glyph (cell 3) was copied by the unrepaired table: new component 4, list 5, glyph 6 -/
def exCopyT : Heap :=
  exHeapT ++ [⟨.obj "Component", ["baseGlyph", "transformation", "identifier"],
                [.atom (.sc (.str "A")), .ref 0, .atom (.sc .none)]⟩,
              ⟨.list, [], [.ref 4]⟩,
              ⟨.obj "Glyph", ["width", "components"], [.atom (.sc (.int 500)), .ref 5]⟩]

/-- Finding F119 (repaired: `Component._set_transformation` now stores a tuple): with the table of the
tree as it was — the transformation field may hold a list, and the pen assigns it — the copy of a glyph
whose component carries a list shares that list with the source. -/
theorem unrepaired_table_violated : ¬ Independent unrepairedTable := by
  intro hI
  have e : copyAt 8 unrepairedTable.mode [] exHeapT (.ref 3) = some (exCopyT, .ref 6) := by decide
  exact hI 8 exHeapT _ (.ref 3) (.ref 6) (closed_of_closedB (by decide)) (by decide) (by decide) e 0
    (reach_of_reachB 8 _ _ (by decide)) (reach_of_reachB 8 _ _ (by decide))

/-- The serialization route without pickling (`dst.setDataFromSerialization(src.getDataForSerialization())`,
not a copy path of this property) is such a table too: the lib's values are handed over as they are. -/
theorem serial_table_violated : ¬ Independent serialTable := by
  intro hI
  have e : copyAt 8 serialTable.mode [] exHeapL (.ref 4) =
      some (exHeapL ++ [⟨.dict, ["k"], [.ref 2]⟩,
                        ⟨.obj "Glyph", ["width", "lib"], [.atom (.sc (.int 500)), .ref 5]⟩], .ref 6) := by
    decide
  exact hI 8 exHeapL _ (.ref 4) (.ref 6) (closed_of_closedB (by decide)) (by decide) (by decide) e 2
    (reach_of_reachB 8 _ _ (by decide)) (reach_of_reachB 8 _ _ (by decide))

/-! ### the tie to the source (obligations over the regenerated table) -/

/-- Every statement of the code's copy paths whose treatment of a field is syntactically decidable
(`deepcopy(…)`, `list(…)`, comprehension over `instantiateX`, own pen, bare assignment, `tuple(…)` in the
transformation setter, …; regenerated from the AST on every run) has the form the model assumes. -/
theorem copy_forms_as_modelled : Gen.CopyForms.forms = expectedForms := by decide

/-- … and the entries of the field table that those forms determine are entries of `codeTable`. -/
theorem code_table_from_forms :
    (derivedEntries Gen.CopyForms.forms).all (fun e => codeTable.contains e) = true := by decide

/-! ### non-vacuity -/

example : closedB exHeapL = true ∧ closedB exHeapT = true := by decide
example : codeTable.safe = true ∧ unrepairedTable.safe = false ∧ serialTable.safe = false := by decide
/-- the lib of `exHeapL` deep-copied: four new cells (5 … 8), the root of the copy is cell 8 -/
example : (deepcopy 8 exHeapL (.ref 3)).map (fun r => (r.1.length, r.2)) = some (9, .ref 8) := by decide
example : ((deepcopy 8 exHeapL (.ref 3)).bind fun r => denote r.1 8 r.2) = denote exHeapL 8 (.ref 3) := rfl
/-- the glyph of `exHeapL` conforms to the code's table and is copied by it: 5 fresh cells, nothing shared -/
example : conforms 8 codeTable.ty [] exHeapL (.ref 4) = true ∧
    (copyAt 8 codeTable.mode [] exHeapL (.ref 4)).map (fun r => (r.1.length, r.2, sharedPaths 5 r.1 8 [] r.2)) =
      some (10, .ref 9, []) := by decide
/-- … while the serialization table shares the lib value, and the unrepaired table the transformation -/
example : (copyAt 8 serialTable.mode [] exHeapL (.ref 4)).map (fun r => sharedPaths 5 r.1 8 [] r.2) = some ["lib.*"] ∧
    (copyAt 8 unrepairedTable.mode [] exHeapT (.ref 3)).map (fun r => sharedPaths 4 r.1 8 [] r.2) =
      some ["components.*.transformation"] ∧
    conforms 8 codeTable.ty [] exHeapT (.ref 3) = false := by decide
/-- a mutation of the SOURCE's nested lib list (cell 0: `[2]` becomes `[2, 3]`) after a deep copy: the copy
(cell 8) still denotes the old value — an instance of `mutation_of_other_side_invisible` -/
example : ∀ k, denote (applyAll (exHeapL ++ [⟨.list, [], [.atom (.sc (.int 2))]⟩, ⟨.dict, ["a"], [.ref 5]⟩,
      ⟨.list, [], [.atom (.sc (.int 1)), .ref 6]⟩, ⟨.dict, ["k"], [.ref 7]⟩])
      [.write 0 ⟨.list, [], [.atom (.sc (.int 2)), .atom (.sc (.int 3))]⟩]) k (.ref 8) = denote exHeapL k (.ref 3) := by
  have e : deepcopy 8 exHeapL (.ref 3) = some (exHeapL ++ [⟨.list, [], [.atom (.sc (.int 2))]⟩, ⟨.dict, ["a"], [.ref 5]⟩,
      ⟨.list, [], [.atom (.sc (.int 1)), .ref 6]⟩, ⟨.dict, ["k"], [.ref 7]⟩], .ref 8) := by decide
  obtain ⟨h1, h2, _⟩ := deepcopy_disjoint 8 exHeapL _ (.ref 3) (.ref 8) (closed_of_closedB (by decide)) (by decide) e
  intro k
  rw [← h2 k]
  refine mutation_of_other_side_invisible _ (.ref 3) (.ref 8) _ ?_ (fun q r1 r2 => h1 q r2 r1) ?_ k
  · exact bounded_of_closed (closed_of_closedB (by decide)) (by decide)
  · intro p c hm
    simp only [List.mem_singleton, Mut.write.injEq] at hm
    exact Or.inl (hm.1 ▸ reach_of_reachB 8 _ _ (by decide))
/-- the same write where the list is SHARED (unrepaired table): the copy's denotation changes -/
example : denote exCopyT 8 (.ref 6) = denote exHeapT 8 (.ref 3) ∧
    denote (exCopyT.set 0 ⟨.list, [], []⟩) 8 (.ref 6) =
      some (.node (.obj "Glyph") ["width", "components"] [.atom (.sc (.int 500)),
        .node .list [] [.node (.obj "Component") ["baseGlyph", "transformation", "identifier"]
          [.atom (.sc (.str "A")), .node .list [] [], .atom (.sc .none)]]]) := ⟨rfl, rfl⟩

end Independence

end DefconModel.Props.C13
