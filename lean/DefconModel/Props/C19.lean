/-
C19 — Kerning lookup through groups follows the UFO precedence rules.

Property theorems about M-Kern (`DefconModel/Kern.lean`: `Kerning.find` → fontTools
`lookupKerningValue`, the four group-table factories of tools/representations.py, their caching in
`BaseObject.getRepresentation` with eviction on `Groups.Changed`, the `BaseDictObject` mutators, lazy
load and reload).  Specification-side definitions (`ValidGroups`, `specFind`, `CacheOK`, the
cache-free machine `Ref`) are in `Spec/Kern.lean`, helper lemmas in `Lemmas/Kern.lean`.

`freshG2G side g` / `freshSide side g` are the tables the factories compute from groups `g`;
`Ref.find c p d` is `lookupKerningValue` run on tables computed from the groups as they are now.
-/
import DefconModel.Lemmas.Kern
import DefconModel.Gen.KernTables

namespace DefconModel.Props.C19
open DefconModel DefconModel.Kern

/-! ## 1. The lookup returns the most specific defined pair -/

/-- `find_eq_spec`.  For every kerning dict, every groups dict obeying the UFO kerning-group rule
(each glyph in at most one `public.kern1.*` and at most one `public.kern2.*` group), every pair and
default: the code's lookup over the tables built from these groups returns the value of the first
defined pair among (a,b), (a,G2 b), (G1 a,b), (G1 a,G2 b), else the default — where G1/G2 are found by
scanning the groups themselves, and a name that is itself a group name of its side stands for that
group and for no glyph. -/
theorem find_eq_spec (k : KernD) (g : GroupsD) (hn : (AL.keys g).Nodup) (hv : ValidGroups g)
    (p : Pair) (d : Int) :
    lookup k (freshG2G isKern1 g) (freshG2G isKern2 g) p d = specFind k g p d := by
  rw [lookup_eq_specFindWith]
  unfold specFind
  apply specFindWith_congr
  · rw [get?_freshG2G _ _ hn, lastGroupOf_eq_groupOf _ _ _ hv.1]
  · rw [get?_freshG2G _ _ hn, lastGroupOf_eq_groupOf _ _ _ hv.2]

/-- On ANY groups (rule obeyed or not) the code follows the same precedence with "the group of a
glyph" = the LAST group of that side, in dict order, that lists it. -/
theorem find_general (k : KernD) (g : GroupsD) (hn : (AL.keys g).Nodup) (p : Pair) (d : Int) :
    lookup k (freshG2G isKern1 g) (freshG2G isKern2 g) p d =
      specFindWith (lastGroupOf isKern1 g) (lastGroupOf isKern2 g) k p d := by
  rw [lookup_eq_specFindWith]
  apply specFindWith_congr <;> rw [get?_freshG2G _ _ hn]

/-- Under the rule, the reference's "group of x" is THE group of that side listing x. -/
theorem groupOf_iff (side : String → Bool) (g : GroupsD) (hv : ValidSide side g) (x G : String) :
    groupOf side g x = some G ↔ IsGroupOf side g x G := by
  unfold groupOf IsGroupOf
  constructor
  · intro h
    cases hf : g.find? (inGroup side x) with
    | none => simp [hf] at h
    | some p =>
      simp [hf] at h
      have hm := List.mem_of_find?_eq_some hf
      have hp := List.find?_some hf
      unfold inGroup at hp
      simp at hp
      refine ⟨p.2, ?_, ?_, hp.2⟩
      · rw [← h]; exact hm
      · rw [← h]; exact hp.1
  · rintro ⟨ms, hm, hs, hx⟩
    cases hf : g.find? (inGroup side x) with
    | none =>
      have := List.find?_eq_none.1 hf (G, ms) hm
      simp [inGroup, hs, hx] at this
    | some p =>
      have hm' := List.mem_of_find?_eq_some hf
      have hp := List.find?_some hf
      unfold inGroup at hp
      simp at hp
      simp
      exact hv p.1 p.2 G ms x hm' hm hp.1 hs hp.2 hx

/-- … and it answers "none" exactly when no group of that side lists x (no rule needed). -/
theorem groupOf_none_iff (side : String → Bool) (g : GroupsD) (x : String) :
    groupOf side g x = none ↔ ∀ G, ¬ IsGroupOf side g x G := by
  unfold groupOf IsGroupOf
  simp only [Option.map_eq_none_iff, List.find?_eq_none]
  constructor
  · rintro h G ⟨ms, hm, hs, hx⟩
    have := h (G, ms) hm
    simp [inGroup, hs, hx] at this
  · intro h p hp hin
    unfold inGroup at hin
    simp at hin
    exact h p.1 ⟨p.2, hp, hin.1, hin.2⟩

/-! The precedence levels of the reference, spelled out for two glyph names. -/

/-- level 1: a defined glyph/glyph pair wins over everything -/
theorem spec_pair_wins (k : KernD) (g : GroupsD) (a b : String) (d v : Int)
    (ha : isKern1 a = false) (hb : isKern2 b = false) (h : AL.get? k (a, b) = some v) :
    specFind k g (a, b) d = v := by
  simp [specFind, specFindWith, candidates, readSide, ha, hb, h]

/-- level 2a: else glyph/group, with the side-2 group of the second glyph -/
theorem spec_glyph_group (k : KernD) (g : GroupsD) (a b gb : String) (d v : Int)
    (ha : isKern1 a = false) (hb : isKern2 b = false) (h1 : AL.get? k (a, b) = none)
    (hgb : groupOf isKern2 g b = some gb) (h : AL.get? k (a, gb) = some v) :
    specFind k g (a, b) d = v := by
  simp [specFind, specFindWith, candidates, readSide, ha, hb, h1, hgb, h]

/-- level 2b: else group/glyph, with the side-1 group of the first glyph -/
theorem spec_group_glyph (k : KernD) (g : GroupsD) (a b ga : String) (d v : Int)
    (ha : isKern1 a = false) (hb : isKern2 b = false) (h1 : AL.get? k (a, b) = none)
    (h2 : pairValue k (some a, groupOf isKern2 g b) = none)
    (hga : groupOf isKern1 g a = some ga) (h : AL.get? k (ga, b) = some v) :
    specFind k g (a, b) d = v := by
  simp [specFind, specFindWith, candidates, readSide, ha, hb, h1, h2, hga, h]

/-- level 3: else group/group, side-1 group of the first glyph with side-2 group of the second -/
theorem spec_group_group (k : KernD) (g : GroupsD) (a b ga gb : String) (d v : Int)
    (ha : isKern1 a = false) (hb : isKern2 b = false) (h1 : AL.get? k (a, b) = none)
    (hga : groupOf isKern1 g a = some ga) (hgb : groupOf isKern2 g b = some gb)
    (h2 : AL.get? k (a, gb) = none) (h3 : AL.get? k (ga, b) = none)
    (h : AL.get? k (ga, gb) = some v) :
    specFind k g (a, b) d = v := by
  simp [specFind, specFindWith, candidates, readSide, ha, hb, h1, h2, h3, hga, hgb, h]

/-- else the default -/
theorem spec_default (k : KernD) (g : GroupsD) (p : Pair) (d : Int)
    (h : ∀ c ∈ candidates (groupOf isKern1 g) (groupOf isKern2 g) p, pairValue k c = none) :
    specFind k g p d = d := by
  unfold specFind specFindWith
  rw [List.findSome?_eq_none_iff.2 h]
  rfl

/-! ## 2. The derived tables reflect the groups they are computed from -/

/-- side tables: exactly the groups whose name carries the prefix, in dict order -/
theorem side_table_eq_filter (side : String → Bool) (g : GroupsD) (hn : (AL.keys g).Nodup) :
    freshSide side g = g.filter (fun p => side p.1) :=
  gather_eq_filter side g hn

/-- side tables as lookups: a name is a key exactly when it carries the prefix and is a group, with
the group's member list as value -/
theorem side_table_exact (side : String → Bool) (g : GroupsD) (hn : (AL.keys g).Nodup) (n : String) :
    AL.get? (freshSide side g) n = if side n = true then AL.get? g n else none := by
  rw [side_table_eq_filter side g hn]
  exact get?_filter_side side g n

/-- glyph-to-group tables, any groups: a glyph is a key exactly when some group of that side lists it -/
theorem g2g_table_domain (side : String → Bool) (g : GroupsD) (hn : (AL.keys g).Nodup) (x : String) :
    (AL.get? (freshG2G side g) x).isSome = true ↔ ∃ G, IsGroupOf side g x G := by
  rw [get?_freshG2G _ _ hn]
  exact lastGroupOf_isSome_iff side g x

/-- glyph-to-group tables, any groups: glyph ↦ last group of that side listing it -/
theorem g2g_table_general (side : String → Bool) (g : GroupsD) (hn : (AL.keys g).Nodup) (x : String) :
    AL.get? (freshG2G side g) x = lastGroupOf side g x :=
  get?_freshG2G side g hn x

/-- glyph-to-group tables under the rule: glyph ↦ G exactly when G is the group of that side listing it -/
theorem g2g_table_exact (side : String → Bool) (g : GroupsD) (hn : (AL.keys g).Nodup)
    (hv : ValidSide side g) (x G : String) :
    AL.get? (freshG2G side g) x = some G ↔ IsGroupOf side g x G := by
  rw [get?_freshG2G _ _ hn, lastGroupOf_eq_groupOf _ _ _ hv]
  exact groupOf_iff side g hv x G

/-! ## 3. Every history of edits, reloads and lookups -/

/-- `cache_transparent`.  From any state whose cached tables are current (the new font in
particular), for EVERY sequence of operations — set/del/clear/update on groups and kerning, external
edits, reloads, opening a UFO, lookups, table reads in any interleaving — the font's content and every
answer it gives (other than "is this table cached?") are those of the cache-free machine `Ref`, which
keeps two plain dicts and recomputes every table from the current groups at every use. -/
theorem cache_transparent (s : State) (h : CacheOK s) (ops : List Op) :
    (run s ops).1.c = (Ref.run s.c ops).1 ∧ (run s ops).2.map mask = (Ref.run s.c ops).2 :=
  (run_refines s h ops).2

/-- `tables_current`.  After any operation sequence on a new font, every cached table (side-1,
side-2, glyph→side-1 group, glyph→side-2 group) equals the table computed from the current groups. -/
theorem tables_current (ops : List Op) : CacheOK (run {} ops).1 :=
  (run_refines {} (cacheOK_empty _) ops).1

/-- … and this is preserved by each single operation, from any such state. -/
theorem tables_current_step (s : State) (h : CacheOK s) (op : Op) : CacheOK (step s op).1 :=
  (step_refines s h op).1

/-- Reading a table after any history returns the table of the current groups (cached or not). -/
theorem table_readout_current (ops : List Op) (t : Table) :
    let s := (run {} ops).1
    s.c.loaded = true → (step s (.table t)).2 = freshTable s.c.groups t := by
  intro s hl
  have h := (step_refines s (tables_current ops) (.table t)).2.2
  have hr : (Ref.step s.c (.table t)).2 = freshTable s.c.groups t := by
    simp [Ref.step, Ref.load, hl, Ref.stepLoaded]
  rw [hr] at h
  cases t <;> simp only [freshTable] at h ⊢ <;>
    (cases ho : (step s _).2 <;> simp [ho, mask] at h ⊢ <;> exact h)

/-- The two dicts of every reachable font have unique keys (so `find_eq_spec` applies to them). -/
theorem wf_reachable (ops : List Op) : WF (run {} ops).1.c := by
  rw [(run_refines {} (cacheOK_empty _) ops).2.1]
  exact wf_run _ ⟨by simp [AL.keys], by simp [AL.keys]⟩ ops

/-- `find_tracks_edits`.  After ANY history, `find` answers by the precedence rules over the
kerning and groups the font holds at that moment, whenever those groups obey the rule. -/
theorem find_tracks_edits (ops : List Op) (p : Pair) (d : Int) :
    let s := (run {} ops).1
    s.c.loaded = true → ValidGroups s.c.groups →
      (step s (.find p d)).2 = .int (specFind s.c.kerning s.c.groups p d) := by
  intro s hl hv
  have h := (step_refines s (tables_current ops) (.find p d)).2.2
  have hr : (Ref.step s.c (.find p d)).2 = .int (Ref.find s.c p d) := by
    simp [Ref.step, Ref.load, hl, Ref.stepLoaded]
  rw [hr, Ref.find, find_eq_spec _ _ (wf_reachable ops).groups hv] at h
  cases ho : (step s (.find p d)).2 <;> simp [ho, mask] at h ⊢
  exact h

/-- The same for a sweep of lookups issued one after another. -/
theorem findAll_tracks_edits (ops : List Op) (ps : List Pair) (d : Int) :
    let s := (run {} ops).1
    s.c.loaded = true → ValidGroups s.c.groups →
      (step s (.findAll ps d)).2 = .ints (ps.map fun p => specFind s.c.kerning s.c.groups p d) := by
  intro s hl hv
  have h := (step_refines s (tables_current ops) (.findAll ps d)).2.2
  have hr : (Ref.step s.c (.findAll ps d)).2 = .ints (ps.map fun p => Ref.find s.c p d) := by
    simp [Ref.step, Ref.load, hl, Ref.stepLoaded]
  rw [hr] at h
  have he : (ps.map fun p => Ref.find s.c p d) = ps.map fun p => specFind s.c.kerning s.c.groups p d := by
    apply List.map_congr_left
    intro p _
    exact find_eq_spec _ _ (wf_reachable ops).groups hv p d
  rw [he] at h
  cases ho : (step s (.findAll ps d)).2 <;> simp [ho, mask] at h ⊢
  exact h

/-- A font opened from a UFO and not yet read: the first lookup loads groups.plist / kerning.plist
as they are on disk NOW; if `readGroups` accepts them the rule holds by itself and the answer follows
the precedence rules over the loaded content; otherwise the lookup raises. -/
theorem find_after_lazy_load (ops : List Op) (p : Pair) (d : Int) :
    let s := (run {} ops).1
    s.c.loaded = false →
      (step s (.find p d)).2 =
        match readGroups s.c.diskGroups with
        | none => .err "UFOLibError"
        | some g => .int (specFind (updateD [] s.c.diskKerning) (updateD [] g) p d) := by
  intro s hl
  have h := (step_refines s (tables_current ops) (.find p d)).2.2
  cases hr : readGroups s.c.diskGroups with
  | none =>
    have : (Ref.step s.c (.find p d)).2 = .err "UFOLibError" := by
      simp [Ref.step, Ref.load, hl, hr]
    rw [this] at h
    cases ho : (step s (.find p d)).2 <;> simp [ho, mask] at h ⊢
    exact h
  | some g =>
    have : (Ref.step s.c (.find p d)).2 =
        .int (lookup (updateD [] s.c.diskKerning) (freshG2G isKern1 (updateD [] g))
          (freshG2G isKern2 (updateD [] g)) p d) := by
      simp [Ref.step, Ref.load, hl, hr, Ref.stepLoaded, Ref.find]
    rw [this, find_eq_spec _ _ (nodup_keys_updateD _ _ (by simp [AL.keys]))
      (validGroups_updateD_nil (readGroups_valid hr))] at h
    cases ho : (step s (.find p d)).2 <;> simp [ho, mask] at h ⊢
    exact h

/-- A successful `reloadGroups` leaves groups that obey the rule (`readGroups` validates), namely
the file's groups with duplicate members of kerning groups removed. -/
theorem reload_valid (c : Content) (hl : c.loaded = true) (hp : c.hasPath = true) (g : GroupsD)
    (hr : readGroups c.diskGroups = some g) :
    (Ref.step c .reloadGroups).1.groups = updateD [] g ∧ ValidGroups (Ref.step c .reloadGroups).1.groups := by
  have : (Ref.step c .reloadGroups).1.groups = updateD [] g := by
    simp [Ref.step, hl, Ref.stepLoaded, hp, hr]
  rw [this]
  exact ⟨rfl, validGroups_updateD_nil (readGroups_valid hr)⟩

/-- A refused reload (the external edit broke the rule) changes nothing. -/
theorem reload_refused (s : State) (hl : s.c.loaded = true) (hp : s.c.hasPath = true)
    (hr : readGroups s.c.diskGroups = none) :
    step s .reloadGroups = (s, .err "UFOLibError") := by
  simp [step, hl, stepLoaded, hp, hr]

/-! ## 4. Obligations over the regenerated registration tables (`Gen/KernTables.lean`)

`decide` over the complete table extracted from the source on every run: the model's `evict`
(every group edit that posts `Groups.Changed` destroys all four tables; nothing else does; kerning
edits destroy nothing) is what the class-level registration data says. -/

/-- the four tables the model caches are registered on `Groups`, each with the factory the model ports -/
theorem gen_four_tables_registered :
    ∀ p ∈ [("defcon.groups.kerningSide1Groups", "kerningSide1GroupsRepresentationFactory"),
           ("defcon.groups.kerningSide2Groups", "kerningSide2GroupsRepresentationFactory"),
           ("defcon.groups.kerningGlyphToSide1Group", "glyphToKerningSide1GroupsRepresentationFactory"),
           ("defcon.groups.kerningGlyphToSide2Group", "glyphToKerningSide2GroupsRepresentationFactory")],
      p ∈ Gen.KernTables.groupsFactories.map (fun e => (e.1, e.2.1)) := by decide

/-- every table registered on `Groups` is destroyed by EVERY notification a `Groups` object posts once its contents
have changed (set-item, delete-item, clear, update and the change notification itself, whether the source writes a
string or a collection) - so the first announcement of an edit already evicts, and an observer called back at any of
them is not served a table built from the old contents (finding F74: the tables used to live until `Groups.Changed`,
the LAST notification of an edit); the change notification is `Groups.Changed`; `Kerning` registers no
representation.  The model's `evict` (a group edit destroys all four tables, kerning edits destroy nothing) is
this registration data at the granularity of whole edits. -/
theorem gen_eviction_as_modelled :
    (∀ e ∈ Gen.KernTables.groupsFactories, ∀ n ∈ Gen.KernTables.groupsPosts, destroys e.2.2 n = true) ∧
    Gen.KernTables.groupsPosts.head? = some "Groups.Changed" ∧
    (∀ n ∈ ["Groups.GroupSet", "Groups.GroupDeleted", "Groups.Cleared", "Groups.Updated"], n ∈ Gen.KernTables.groupsPosts) ∧
    Gen.KernTables.kerningFactories = [] := by decide

/-- the substring reading of a parenthesised string (`("Groups.Changed")`, as the source used to write it) does NOT
have that property: `Groups.GroupSet` is not destructive under it - the witness of F74 -/
theorem string_registration_misses_set_item :
    destroys (.str "Groups.Changed") "Groups.GroupSet" = false ∧ destroys (.str "Groups.Changed") "Groups.Changed" = true := by
  decide

/-! ## 5. Lookups made from inside the callbacks of an edit (finding F74)

The model of one edit at the granularity of its announcements (`Kern.announce`): the dict has its new contents, then
each notification of `posts` is posted in order; the Groups object's own callback destroys the tables when the
registration `reg` lists the notification, then an observer looks kerning up. -/

/-- **`in_callback_lookups_current`.**  When the registration lists EVERY notification the edit posts (what the
regenerated table says of the current source: `gen_eviction_as_modelled`), then - whatever was cached before the
edit, current or not - every lookup an observer makes inside the callback of ANY of those notifications is the
lookup over the NEW groups (`Ref.find` on the contents after the edit), and the tables left behind are current. -/
theorem in_callback_lookups_current (reg : Destr) (pairs : List Pair) (d : Int) (s : State) (g' : GroupsD)
    (posts : List String) (hreg : ∀ n ∈ posts, destroys reg n = true) (hne : posts ≠ []) :
    (∀ e ∈ (editObserved reg pairs d s g' posts).2,
        e.2 = pairs.map (fun p => Ref.find { s.c with groups := g' } p d)) ∧
    CacheOK (editObserved reg pairs d s g' posts).1 := by
  unfold editObserved
  generalize hs0 : ({ s with c := { s.c with groups := g' } } : State) = s0
  have hc : s0.c = { s.c with groups := g' } := by rw [← hs0]
  rw [← hc]
  clear hs0 hc
  -- from the first post on the cache is current; before it, it may be anything
  have key : ∀ (posts : List String) (s0 : State), (∀ n ∈ posts, destroys reg n = true) →
      (∀ e ∈ (announce reg pairs d s0 posts).2, e.2 = pairs.map (fun p => Ref.find s0.c p d)) ∧
      (posts ≠ [] → CacheOK (announce reg pairs d s0 posts).1) := by
    intro posts
    induction posts with
    | nil => intro s0 _; exact ⟨fun e he => by simp [announce] at he, fun h => absurd rfl h⟩
    | cons n rest ih =>
      intro s0 hreg
      have hn : destroys reg n = true := hreg n (List.mem_cons_self)
      have hrest : ∀ m ∈ rest, destroys reg m = true := fun m hm => hreg m (List.mem_cons_of_mem _ hm)
      simp only [announce, hn, if_true]
      have hev : CacheOK (evict s0) := cacheOK_empty s0.c
      obtain ⟨h1, h2, h3⟩ := findMany_spec (evict s0) hev d pairs
      have hc0 : (evict s0).c = s0.c := rfl
      obtain ⟨ih1, ih2⟩ := ih (findMany (evict s0) d pairs).1 hrest
      rw [h2, hc0] at ih1
      refine ⟨?_, ?_⟩
      · intro e he
        cases he with
        | head => simpa [hc0] using h1
        | tail _ he' => exact ih1 e he'
      · intro _
        by_cases hr : rest = []
        · subst hr; simpa [announce] using h3
        · exact ih2 hr
  exact ⟨(key posts s0 hreg).1, (key posts s0 hreg).2 hne⟩

/-- the registration of the current source has that property for every edit a `Groups` object can announce -/
theorem current_registration_covers_every_post :
    ∀ e ∈ Gen.KernTables.groupsFactories, ∀ posts : List String, (∀ n ∈ posts, n ∈ Gen.KernTables.groupsPosts) →
      ∀ n ∈ posts, destroys e.2.2 n = true := by
  intro e he posts hp n hn
  exact gen_eviction_as_modelled.1 e he n (hp n hn)

/-- **F74, the witness.**  With the registration the source used to have (the parenthesised string
`("Groups.Changed")`), a table cached before `groups["public.kern1.A"] = ["A", "Q"]` survives the first announcement:
the observer of `Groups.GroupSet` is answered from the OLD groups (0 instead of -10), the observer of
`Groups.Changed` correctly. -/
theorem string_registration_in_callback_violated :
    let s0 : State := (findOne { c := { groups := [("public.kern1.A", ["A"])], kerning := [(("public.kern1.A", "B"), -10)] } } ("Q", "B") 0).1
    (editObserved (.str "Groups.Changed") [("Q", "B")] 0 s0 [("public.kern1.A", ["A", "Q"])] ["Groups.GroupSet", "Groups.Changed"]).2
      = [("Groups.GroupSet", [0]), ("Groups.Changed", [-10])] := by
  decide

/-! ## Non-vacuity -/

/-! `gEx`, `kEx`: the example font of `Spec/Kern.lean` (ufoLib's doctest data plus an exception pair). -/

/-- the hypotheses of `find_eq_spec` are met by groups with both sides populated -/
example : (AL.keys gEx).Nodup ∧ ValidGroups gEx :=
  ⟨by decide, (validateFrom_sound [] [] gEx (by decide)).2.2⟩

/-- all four levels and the default occur; a pair needing both sides grouped is among them -/
example : specFind kEx gEx ("D", "F") 0 = -300 ∧ specFind kEx gEx ("O", "F") 0 = -200 ∧
    specFind kEx gEx ("Q", "E") 0 = -50 ∧ specFind kEx gEx ("O", "E") 0 = -100 ∧
    specFind kEx gEx ("E", "O") 7 = 7 ∧ specFind kEx gEx ("public.kern1.O", "E") 0 = -100 := by decide

/-- the code's lookup on the same data (computed, not via the theorem); for ("Q","F") both
(Q, kern2.E) = -50 and (kern1.O, F) = -200 are defined: glyph/group is tried before group/glyph -/
example : lookup kEx (freshG2G isKern1 gEx) (freshG2G isKern2 gEx) ("O", "E") 0 = -100 ∧
    lookup kEx (freshG2G isKern1 gEx) (freshG2G isKern2 gEx) ("Q", "F") 0 = -50 := by decide

/-- eviction matters: the same lookup before and after a group edit gives different answers, and
the tables are cached in between -/
example :
    (run {} [.gupdate gEx, .kupdate kEx, .find ("O", "E") 0, .cached, .gset "public.kern1.O" ["D"],
             .cached, .find ("O", "E") 0, .find ("D", "E") 0, .gdel "public.kern2.E", .find ("D", "E") 0]).2 =
      [.ok, .ok, .int (-100), .bools [true, true, true, true], .ok, .bools [false, false, false, false],
       .int 0, .int (-100), .ok, .int 0] := by decide

/-- on groups that break the rule the code uses the last group, the reference scan the first:
the hypothesis of `find_eq_spec` cannot be dropped -/
example :
    let g : GroupsD := [("public.kern1.X", ["A"]), ("public.kern1.Y", ["A"])]
    let k : KernD := [(("public.kern1.X", "B"), 1), (("public.kern1.Y", "B"), 2)]
    lookup k (freshG2G isKern1 g) (freshG2G isKern2 g) ("A", "B") 0 = 2 ∧ specFind k g ("A", "B") 0 = 1 := by
  decide

/-- boundary of the domain: the hypothesis `CacheOK` of `cache_transparent` is exactly what an edit
that bypasses `Groups.Changed` destroys (`groups.pop`, or an edit while the caller holds/disables the
object's notifications — not among the edits the property quantifies over): the lookup then answers
from the stale table (5) although the current groups say 0 -/
example :
    let s := (run {} [.gset "public.kern1.A" ["A"], .kset ("public.kern1.A", "B") 5, .find ("A", "B") 0]).1
    let s' := quietErase s "public.kern1.A"
    (step s' (.find ("A", "B") 0)).2 = .int 5 ∧ specFind s'.c.kerning s'.c.groups ("A", "B") 0 = 0 ∧
      s'.cache.g2g1 ≠ some (freshG2G isKern1 s'.c.groups) := by decide

/-- a lazily loaded font whose groups.plist breaks the rule: the lookup raises, then sees an empty font -/
example :
    (run {} [.openUfo [("public.kern1.X", ["A"]), ("public.kern1.Y", ["A"])] [(("A", "B"), 5)],
             .find ("A", "B") 0, .find ("A", "B") 0]).2 = [.ok, .err "UFOLibError", .int 0] := by decide

end DefconModel.Props.C19
