import DefconModel.Kern

namespace DefconModel.Props.C19
open DefconModel DefconModel.Kern

/-- placeholder while the harness is brought up -/
theorem placeholder : (1 : Nat) = 1 := rfl

end DefconModel.Props.C19
