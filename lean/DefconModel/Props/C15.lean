/-
C15 — Registered subclasses are used on every creation path.

Theorems about M-Classes (`DefconModel/Classes.lean`) over the class wiring of the code that exists,
`Gen/ClassWiring.lean`, which is REGENERATED from the defcon sources on every run.  The statements
quantify over every configuration `cfg : Role → Option Nat` (any subset of the 17 roles customised,
with any classes) and over every chain of creation sites of any length (histories: a contour reversed
any number of times, …).  `decide` is used only for the three obligations over the complete regenerated
table (`wiring_certified`, `paths_certified`, `props_certified`) and in `example`s; everything else is derived from them by the
parametricity and coverage lemmas of `Lemmas/Classes.lean`, which hold for every wiring.
-/
import DefconModel.Lemmas.Classes
import DefconModel.Gen.ClassWiring

namespace DefconModel.Props.C15
open DefconModel DefconModel.Classes

/-- the wiring of the code that exists -/
abbrev W : Wiring := Gen.ClassWiring.wiring

/-! ## 0. The three obligations over the regenerated table -/

/-- The symbolic closure of the regenerated wiring is a certificate: it contains the symbolic font, is
closed under every creation site, every site of every symbolic object evaluates to "the registration of
its catalogued role, else that role's defcon class", no site reads a slot that `__init__` does not
store, sites constructing slot-keeping classes pass class arguments by accepted keywords only, every
site is catalogued and `Font.__init__` takes exactly the 17 registration keywords. -/
theorem wiring_certified : check W (canonObjs W) = true := by decide +kernel

/-- The table of creation paths only names sites of the regenerated wiring that are not hard-coded,
executed inside reachable objects of the right class; every site that hands out a role lies on a path and
every one of the 17 roles is created on some path. -/
theorem paths_certified : pathsOk W (canonObjs W) = true ∧ pathsCover W = true := by decide +kernel

/-- Every class-valued property of the regenerated wiring (`glyph.contourClass`, `glyph.pointClass`, …,
`contour.pointClass`) is listed with its role, exists on a reachable object, and symbolically returns the
registration of that role. -/
theorem props_certified : propsOk W (canonObjs W) = true := by decide +kernel

/-- (round 3) The constructors a caller may run himself with the registered classes handed in — a
free-standing `Contour(pointClass=…)`, `Glyph(contourClass=…, pointClass=…, …)`, as an object of defcon's own
class or of the registered one — are symbolic objects of the certificate, and the keywords handed in are exactly the
class keywords the regenerated `__init__` takes. -/
theorem free_roots_certified : freeRootsOk W (canonObjs W) = true := by decide +kernel

/-- (round 3) Every entry point of the regenerated table that accepts an object (`insert*`, `append*`, the list
setters, `insertGlyph`) is catalogued with the role of that object; its delegations end in a method that stores the
object as it is, converts it unless `isinstance(x, <guard>)`, or rebuilds it — where guard and factory are sites of the
same class catalogued for the same role; for anchors, guidelines and glyphs it does not store as it is. -/
theorem entries_certified : entriesOk W = true := by decide +kernel

/-! ## 1. Parametricity: the wiring never inspects the class -/

/-- For EVERY wiring, configuration, symbolic object and site: interpreting the symbolic class at the
site gives the concrete class at the site; and if that symbolic class is determinate, interpreting the
symbolic creation step gives the concrete creation step.  (One symbolic run stands for the runs under
all 2^17 × ℕ^17 configurations.) -/
theorem wiring_parametric (w : Wiring) (cfg : Cfg) (ao : AObj) (hself : SelfOk ao) (s : Site) :
    classAt w (interpObj cfg ao) s = interp cfg (aclassAt w ao s) ∧
    ((∀ cd, w.classDef ao.cd = some cd → determinate (aevalCls cd ao s.cls) = true) →
      step w (interpObj cfg ao) s = (astep w ao s).map (interpObj cfg)) ∧
    root w cfg = (aroot w).map (interpObj cfg) :=
  ⟨classAt_interp cfg w ao hself s, step_interp cfg w ao hself s, root_interp cfg w⟩

/-- Every object of a slot-keeping class (Font, LayerSet, Layer, Glyph, Contour) that any chain of
creation sites of the code can produce, under any configuration, is the interpretation of one of the
five symbolic objects of the certificate: its slots hold, role by role, the registration (or `None`
where the code defaults later, or the default where it has defaulted already). -/
theorem reachable_objects_symbolic (cfg : Cfg) (chain : List Site) (o : Obj)
    (hin : ∀ s ∈ chain, s ∈ W.sites) (hr : reach W cfg chain = some o) :
    ∃ ao ∈ canonObjs W, o = interpObj cfg ao :=
  reach_covered wiring_certified cfg chain o hin hr

/-! ## 2. The class arriving at every site is the registered one -/

/-- slot_flow_identity.  For every configuration, every chain of creation sites (of any length) from
`Font(**registered)` to an object `o`, and every site `s` of `o`'s class that the catalogue says creates
— or guards by `isinstance` — role `r`: the class the site uses is exactly `expected cfg r`, i.e. the
class registered for `r` if `r` is customised and defcon's own class for `r` otherwise. -/
theorem slot_flow_identity (cfg : Cfg) (chain : List Site) (o : Obj) (s : Site) (r : Role)
    (hin : ∀ x ∈ chain, x ∈ W.sites) (hr : reach W cfg chain = some o)
    (hs : s ∈ W.sites) (hown : s.owner = o.cd)
    (hd : dispOf s.id = some (.handedOut r) ∨ dispOf s.id = some (.guard r)) :
    classAt W o s = some (expected cfg r) :=
  flow_of_check wiring_certified cfg chain o s r hin hr hs hown hd

/-- In particular: if role `r` is customised with class `i`, every object created for `r` at any site,
in any object, after any history, is an instance of class `i` itself (not of defcon's default). -/
theorem registered_class_used (cfg : Cfg) (chain : List Site) (o : Obj) (s : Site) (r : Role) (i : Nat)
    (hin : ∀ x ∈ chain, x ∈ W.sites) (hr : reach W cfg chain = some o)
    (hs : s ∈ W.sites) (hown : s.owner = o.cd) (hd : dispOf s.id = some (.handedOut r))
    (hcfg : cfg r = some i) :
    classAt W o s = some (.user i (dfltName r)) := by
  rw [slot_flow_identity cfg chain o s r hin hr hs hown (Or.inl hd)]
  simp [expected, hcfg]

/-- … and a role that is not customised gets defcon's own class for that role, whatever else is
customised (registrations do not leak between roles). -/
theorem default_class_when_not_registered (cfg : Cfg) (chain : List Site) (o : Obj) (s : Site) (r : Role)
    (hin : ∀ x ∈ chain, x ∈ W.sites) (hr : reach W cfg chain = some o)
    (hs : s ∈ W.sites) (hown : s.owner = o.cd) (hd : dispOf s.id = some (.handedOut r))
    (hcfg : cfg r = none) :
    classAt W o s = some (.builtin (dfltName r)) := by
  rw [slot_flow_identity cfg chain o s r hin hr hs hown (Or.inl hd)]
  simp [expected, hcfg]

/-- class_properties_registered.  The public class properties — what a caller uses to build the objects he
inserts himself, e.g. `contour.appendPoint(contour.pointClass((x, y)))` — return, on every reachable glyph
and contour, under every configuration, the class expected for their role. -/
theorem class_properties_registered (cfg : Cfg) (chain : List Site) (o : Obj) (c : CName) (p : Ident) (r : Role)
    (hin : ∀ x ∈ chain, x ∈ W.sites) (hr : reach W cfg chain = some o)
    (hm : (c, p, r) ∈ propRoles) (hcd : o.cd = c) :
    propValue W o p = some (expected cfg r) :=
  props_of_check wiring_certified props_certified cfg chain o c p r hin hr hm hcd

/-! ## 3. The creation paths of the property -/

/-- paths_use_slots.  No site on any listed creation path is hard-coded: each is a site of the
regenerated wiring whose callee is a stored class slot, a class property or `self.__class__`. -/
theorem paths_use_slots : ∀ p ∈ paths, ∀ st ∈ p.2,
    ∃ s ∈ W.sites, s.id = st.site ∧ s.cls.isHard = false := by
  intro p hp st hst
  have h := paths_certified.1
  unfold pathsOk at h
  have h1 := List.all_eq_true.mp (List.all_eq_true.mp h p hp) st hst
  cases hs : W.site st.site with
  | none => simp [hs] at h1
  | some s =>
    cases hv : st.via.mapM W.site with
    | none => simp [hs, hv] at h1
    | some chain =>
      simp only [hs, hv, Bool.and_eq_true, Bool.not_eq_true'] at h1
      exact ⟨s, (site_some hs).1, (site_some hs).2, h1.1.1⟩

/-- every_path_step_registered.  End to end, for every configuration: each step of each listed creation
path (load, create, insertGlyph, dictAppend, factory, penDraw, reverse, pointInsertion, decompose,
reload, deserialize) that creates role `r` is executed inside an object that IS reachable
from the font along the step's chain, and instantiates exactly the class expected for `r`. -/
theorem every_path_step_registered (cfg : Cfg) : ∀ p ∈ paths, ∀ st ∈ p.2, ∀ r : Role,
    dispOf st.site = some (.handedOut r) →
    ∃ s o, W.site st.site = some s ∧ reachIds W cfg st.via = some o ∧ o.cd = s.owner ∧
      classAt W o s = some (expected cfg r) := by
  intro p hp st hst r hd
  have h := paths_certified.1
  unfold pathsOk at h
  have h1 := List.all_eq_true.mp (List.all_eq_true.mp h p hp) st hst
  cases hs : W.site st.site with
  | none => simp [hs] at h1
  | some s =>
    cases hv : st.via.mapM W.site with
    | none => simp [hs, hv] at h1
    | some chain =>
      simp only [hs, hv, Bool.and_eq_true] at h1
      obtain ⟨_, h3⟩ := h1
      cases ha : areachFrom W (aroot W) chain with
      | none => simp [ha] at h3
      | some ao =>
        simp only [ha, Bool.and_eq_true, beq_iff_eq] at h3
        have hin := mapM_site_mem hv
        have hreach : reach W cfg chain = some (interpObj cfg ao) := by
          rw [reach_interp wiring_certified cfg chain hin, ha]; rfl
        refine ⟨s, interpObj cfg ao, rfl, ?_, h3.1, ?_⟩
        · unfold reachIds; rw [hv]; exact hreach
        · have hid : s.id = st.site := (site_some hs).2
          exact slot_flow_identity cfg chain _ s r hin hreach (site_some hs).1 h3.1.symm
            (Or.inl (by rw [hid]; exact hd))

/-- catalogue_complete.  Every creation site (and isinstance guard) the extractor finds in the sources is
catalogued, and every site that hands out a role lies on at least one listed path; so a new or re-routed
creation site cannot go unnoticed by these theorems. -/
theorem catalogue_complete : ∀ s ∈ W.sites, ∃ d, dispOf s.id = some d ∧
    (∀ r, d = .handedOut r → ∃ p ∈ paths, ∃ st ∈ p.2, st.site = s.id) := by
  intro s hs
  have h := paths_certified.2
  unfold pathsCover at h
  simp only [Bool.and_eq_true] at h
  have h1 := List.all_eq_true.mp h.1 s hs
  cases hd : dispOf s.id with
  | none => simp [hd] at h1
  | some d =>
    refine ⟨d, rfl, ?_⟩
    intro r hr
    subst hr
    simp only [hd, List.any_eq_true] at h1
    obtain ⟨p, hp, st, hst, he⟩ := h1
    exact ⟨p, hp, st, hst, by simpa using he⟩

/-- guards_test_registered_class.  Every `isinstance(x, <class>)` guard of the code that decides whether an
anchor / guideline handed in by the caller is converted tests against exactly the class expected for the
role, in every reachable object and configuration (so a foreign object of defcon's plain class IS
converted when the role is customised). -/
theorem guards_test_registered_class (cfg : Cfg) (chain : List Site) (o : Obj) (s : Site) (r : Role)
    (hin : ∀ x ∈ chain, x ∈ W.sites) (hr : reach W cfg chain = some o)
    (hs : s ∈ W.sites) (hown : s.owner = o.cd) (hd : dispOf s.id = some (.guard r)) :
    classAt W o s = some (expected cfg r) :=
  slot_flow_identity cfg chain o s r hin hr hs hown (Or.inr hd)

/-- all_roles_on_paths.  Each of the 17 roles is created by at least one site of at least one listed path
(so `every_path_step_registered` says something about every role). -/
theorem all_roles_on_paths (r : Role) : ∃ p ∈ paths, stepsFor p.1 r ≠ [] := by
  have h := paths_certified.2
  unfold pathsCover at h
  simp only [Bool.and_eq_true] at h
  have h2 := List.all_eq_true.mp h.2 r (mem_roleAll r)
  simp only [List.any_eq_true, Bool.not_eq_true', List.isEmpty_eq_false_iff] at h2
  obtain ⟨p, hp, hne⟩ := h2
  exact ⟨p, hp, hne⟩

/-! ## 4. Free-standing objects and objects handed in (round 3) -/

/-- free_standing_flow.  A contour that is in no glyph, a glyph that is in no layer: for every configuration, for each
of the constructors of `freeRoots` called by the user with the registered classes handed in (the object itself being of
defcon's own class or of the registered class), every chain of creation sites from that object to an object `o` and
every site of `o`'s class catalogued as creating (or guarding) role `r`: the site uses exactly the class expected for
`r`.  (Point-level API, pens, dict appends, reversal … of free-standing objects create registered classes.) -/
theorem free_standing_flow (cfg : Cfg) (c : CName) (aself : AVal) (kws : List (Ident × Role)) (v : Val)
    (hm : (c, aself, kws) ∈ freeRoots) (hv : interp cfg aself = some v)
    (chain : List Site) (o : Obj) (s : Site) (r : Role)
    (hin : ∀ x ∈ chain, x ∈ W.sites) (hr : reachFrom W (freeRoot W cfg c v kws) chain = some o)
    (hs : s ∈ W.sites) (hown : s.owner = o.cd)
    (hd : dispOf s.id = some (.handedOut r) ∨ dispOf s.id = some (.guard r)) :
    classAt W o s = some (expected cfg r) := by
  obtain ⟨ao, hao, hmem⟩ := freeRootsOk_mem free_roots_certified hm
  rw [freeRoot_interp cfg W c aself v kws hv, hao] at hr
  exact flow_from_member wiring_certified cfg ao hmem chain o s r hin hr hs hown hd

/-- free_standing_is_reached.  A glyph / contour of the REGISTERED class that the user constructs himself with the
registered classes handed in is, as far as classes go, the very object the font makes through its own factories: same
class, same slots — for every configuration. -/
theorem free_standing_is_reached (cfg : Cfg) :
    freeRoot W cfg "Glyph" (expected cfg .glyph) glyphKw = reachIds W cfg toGlyph ∧
    freeRoot W cfg "Contour" (expected cfg .contour) contourKw = reachIds W cfg toContour := by
  have hg : interp cfg (.paramOr .glyph "Glyph") = some (expected cfg .glyph) := interp_paramOr_dflt cfg .glyph
  have hc : interp cfg (.paramOr .contour "Contour") = some (expected cfg .contour) := interp_paramOr_dflt cfg .contour
  constructor
  · rw [freeRoot_interp cfg W "Glyph" _ _ glyphKw hg]
    cases hv : toGlyph.mapM W.site with
    | none => exact absurd hv (by decide +kernel)
    | some chain =>
      unfold reachIds
      rw [hv]
      show _ = reach W cfg chain
      rw [reach_interp wiring_certified cfg chain (mapM_site_mem hv)]
      have : afreeRoot W "Glyph" (.paramOr .glyph "Glyph") glyphKw = areachFrom W (aroot W) chain := by
        have h2 : (toGlyph.mapM W.site).map (areachFrom W (aroot W)) = some (afreeRoot W "Glyph" (.paramOr .glyph "Glyph") glyphKw) := by
          decide +kernel
        rw [hv] at h2
        simpa using h2.symm
      rw [this]
  · rw [freeRoot_interp cfg W "Contour" _ _ contourKw hc]
    cases hv : toContour.mapM W.site with
    | none => exact absurd hv (by decide +kernel)
    | some chain =>
      unfold reachIds
      rw [hv]
      show _ = reach W cfg chain
      rw [reach_interp wiring_certified cfg chain (mapM_site_mem hv)]
      have : afreeRoot W "Contour" (.paramOr .contour "Contour") contourKw = areachFrom W (aroot W) chain := by
        have h2 : (toContour.mapM W.site).map (areachFrom W (aroot W)) = some (afreeRoot W "Contour" (.paramOr .contour "Contour") contourKw) := by
          decide +kernel
        rw [hv] at h2
        simpa using h2.symm
      rw [this]

/-- foreign_objects_converted.  For every configuration, every entry point `e` of the sources that accepts an
object (contour, component, point, anchor, guideline, glyph; `insert*`, `append*`, the list setters), followed through
its delegations to the method `e'` that does the work, every object `o` of that method's class reachable by any chain of
creation sites, and an object of ANY class `given` handed in (defcon's class, the registered class, an unrelated
subclass, …):
* either `e'` stores the very object (`asIs`) — the model says so for contours, components and points, and ONLY for
  those: for anchors, guidelines and glyphs `e'` does not adopt;
* or what is stored is an instance of the class expected for the role: the very object when it already was an
  instance of that class, otherwise a NEW object of exactly the expected class (for `Layer.insertGlyph` always a new
  one). -/
theorem foreign_objects_converted (cfg : Cfg) (chain : List Site) (o : Obj) (e : Entry) (given : Val)
    (hin : ∀ x ∈ chain, x ∈ W.sites) (hr : reach W cfg chain = some o) (he : e ∈ W.entries) :
    ∃ r e', entryRole e.id = some r ∧ resolveEntry W 4 e = some e' ∧ (r ∈ convertedRoles → e'.how ≠ .adopt) ∧
      (e'.owner = o.cd →
        (e'.how = .adopt ∧ store W o e' given = some .asIs) ∨
        (e'.how ≠ .adopt ∧ ∃ st, store W o e' given = some st ∧
          isInstance (st.cls given) (expected cfg r) = true ∧
          (st = .asIs ∧ isInstance given (expected cfg r) = true ∨
           st = .rebuilt (expected cfg r) ∧ (isInstance given (expected cfg r) = false ∨ ∃ f, e'.how = .rebuild f)))) := by
  obtain ⟨r, e', hrole, hres, _, _, hok, hconv⟩ := entriesOk_entry entries_certified he
  refine ⟨r, e', hrole, hres, hconv, ?_⟩
  intro hown
  exact store_converts hok hown (fun s hs hso hd => slot_flow_identity cfg chain o s r hin hr hs hso hd) given

/-- … and the same for the entry points of a FREE-STANDING glyph or contour (one the user constructed with the
registered classes handed in, or anything created from it). -/
theorem foreign_objects_converted_free (cfg : Cfg) (c : CName) (aself : AVal) (kws : List (Ident × Role)) (v : Val)
    (hm : (c, aself, kws) ∈ freeRoots) (hv : interp cfg aself = some v)
    (chain : List Site) (o : Obj) (e : Entry) (given : Val)
    (hin : ∀ x ∈ chain, x ∈ W.sites) (hr : reachFrom W (freeRoot W cfg c v kws) chain = some o) (he : e ∈ W.entries) :
    ∃ r e', entryRole e.id = some r ∧ resolveEntry W 4 e = some e' ∧
      (e'.owner = o.cd → e'.how ≠ .adopt →
        ∃ st, store W o e' given = some st ∧ isInstance (st.cls given) (expected cfg r) = true) := by
  obtain ⟨r, e', hrole, hres, _, _, hok, _⟩ := entriesOk_entry entries_certified he
  refine ⟨r, e', hrole, hres, ?_⟩
  intro hown hna
  rcases store_converts (cfg := cfg) hok hown
    (fun s hs hso hd => free_standing_flow cfg c aself kws v hm hv chain o s r hin hr hs hso hd) given with h | h
  · exact absurd h.1 hna
  · obtain ⟨_, st, hst, hi, _⟩ := h
    exact ⟨st, hst, hi⟩

/-! ## Non-vacuity: concrete configurations, chains and sites meeting the hypotheses
(`cfgA`: only points (class 3) and anchors (class 8) customised; `cfgAll`: everything, class 1) -/

/-- a contour reversed twice, reached from the font through five constructors and two `self.__class__`
calls, still makes points of the registered point class … -/
example : classVia W cfgA (toContour ++ ["Contour.reverse", "Contour.reverse"]) "Contour.addPoint"
    = some (.user 3 "Point") := by decide +kernel

/-- … while the scratch contour itself is of defcon's own class, as contours are not customised in `cfgA` -/
example : (reachIds W cfgA (toContour ++ ["Contour.reverse"])).map (·.self) = some (.builtin "Contour") := by
  decide +kernel

example : (reachIds W cfgAll (toContour ++ ["Contour.reverse"])).map (·.self) = some (.user 1 "Contour") := by
  decide +kernel

/-- the hypotheses of `slot_flow_identity` are met by a glyph's anchor factory -/
example : ∃ chain o s, (∀ x ∈ chain, x ∈ W.sites) ∧ reach W cfgA chain = some o ∧ s ∈ W.sites ∧
    s.owner = o.cd ∧ dispOf s.id = some (.handedOut .anchor) ∧ classAt W o s = some (.user 8 "Anchor") := by
  cases hv : toGlyph.mapM W.site with
  | none => exact absurd hv (by decide +kernel)
  | some chain =>
    cases hs : W.site "Glyph.instantiateAnchor" with
    | none => exact absurd hs (by decide +kernel)
    | some s =>
      have hin := mapM_site_mem hv
      have hex := every_path_step_registered cfgA ("dictAppend", pathSteps "dictAppend") (by decide)
        (glyphStep "Glyph.instantiateAnchor") (by decide) .anchor (by decide)
      obtain ⟨s', o, hs', ho, hown, hcls⟩ := hex
      have e : s' = s := by
        have : W.site "Glyph.instantiateAnchor" = some s' := hs'
        rw [hs] at this; exact (Option.some.inj this).symm
      subst e
      refine ⟨chain, o, s', hin, ?_, (site_some hs).1, hown.symm, ?_, ?_⟩
      · have : reachIds W cfgA toGlyph = some o := ho
        unfold reachIds at this; rw [hv] at this; exact this
      · rw [(site_some hs).2]; decide
      · rw [hcls]; decide

/-- a contour obtained by reversing hands out the registered point class through `pointClass` -/
example : (reachIds W cfgA (toContour ++ ["Contour.reverse"])).bind (fun o => propValue W o "pointClass")
    = some (.user 3 "Point") := by decide +kernel

/-- the path table names the creation paths of the property -/
example : paths.map (·.1) = ["load", "create", "insertGlyph", "dictAppend", "factory", "penDraw", "reverse",
    "pointInsertion", "decompose", "reload", "deserialize",
    "copyForeign", "deserializeParts", "freeStanding", "stalePen"] := by decide

/-! ### round 3: free-standing objects, objects handed in -/

/-- a free-standing plain `Contour(pointClass=<registered>)`, reversed: its points are of the registered class, the
scratch contour is a plain `Contour` (what the user constructed), not the contour class of any font -/
example : ((W.site "Contour.reverse").bind fun rev => (W.site "Contour.addPoint").bind fun ap =>
      (reachFrom W (freeRoot W cfgAll "Contour" (.builtin "Contour") contourKw) [rev, rev]).bind fun o =>
        (classAt W o ap).map fun k => (o.self, k))
    = some (.builtin "Contour", .user 1 "Point") := by decide +kernel

/-- the hypotheses of `free_standing_flow` are met: a glyph of defcon's own class constructed by the user, its
anchor factory -/
example : (("Glyph", AVal.const "Glyph", glyphKw) ∈ freeRoots) ∧ interp cfgA (.const "Glyph") = some (.builtin "Glyph") ∧
    ((W.site "Glyph.instantiateAnchor").bind fun s =>
      (freeRoot W cfgA "Glyph" (.builtin "Glyph") glyphKw).bind fun o => classAt W o s) = some (.user 8 "Anchor") := by
  decide +kernel

/-- `free_standing_is_reached` speaks of objects that exist: the user-constructed glyph of the registered class -/
example : (freeRoot W cfgAll "Glyph" (expected cfgAll .glyph) glyphKw).map (fun o => (o.cd, o.self))
    = some ("Glyph", .user 1 "Glyph") ∧ (reachIds W cfgAll toGlyph).isSome = true := by decide +kernel

/-- the hypotheses of `foreign_objects_converted_free` are met: `appendAnchor` of a glyph of defcon's own class that
the user constructed with the registered classes handed in rebuilds a plain `Anchor` with the registered class -/
example : ((W.entry "Glyph.appendAnchor").bind (resolveEntry W 4)).bind (fun e =>
      (freeRoot W cfgA "Glyph" (.builtin "Glyph") glyphKw).bind fun o =>
        (store W o e (.builtin "Anchor")).map fun st => (decide (e.owner = o.cd), decide (e.how ≠ .adopt), st))
    = some (true, true, .rebuilt (.user 8 "Anchor")) := by decide +kernel

/-- the entry points of the regenerated table -/
example : W.entries.length = 19 ∧ (W.entries.filter fun e => e.how = .adopt).map (·.id)
    = ["Contour.insertPoint", "Glyph.insertContour", "Glyph.insertComponent"] := by decide +kernel

/-- `appendAnchor` on a font whose anchor class is customised (class 8): a plain `Anchor` is rebuilt as class 8, an
object of class 8 is kept, an object of an unrelated subclass (class 99) is rebuilt … -/
example : storeVia W cfgA toGlyph "Glyph.appendAnchor" (.builtin "Anchor") = some (.rebuilt (.user 8 "Anchor")) ∧
    storeVia W cfgA toGlyph "Glyph.appendAnchor" (.user 8 "Anchor") = some .asIs ∧
    storeVia W cfgA toGlyph "Glyph._set_anchors" (.user 99 "Anchor") = some (.rebuilt (.user 8 "Anchor")) := by
  decide +kernel

/-- … while guidelines are not customised in `cfgA`: any `Guideline` subclass is kept as it is; a glyph is always
rebuilt; a contour always kept -/
example : storeVia W cfgA toGlyph "Glyph.appendGuideline" (.user 99 "Guideline") = some .asIs ∧
    storeVia W cfgA [] "Font.appendGuideline" (.builtin "Guideline") = some .asIs ∧
    storeVia W cfgAll toLayer "Font.insertGlyph" (.user 1 "Glyph") = some (.rebuilt (.user 1 "Glyph")) ∧
    storeVia W cfgAll toGlyph "Glyph.appendContour" (.builtin "Contour") = some .asIs := by decide +kernel

/-- the hypotheses of `foreign_objects_converted` are met (anchors are a converted role, `insertAnchor` is an entry
point that resolves to itself and belongs to the reachable glyph) -/
example : Role.anchor ∈ convertedRoles ∧ (∃ e ∈ W.entries, e.id = "Glyph.insertAnchor" ∧ resolveEntry W 4 e = some e ∧
    e.owner = "Glyph") ∧ (reachIds W cfgA toGlyph).map (·.cd) = some "Glyph" := by
  refine ⟨by decide, ?_, by decide +kernel⟩
  cases he : W.entry "Glyph.insertAnchor" with
  | none => exact absurd he (by decide +kernel)
  | some e =>
    have hm := entry_some he
    refine ⟨e, hm.1, hm.2, ?_, ?_⟩
    · have : (W.entry "Glyph.insertAnchor").bind (fun e => (resolveEntry W 4 e).map fun e' => decide (e' = e)) = some true := by
        decide +kernel
      rw [he] at this
      simp only [Option.bind_some] at this
      cases hres : resolveEntry W 4 e with
      | none => simp [hres] at this
      | some e' => simp [hres] at this; rw [this]
    · have : (W.entry "Glyph.insertAnchor").map (·.owner) = some "Glyph" := by decide +kernel
      rw [he] at this
      simpa using this

/-! ## The certificate discriminates: wirings with a seeded fault are rejected, and the model exhibits
the wrong class -/

/-- `anchor = Anchor(glyph=self, anchorDict=anchorDict)` in `Glyph.instantiateAnchor` -/
example : rejects (mapSite W "Glyph.instantiateAnchor" (hardcode "Anchor")) = true := by decide +kernel

/-- `anchorClass=self._guidelineClass` in `Layer.instantiateGlyphObject` -/
example : rejects (mapSite W "Layer.instantiateGlyphObject" (rewireKw "anchorClass" (.slot "_guidelineClass"))) = true := by
  decide +kernel

/-- `LayerSet.instantiateLayer` forgets to pass `glyphPointClass` on: rejected, and points of a font with a
customised point class are plain `Point`s -/
example : rejects (mapSite W "LayerSet.instantiateLayer" (dropKw "glyphPointClass")) = true ∧
    classVia (mapSite W "LayerSet.instantiateLayer" (dropKw "glyphPointClass")) cfgA toContour "Contour.addPoint"
      = some (.builtin "Point") := by decide +kernel

/-- `Contour.reverse` builds its scratch contour without `pointClass=self.pointClass`: rejected, and after
one reversal the points are plain `Point`s although before it they were of the registered class -/
example : rejects (mapSite W "Contour.reverse" (dropKw "pointClass")) = true ∧
    classVia (mapSite W "Contour.reverse" (dropKw "pointClass")) cfgA toContour "Contour.addPoint"
      = some (.user 3 "Point") ∧
    classVia (mapSite W "Contour.reverse" (dropKw "pointClass")) cfgA (toContour ++ ["Contour.reverse"]) "Contour.addPoint"
      = some (.builtin "Point") := by decide +kernel

/-- (round 3) `insertAnchor` stops converting (`self._anchors.insert(index, anchor)` with whatever came): the entry
certificate is rejected -/
example : entriesOk (mapEntry W "Glyph.insertAnchor" .adopt) = false := by decide +kernel

/-- (round 3) `Font.insertGuideline` converts through the GLYPH-less anchor factory / tests against another slot:
rejected -/
example : entriesOk (mapEntry W "Font.insertGuideline" (.convertUnless "Font.insertGuideline?isinstance" "Font.instantiateInfo")) = false := by
  decide +kernel

/-- (round 3) `Contour.__init__` ignores the `pointClass` it is handed (`pointClass = Point`): the free-standing
roots are no longer certified -/
example : rejects (mapInit W "Contour" fun i => i.map fun st =>
    if st = .dflt "pointClass" "Point" then .force "pointClass" "Point" else st) = true := by decide +kernel

/-- `anchorClass = Anchor` unconditionally in `Glyph.__init__` (the registration is overwritten) -/
example : rejects (mapInit W "Glyph" fun i => i.map fun st =>
    if st = .dflt "anchorClass" "Anchor" then .force "anchorClass" "Anchor" else st) = true := by decide +kernel

/-- `if anchorClass is None: anchorClass = Guideline` (wrong default for the role) -/
example : rejects (mapInit W "Glyph" fun i => i.map fun st =>
    if st = .dflt "anchorClass" "Anchor" then .dflt "anchorClass" "Guideline" else st) = true := by decide +kernel

/-- `self._anchorClass = anchorClass` moved in front of the defaulting (the slot can hold `None`) -/
example : rejects (mapInit W "Glyph" fun i => .store "_anchorClass" "anchorClass" :: i.filter fun st =>
    st ≠ .store "_anchorClass" "anchorClass") = true := by decide +kernel

end DefconModel.Props.C15
