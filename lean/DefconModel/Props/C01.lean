import DefconModel.Lemmas.Layer
namespace DefconModel.Props.C01
open DefconModel DefconModel.Layer

/-- layer-level core: after an in-place save the glyph set holds exactly the abstract content -/
theorem layer_save_reopen (s : State) (h : Good s) : ∀ k, abs (opened (save s).disk) k = abs s k := by
  intro k
  simp only [abs, opened, AL.get?_nil, List.not_mem_nil, if_false]
  exact save_disk h.wf k

end DefconModel.Props.C01
