/-
C01 — Save then reopen reproduces the font exactly.

A font is, for persistence, the product of independent components, each with its own executable
model of the code's bookkeeping and its own abstract content `abs`:

  * glyphs of a layer        M-Layer     (`_glyphs`, `_keys`, `_scheduledForDeletion`, dirty flags)
  * layers of the font       M-LayerSet  (`_layers`, order, default, action history vs. layercontents)
  * images / data            M-FileSet   (`_data`, `_scheduledForDeletion`, per-file dirty/onDisk)
  * info, groups, kerning, features, lib   M-Parts (lazy getter, dirty flag)

For each component: after ANY history of operations, a save writes exactly the abstract content,
so that re-opening the written UFO shows the same content; and a save never fails.
(Byte-level encoding/decoding of each file is fontTools.ufoLib's and is validated by reading the
real UFO back, not proved.)
-/
import DefconModel.Lemmas.Layer
import DefconModel.Lemmas.FileSet
import DefconModel.Lemmas.Parts
import DefconModel.Lemmas.LayerSet

namespace DefconModel.Props.C01
open DefconModel

/-! ### glyphs -/

/-- After any history of glyph reads, creations, replacements, insertions, deletions, renames and
edits on a layer (read or not, on disk or not), an in-place save leaves the glyph set holding
exactly the layer's abstract content: re-opening it shows the same glyphs. -/
theorem glyphs_save_reopen (s : Layer.State) (ops : List Layer.Op) (h : Layer.Good s)
    (hops : Layer.OpsOK (Layer.abs s) ops) :
    ∀ k, Layer.abs (Layer.opened (Layer.save (Layer.run s ops)).disk) k = Layer.abs (Layer.run s ops) k := by
  intro k
  have hg := (Layer.run_refines s ops h hops).1
  simp only [Layer.abs, Layer.opened, AL.get?_nil, List.not_mem_nil, if_false]
  exact Layer.save_disk hg.wf k

/-- … and the save does not change what the in-memory layer shows. -/
theorem glyphs_memory_unchanged_by_save (s : Layer.State) (h : Layer.Good s) :
    ∀ k, Layer.abs (Layer.save s) k = Layer.abs s k := Layer.abs_save h.wf

/-! ### images and data files -/

/-- After any history of reads, assignments, deletions and earlier saves on an image/data set
opened on a directory, an in-place save leaves the directory holding exactly the abstract content
(deleted files gone, re-added files present, unread files untouched). `se` selects the class:
ImageSet ignores an assignment of identical bytes, DataSet does not. -/
theorem files_save_in_place_reopen (se : Bool) (disk : List (String × FileSet.Blob)) (hk : (AL.keys disk).Nodup)
    (ops : List FileSet.Op) (k : String) :
    AL.get? (FileSet.saveInPlace (FileSet.run se (FileSet.opened disk) ops)).disk k =
      FileSet.abs (FileSet.run se (FileSet.opened disk) ops) k :=
  FileSet.saveInPlace_disk (FileSet.wf_run (FileSet.wf_opened disk hk) ops) k

/-- Save-as to a new location: files never read are copied, files read are written whether
modified or not (the F18 fix), files deleted are absent. -/
theorem files_save_as_reopen (se : Bool) (disk : List (String × FileSet.Blob)) (hk : (AL.keys disk).Nodup)
    (ops : List FileSet.Op) (k : String) :
    AL.get? (FileSet.saveAs (FileSet.run se (FileSet.opened disk) ops) []).disk k =
      FileSet.abs (FileSet.run se (FileSet.opened disk) ops) k :=
  FileSet.saveAs_disk (FileSet.wf_run (FileSet.wf_opened disk hk) ops) k

/-- the same for a set built purely in memory (new font): start from the empty set -/
theorem files_new_font_save_as (se : Bool) (ops : List FileSet.Op) (k : String) :
    AL.get? (FileSet.saveAs (FileSet.run se (FileSet.opened []) ops) []).disk k =
      FileSet.abs (FileSet.run se (FileSet.opened []) ops) k :=
  files_save_as_reopen se [] (by simp [AL.keys]) ops k

/-- a save does not change what the in-memory set shows -/
theorem files_memory_unchanged_by_save (s : FileSet.State) (h : FileSet.WF s) (k : String) :
    FileSet.abs (FileSet.saveInPlace s) k = FileSet.abs s k :=
  FileSet.abs_save h false _ (FileSet.saveInPlace_disk h) k

/-- each operation's effect on the abstract content -/
theorem files_get_invisible (s s' : FileSet.State) (n : String) (b : FileSet.Blob) (h : FileSet.WF s)
    (hg : FileSet.getItem s n = .ok (s', b)) : (∀ k, FileSet.abs s' k = FileSet.abs s k) ∧ FileSet.abs s n = some b :=
  let ⟨_, a, c, _⟩ := FileSet.getItem_spec h hg; ⟨a, c⟩

theorem files_set_exact (se : Bool) (s s' : FileSet.State) (n : String) (b : FileSet.Blob) (h : FileSet.WF s)
    (hs : FileSet.setItem se s n b = .ok s') : ∀ k, FileSet.abs s' k = FileSet.upd (FileSet.abs s) n (some b) k :=
  (FileSet.setItem_spec h hs).2

theorem files_del_exact (s s' : FileSet.State) (n : String) (h : FileSet.WF s)
    (hs : FileSet.delItem s n = .ok s') : ∀ k, FileSet.abs s' k = FileSet.upd (FileSet.abs s) n none k :=
  (FileSet.delItem_spec h hs).2.1

/-! ### info, groups, kerning, features, lib -/

/-- A part that is always written (info, groups, lib): afterwards its file holds the content,
whether the part had been read, left unread or modified; the content is unchanged. -/
theorem part_saved_always (p : Parts.Part) (h : Parts.WF p) :
    (Parts.saveAlways p).disk = Parts.abs p ∧ Parts.abs (Parts.saveAlways p) = Parts.abs p :=
  let ⟨_, a, b, _⟩ := Parts.saveAlways_spec p h; ⟨b, a⟩

/-- … and for these parts no hypothesis on the flags is needed at all: even a content change that
never raised the dirty flag (an attribute of a font guideline, stored in fontinfo) is persisted. -/
theorem part_saved_always_unconditional (p : Parts.Part) (b : Parts.Blob) :
    (Parts.saveAlways (Parts.setQuiet p b)).disk = b := by
  rw [(Parts.saveAlways_exact _).1, Parts.setQuiet_abs]

/-- A part written only when dirty or on save-as (kerning, features): the same conclusion. -/
theorem part_saved_if_dirty (sa : Bool) (p : Parts.Part) (h : Parts.WF p) :
    (Parts.saveIfDirty sa p).disk = Parts.abs p ∧ Parts.abs (Parts.saveIfDirty sa p) = Parts.abs p :=
  let ⟨_, a, b, _⟩ := Parts.saveIfDirty_spec sa p h; ⟨b, a⟩

/-- assignment and lazy read keep the part well formed (so the two theorems apply after any history) -/
theorem part_wf_preserved (p : Parts.Part) (b : Parts.Blob) (h : Parts.WF p) :
    Parts.WF (Parts.get p).1 ∧ Parts.WF (Parts.set p b) ∧ Parts.abs (Parts.set p b) = b ∧
    Parts.abs (Parts.get p).1 = Parts.abs p :=
  ⟨(Parts.get_spec p h).1, (Parts.set_spec p b h).1, (Parts.set_spec p b h).2, (Parts.get_spec p h).2.1⟩

/-! ### layers -/

/-- After ANY history of layer creation, deletion, renaming, reordering, default changes and
earlier saves on a layer set loaded from a UFO, the in-place save SUCCEEDS (the replayed action
history never makes ufoLib refuse, and never merges two glyph directories) and writes a
layercontents that lists exactly the memory layers, in layer order, each mapped to the directory
of its own layer object, the default layer — and only it — to the default directory. -/
theorem layers_save_in_place (ls : List (String × Nat)) (defLid : Nat) (defName : String)
    (hn : (AL.keys ls).Nodup) (hl : (ls.map Prod.snd).Nodup) (hd : AL.get? ls defName = some defLid)
    (hf : ∀ p ∈ ls, p.2 < ls.length) (ops : List LayerSet.Op)
    (hops : LayerSet.OpsOK (LayerSet.opened ls defLid defName) ops) :
    let s := LayerSet.run (LayerSet.opened ls defLid defName) ops
    ∃ s', LayerSet.saveInPlace s = .ok s' ∧ (∀ n, AL.get? s'.disk n = LayerSet.expectedEntry s n) ∧
      AL.keys s'.disk = s.order := by
  intro s
  have hinv0 : LayerSet.Inv (LayerSet.opened ls defLid defName) := by
    obtain ⟨h1, h2⟩ := LayerSet.opened_good ls defLid defName hn hl hd
    refine ⟨h1, h2, ?_⟩
    intro n l hget
    have : AL.get? (LayerSet.opened ls defLid defName).layers n = (AL.get? ls n).map (fun i => (⟨i, true⟩ : LayerSet.MLayer)) :=
      LayerSet.get?_map_pair (fun i => (⟨i, true⟩ : LayerSet.MLayer)) ls n
    rw [this] at hget
    cases hg : AL.get? ls n with
    | none => simp [hg] at hget
    | some i =>
      simp [hg] at hget; subst hget
      exact hf (n, i) (AL.mem_of_get? hg)
  have hinv := LayerSet.inv_run hinv0 ops hops
  obtain ⟨s', h1, h2, h3, _⟩ := LayerSet.saveInPlace_spec hinv.mem hinv.sync
  exact ⟨s', h1, h2, h3⟩

/-- Save-as needs no history at all: from any consistent layer set it writes the same. -/
theorem layers_save_as (s : LayerSet.State) (h : LayerSet.MemOK s) :
    ∃ s', LayerSet.saveAs s = .ok s' ∧ (∀ n, AL.get? s'.disk n = LayerSet.expectedEntry s n) ∧
      AL.keys s'.disk = s.order :=
  let ⟨s', a, b, c, _⟩ := LayerSet.saveAs_spec h; ⟨s', a, b, c⟩

/-- The invariant behind it holds in every reachable state (any interleaving with saves). -/
theorem layers_invariant_reachable (s : LayerSet.State) (h : LayerSet.Inv s) (ops : List LayerSet.Op)
    (hops : LayerSet.OpsOK s ops) : LayerSet.Inv (LayerSet.run s ops) := LayerSet.inv_run h ops hops

/-! ### non-vacuity, and the bug this proof found -/

open LayerSet in
/-- F35 (repaired): rename a layer, then make it the default, then save in place. With the
default flag decided by the *current* default's name the replay moved the renamed directory onto
the still existing default directory (`Err.merged`); with the flag travelling with the directory
the save succeeds and writes what memory holds. -/
example :
    (run (opened [("A", 0), ("C", 1)] 0 "A") [.rename "C" "D", .setDefault "D", .saveInPlace]).disk
      = [("A", ⟨0, false⟩), ("D", ⟨1, true⟩)] := by decide

open LayerSet in
example : OpsOK (opened [("A", 0), ("C", 1)] 0 "A")
    [.rename "C" "D", .setDefault "D", .newLayer "C", .delLayer "A", .setOrder ["C", "D"], .saveInPlace] := by
  decide

open FileSet in
example : (run false (opened [("a", 1), ("d/b", 2)]) [.get "a", .del "d/b", .set "c" 3, .set "d/b" 4, .del "c", .saveAsNew]).disk
    = [("a", 1), ("d/b", 4)] := by decide

end DefconModel.Props.C01
