import DefconModel.GlyphOrder
namespace DefconModel.Props.C12
open DefconModel DefconModel.GlyphOrder
/-- placeholder -/
theorem stored_in_lib (f : Font) : glyphOrder f = f.lib.getD [] := rfl
end DefconModel.Props.C12
