/-
C12 — The font's glyph order follows glyph creation, deletion and renaming.

Property theorems about M-GlyphOrder (`DefconModel/GlyphOrder.lean`, the executable model of
`Font.glyphOrder`, `Font.updateGlyphOrder`, the font's three layer callbacks and the layer
operations that trigger them, the layer-set operations, and the notification centre's hold / release
/ disable / enable for a layer).  Specification-side vocabulary is in `Spec/GlyphOrder.lean`, helper
lemmas in `Lemmas/GlyphOrder.lean` and `Lemmas/GlyphOrderHeld.lean`.

How the quantifier of the property is met.  A *start font* `f0` is ANY well-formed font (`WF`:
layer names unique, every layer observed — what `Font()`, `Font(path)` and deserialisation
establish) with ANY content and ANY value under the lib key: absent, empty, partial, complete,
superset, even with duplicates.  A *history* is ANY `ops : List Op`.  The per-operation theorems
are stated at the state `run f0 ops` reached by an arbitrary history; the whole-history theorems
are by induction over `ops`.  There are no size bounds anywhere.

Histories may hold, release, disable and enable the notifications of any layer (sections 9-11).  A
sentence of the property about ONE operation is about the moment the font learns of it: the
per-operation theorems of sections 2-4 therefore ask that nothing is held or disabled on the layer at
that moment (`Undisturbed`), and section 10 says what holds at the release of a hold, with respect
to the state at the release.  The whole-history theorems of sections 5-7 hold for every history,
holds included.
-/
import DefconModel.Lemmas.GlyphOrderHeld

namespace DefconModel.Props.C12
open DefconModel DefconModel.GlyphOrder

/-- "layer `L` of `f` has a glyph called `g`" (`g in font.layers[L]`) -/
def HasGlyph (f : Font) (L : String) (g : Name) : Prop :=
  ∃ l, AL.get? f.layers L = some l ∧ g ∈ l.glyphs

/-- "the font has a layer called `L`" -/
def HasLayer (f : Font) (L : String) : Prop := ∃ l, AL.get? f.layers L = some l

/-! ### Fixtures for the non-vacuity examples -/

/-- two layers sharing the name `a`; a superset order (`x` is in no layer) -/
def fx : Font :=
  { layers := [("fg", { glyphs := ["a", "b"], observed := true }),
               ("bg", { glyphs := ["a", "c"], observed := true })],
    lib := some ["b", "x", "a", "c"] }

/-- a history that deletes, renames, creates and adds a layer -/
def hx : List Op :=
  [.delGlyph "fg" "a", .rename "fg" "b" "d", .newLayer "sk", .insertGlyph "sk" "e", .delGlyph "bg" "a"]

example : WF fx := ⟨by decide, by decide⟩
example : glyphOrder (run fx hx) = ["d", "x", "c", "e"] := by decide

/-! ## 0. The literal port of `updateGlyphOrder` refines the index-free specification -/

/-- `updateGlyphOrder(addedGlyph, removedGlyph)` — `order.index`, `order[index] = …`,
`del order[index]`, the early `return`, and the write through the `glyphOrder` setter — reads back
as the index-free `specUpdate` of the previous order: append-if-absent, erase-first,
replace-first, or nothing.  For every font and every pair of arguments. -/
theorem update_refines_spec (f : Font) (added removed : Option Name) :
    glyphOrder (updateGlyphOrder f added removed) = specUpdate (glyphOrder f) added removed :=
  glyphOrder_updateGlyphOrder f added removed

example : glyphOrder (updateGlyphOrder fx (some "n") (some "x")) = ["b", "n", "a", "c"] := by decide

/-! ## 1. Every layer is observed, in every reachable state -/

/-- A new `Font()` (one empty default layer, observed through `LayerSet.LayerAdded`) is well formed. -/
theorem new_font_wf :
    WF { layers := [("public.default", { glyphs := [], observed := true })], lib := none } :=
  ⟨by simp [AL.keys], by simp⟩

/-- Whatever the history — glyph operations, order assignments, new, deleted, renamed, reordered
layers, a new default layer, holds and releases — the font still observes every one of its layers (a
layer made by `newLayer` is observed from its creation on) and layer names stay unique.  So every
later theorem applies after any history. -/
theorem all_layers_observed (f0 : Font) (h0 : WF f0) (ops : List Op) : WF (run f0 ops) :=
  wf_run h0 ops

example : (run fx hx).layers.map (fun kl => (kl.1, kl.2.observed)) =
    [("fg", true), ("bg", true), ("sk", true)] := by decide

/-! ## 2. Creation -/

/-- After any history: creating a glyph `g` with `newGlyph` in any existing layer whose
notifications are not held or disabled at that moment succeeds, the layer has the glyph, `g` is in
the order afterwards, and the order is the old one with `g` appended at the end if — and only if —
it was absent (otherwise exactly the old order). -/
theorem created_in_order (f0 : Font) (h0 : WF f0) (ops : List Op) (L : String) (g : Name)
    (hL : HasLayer (run f0 ops) L) (hq : Undisturbed (run f0 ops) L) :
    (step (run f0 ops) (.newGlyph L g)).2 = .ok ∧
    HasGlyph (step (run f0 ops) (.newGlyph L g)).1 L g ∧
    g ∈ glyphOrder (step (run f0 ops) (.newGlyph L g)).1 ∧
    glyphOrder (step (run f0 ops) (.newGlyph L g)).1 =
      (if g ∈ glyphOrder (run f0 ops) then glyphOrder (run f0 ops)
       else glyphOrder (run f0 ops) ++ [g]) := by
  obtain ⟨l, hget⟩ := hL
  have hw := wf_run h0 ops
  obtain ⟨hh, hd⟩ := hq.of_get hget
  obtain ⟨h1, h2, h3⟩ := newGlyph_spec hw hget hh hd g
  refine ⟨h1, ?_, ?_, h3⟩
  · refine ⟨{ l with glyphs := addName l.glyphs g }, ?_, mem_addName.mpr (Or.inr rfl)⟩
    simp only [step]; rw [h2, get?_setLayer, if_pos rfl]
  · simp only [step]; rw [h3]; exact mem_appendIfAbsent.mpr (Or.inr rfl)

/-- The same for `insertGlyph(source, name=g)` with its real bracket (hold the layer, `newGlyph`,
copy, release): on a layer on which nothing is held, disabled or queued the bracket's own hold is
the only one, its release delivers the one `Layer.GlyphAdded`, and the copy's name enters the order
exactly like a new glyph's — the whole operation equals `newGlyph`. -/
theorem inserted_in_order (f0 : Font) (h0 : WF f0) (ops : List Op) (L : String) (g : Name)
    (hL : CalmLayer (run f0 ops) L) :
    step (run f0 ops) (.insertGlyph L g) = step (run f0 ops) (.newGlyph L g) ∧
    (step (run f0 ops) (.insertGlyph L g)).2 = .ok ∧
    HasGlyph (step (run f0 ops) (.insertGlyph L g)).1 L g ∧
    g ∈ glyphOrder (step (run f0 ops) (.insertGlyph L g)).1 ∧
    glyphOrder (step (run f0 ops) (.insertGlyph L g)).1 =
      (if g ∈ glyphOrder (run f0 ops) then glyphOrder (run f0 ops)
       else glyphOrder (run f0 ops) ++ [g]) := by
  obtain ⟨l, hget, hc⟩ := hL
  have e : step (run f0 ops) (.insertGlyph L g) = step (run f0 ops) (.newGlyph L g) := by
    simp only [step]; exact insertGlyph_calm hget hc g
  have hq : Undisturbed (run f0 ops) L := by
    unfold Undisturbed; rw [hget]; exact ⟨hc.1, hc.2.1⟩
  rw [e]
  exact ⟨rfl, created_in_order f0 h0 ops L g ⟨l, hget⟩ hq⟩

example : HasLayer (run fx hx) "bg" := ⟨{ glyphs := ["c"], observed := true }, by decide⟩
example : Undisturbed (run fx hx) "bg" := by decide
example : CalmLayer (run fx hx) "bg" := ⟨{ glyphs := ["c"], observed := true }, by decide, by decide⟩
example : glyphOrder (step (run fx hx) (.newGlyph "bg" "a")).1 = ["d", "x", "c", "e", "a"] := by decide
example : glyphOrder (step (run fx hx) (.newGlyph "bg" "x")).1 = ["d", "x", "c", "e"] := by decide

/-- Creating a glyph in a layer the font does not have is rejected (KeyError), nothing changes. -/
theorem create_in_missing_layer_rejected (f : Font) (L : String) (g : Name)
    (h : AL.get? f.layers L = none) : step f (.newGlyph L g) = (f, .err .keyError) := by
  simp [step, newGlyph, h]

/-! ## 3. Deletion -/

/-- After any history: deleting glyph `g` from layer `L` (which has it) succeeds and removes it
from that layer; whether the order changes is decided by the state AFTER the deletion, as the code
does when `Layer.GlyphDeleted` is delivered: if some layer still has a glyph called `g` the order is
untouched; if none has, the first occurrence of `g` is removed (`List.erase`) and nothing else. -/
theorem deleted_leaves_iff_gone (f0 : Font) (h0 : WF f0) (ops : List Op) (L : String) (g : Name)
    (hg : HasGlyph (run f0 ops) L g) (hq : Undisturbed (run f0 ops) L) :
    (step (run f0 ops) (.delGlyph L g)).2 = .ok ∧
    ¬ HasGlyph (step (run f0 ops) (.delGlyph L g)).1 L g ∧
    (Exists (step (run f0 ops) (.delGlyph L g)).1 g →
      glyphOrder (step (run f0 ops) (.delGlyph L g)).1 = glyphOrder (run f0 ops)) ∧
    (¬ Exists (step (run f0 ops) (.delGlyph L g)).1 g →
      glyphOrder (step (run f0 ops) (.delGlyph L g)).1 = (glyphOrder (run f0 ops)).erase g) := by
  obtain ⟨l, hget, hm⟩ := hg
  have hw := wf_run h0 ops
  obtain ⟨hh, hd⟩ := hq.of_get hget
  obtain ⟨h1, h2, b, hb, h3⟩ := delGlyph_spec hw hget hh hd hm
  have hex : Exists (step (run f0 ops) (.delGlyph L g)).1 g ↔ ExistsElsewhere (run f0 ops) L g := by
    simp only [step]; rw [exists_congr h2, exists_setLayer]; simp [mem_removeName]
  refine ⟨h1, ?_, ?_, ?_⟩
  · rintro ⟨l', hget', hm'⟩
    simp only [step] at hget'
    rw [h2, get?_setLayer, if_pos rfl] at hget'
    cases hget'
    simp [mem_removeName] at hm'
  · intro he
    have : b = true := hb.mpr (hex.mp he)
    simp only [step]; rw [h3, this]; rfl
  · intro he
    have : b = false := by
      cases b with
      | false => rfl
      | true => exact absurd (hex.mpr (hb.mp rfl)) he
    simp only [step]; rw [h3, this, ← eraseFirst_eq_erase]; rfl

/-- "Still has" is evaluated after the glyph left its own layer: the name survives in the order
exactly when a layer OTHER than the one deleted from has a glyph of that name. -/
theorem deleted_still_exists_iff_elsewhere (f0 : Font) (h0 : WF f0) (ops : List Op) (L : String)
    (g : Name) (hg : HasGlyph (run f0 ops) L g) (hq : Undisturbed (run f0 ops) L) :
    Exists (step (run f0 ops) (.delGlyph L g)).1 g ↔ ExistsElsewhere (run f0 ops) L g := by
  obtain ⟨l, hget, hm⟩ := hg
  obtain ⟨hh, hd⟩ := hq.of_get hget
  obtain ⟨_, h2, _⟩ := delGlyph_spec (wf_run h0 ops) hget hh hd hm
  simp only [step]; rw [exists_congr h2, exists_setLayer]; simp [mem_removeName]

/-- The iff of the title, for a name listed once (every order without duplicates): after deleting
`g` from `L`, the name is out of the order if and only if no layer has a glyph called `g` any more. -/
theorem deleted_name_leaves_iff_gone (f0 : Font) (h0 : WF f0) (ops : List Op) (L : String) (g : Name)
    (hg : HasGlyph (run f0 ops) L g) (hq : Undisturbed (run f0 ops) L)
    (hin : g ∈ glyphOrder (run f0 ops)) (hone : (glyphOrder (run f0 ops)).count g ≤ 1) :
    g ∉ glyphOrder (step (run f0 ops) (.delGlyph L g)).1 ↔
      ¬ Exists (step (run f0 ops) (.delGlyph L g)).1 g := by
  obtain ⟨_, _, hkeep, hgone⟩ := deleted_leaves_iff_gone f0 h0 ops L g hg hq
  constructor
  · intro hout he
    rw [hkeep he] at hout
    exact hout hin
  · intro hne
    rw [hgone hne, ← eraseFirst_eq_erase]
    exact not_mem_eraseFirst_self hone

example : HasGlyph fx "fg" "a" := ⟨{ glyphs := ["a", "b"], observed := true }, by decide, by decide⟩
example : glyphOrder (step fx (.delGlyph "fg" "a")).1 = ["b", "x", "a", "c"] := by decide
example : glyphOrder (step (step fx (.delGlyph "fg" "a")).1 (.delGlyph "bg" "a")).1 = ["b", "x", "c"] := by
  decide

/-- Deleting a glyph the layer does not have is rejected (KeyError) and changes nothing. -/
theorem delete_absent_rejected (f : Font) (L : String) (l : Layer) (g : Name)
    (hget : AL.get? f.layers L = some l) (h : g ∉ l.glyphs) :
    step f (.delGlyph L g) = (f, .err .keyError) := by
  simp [step, delGlyph, hget, h]

/-! ## 4. Renaming -/

/-- After any history: renaming glyph `old` of layer `L` to `new ≠ old` succeeds; the layer then has
`new` and not `old`; `new` is in the order; and the order is exactly `specRename` of the old order,
where "the old name must stay" is evaluated after the rename (some layer still has a glyph called
`old`):
* old name stays → `new` appended unless already listed;
* old name gone and listed, `new` not listed → `new` put where the first `old` stood;
* old name gone and listed, `new` already listed → `old` removed, `new` keeps its place;
* old name gone and not listed → `new` appended unless already listed. -/
theorem rename_order (f0 : Font) (h0 : WF f0) (ops : List Op) (L : String) (old new : Name)
    (hg : HasGlyph (run f0 ops) L old) (hq : Undisturbed (run f0 ops) L) (hne : old ≠ new) :
    (step (run f0 ops) (.rename L old new)).2 = .ok ∧
    HasGlyph (step (run f0 ops) (.rename L old new)).1 L new ∧
    ¬ HasGlyph (step (run f0 ops) (.rename L old new)).1 L old ∧
    new ∈ glyphOrder (step (run f0 ops) (.rename L old new)).1 ∧
    ∃ oldStays : Bool, (oldStays = true ↔ Exists (step (run f0 ops) (.rename L old new)).1 old) ∧
      glyphOrder (step (run f0 ops) (.rename L old new)).1 =
        specRename (glyphOrder (run f0 ops)) old new oldStays := by
  obtain ⟨l, hget, hm⟩ := hg
  have hw := wf_run h0 ops
  obtain ⟨hh, hd⟩ := hq.of_get hget
  obtain ⟨h1, h2, b, hb, h3⟩ := rename_spec hw hget hh hd hm hne
  have hex : Exists (step (run f0 ops) (.rename L old new)).1 old ↔ ExistsElsewhere (run f0 ops) L old := by
    simp only [step]; rw [exists_congr h2, exists_setLayer]; simp [mem_addName, mem_removeName, hne]
  refine ⟨h1, ?_, ?_, ?_, b, hb.trans hex.symm, h3⟩
  · refine ⟨{ l with glyphs := addName (removeName l.glyphs old) new }, ?_, mem_addName.mpr (Or.inr rfl)⟩
    simp only [step]; rw [h2, get?_setLayer, if_pos rfl]
  · rintro ⟨l', hget', hm'⟩
    simp only [step] at hget'
    rw [h2, get?_setLayer, if_pos rfl] at hget'
    cases hget'
    simp [mem_addName, mem_removeName, hne] at hm'
  · simp only [step]; rw [h3]; exact mem_specRename_new _ hne b

/-- "The old name must stay" is evaluated after the glyph left its old name in its own layer: it
holds exactly when a layer OTHER than the one renamed in has a glyph called `old`. -/
theorem renamed_old_stays_iff_elsewhere (f0 : Font) (h0 : WF f0) (ops : List Op) (L : String)
    (old new : Name) (hg : HasGlyph (run f0 ops) L old) (hq : Undisturbed (run f0 ops) L)
    (hne : old ≠ new) :
    Exists (step (run f0 ops) (.rename L old new)).1 old ↔ ExistsElsewhere (run f0 ops) L old := by
  obtain ⟨l, hget, hm⟩ := hg
  obtain ⟨hh, hd⟩ := hq.of_get hget
  obtain ⟨_, h2, _⟩ := rename_spec (wf_run h0 ops) hget hh hd hm hne
  simp only [step]; rw [exists_congr h2, exists_setLayer]; simp [mem_addName, mem_removeName, hne]

/-- The position clause: when the old name is gone from every layer, was listed, and the new name
was not listed, the new name stands at the index of the (first) old name, the length is unchanged
and every other index holds what it held. -/
theorem rename_takes_position (f0 : Font) (h0 : WF f0) (ops : List Op) (L : String) (old new : Name)
    (hg : HasGlyph (run f0 ops) L old) (hq : Undisturbed (run f0 ops) L) (hne : old ≠ new)
    (hgone : ¬ Exists (step (run f0 ops) (.rename L old new)).1 old)
    (hold : old ∈ glyphOrder (run f0 ops)) (hnew : new ∉ glyphOrder (run f0 ops)) :
    ∃ i, i < (glyphOrder (run f0 ops)).length ∧
      (glyphOrder (run f0 ops))[i]? = some old ∧
      (∀ j, j < i → (glyphOrder (run f0 ops))[j]? ≠ some old) ∧
      glyphOrder (step (run f0 ops) (.rename L old new)).1 = (glyphOrder (run f0 ops)).set i new ∧
      (glyphOrder (step (run f0 ops) (.rename L old new)).1)[i]? = some new ∧
      (glyphOrder (step (run f0 ops) (.rename L old new)).1).length = (glyphOrder (run f0 ops)).length ∧
      ∀ j, j ≠ i → (glyphOrder (step (run f0 ops) (.rename L old new)).1)[j]? = (glyphOrder (run f0 ops))[j]? := by
  obtain ⟨_, _, _, _, b, hb, ho⟩ := rename_order f0 h0 ops L old new hg hq hne
  have hbf : b = false := by
    cases b with
    | false => rfl
    | true => exact absurd (hb.mp rfl) hgone
  cases hi : indexOf? (glyphOrder (run f0 ops)) old with
  | none => exact absurd hold (indexOf?_eq_none.mp hi)
  | some i =>
    obtain ⟨hlt, hat, hfirst⟩ := indexOf?_lt hi
    have hord : glyphOrder (step (run f0 ops) (.rename L old new)).1 = (glyphOrder (run f0 ops)).set i new := by
      rw [ho, hbf, set_indexOf hi]
      simp [specRename, hold, hnew]
    refine ⟨i, hlt, hat, hfirst, hord, ?_, ?_, ?_⟩
    · rw [hord]; simp [hlt]
    · rw [hord]; simp
    · intro j hj
      rw [hord, List.getElem?_set_ne (fun e => hj e.symm)]

/-- "…or is appended when the old name must stay": if after the rename some layer still has a glyph
called `old`, the old name is not touched and `new` is appended at the end unless already listed. -/
theorem rename_appended_when_old_stays (f0 : Font) (h0 : WF f0) (ops : List Op) (L : String)
    (old new : Name) (hg : HasGlyph (run f0 ops) L old) (hq : Undisturbed (run f0 ops) L) (hne : old ≠ new)
    (hstay : Exists (step (run f0 ops) (.rename L old new)).1 old) :
    glyphOrder (step (run f0 ops) (.rename L old new)).1 =
      (if new ∈ glyphOrder (run f0 ops) then glyphOrder (run f0 ops)
       else glyphOrder (run f0 ops) ++ [new]) := by
  obtain ⟨_, _, _, _, b, hb, ho⟩ := rename_order f0 h0 ops L old new hg hq hne
  rw [ho, hb.mpr hstay]; rfl

/-- Renaming onto a name that is already in the order (the old name gone and listed): no duplicate
is made — the old entry is removed and the new name stays where it already was. -/
theorem rename_onto_listed_name (f0 : Font) (h0 : WF f0) (ops : List Op) (L : String)
    (old new : Name) (hg : HasGlyph (run f0 ops) L old) (hq : Undisturbed (run f0 ops) L) (hne : old ≠ new)
    (hgone : ¬ Exists (step (run f0 ops) (.rename L old new)).1 old)
    (hold : old ∈ glyphOrder (run f0 ops)) (hnew : new ∈ glyphOrder (run f0 ops)) :
    glyphOrder (step (run f0 ops) (.rename L old new)).1 = (glyphOrder (run f0 ops)).erase old := by
  obtain ⟨_, _, _, _, b, hb, ho⟩ := rename_order f0 h0 ops L old new hg hq hne
  have hbf : b = false := by
    cases b with
    | false => rfl
    | true => exact absurd (hb.mp rfl) hgone
  rw [ho, hbf, ← eraseFirst_eq_erase]
  simp [specRename, hold, hnew]

/-- Renaming a glyph whose old name was not in the order (partial orders): the new name is appended
unless already listed; nothing is removed. -/
theorem rename_unlisted_old_name (f0 : Font) (h0 : WF f0) (ops : List Op) (L : String)
    (old new : Name) (hg : HasGlyph (run f0 ops) L old) (hq : Undisturbed (run f0 ops) L) (hne : old ≠ new)
    (hold : old ∉ glyphOrder (run f0 ops)) :
    glyphOrder (step (run f0 ops) (.rename L old new)).1 =
      (if new ∈ glyphOrder (run f0 ops) then glyphOrder (run f0 ops)
       else glyphOrder (run f0 ops) ++ [new]) := by
  obtain ⟨_, _, _, _, b, hb, ho⟩ := rename_order f0 h0 ops L old new hg hq hne
  rw [ho]
  cases b <;> simp [specRename, hold, appendIfAbsent]

/-- With an order that lists the old name once, the old name is out of the order after the rename
if and only if no layer has a glyph of that name any more. -/
theorem renamed_old_name_leaves_iff_gone (f0 : Font) (h0 : WF f0) (ops : List Op) (L : String)
    (old new : Name) (hg : HasGlyph (run f0 ops) L old) (hq : Undisturbed (run f0 ops) L) (hne : old ≠ new)
    (hin : old ∈ glyphOrder (run f0 ops)) (hone : (glyphOrder (run f0 ops)).count old ≤ 1) :
    old ∉ glyphOrder (step (run f0 ops) (.rename L old new)).1 ↔
      ¬ Exists (step (run f0 ops) (.rename L old new)).1 old := by
  obtain ⟨_, _, _, _, b, hb, ho⟩ := rename_order f0 h0 ops L old new hg hq hne
  constructor
  · intro hout he
    rw [ho, hb.mpr he] at hout
    exact hout (by simp [specRename, mem_appendIfAbsent, hin])
  · intro hgone
    have hbf : b = false := by
      cases b with
      | false => rfl
      | true => exact absurd (hb.mp rfl) hgone
    rw [ho, hbf]
    exact not_mem_specRename_old hne hone

-- old name gone, new name takes its position (index 0)
example : glyphOrder (step fx (.rename "fg" "b" "n")).1 = ["n", "x", "a", "c"] := by decide
-- old name must stay (layer bg keeps "a"): new name appended
example : glyphOrder (step fx (.rename "fg" "a" "n")).1 = ["b", "x", "a", "c", "n"] := by decide
-- rename onto a name already in the order ("x" is listed, in no layer): old entry removed
example : glyphOrder (step fx (.rename "fg" "b" "x")).1 = ["x", "a", "c"] := by decide
-- … and in that first example no layer has a glyph called "b" any more
example : ¬ Exists (step fx (.rename "fg" "b" "n")).1 "b" := by
  rw [← anyLayerHas_iff (by decide)]; decide

/-- Renaming a glyph to its own name does nothing; renaming a glyph the layer does not have is
rejected (KeyError) and changes nothing. -/
theorem rename_noop_or_rejected (f : Font) (L : String) (l : Layer) (old new : Name)
    (hget : AL.get? f.layers L = some l) :
    (old ∈ l.glyphs → step f (.rename L old old) = (f, .ok)) ∧
    (old ∉ l.glyphs → step f (.rename L old new) = (f, .err .keyError)) := by
  constructor
  · intro h; simp [step, rename, hget, h]
  · intro h; simp [step, rename, hget, h]

/-- Adding or deleting a layer never changes the order (the code does not consult it there). -/
theorem layer_ops_keep_order (f : Font) (name : String) :
    glyphOrder (step f (.newLayer name)).1 = glyphOrder f ∧
    glyphOrder (step f (.delLayer name)).1 = glyphOrder f := by
  constructor
  · simp only [step, newLayer]; split <;> rfl
  · simp only [step, delLayer]
    cases AL.get? f.layers name with
    | none => rfl
    | some l => simp only; split <;> rfl

/-! ## 5. No new duplicates -/

/-- For every start font (well formed or not), every history in which the order is only changed by
the font's own updates (any glyph operations in any layers or through the font, new, deleted,
renamed, reordered layers, holds, releases, disables — no direct assignment of the order or the lib
key) and every name: the name occurs at most once afterwards, or no more often than it did at the
start. -/
theorem no_new_duplicates (f0 : Font) (ops : List Op) (hops : ∀ op ∈ ops, op.isUpdate = true) (n : Name) :
    (glyphOrder (run f0 ops)).count n ≤ max 1 ((glyphOrder f0).count n) :=
  (safe_run (fun _ => True) f0 ops hops (fun _ _ _ _ => trivial) (fun _ _ => trivial)).upd.count_le n

/-- In particular an order without duplicates never gets one. -/
theorem nodup_preserved (f0 : Font) (ops : List Op) (hops : ∀ op ∈ ops, op.isUpdate = true)
    (h : (glyphOrder f0).Nodup) : (glyphOrder (run f0 ops)).Nodup := by
  rw [List.nodup_iff_count] at h ⊢
  intro n
  have := no_new_duplicates f0 ops hops n
  have := h n
  omega

example : ∀ op ∈ hx, op.isUpdate = true := by decide
example : (glyphOrder fx).Nodup := by decide
-- a start order that already has a duplicate keeps at most that many
example : glyphOrder (run { fx with lib := some ["a", "b", "a"] } [.newGlyph "fg" "a", .delGlyph "bg" "c"])
    = ["a", "b", "a"] := by decide
-- a history with a held block in which notifications are coalesced
example : ∀ op ∈ [Op.holdLayer "fg", .delGlyph "fg" "b", .newGlyph "fg" "b", .delGlyph "fg" "b",
    .releaseLayer "fg"], op.isUpdate = true := by decide

/-! ## 6. Untouched names keep their relative order -/

/-- For every start font, every such history (holds and releases included) and every set `T` of
names that contains all names the history's operations speak about — and the names of the
notifications that were already held at the start, if any: erasing the names of `T` from the order
gives the same list before and after — names the history does not touch are neither added, dropped,
duplicated nor reordered.  (`p` is the indicator of "not in `T`".) -/
theorem others_keep_relative_order (f0 : Font) (ops : List Op) (hops : ∀ op ∈ ops, op.isUpdate = true)
    (p : Name → Bool) (hp : ∀ op ∈ ops, ∀ x ∈ op.touched, p x = false)
    (hq : ∀ x ∈ queuedNames f0, p x = false) :
    (glyphOrder (run f0 ops)).filter p = (glyphOrder f0).filter p :=
  (safe_run (fun x => p x = false) f0 ops hops hp hq).upd.filter p (fun _ h => h)

/-- The same with the touched set given as a list. -/
theorem others_keep_relative_order_list (f0 : Font) (ops : List Op)
    (hops : ∀ op ∈ ops, op.isUpdate = true) (T : List Name)
    (hT : ∀ op ∈ ops, ∀ x ∈ op.touched, x ∈ T) (hq : ∀ x ∈ queuedNames f0, x ∈ T) :
    (glyphOrder (run f0 ops)).filter (fun n => !T.contains n) =
      (glyphOrder f0).filter (fun n => !T.contains n) :=
  others_keep_relative_order f0 ops hops _ (fun op ho x hx => by simp [hT op ho x hx])
    (fun x hx => by simp [hq x hx])

example : (glyphOrder (run fx hx)).filter (fun n => !["a", "b", "d", "e"].contains n) = ["x", "c"] ∧
    (glyphOrder fx).filter (fun n => !["a", "b", "d", "e"].contains n) = ["x", "c"] := by decide
example : queuedNames fx = [] := by decide

/-! ## 7. Stored in and read from the font lib -/

/-- The glyph order IS what the lib holds under `public.glyphOrder` (empty when the key is absent) —
after every history, including direct assignments to the lib, holds and releases. -/
theorem stored_in_lib (f0 : Font) (ops : List Op) :
    glyphOrder (run f0 ops) = ((run f0 ops).lib).getD [] := rfl

/-- Assigning `font.glyphOrder = v` reads back as `v` (`[]` for `None`) and is stored under the lib
key — the key being deleted for an empty order, and nothing written when nothing changes. -/
theorem order_assignment_stored (f : Font) (v : Option (List Name)) :
    glyphOrder (step f (.setOrder v)).1 = v.getD [] ∧
    (step f (.setOrder v)).1.lib = (if f.lib = v then v else if v.getD [] = [] then none else v) :=
  ⟨glyphOrder_setGlyphOrder f v, lib_setGlyphOrder f v⟩

/-- Writing the lib key directly IS setting the order ("read from the font lib"). -/
theorem lib_assignment_read (f : Font) (v : List Name) :
    glyphOrder (step f (.setLib (some v))).1 = v := rfl

/-- Every update the font makes itself goes through the lib: after the operation the lib either is
untouched or holds exactly the new order (key deleted when that is empty). -/
theorem update_stored_in_lib (f : Font) (added removed : Option Name) :
    (updateGlyphOrder f added removed).lib = f.lib ∨
    (updateGlyphOrder f added removed).lib =
      (if specUpdate (glyphOrder f) added removed = [] then none
       else some (specUpdate (glyphOrder f) added removed)) :=
  lib_updateGlyphOrder f added removed

/-- The key is deleted rather than left empty: if the lib does not hold an empty list under the key
at the start and the history never writes one there directly, it never holds one — so the lib entry
is `none` exactly when the order is empty, and otherwise the order itself. -/
theorem key_deleted_when_empty (f0 : Font) (ops : List Op) (h0 : LibNormal f0)
    (hops : ∀ op ∈ ops, op ≠ .setLib (some [])) :
    (run f0 ops).lib =
      (if glyphOrder (run f0 ops) = [] then none else some (glyphOrder (run f0 ops))) := by
  have hn : LibNormal (run f0 ops) :=
    run_preserves LibNormal (fun op => op ≠ .setLib (some []))
      (fun f op hop h => libNormal_step h op hop) f0 ops hops h0
  unfold LibNormal at hn
  unfold glyphOrder
  cases hl : (run f0 ops).lib with
  | none => simp
  | some v =>
    have : v ≠ [] := fun e => hn (by rw [hl, e])
    simp [this]

example : LibNormal fx := by unfold LibNormal; decide
example : (run fx [.delGlyph "fg" "b", .setOrder (some ["b"]), .newGlyph "fg" "q", .setOrder none]).lib = none := by
  decide
example : (step fx (.setOrder (some ["q", "a"]))).1.lib = some ["q", "a"] := by decide

/-! ## 8. The order follows the glyph set over whole histories -/

/-- No history of font-made updates in which no layer's notifications are held or disabled ever
makes a name *missing*: a glyph name that exists at the end and is not in the order existed at the
start and was not in the order at the start.  (Every name created or renamed-to during the history
is in the order for as long as a glyph of that name exists.)  Layers may be added, deleted — the
default layer too —, renamed, reordered, the default layer re-assigned, glyphs created and deleted
through the font. -/
theorem missing_never_appears (f0 : Font) (h0 : WF f0) (hc : Calm f0) (ops : List Op)
    (hops : ∀ op ∈ ops, op.isUpdate = true) (hs : ∀ op ∈ ops, op.isSuspend = false) (n : Name)
    (hex : Exists (run f0 ops) n) (hno : n ∉ glyphOrder (run f0 ops)) :
    Exists f0 n ∧ n ∉ glyphOrder f0 := by
  induction ops generalizing f0 with
  | nil => exact ⟨hex, hno⟩
  | cons op r ih =>
    simp only [run] at hex hno
    have hs1 := hs op (List.mem_cons_self ..)
    have h1 := ih (step f0 op).1 (wf_step h0 op) (calm_step h0 hc op hs1)
      (fun o ho => hops o (List.mem_cons_of_mem _ ho)) (fun o ho => hs o (List.mem_cons_of_mem _ ho)) hex hno
    exact missing_step h0 hc op (hops op (List.mem_cons_self ..)) hs1 n h1.1 h1.2

/-- Complete and superset orders stay complete: if every existing glyph name is listed at the start,
every existing glyph name is listed after any history of font-made updates. -/
theorem complete_preserved (f0 : Font) (h0 : WF f0) (hq : Calm f0) (ops : List Op)
    (hops : ∀ op ∈ ops, op.isUpdate = true) (hs : ∀ op ∈ ops, op.isSuspend = false)
    (hc : Complete f0) : Complete (run f0 ops) := by
  intro n hex
  by_cases hin : n ∈ glyphOrder (run f0 ops)
  · exact hin
  · have := missing_never_appears f0 h0 hq ops hops hs n hex hin
    exact absurd (hc n this.1) this.2

/-- No history of glyph operations (through layers or through the font) in which nothing is held or
disabled makes a name *stale* when the start order has no duplicates: a
name listed at the end although no layer has such a glyph was already listed and glyph-less at the
start (superset entries stay; none is created). -/
theorem stale_never_appears (f0 : Font) (h0 : WF f0) (hc : Calm f0) (ops : List Op)
    (hops : ∀ op ∈ ops, op.isGlyphOp = true) (hnd : (glyphOrder f0).Nodup) (n : Name)
    (hin : n ∈ glyphOrder (run f0 ops)) (hnex : ¬ Exists (run f0 ops) n) :
    n ∈ glyphOrder f0 ∧ ¬ Exists f0 n := by
  have upd : ∀ op : Op, op.isGlyphOp = true → op.isUpdate = true := by
    intro op h; cases op <;> simp_all [Op.isGlyphOp, Op.isUpdate]
  have nosus : ∀ op : Op, op.isGlyphOp = true → op.isSuspend = false := by
    intro op h; cases op <;> simp_all [Op.isGlyphOp, Op.isSuspend]
  induction ops generalizing f0 with
  | nil => exact ⟨hin, hnex⟩
  | cons op r ih =>
    simp only [run] at hin hnex
    have hop := hops op (List.mem_cons_self ..)
    have hnd1 : (glyphOrder (step f0 op).1).Nodup :=
      nodup_preserved f0 [op] (by intro o ho; simp at ho; subst ho; exact upd _ hop) hnd
    have h1 := ih (step f0 op).1 (wf_step h0 op) (calm_step h0 hc op (nosus _ hop))
      (fun o ho => hops o (List.mem_cons_of_mem _ ho)) hnd1 hin hnex
    exact stale_step h0 hc hnd op hop n h1.1 h1.2

/-- An exact order (each existing glyph name listed once, nothing else) stays exact under every
history of create / insert / delete / rename operations across the layers and through the font, as
long as nothing is held or disabled. -/
theorem exact_preserved (f0 : Font) (h0 : WF f0) (hc : Calm f0) (ops : List Op)
    (hops : ∀ op ∈ ops, op.isGlyphOp = true) (he : Exact f0) : Exact (run f0 ops) := by
  have upd : ∀ op ∈ ops, op.isUpdate = true := by
    intro op ho
    have := hops op ho
    cases op <;> simp_all [Op.isGlyphOp, Op.isUpdate]
  have nosus : ∀ op ∈ ops, op.isSuspend = false := by
    intro op ho
    have := hops op ho
    cases op <;> simp_all [Op.isGlyphOp, Op.isSuspend]
  refine ⟨nodup_preserved f0 ops upd he.nodup, complete_preserved f0 h0 hc ops upd nosus he.complete, ?_⟩
  intro n hin
  by_cases hex : Exists (run f0 ops) n
  · exact hex
  · have := stale_never_appears f0 h0 hc ops hops he.nodup n hin hex
    exact absurd (he.sound n this.1) this.2

example : ∀ op ∈ [Op.delGlyph "fg" "a", .rename "fg" "b" "d", .insertGlyph "bg" "e"], op.isGlyphOp = true := by
  decide
example : Calm fx := by unfold Calm; decide
example : ∀ op ∈ hx, op.isSuspend = false := by decide

/-! ## 9. Layer-set operations, the default layer, operations through the font -/

/-- two layers, `fg` the default one; a complete order -/
def fy : Font :=
  { layers := [("fg", { glyphs := ["a", "b"], observed := true }),
               ("bg", { glyphs := ["a", "c"], observed := true })],
    lib := some ["a", "b", "c"], default := some "fg" }

example : WF fy := ⟨by decide, by decide⟩
example : Calm fy := by unfold Calm; decide

/-- Renaming a layer, re-assigning the layer order or the default layer, holding or disabling a
layer's notifications, holding or releasing the font's own notifications: none of them changes the
order (the lib is not touched; `releaseLayer` is the one operation of this family that can — section
10). -/
theorem layer_set_ops_keep_order (f : Font) :
    (∀ o n, glyphOrder (step f (.renameLayer o n)).1 = glyphOrder f) ∧
    (∀ ns, glyphOrder (step f (.setLayerOrder ns)).1 = glyphOrder f) ∧
    (∀ n, glyphOrder (step f (.setDefault n)).1 = glyphOrder f) ∧
    (∀ L, glyphOrder (step f (.holdLayer L)).1 = glyphOrder f) ∧
    (∀ L, glyphOrder (step f (.disableLayer L)).1 = glyphOrder f) ∧
    (∀ L, glyphOrder (step f (.enableLayer L)).1 = glyphOrder f) ∧
    glyphOrder (step f .holdFont).1 = glyphOrder f ∧
    glyphOrder (step f .releaseFont).1 = glyphOrder f := by
  refine ⟨?_, ?_, ?_, ?_, ?_, ?_, rfl, ?_⟩
  · intro o n
    simp only [step, renameLayer]
    cases AL.get? f.layers o with
    | none => rfl
    | some l => simp only; split <;> (try rfl); split <;> (try rfl); split <;> rfl
  · intro ns
    simp only [step, setLayerOrder]
    split <;> (try rfl); split <;> rfl
  · intro n; simp only [step, setDefault]; split <;> rfl
  · intro L; simp only [step, holdLayer]; cases AL.get? f.layers L <;> rfl
  · intro L; simp only [step, disableLayer]; cases AL.get? f.layers L <;> rfl
  · intro L
    simp only [step, enableLayer]
    cases AL.get? f.layers L with
    | none => rfl
    | some l => simp only; split <;> rfl
  · simp only [step, releaseFont]; split <;> rfl

example : (step fy (.renameLayer "bg" "back")).1.layers.map (·.1) = ["fg", "back"] := by decide
example : (step fy (.setLayerOrder ["bg", "fg"])).1.layers.map (·.1) = ["bg", "fg"] := by decide
example : (step fy (.setLayerOrder ["bg", "bg"])).2 = .err .assertionError := by decide

/-- A renamed layer keeps its glyphs under the new name and stays the default layer if it was: for a
well-formed font, a layer `old` on which nothing is held or disabled and a fresh name `new`, the
renaming succeeds, `font.layers[new]` has exactly the glyphs `font.layers[old]` had, no layer is
called `old` any more, and which glyph names exist is unchanged. -/
theorem layer_rename_keeps_glyphs (f : Font) (hw : WF f) (old new : String) (l : Layer)
    (hget : AL.get? f.layers old = some l) (hne : old ≠ new) (hfree : AL.contains f.layers new = false)
    (hq : l.held = 0 ∧ l.disabled = 0) :
    (step f (.renameLayer old new)).2 = .ok ∧
    AL.get? (step f (.renameLayer old new)).1.layers new = some l ∧
    AL.get? (step f (.renameLayer old new)).1.layers old = none ∧
    (∀ K, K ≠ old → K ≠ new →
      AL.get? (step f (.renameLayer old new)).1.layers K = AL.get? f.layers K) ∧
    (step f (.renameLayer old new)).1.default = (if f.default = some old then some new else f.default) := by
  have hnew : new ∉ AL.keys f.layers := not_mem_keys_of_contains_false (by simp [hfree])
  have hne' : ¬ new = old := fun e => hne e.symm
  have e : step f (.renameLayer old new) =
      ({ f with layers := renameKey f.layers old new,
                default := if f.default = some old then some new else f.default }, .ok) := by
    simp only [step, renameLayer, hget, hne, hfree, if_false, hq.1, hq.2]
    simp
  rw [e]
  refine ⟨rfl, ?_, ?_, ?_, rfl⟩
  · simp only; rw [get?_renameKey old new hw.names hnew, if_pos rfl, hget]
  · simp only; rw [get?_renameKey old new hw.names hnew]; simp [hne]
  · intro K h1 h2
    simp only; rw [get?_renameKey old new hw.names hnew, if_neg h2, if_neg h1]

example : (step fy (.renameLayer "fg" "front")).1.default = some "front" := by decide

/-- `font.newGlyph`, `font.insertGlyph`, `del font[name]` ARE the operations of the default layer
while that layer is one of the font's layers. -/
theorem font_ops_are_default_layer_ops (f : Font) (L : String) (h : f.default = some L) (g : Name) :
    step f (.fontNewGlyph g) = step f (.newGlyph L g) ∧
    step f (.fontInsertGlyph g) = step f (.insertGlyph L g) ∧
    step f (.fontDelGlyph g) = step f (.delGlyph L g) := by
  simp only [step, fontNewGlyph, fontInsertGlyph, fontDelGlyph, h, and_self]

/-- The library lets the default layer be deleted (`LayerSet.__delitem__` does not refuse):
`defaultLayer` then is a layer that no longer belongs to the font, and nothing the font-level glyph
operations do on it reaches a layer of the font or the order — until another layer is made the
default one. -/
theorem default_layer_deleted (f : Font) (L : String) (l : Layer) (hd : f.default = some L)
    (hget : AL.get? f.layers L = some l) :
    (step f (.delLayer L)).2 = .ok ∧
    (step f (.delLayer L)).1.default = none ∧
    fontKeys (step f (.delLayer L)).1 = l.glyphs ∧
    glyphOrder (step f (.delLayer L)).1 = glyphOrder f := by
  simp only [step, delLayer, hget, hd, if_true, fontKeys, and_self]
  trivial

/-- … the font-level glyph operations then leave every layer of the font and the lib alone. -/
theorem detached_default_ops_silent (f : Font) (h : f.default = none) (g : Name) :
    ((step f (.fontNewGlyph g)).1.layers = f.layers ∧ (step f (.fontNewGlyph g)).1.lib = f.lib) ∧
    ((step f (.fontInsertGlyph g)).1.layers = f.layers ∧ (step f (.fontInsertGlyph g)).1.lib = f.lib) ∧
    ((step f (.fontDelGlyph g)).1.layers = f.layers ∧ (step f (.fontDelGlyph g)).1.lib = f.lib) := by
  simp only [step, fontNewGlyph, fontInsertGlyph, fontDelGlyph, h, and_self, true_and]
  split <;> exact ⟨rfl, rfl⟩

example : glyphOrder (run fy [.delLayer "fg", .fontNewGlyph "q", .setDefault "bg", .fontNewGlyph "r"]) =
    ["a", "b", "c", "r"] := by decide
example : fontKeys (run fy [.delLayer "fg", .fontNewGlyph "q"]) = ["a", "b", "q"] := by decide

/-- Creating a glyph over an existing name with `newGlyph` in one layer while another layer keeps a
glyph of that name (or not): the name is in the order already, so nothing is appended and nothing
moves — a corollary of `created_in_order`. -/
theorem recreated_keeps_place (f0 : Font) (h0 : WF f0) (ops : List Op) (L : String) (g : Name)
    (hL : HasLayer (run f0 ops) L) (hq : Undisturbed (run f0 ops) L)
    (hin : g ∈ glyphOrder (run f0 ops)) :
    glyphOrder (step (run f0 ops) (.newGlyph L g)).1 = glyphOrder (run f0 ops) := by
  rw [(created_in_order f0 h0 ops L g hL hq).2.2.2, if_pos hin]

example : glyphOrder (step fy (.fontNewGlyph "a")).1 = ["a", "b", "c"] := by decide

/-! ## 10. User-level holds: deferred delivery -/

/-- While a layer's notifications are held or disabled, glyph operations on it change its names and
nothing else the font knows: the order and the lib stay as they are. -/
theorem suspended_ops_are_silent (f : Font) (L : String) (l : Layer)
    (hget : AL.get? f.layers L = some l) (g g2 : Name) :
    (l.held ≠ 0 ∧ l.disabled = 0 →
      (step f (.newGlyph L g)).1.lib = f.lib ∧ (step f (.insertGlyph L g)).1.lib = f.lib ∧
      (step f (.delGlyph L g)).1.lib = f.lib ∧ (step f (.rename L g g2)).1.lib = f.lib) ∧
    (l.disabled ≠ 0 →
      (step f (.newGlyph L g)).1.lib = f.lib ∧
      (step f (.delGlyph L g)).1.lib = f.lib ∧ (step f (.rename L g g2)).1.lib = f.lib) := by
  constructor
  · rintro ⟨hh, hd⟩
    refine ⟨?_, ?_, ?_, ?_⟩
    · simp only [step]; rw [newGlyph_held hget hh hd]; rfl
    · simp only [step]; rw [insertGlyph_held hget hh hd, newGlyph_held hget hh hd]; rfl
    · simp only [step]
      by_cases hm : g ∈ l.glyphs
      · rw [delGlyph_held hget hh hd hm]; rfl
      · simp [delGlyph, hget, hm]
    · simp only [step]
      by_cases hm : g ∈ l.glyphs
      · by_cases hne : g = g2
        · subst hne; simp [rename, hget, hm]
        · rw [rename_held hget hh hd hm hne]; rfl
      · simp [rename, hget, hm]
  · intro hd
    refine ⟨?_, ?_, ?_⟩
    · simp only [step]; rw [newGlyph_disabled hget hd]; rfl
    · simp only [step]
      by_cases hm : g ∈ l.glyphs
      · rw [delGlyph_disabled hget hd hm]; rfl
      · simp [delGlyph, hget, hm]
    · simp only [step]
      by_cases hm : g ∈ l.glyphs
      · by_cases hne : g = g2
        · subst hne; simp [rename, hget, hm]
        · rw [rename_disabled hget hd hm hne]; rfl
      · simp [rename, hget, hm]

example : (step (step fy (.holdLayer "fg")).1 (.newGlyph "fg" "z")).1.lib = fy.lib ∧
    layerGlyphs (step (step fy (.holdLayer "fg")).1 (.newGlyph "fg" "z")).1 "fg" = ["a", "b", "z"] := by decide
example : (step (step fy (.disableLayer "fg")).1 (.delGlyph "fg" "b")).1.lib = fy.lib := by decide

/-- one layer `fg` with three glyphs next to a layer `bg` that shares `c`; a complete order -/
def fh : Font :=
  { layers := [("fg", { glyphs := ["a", "b", "c"], observed := true }),
               ("bg", { glyphs := ["c"], observed := true })],
    lib := some ["a", "b", "c"], default := some "fg" }

example : WF fh := ⟨by decide, by decide⟩
example : CalmLayer fh "fg" := ⟨{ glyphs := ["a", "b", "c"], observed := true }, by decide, by decide⟩

/-- The release of a hold, in any well-formed font (every state a history reaches is one:
`all_layers_observed`), whatever built the queue: when the count drops from 1 to 0 on a layer that is
not disabled, the held `Layer.GlyphAdded / GlyphDeleted / GlyphNameChanged` are delivered in the
order in which they were queued, and EVERY callback evaluates "does any layer still have the name" on
the layers as they are at the release (`anyLayerHas f`, the same for the whole queue) — not as they
were when the notification was posted.  The layer's names are not touched, its queue is empty and
its hold count 0 afterwards. -/
theorem release_delivers_queue (f : Font) (hw : WF f) (L : String) (l : Layer)
    (hget : AL.get? f.layers L = some l) (hh : l.held = 1) (hd : l.disabled = 0) :
    (step f (.releaseLayer L)).2 = .ok ∧
    (step f (.releaseLayer L)).1.layers = (setLayer f L { l with held := 0, queue := [] }).layers ∧
    glyphOrder (step f (.releaseLayer L)).1 = specDeliverAll (anyLayerHas f) (glyphOrder f) l.queue :=
  releaseLayer_last hw hget hh hd

example : AL.get? (run fh [.holdLayer "fg", .newGlyph "fg" "z", .delGlyph "fg" "a"]).layers "fg" =
    some { glyphs := ["b", "c", "z"], observed := true, held := 1, queue := [.added "z", .deleted "a"] } := by decide
example : glyphOrder (step (run fh [.holdLayer "fg", .newGlyph "fg" "z", .delGlyph "fg" "a"]) (.releaseLayer "fg")).1 =
    ["b", "c", "z"] := by decide

/-- A release that is not the last one (`held > 1`: nested holds, or `insertGlyph`'s own bracket inside
a user-level hold) delivers nothing; a release on a layer that is disabled at that moment drops the
queue; a release with nothing held raises KeyError. -/
theorem release_inner_or_disabled (f : Font) (L : String) (l : Layer)
    (hget : AL.get? f.layers L = some l) :
    (l.held = 0 → step f (.releaseLayer L) = (f, .err .keyError)) ∧
    (2 ≤ l.held → (step f (.releaseLayer L)).1 = setLayer f L { l with held := l.held - 1 }) ∧
    (l.held = 1 → l.disabled ≠ 0 →
      (step f (.releaseLayer L)).1 = setLayer f L { l with held := 0, queue := [] }) := by
  refine ⟨?_, ?_, ?_⟩
  · intro h; simp [step, releaseLayer, hget, h]
  · intro h
    have h0 : ¬ l.held = 0 := by omega
    have h1 : ¬ l.held = 1 := by omega
    simp [step, releaseLayer, hget, h0, h1]
  · intro h1 hd; exact releaseLayer_last_disabled hget h1 hd

example : glyphOrder (run fh [.holdLayer "fg", .holdLayer "fg", .newGlyph "fg" "z", .releaseLayer "fg"]) =
    ["a", "b", "c"] := by decide
example : glyphOrder (run fh [.holdLayer "fg", .holdLayer "fg", .newGlyph "fg" "z", .releaseLayer "fg",
    .releaseLayer "fg"]) = ["a", "b", "c", "z"] := by decide

/-- `held_block_order`.  In any well-formed font, take a layer `L` on which nothing is held, disabled
or queued, hold its notifications, run ANY block of glyph operations on it (create, insert, delete,
rename, with any names, also failing ones), release.  Then, with "exists" meaning "some layer has a
glyph of that name AT THE RELEASE":
* during the block the font hears nothing: just before the release the order is the old one;
* the layer's names are what the operations made of them, every other layer is untouched, and the
  layer is calm again;
* the order after the release is the old order after the delivery of the block's notifications
  (coalesced by the centre), each evaluated against the state at the release;
* created: every name the layer has at the release is in the order — unless the layer had it before
  the block and it was missing from the order then (partial start orders);
* deleted: a name leaves the order only if no layer has it at the release;
* the names that were in the order and exist at the release stand exactly as they stood (none
  dropped, moved or duplicated).
(No new duplicates and the relative order of untouched names are sections 5 and 6: they hold for
every history, this one included.) -/
theorem held_block_order (f : Font) (hw : WF f) (L : String) (l : Layer)
    (hget : AL.get? f.layers L = some l) (hc : l.calm) (block : List Op)
    (hb : ∀ op ∈ block, op.onLayer L = true) :
    glyphOrder (run f (.holdLayer L :: block)) = glyphOrder f ∧
    (heldRun f L block).layers = (setLayer f L { l with glyphs := (blockRun (l.glyphs, []) block).1 }).layers ∧
    glyphOrder (heldRun f L block) =
      specDeliverAll (anyLayerHas (heldRun f L block)) (glyphOrder f)
        (coalesce [] (blockRun (l.glyphs, []) block).2) ∧
    (∀ g, HasGlyph (heldRun f L block) L g →
      g ∈ glyphOrder (heldRun f L block) ∨ (g ∈ l.glyphs ∧ g ∉ glyphOrder f)) ∧
    (∀ n, n ∈ glyphOrder f → n ∉ glyphOrder (heldRun f L block) → ¬ Exists (heldRun f L block) n) ∧
    (∀ p : Name → Bool, (∀ x, p x = true → Exists (heldRun f L block) x ∧ x ∈ glyphOrder f) →
      (glyphOrder (heldRun f L block)).filter p = (glyphOrder f).filter p) := by
  obtain ⟨h1, h2, h3⟩ := heldRun_spec hw hget hc block hb
  have hwH : WF (heldRun f L block) := wf_run hw _
  have hex : ∀ n, anyLayerHas (heldRun f L block) n = true ↔ Exists (heldRun f L block) n :=
    fun n => anyLayerHas_iff hwH.names n
  refine ⟨by rw [h1]; rfl, h2, h3, ?_, ?_, ?_⟩
  · rintro g ⟨l', hget', hm⟩
    have hl' : l' = { l with glyphs := (blockRun (l.glyphs, []) block).1 } := by
      rw [h2, get?_setLayer, if_pos rfl] at hget'; exact (Option.some.inj hget').symm
    have hgB : g ∈ (blockRun (l.glyphs, []) block).1 := by rw [hl'] at hm; exact hm
    have hexg : anyLayerHas (heldRun f L block) g = true := (hex g).mpr ⟨L, l', hget', hm⟩
    rcases blockRun_names (l.glyphs, []) block hgB with hin | ⟨nt, hnt, hi⟩
    · by_cases ho : g ∈ glyphOrder f
      · left; rw [h3]; exact mem_deliverAll_keep hexg _ ho
      · right; exact ⟨hin, ho⟩
    · left; rw [h3]
      exact mem_deliverAll_intro hexg _ ⟨nt, mem_coalesce.mpr (Or.inr hnt), hi⟩
  · intro n hin hout hexn
    apply hout
    rw [h3]
    exact mem_deliverAll_keep ((hex n).mpr hexn) _ hin
  · intro p hp
    rw [h3]
    exact filter_deliverAll_kept _ _ _ p (fun x hx => ⟨(hex x).mpr (hp x hx).1, (hp x hx).2⟩)

example : ∀ op ∈ [Op.delGlyph "fg" "a", .newGlyph "fg" "z", .rename "fg" "b" "y", .delGlyph "fg" "z"],
    op.onLayer "fg" = true := by decide
example : glyphOrder (heldRun fh "fg" [.delGlyph "fg" "a", .newGlyph "fg" "z", .rename "fg" "b" "y",
    .delGlyph "fg" "z"]) = ["y", "c"] := by decide
example : blockRun (["a", "b", "c"], []) [.delGlyph "fg" "a", .newGlyph "fg" "z", .rename "fg" "b" "y",
    .delGlyph "fg" "z"] = (["c", "y"], [.deleted "a", .added "z", .renamed "b" "y", .deleted "z"]) := by
  decide

/-- `rename_chain_under_hold`: a glyph renamed `a → b → c` inside one hold.  If `a` is listed, `b` and
`c` are not, the names are different and no other layer has a glyph called `a` or `b`, then after the
release `c` stands exactly where `a` stood (the way-point `b` took the place at the first delivery and
handed it on at the second), the length is unchanged and no other index is touched — the outcome of
the two renamings done without a hold. -/
theorem rename_chain_under_hold (f : Font) (hw : WF f) (L : String) (l : Layer)
    (hget : AL.get? f.layers L = some l) (hc : l.calm) (a b c : Name)
    (ha : a ∈ l.glyphs) (hab : a ≠ b) (hbc : b ≠ c) (hac : a ≠ c)
    (hea : ¬ ExistsElsewhere f L a) (heb : ¬ ExistsElsewhere f L b)
    (hoa : a ∈ glyphOrder f) (hob : b ∉ glyphOrder f) (hoc : c ∉ glyphOrder f) :
    glyphOrder (heldRun f L [.rename L a b, .rename L b c]) = replaceFirst (glyphOrder f) a c ∧
    ∃ i, indexOf? (glyphOrder f) a = some i ∧
      glyphOrder (heldRun f L [.rename L a b, .rename L b c]) = (glyphOrder f).set i c := by
  have hb : ∀ op ∈ [Op.rename L a b, .rename L b c], op.onLayer L = true := by
    intro op ho; simp at ho; rcases ho with rfl | rfl <;> simp [Op.onLayer]
  obtain ⟨_, h2, h3, _⟩ := held_block_order f hw L l hget hc _ hb
  have hbin : b ∈ addName (removeName l.glyphs a) b := mem_addName.mpr (Or.inr rfl)
  have hrun : blockRun (l.glyphs, []) [.rename L a b, .rename L b c] =
      (addName (removeName (addName (removeName l.glyphs a) b) b) c, [.renamed a b, .renamed b c]) := by
    simp [blockRun, blockStep, ha, hab, hbc, hbin]
  have hwH : WF (heldRun f L [.rename L a b, .rename L b c]) := wf_run hw _
  have gone : ∀ x, x ≠ c → (x = a ∨ x = b) → ¬ ExistsElsewhere f L x →
      anyLayerHas (heldRun f L [.rename L a b, .rename L b c]) x = false := by
    intro x hxc hx hel
    rw [anyLayerHas_false_iff hwH.names, exists_congr h2, exists_setLayer, hrun]
    simp only [not_or]
    refine ⟨hel, ?_⟩
    simp only [mem_addName, mem_removeName]
    rcases hx with rfl | rfl
    · simp [hab, hxc]
    · simp [hxc]
  have ga := gone a hac (Or.inl rfl) hea
  have gb := gone b hbc (Or.inr rfl) heb
  have hq : coalesce [] [Note.renamed a b, Note.renamed b c] = [.renamed a b, .renamed b c] := by
    have : Note.renamed b c ≠ Note.renamed a b := by
      intro e; injection e with e1 _; exact hab e1.symm
    simp [coalesce, enqueue, this]
  have hord : glyphOrder (heldRun f L [.rename L a b, .rename L b c]) = replaceFirst (glyphOrder f) a c := by
    rw [h3, hrun]
    simp only [hq, specDeliverAll, List.foldl_cons, List.foldl_nil, specDeliver, deliverArgs, ga, gb,
      Bool.false_eq_true, if_false]
    have hba : ¬ b = a := fun e => hab e.symm
    have hcb : ¬ c = b := fun e => hbc e.symm
    have h1 : specUpdate (glyphOrder f) (some b) (some a) = replaceFirst (glyphOrder f) a b := by
      simp [specUpdate, hoa, hab, hob]
    rw [h1]
    have hb1 : b ∈ replaceFirst (glyphOrder f) a b := mem_replaceFirst_new hoa
    have hc1 : c ∉ replaceFirst (glyphOrder f) a b := by
      intro hm
      rcases mem_replaceFirst hm with h | h
      · exact hoc h
      · exact hbc h.symm
    have h2' : specUpdate (replaceFirst (glyphOrder f) a b) (some c) (some b) =
        replaceFirst (replaceFirst (glyphOrder f) a b) b c := by
      simp [specUpdate, hb1, hbc, hc1]
    rw [h2', replaceFirst_replaceFirst hob]
  refine ⟨hord, ?_⟩
  cases hi : indexOf? (glyphOrder f) a with
  | none => exact absurd hoa (indexOf?_eq_none.mp hi)
  | some i => exact ⟨i, rfl, by rw [hord, set_indexOf hi]⟩

example : glyphOrder (heldRun fh "fg" [.rename "fg" "a" "x", .rename "fg" "x" "y"]) = ["y", "b", "c"] := by
  decide
example : glyphOrder (run fh [.rename "fg" "a" "x", .rename "fg" "x" "y"]) = ["y", "b", "c"] := by decide
example : ¬ ExistsElsewhere fh "fg" "a" := by
  rintro ⟨L2, l2, hne, hget, hm⟩
  simp only [fh, AL.get?_cons, AL.get?_nil] at hget
  split at hget
  · rename_i h; exact hne h.symm
  · split at hget
    · cases hget; simp at hm
    · cases hget

/-! ### Where deferred delivery differs from immediate delivery -/

/-- FULL statement (the "if" direction of the deletion clause, read at the release): a name that a
held block deleted or renamed away, that no layer has at the release and that was listed at most
once, is not in the order after the release. -/
def HeldGoneLeaves (f : Font) (L : String) (block : List Op) (n : Name) : Prop :=
  (∃ nt ∈ (blockRun (layerGlyphs f L, []) block).2, nt.removes n = true) →
  anyLayerHas (heldRun f L block) n = false →
  (glyphOrder f).count n ≤ 1 →
  n ∉ glyphOrder (heldRun f L block)

instance (f : Font) (L : String) (block : List Op) (n : Name) : Decidable (HeldGoneLeaves f L block n) := by
  unfold HeldGoneLeaves; exact inferInstance

/-- Known finding F116 (genuine defect, recorded): it FAILS.  Delete `b`, create `b` again, delete it
again under one hold: the second `Layer.GlyphDeleted(b)` equals the first and is not queued again, so
the queue is `[GlyphDeleted b, GlyphAdded b]`; at the release no layer has `b`: the first removes the
name and the second appends it.  `b` ends up in the order although the glyph was deleted and no layer
has it (without the hold the order would be `["a", "c"]`). -/
theorem held_gone_leaves_violated :
    ¬ HeldGoneLeaves fh "fg" [.delGlyph "fg" "b", .newGlyph "fg" "b", .delGlyph "fg" "b"] "b" := by decide

example : glyphOrder (heldRun fh "fg" [.delGlyph "fg" "b", .newGlyph "fg" "b", .delGlyph "fg" "b"]) =
    ["a", "c", "b"] := by decide
example : glyphOrder (run fh [.delGlyph "fg" "b", .newGlyph "fg" "b", .delGlyph "fg" "b"]) = ["a", "c"] := by
  decide
-- the same through renaming there and back, and with a name that never was in the order
example : glyphOrder (heldRun fh "fg" [.rename "fg" "a" "x", .rename "fg" "x" "a", .rename "fg" "a" "x"]) =
    ["x", "b", "c", "a"] := by decide
example : glyphOrder (heldRun fh "fg" [.newGlyph "fg" "q", .delGlyph "fg" "q", .newGlyph "fg" "q",
    .delGlyph "fg" "q"]) = ["a", "b", "c"] := by decide
example : glyphOrder (heldRun { fh with lib := some ["a", "c"] } "fg"
    [.delGlyph "fg" "b", .newGlyph "fg" "b", .delGlyph "fg" "b"]) = ["a", "c", "b"] := by decide

/-- What is proved of the code as it is: the statement holds whenever the block posts no notification
twice (nothing is coalesced) — then the LAST thing the queue says about the name is that it is gone,
and nothing after that brings it back.  For every well-formed font, calm layer, block and name. -/
theorem held_gone_leaves_partial (f : Font) (hw : WF f) (L : String) (l : Layer)
    (hget : AL.get? f.layers L = some l) (hc : l.calm) (block : List Op)
    (hb : ∀ op ∈ block, op.onLayer L = true)
    (hnd : (blockRun (l.glyphs, []) block).2.Nodup) (n : Name) :
    HeldGoneLeaves f L block n := by
  intro hrem hgone hcount
  have hlg : layerGlyphs f L = l.glyphs := by simp [layerGlyphs, hget]
  rw [hlg] at hrem
  obtain ⟨_, h2, h3, _⟩ := held_block_order f hw L l hget hc block hb
  have hwH : WF (heldRun f L block) := wf_run hw _
  rw [h3, coalesce_of_nodup (by simpa using hnd)]
  simp only [List.nil_append]
  refine not_mem_deliverAll_gone hgone hcount ?_
  -- the last word of the posted notifications about `n`
  have hsr := saysRight_run (saysRight_start l.glyphs) block
  cases hls : lastSays (blockRun (l.glyphs, []) block).2 n with
  | none =>
    obtain ⟨nt, hnt, hr⟩ := hrem
    have := (lastSays_none_iff.mp hls nt hnt).2
    rw [hr] at this; cases this
  | some b =>
    cases b with
    | false => rfl
    | true =>
      exfalso
      have hin : n ∈ (blockRun (l.glyphs, []) block).1 := (hsr n true hls).mpr rfl
      have : Exists (heldRun f L block) n := by
        rw [exists_congr h2, exists_setLayer]; exact Or.inr hin
      rw [← anyLayerHas_iff hwH.names, hgone] at this
      cases this

example : (blockRun (["a", "b", "c"], []) [.delGlyph "fg" "b", .newGlyph "fg" "q", .rename "fg" "a" "b"]).2.Nodup := by
  decide
example : glyphOrder (heldRun fh "fg" [.delGlyph "fg" "b", .newGlyph "fg" "q", .rename "fg" "a" "b"]) =
    ["b", "c", "q"] := by decide

/-- Deferred evaluation makes the order DIFFER from the immediate one without contradicting the
property.  The first way, for every well-formed font, calm layer `L` and glyph `a` of it: delete `a`
and create it again inside one hold.  `GlyphDeleted(a)` is delivered when a layer has `a` again, so a
listed name KEEPS ITS PLACE (an unlisted one is appended) — whereas without the hold, when no other
layer has `a`, the name leaves at the deletion (`deleted_leaves_iff_gone`) and is appended at the end
at the re-creation (`created_in_order`).  Both outcomes are what the property states for the state
the callbacks saw. -/
theorem held_recreate_keeps_place (f : Font) (hw : WF f) (L : String) (l : Layer)
    (hget : AL.get? f.layers L = some l) (hc : l.calm) (a : Name) (ha : a ∈ l.glyphs) :
    glyphOrder (heldRun f L [.delGlyph L a, .newGlyph L a]) =
      (if a ∈ glyphOrder f then glyphOrder f else glyphOrder f ++ [a]) := by
  have hb : ∀ op ∈ [Op.delGlyph L a, .newGlyph L a], op.onLayer L = true := by
    intro op ho; simp at ho; rcases ho with rfl | rfl <;> simp [Op.onLayer]
  obtain ⟨_, h2, h3, _⟩ := held_block_order f hw L l hget hc _ hb
  have hrun : blockRun (l.glyphs, []) [.delGlyph L a, .newGlyph L a] =
      (addName (removeName l.glyphs a) a, [.deleted a, .added a]) := by
    simp [blockRun, blockStep, ha]
  have hwH : WF (heldRun f L [.delGlyph L a, .newGlyph L a]) := wf_run hw _
  have hex : anyLayerHas (heldRun f L [.delGlyph L a, .newGlyph L a]) a = true := by
    rw [anyLayerHas_iff hwH.names, exists_congr h2, exists_setLayer, hrun]
    exact Or.inr (mem_addName.mpr (Or.inr rfl))
  have hq : coalesce [] [Note.deleted a, Note.added a] = [.deleted a, .added a] := by
    simp [coalesce, enqueue]
  rw [h3, hrun]
  simp only [hq, specDeliverAll, List.foldl_cons, List.foldl_nil, specDeliver, deliverArgs, hex, if_true,
    specUpdate, appendIfAbsent]

-- the three ways, side by side (held / immediate)
example : glyphOrder (heldRun fh "fg" [.delGlyph "fg" "a", .newGlyph "fg" "a"]) = ["a", "b", "c"] ∧
    glyphOrder (run fh [.delGlyph "fg" "a", .newGlyph "fg" "a"]) = ["b", "c", "a"] := by decide
-- rename `a` to `x`, create `a` again: immediately `x` takes `a`'s place and `a` is appended; under a hold the
-- old name "must stay" at delivery time, so `a` keeps its place and `x` is appended
example : glyphOrder (heldRun fh "fg" [.rename "fg" "a" "x", .newGlyph "fg" "a"]) = ["a", "b", "c", "x"] ∧
    glyphOrder (run fh [.rename "fg" "a" "x", .newGlyph "fg" "a"]) = ["x", "b", "c", "a"] := by decide
-- delete `a`, rename `b` to `a` (order b, c, a): immediately `a` leaves and then takes `b`'s place; under a hold
-- `a` never leaves, keeps the place it has, and `b` is removed
example :
    glyphOrder (heldRun { fh with lib := some ["b", "c", "a"] } "fg" [.delGlyph "fg" "a", .rename "fg" "b" "a"]) =
      ["c", "a"] ∧
    glyphOrder (run { fh with lib := some ["b", "c", "a"] } [.delGlyph "fg" "a", .rename "fg" "b" "a"]) =
      ["a", "c"] := by decide

/-- … and these are the only two ways in which it can differ.  For a well-formed font, a calm layer and
any block of glyph operations on it: if (1) the block posts no notification twice — nothing is
coalesced — and (2) every callback of the run WITHOUT the hold got, about the name it asks about
("does any layer still have it"), the answer that the state at the release gives, then the order after
hold – block – release IS the order after the block alone, and so are the layers' names.  (Dropping
(1): `held_gone_leaves_violated`; dropping (2): `held_recreate_keeps_place` and the examples after it.) -/
theorem held_equals_immediate (f : Font) (hw : WF f) (L : String) (l : Layer)
    (hget : AL.get? f.layers L = some l) (hc : l.calm) (block : List Op)
    (hb : ∀ op ∈ block, op.onLayer L = true)
    (hnd : (blockRun (l.glyphs, []) block).2.Nodup)
    (ha : AnswersAs (anyLayerHas (heldRun f L block)) L f block) :
    glyphOrder (heldRun f L block) = glyphOrder (run f block) ∧
    ∀ K, layerGlyphs (heldRun f L block) K = layerGlyphs (run f block) K := by
  obtain ⟨_, h2, h3, _⟩ := held_block_order f hw L l hget hc block hb
  obtain ⟨i1, i2⟩ := immediate_as_deliverAll block hb hw hget hc ha
  refine ⟨?_, ?_⟩
  · rw [h3, i2, coalesce_of_nodup (by simpa using hnd)]
    rfl
  · intro K; unfold layerGlyphs; rw [h2, i1]

example : AnswersAs (anyLayerHas (heldRun fh "fg" [.delGlyph "fg" "a", .newGlyph "fg" "z", .rename "fg" "b" "y"]))
    "fg" fh [.delGlyph "fg" "a", .newGlyph "fg" "z", .rename "fg" "b" "y"] := by decide
example : glyphOrder (heldRun fh "fg" [.delGlyph "fg" "a", .newGlyph "fg" "z", .rename "fg" "b" "y"]) =
    ["y", "c", "z"] := by decide
-- (2) fails for "delete a, create a again": the deletion's callback was told "gone", the release says "there"
example : ¬ AnswersAs (anyLayerHas (heldRun fh "fg" [.delGlyph "fg" "a", .newGlyph "fg" "a"]))
    "fg" fh [.delGlyph "fg" "a", .newGlyph "fg" "a"] := by decide

/-- `disableNotifications()` … `enableNotifications()` around a block: the font is told nothing, at
any time — the order after the block is the order before it, whatever was created, deleted or
renamed (this is what disabling asks for; the property's sentences are not demanded of such a
block), the layer's names follow the operations and the layer is calm again. -/
theorem disabled_block_keeps_order (f : Font) (L : String) (l : Layer)
    (hget : AL.get? f.layers L = some l) (hc : l.calm) (block : List Op)
    (hb : ∀ op ∈ block, op.onLayer L = true) :
    disabledRun f L block = setLayer f L { l with glyphs := (blockRun (l.glyphs, []) block).1 } ∧
    glyphOrder (disabledRun f L block) = glyphOrder f := by
  obtain ⟨hh, hd, hq⟩ := hc
  obtain ⟨gl, ob, he, qu, di⟩ := l
  simp only at hh hd hq
  subst hh; subst hd; subst hq
  have e1 : (step f (.disableLayer L)).1 =
      setLayer f L { glyphs := gl, observed := ob, held := 0, queue := [], disabled := 1 } := by
    simp only [step, disableLayer, hget]
  have hget1 : AL.get? (setLayer f L { glyphs := gl, observed := ob, held := 0, queue := [], disabled := 1 }).layers L =
      some { glyphs := gl, observed := ob, held := 0, queue := [], disabled := 1 } := by
    rw [get?_setLayer, if_pos rfl]
  have hrun := run_disabledBlock hget1 (by simp) rfl rfl block hb gl
  simp only [setLayer_setLayer] at hrun
  have e : disabledRun f L block =
      setLayer f L { glyphs := (blockRun (gl, []) block).1, observed := ob, held := 0, queue := [], disabled := 0 } := by
    unfold disabledRun
    rw [show [Op.disableLayer L] ++ block ++ [Op.enableLayer L] = (Op.disableLayer L :: block) ++ [Op.enableLayer L] by simp,
      run_append]
    simp only [run]
    rw [e1, hrun]
    simp only [step, enableLayer]
    rw [get?_setLayer, if_pos rfl]
    simp only [Nat.one_ne_zero, if_false, setLayer_setLayer]
  exact ⟨e, by rw [e]; rfl⟩

example : glyphOrder (disabledRun fh "fg" [.delGlyph "fg" "a", .newGlyph "fg" "z"]) = ["a", "b", "c"] := by decide
example : layerGlyphs (disabledRun fh "fg" [.delGlyph "fg" "a", .newGlyph "fg" "z"]) "fg" = ["b", "c", "z"] := by
  decide

end DefconModel.Props.C12
