/-
C18 — A failed save does no harm and loses nothing.

Theorems about M-SaveSteps (`DefconModel/SaveSteps.lean`): `Font.save` as a list of atomic steps
with a failure injected after any prefix.  `failAt m w k` runs the first `k` steps of the save's
plan and then the `finally` clause.
-/
import DefconModel.Lemmas.SaveSteps
import DefconModel.Lemmas.SaveStepsRetry
import DefconModel.Lemmas.SaveStepsFault
import DefconModel.Lemmas.SaveStepsWitness

namespace DefconModel.Props.C18
open DefconModel DefconModel.SaveSteps

/-! ### identity kept, nothing temporary left -/

theorem exec_identity (m : Mode) (w : World) (s : Step) :
    (exec m w s).font.path = w.font.path ∧ (exec m w s).font.format = w.font.format ∧
    (exec m w s).font.dirty = w.font.dirty ∧ (exec m w s).font.comps = w.font.comps ∧
    (exec m w s).font.glyphs = w.font.glyphs := by
  cases s <;> simp only [exec] <;> try (cases target m <;> simp [putTarget])
  · cases w.temp <;> simp

theorem runSteps_identity (m : Mode) (w : World) (steps : List Step) :
    (runSteps m w steps).font.path = w.font.path ∧ (runSteps m w steps).font.format = w.font.format ∧
    (runSteps m w steps).font.dirty = w.font.dirty ∧ (runSteps m w steps).font.comps = w.font.comps ∧
    (runSteps m w steps).font.glyphs = w.font.glyphs := by
  unfold runSteps
  induction steps generalizing w with
  | nil => simp
  | cons s rest ih =>
    simp only [List.foldl_cons]
    obtain ⟨a, b, c, d, e⟩ := exec_identity m w s
    obtain ⟨a', b', c', d', e'⟩ := ih (exec m w s)
    exact ⟨a'.trans a, b'.trans b, c'.trans c, d'.trans d, e'.trans e⟩

theorem recover_font (m : Mode) (w : World) : (recover m w).font = w.font := by
  unfold recover
  split <;> rfl

/-- Whatever step fails, in whatever mode: the font keeps its path and format, still reports
the dirty state it had (so it is still dirty if anything was pending), and its in-memory content
is untouched. -/
theorem identity_kept (m : Mode) (w : World) (k : Nat) :
    (failAt m w k).font.path = w.font.path ∧ (failAt m w k).font.format = w.font.format ∧
    (failAt m w k).font.dirty = w.font.dirty ∧ (failAt m w k).font.comps = w.font.comps ∧
    (failAt m w k).font.glyphs = w.font.glyphs := by
  unfold failAt cleanup
  simp only [recover_font]
  exact runSteps_identity m w _

/-- … and no temporary directory is left behind (neither the one the new UFO is written into nor the
one the old destination is put aside in), after a failure at any step and after success. -/
theorem no_temp_left (m : Mode) (w : World) (k : Nat) :
    (failAt m w k).temp = none ∧ (failAt m w k).aside = none ∧ (save m w).temp = none ∧ (save m w).aside = none := by
  unfold failAt save finalize cleanup; simp

/-! ### an existing destination -/

/-- steps that write into the temporary UFO leave every UFO on disk, and the (empty) aside place, alone -/
theorem exec_temp_disk (p : Nat) (w : World) (s : Step)
    (hs : s ≠ .moveAside p ∧ s ≠ .moveTemp p ∧ s ≠ .dropAside)
    (hs2 : ∀ q, s = .moveAside q ∨ s = .moveTemp q → q = p) :
    (exec (.saveAsOver p) w s).disk = w.disk ∧ (exec (.saveAsOver p) w s).aside = w.aside := by
  cases s with
  | mkTemp => exact ⟨rfl, rfl⟩
  | writeComp i => simp [exec, target, putTarget]
  | openGlyphSet => exact ⟨rfl, rfl⟩
  | writeGlyph g => simp [exec, target, putTarget]
  | deleteGlyph g => simp [exec, target, putTarget]
  | writeContents => simp [exec, target, putTarget]
  | writeLayerInfo => simp [exec, target, putTarget]
  | moveAside q => have := hs2 q (Or.inl rfl); subst this; exact absurd rfl hs.1
  | moveTemp q => have := hs2 q (Or.inr rfl); subst this; exact absurd rfl hs.2.1
  | dropAside => exact absurd rfl hs.2.2

theorem runSteps_temp_disk (p : Nat) (w : World) (steps : List Step)
    (h : ∀ s ∈ steps, s ≠ .moveAside p ∧ s ≠ .moveTemp p ∧ s ≠ .dropAside)
    (h2 : ∀ s ∈ steps, ∀ q, s = .moveAside q ∨ s = .moveTemp q → q = p) :
    (runSteps (.saveAsOver p) w steps).disk = w.disk ∧ (runSteps (.saveAsOver p) w steps).aside = w.aside := by
  unfold runSteps
  induction steps generalizing w with
  | nil => exact ⟨rfl, rfl⟩
  | cons s rest ih =>
    simp only [List.foldl_cons]
    obtain ⟨a, b⟩ := ih (exec (.saveAsOver p) w s) (fun x hx => h x (by simp [hx])) (fun x hx => h2 x (by simp [hx]))
    obtain ⟨c, d⟩ := exec_temp_disk p w s (h s (by simp)) (h2 s (by simp))
    exact ⟨a.trans c, b.trans d⟩

/-- the plan of an overwriting save-as ends with "put the destination aside, move the temporary UFO in,
drop what was put aside"; everything before writes only into the temporary UFO -/
theorem plan_over_prefix (f : Font) (p : Nat) :
    ∃ pre, plan f (.saveAsOver p) = pre ++ [.moveAside p, .moveTemp p, .dropAside] ∧
      (∀ s ∈ pre, s ≠ .moveAside p ∧ s ≠ .moveTemp p ∧ s ≠ .dropAside) ∧
      (∀ s ∈ pre, ∀ q, s = .moveAside q ∨ s = .moveTemp q → q = p) := by
  refine ⟨[Step.mkTemp] ++
      ((List.range f.comps.length).filter (fun i => isSaveAs (.saveAsOver p) || f.compDirty.getD i false)).map Step.writeComp ++
      [Step.openGlyphSet] ++
      ((f.glyphs.map Prod.fst).filter (fun g => isSaveAs (.saveAsOver p) || g ∈ f.glyphDirty)).map Step.writeGlyph ++
      [Step.writeContents] ++ [Step.writeLayerInfo], by unfold plan; simp [isSaveAs], ?_, ?_⟩
  · intro s hs
    simp only [List.mem_append, List.mem_cons, List.mem_map, List.mem_singleton, List.not_mem_nil, or_false] at hs
    rcases hs with ((((rfl | ⟨i, _, rfl⟩) | rfl) | ⟨g, _, rfl⟩) | rfl) | rfl <;> simp
  · intro s hs q hq
    simp only [List.mem_append, List.mem_cons, List.mem_map, List.mem_singleton, List.not_mem_nil, or_false] at hs
    rcases hs with ((((rfl | ⟨i, _, rfl⟩) | rfl) | ⟨g, _, rfl⟩) | rfl) | rfl <;> simp at hq

/-- every failure before the final replace (every write, close, …) leaves the whole disk exactly as it was -/
theorem destination_untouched_before_replace (w : World) (p k : Nat) (ha : w.aside = none)
    (hk : k + 3 ≤ (plan w.font (.saveAsOver p)).length) :
    (failAt (.saveAsOver p) w k).disk = w.disk := by
  obtain ⟨pre, hplan, h1, h2⟩ := plan_over_prefix w.font p
  have hlen : k ≤ pre.length := by
    rw [hplan] at hk; simp at hk; omega
  have htake : (plan w.font (.saveAsOver p)).take k = pre.take k := by
    rw [hplan, List.take_append_of_le_length hlen]
  obtain ⟨hd, has⟩ := runSteps_temp_disk p w (pre.take k) (fun s hs => h1 s (List.mem_of_mem_take hs))
    (fun s hs => h2 s (List.mem_of_mem_take hs))
  unfold failAt cleanup
  simp only [htake]
  unfold recover
  rw [has, ha]
  exact hd

/-- **A destination is untouched by a failure at ANY step that can fail** (every step but the last one,
dropping what was put aside, which ignores errors): every UFO on disk reads as before — the one at the
destination too, because a destination that was put aside is put back when the new UFO cannot be moved in.
(The window between "destination removed" and "temporary UFO moved in" was finding F20; repaired in /repo.) -/
theorem destination_untouched (w : World) (p k q : Nat) (ha : w.aside = none)
    (hk : k + 1 < (plan w.font (.saveAsOver p)).length) :
    lookup (failAt (.saveAsOver p) w k).disk q = lookup w.disk q := by
  obtain ⟨pre, hplan, h1, h2⟩ := plan_over_prefix w.font p
  have hlen : k ≤ pre.length + 1 := by
    rw [hplan] at hk; simp at hk; omega
  by_cases hk1 : k ≤ pre.length
  · rw [destination_untouched_before_replace w p k ha (by rw [hplan]; simp; omega)]
  · have hke : k = pre.length + 1 := by omega
    have htake : (plan w.font (.saveAsOver p)).take k = pre ++ [.moveAside p] := by
      rw [hplan, hke, List.take_append]
      simp [List.take_of_length_le]
    obtain ⟨hd, has⟩ := runSteps_temp_disk p w pre h1 h2
    unfold failAt cleanup
    simp only [htake]
    have hrun : runSteps (.saveAsOver p) w (pre ++ [.moveAside p]) =
        exec (.saveAsOver p) (runSteps (.saveAsOver p) w pre) (.moveAside p) := by
      unfold runSteps; simp [List.foldl_append]
    rw [hrun]
    simp only [exec, recover, hd]
    cases hl : lookup w.disk p with
    | none => simp only; exact lookup_remove_of_none w.disk p q hl
    | some u =>
      simp only
      by_cases hq : q = p
      · subst hq; rw [lookup_store_self, hl]
      · rw [lookup_store_ne _ _ _ _ hq, lookup_remove_ne _ _ _ hq]

/-- the statement as the property puts it -/
def DestinationUntouched : Prop :=
  ∀ (w : World) (p k : Nat), w.aside = none → k + 1 < (plan w.font (.saveAsOver p)).length →
    ∀ q, lookup (failAt (.saveAsOver p) w k).disk q = lookup w.disk q

theorem destination_untouched_all : DestinationUntouched := fun w p k ha hk q => destination_untouched w p k q ha hk

/-- the former F20 witness: an overwriting save-as of a font at path 1 onto the UFO at path 2 -/
def w20 : World :=
  { font := { comps := [7], compDirty := [true], glyphs := [], glyphDirty := [], path := 1, format := 3, dirty := true },
    disk := [(1, { comps := [5] }), (2, { comps := [9] })] }

/-- its plan has eight steps (the layer info is a step of its own since round 3); a failure at any of the seven
that can fail leaves path 2 as it was (before the repair the failure between removing and moving in lost it) … -/
example : (plan w20.font (.saveAsOver 2)).length = 8 := by decide
example : ∀ k, k < 7 → lookup (failAt (.saveAsOver 2) w20 k).disk 2 = some { comps := [9] } := by decide
/-- … and the completed save installs the new UFO there -/
example : lookup (save (.saveAsOver 2) w20).disk 2 = some { comps := [7] } := by decide

/-! ### retry after a failure -/

/-- Full statement: after a failure at any step, a successful in-place retry makes the font's UFO
show what memory holds. -/
def RetryPersists : Prop :=
  ∀ (m : Mode) (w : World) (k : Nat), k < (plan w.font m).length →
    let w1 := failAt m w k
    reopen (save .inPlace w1) w1.font.path = some (w1.font.comps, w1.font.glyphs)

/-- a font opened from UFO 1 with one changed component and one new glyph -/
def w19 : World :=
  { font := { comps := [7, 3], compDirty := [true, false], glyphs := [(0, 4), (1, 6)], glyphDirty := [1],
              path := 1, format := 3, dirty := true },
    disk := [(1, { comps := [5, 3], files := [(0, 4)], listing := [0] })] }

/-- without a failure the save persists everything (non-vacuity of the statement) -/
example : reopen (save .inPlace w19) 1 = some ([7, 3], [(1, 6), (0, 4)]) := by decide

/-- F19, in place: the failure hits after the new glyph's file was written (and its dirty flag
cleared) but before contents.plist: the retry does not list the glyph. -/
theorem retry_violated_in_place :
    reopen (save .inPlace (failAt .inPlace w19 3)) 1 ≠ some ([7, 3], [(1, 6), (0, 4)]) := by decide

/-- F19, save-as: the failed save-as cleared the flags while writing elsewhere; the retry to the
font's own path writes nothing. -/
theorem retry_violated_save_as :
    reopen (save .inPlace (failAt (.saveAsNew 2) w19 2)) 1 ≠ some ([7, 3], [(1, 6), (0, 4)]) := by decide

theorem retry_violated : ¬ RetryPersists := by
  intro h
  have := h .inPlace w19 3 (by decide)
  revert this
  decide

/-- What does hold: a failure before the first write leaves the world exactly as it was (so the
retry is an ordinary save). -/
theorem retry_persists_partial (m : Mode) (w : World) (h : w.temp = none) (ha : w.aside = none)
    (hg : w.gsContents = []) : failAt m w 0 = w := by
  unfold failAt cleanup runSteps recover
  cases w with
  | mk f d t a g =>
    simp only at h ha hg; subst h; subst ha; subst hg
    cases m <;> simp

/-- **A failure while the components are being written in place is harmless.**  Components (info, groups, kerning,
lib, features, …) go straight into the font's own UFO and each flag is cleared only after its write: whichever of
these writes fails (or the opening of the glyph set right after them), the retry writes exactly what the failed
attempt had not written yet, and the world after the retry is the world an undisturbed save produces — every
file, every flag.  (F19 begins after this point: a glyph file written and its flag cleared before the listing.) -/
theorem retry_after_component_failure (w : World) (k : Nat) (ht : w.temp = none) (ha : w.aside = none)
    (hg : w.gsContents = []) (hk : k ≤ (dirtyComps w.font).length) :
    save .inPlace (failAt .inPlace w k) = save .inPlace w := by
  have htake : (plan w.font .inPlace).take k = ((dirtyComps w.font).take k).map Step.writeComp := by
    rw [plan_inPlace, List.take_append_of_le_length (by simpa using hk), List.map_take]
  obtain ⟨hf, h1, h2, h3⟩ := runSteps_writeComps w ((dirtyComps w.font).take k)
  have hw1 : failAt .inPlace w k = runSteps .inPlace w (((dirtyComps w.font).take k).map Step.writeComp) := by
    unfold failAt
    rw [htake, recover_inPlace]
    exact cleanup_eq _ (h1.trans ht) (h2.trans ha) (h3.trans hg)
  have hplan1 : plan (failAt .inPlace w k).font .inPlace =
      ((dirtyComps w.font).drop k).map Step.writeComp ++ glyphPhase w.font := by
    rw [hw1, hf, plan_inPlace, dirtyComps_after]
    rfl
  have hsplit : plan w.font .inPlace = ((dirtyComps w.font).take k).map Step.writeComp ++
      (((dirtyComps w.font).drop k).map Step.writeComp ++ glyphPhase w.font) := by
    rw [plan_inPlace, ← List.append_assoc, ← List.map_append, List.take_append_drop]
  have hrun : runSteps .inPlace w (plan w.font .inPlace) =
      runSteps .inPlace (failAt .inPlace w k) (((dirtyComps w.font).drop k).map Step.writeComp ++ glyphPhase w.font) := by
    rw [hsplit, runSteps_append, ← hw1]
  unfold save
  rw [hplan1, hrun]

/-- the statement applies to the F19 witness font: a failure at its only component write (k = 0, 1) is repaired by
the retry, the failure after the glyph write (k = 3, `retry_violated_in_place`) is not -/
example : (dirtyComps w19.font).length = 1 := by decide
example : reopen (save .inPlace (failAt .inPlace w19 1)) 1 = some ([7, 3], [(1, 6), (0, 4)]) := by decide

/-! ### round 3: the order inside one layer's save; content faults and their correction

`plan` now spells out one layer's save in the order the code uses: every dirty glyph's file, then the removal of
every file scheduled for deletion, then the listing — after which (and only then) the layer forgets its pending
deletions —, then the layer info.  A step fails because the environment fails at it (`failAt k`, as before) or because
its own content cannot be written (`faulty`; `attempt` stops at the first such step, on every attempt until the
content is replaced).  `Sync` (Spec/SaveSteps.lean) is the relation between a font and its UFO that every history of
edits, completed saves and harmless failures maintains: what is not flagged dirty is on disk as it is in memory. -/

/-- **A completed in-place save makes memory = disk.**  For every font in `Sync` with its UFO — whatever is dirty, new,
renamed or scheduled for deletion — re-opening the UFO after the save shows exactly the components, glyphs and layer
info memory holds, and no glyph memory does not hold; and the relation holds again, with nothing pending. -/
theorem save_persists (w : World) (h : Sync w) : Persisted (save .inPlace w) ∧ Sync (save .inPlace w) :=
  save_persists' h

example : reopen wSaved 1 = some ([7], [(1, 5), (2, 8), (3, 9)]) := by decide

/-- non-vacuity of `save_persists`: a font in `Sync` with a changed component, a new glyph, changed glyphs and a pending
deletion; after the save the UFO shows exactly that -/
example : wEdited.font.scheduled = [3] ∧ wEdited.font.glyphDirty = [0, 1, 2] ∧ (own wEdited).listing = [3, 2, 1] := by decide
example : reopen (save .inPlace wEdited) 1 = some ([70], [(2, 88), (1, 6), (0, 4)]) := by decide

/-- **A content fault is a failure like any other**: a save that stops because some content cannot be written ends in
exactly the world a save ends in whose environment fails at that step — so everything proved about `failAt`
(identity kept, nothing temporary left, the destination untouched) holds for content faults too. -/
theorem content_fault_is_failure (m : Mode) (w : World) (h : (attempt m w).2 = false) :
    ∃ k, k < (plan w.font m).length ∧ faultAt m w (plan w.font m) = some k ∧ (attempt m w).1 = failAt m w k := by
  unfold attempt at h ⊢
  cases hf : faultAt m w (plan w.font m) with
  | none => simp [hf] at h
  | some k => exact ⟨k, faultAt_lt _ _ _ _ hf, rfl, by simp⟩

/-- … in particular: path, format, dirty state and in-memory content are kept and no temporary directory is left … -/
theorem content_fault_identity_kept (m : Mode) (w : World) (h : (attempt m w).2 = false) :
    (attempt m w).1.font.path = w.font.path ∧ (attempt m w).1.font.format = w.font.format ∧
    (attempt m w).1.font.dirty = w.font.dirty ∧ (attempt m w).1.font.comps = w.font.comps ∧
    (attempt m w).1.font.glyphs = w.font.glyphs ∧ (attempt m w).1.temp = none ∧ (attempt m w).1.aside = none := by
  obtain ⟨k, _, _, hk⟩ := content_fault_is_failure m w h
  rw [hk]
  obtain ⟨a, b, c, d, e⟩ := identity_kept m w k
  obtain ⟨t1, t2, _, _⟩ := no_temp_left m w k
  exact ⟨a, b, c, d, e, t1, t2⟩

/-- … and a content fault in a save over an existing destination leaves the whole disk exactly as it was (it cannot
hit the final replace: putting aside, moving in and dropping have no content of their own). -/
theorem content_fault_destination_untouched (w : World) (p : Nat) (ha : w.aside = none)
    (h : (attempt (.saveAsOver p) w).2 = false) : (attempt (.saveAsOver p) w).1.disk = w.disk := by
  obtain ⟨k, _, hf, hk⟩ := content_fault_is_failure _ w h
  rw [hk]
  obtain ⟨pre, hplan, _, _⟩ := plan_over_prefix w.font p
  have := faultAt_over_lt w p k pre hplan hf
  exact destination_untouched_before_replace w p k ha (by rw [hplan]; simp; omega)

/-- glyph 1 of the edited font cannot be written: the in-place save stops at step 3 (component, opening, glyph 0, then
glyph 1), the save over UFO 2 at step 4 — and leaves UFO 2 alone -/
example : (attempt .inPlace wEdited).2 = false ∧ faultAt .inPlace wEdited (plan wEdited.font .inPlace) = some 3 := by decide
example : (attempt (.saveAsOver 2) { wEdited with disk := (2, { comps := [9] }) :: wEdited.disk }).2 = false ∧
    lookup (attempt (.saveAsOver 2) { wEdited with disk := (2, { comps := [9] }) :: wEdited.disk }).1.disk 2 =
      some { comps := [9] } := by decide

/-- **A failed layer save keeps its schedule.**  In the order the code uses — glyph files first, deletions second, the
listing third, and the pending-deletion table cleared only after the listing — a failure (of either kind) at any
step BEFORE the deletions leaves the pending deletions recorded in the layer, `contents.plist` as it was, and every
glif file that existed in place: nothing on disk names a file that is gone, and the next save still knows what to
remove.  (`retry_after_content_fault_persists_partial` draws the consequence: the retry performs the deletions and
ends with memory = disk.)  This is what reordering the steps — deleting, or forgetting the schedule, before the glyph
files are written — destroys. -/
theorem failed_layer_save_keeps_schedule (w : World) (k : Nat)
    (hb : ∀ s ∈ (plan w.font .inPlace).take k, keepsFiles s = true) :
    (failAt .inPlace w k).font.scheduled = w.font.scheduled ∧
    (own (failAt .inPlace w k)).listing = (own w).listing ∧
    (∀ g, (fileOf (own w) g).isSome = true → (fileOf (own (failAt .inPlace w k)) g).isSome = true) := by
  rw [failAt_inPlace]
  exact keeps_run _ w hb

/-- in the edited font the first five steps (component, opening, glyphs 0, 1 and 2) come before the deletion of glyph 3:
a failure at any of them or at the deletion itself — step 3 is where glyph 1's content fault hits — keeps the
schedule `[3]` and file 3 -/
example : ∀ k, k ≤ 5 → ∀ s ∈ (plan wEdited.font .inPlace).take k, keepsFiles s = true := by decide
example : (plan wEdited.font .inPlace).getD 5 .dropAside = .deleteGlyph 3 := by decide
example : (failAt .inPlace wEdited 3).font.scheduled = [3] ∧ fileOf (own (failAt .inPlace wEdited 3)) 3 = some 9 := by decide

instance (u : Ufo) (l : List Step) : Decidable (SafePrefix u l) := by unfold SafePrefix; infer_instance

/-- **After a harmless failure the retry persists everything.**  If an in-place save fails (environment or content)
at a step before which only components and glyphs that `contents.plist` already lists were written — or after the
listing was written —, then whatever the user edits afterwards, once nothing unwritable is left the next save runs
through and makes memory = disk: every change since the last successful save, those before the failure and those
after it, the pending deletions included.  (Generalises `retry_after_component_failure` from the component phase to
the glyph phase, and from "no edits in between" to any edits.) -/
theorem retry_after_safe_failure (w : World) (hs : Sync w) (k : Nat)
    (hp : SafePrefix (own w) ((plan w.font .inPlace).take k)) (es : List Edit)
    (hnb : NoBad (edits (failAt .inPlace w k) es).font) :
    attempt .inPlace (edits (failAt .inPlace w k) es) = (save .inPlace (edits (failAt .inPlace w k) es), true) ∧
    Persisted (save .inPlace (edits (failAt .inPlace w k) es)) := by
  have h1 : Sync (edits (failAt .inPlace w k) es) := sync_edits es (sync_failAt hs k hp)
  refine ⟨?_, (save_persists _ h1).1⟩
  unfold attempt
  rw [faultAt_none_of_sync h1 hnb]

/-- **… followed by any retry sequence**: the same for a whole history of edits and failed in-place saves between two
completed saves — as long as each failure is a harmless one (`Harmless`: safe prefix at each failed save, evaluated in
the world that save started from), a save that finally runs through makes memory = disk. -/
theorem retry_after_harmless_history (w : World) (hs : Sync w) (evs : List Event) (hh : Harmless w evs)
    (hnb : NoBad (events w evs).font) :
    attempt .inPlace (events w evs) = (save .inPlace (events w evs), true) ∧ Persisted (save .inPlace (events w evs)) := by
  have h1 : Sync (events w evs) := sync_events evs hs hh
  refine ⟨?_, (save_persists _ h1).1⟩
  unfold attempt
  rw [faultAt_none_of_sync h1 hnb]

/-- a history with two failed saves: glyph 1 unwritable (the save stops at step 2), the user repairs glyph 1 but spoils the
layer info (the next save stops at step 5, after the listing), repairs that: the third save persists everything -/
example : Harmless wEditedB [.failedSave 2, .edit (.setGlyph 1 66), .edit (.spoilLayerInfo 3), .failedSave 5,
    .edit (.setLayerInfo 4)] := by
  simp only [Harmless, edit]
  decide
example : faultAt .inPlace wEditedB (plan wEditedB.font .inPlace) = some 2 ∧
    faultAt .inPlace (events wEditedB [.failedSave 2, .edit (.setGlyph 1 66), .edit (.spoilLayerInfo 3)])
      (plan (events wEditedB [.failedSave 2, .edit (.setGlyph 1 66), .edit (.spoilLayerInfo 3)]).font .inPlace) = some 5 := by
  decide
example : reopen (save .inPlace (events wEditedB [.failedSave 2, .edit (.setGlyph 1 66), .edit (.spoilLayerInfo 3),
    .failedSave 5, .edit (.setLayerInfo 4)])) 1 = some ([70], [(2, 88), (1, 66)]) := by decide

/-- Full statement (content faults): whenever a save stops at a content fault and the user then edits the font until
nothing unwritable is left, the next save to the font's path runs through and makes memory = disk. -/
def RetryAfterContentFaultPersists : Prop :=
  ∀ (m : Mode) (w : World) (k : Nat), Sync w → faultAt m w (plan w.font m) = some k →
    ∀ es : List Edit, NoBad (edits (failAt m w k) es).font →
      (attempt .inPlace (edits (failAt m w k) es)).2 = true ∧
      Persisted (attempt .inPlace (edits (failAt m w k) es)).1

/-- **The part of it the code satisfies**: an IN-PLACE save that stops at a content fault — a component, a glyph or the
layer info that cannot be written — when every glyph file written before the faulty step belonged to a glyph that
`contents.plist` already listed (`writtenBeforeListed`: no NEW or renamed glyph sorts before the faulty one; nothing to
check when the faulty object is a component) — or the listing itself was written before it (the faulty object is the
layer info).  Then the pending deletions are still recorded (`failed_layer_save_keeps_schedule`), and after any edits that
leave nothing unwritable the next save runs through, performs them and ends with memory = disk. -/
theorem retry_after_content_fault_persists_partial (w : World) (hs : Sync w) (k : Nat)
    (hf : faultAt .inPlace w (plan w.font .inPlace) = some k)
    (hl : writtenBeforeListed w k = true ∨ Step.writeContents ∈ (plan w.font .inPlace).take k) (es : List Edit)
    (hnb : NoBad (edits (failAt .inPlace w k) es).font) :
    (attempt .inPlace (edits (failAt .inPlace w k) es)).2 = true ∧
    Persisted (attempt .inPlace (edits (failAt .inPlace w k) es)).1 := by
  have hp : SafePrefix (own w) ((plan w.font .inPlace).take k) := by
    rcases hl with hl | hl
    · have hl' : ∀ g, Step.writeGlyph g ∈ (plan w.font .inPlace).take k → g ∈ (own w).listing := by
        intro g hg
        have := List.all_eq_true.mp hl _ hg
        simpa [listedIfGlyph] using this
      exact safePrefix_of_fault k hf hl'
    · exact Or.inr hl
  obtain ⟨a, b⟩ := retry_after_safe_failure w hs k hp es hnb
  rw [a]
  exact ⟨rfl, b⟩

/-- `wEditedB`: the same edits without the new glyph: no glyph file is written before the faulty one (glyph 1 is the
first dirty glyph in order); the save fails at glyph 1, glyph 1 is corrected, the retry removes file 3 and persists
everything -/
example : faultAt .inPlace wEditedB (plan wEditedB.font .inPlace) = some 2 ∧ writtenBeforeListed wEditedB 2 = true := by decide
/-- … and in the history WITH the new glyph the hypothesis is what fails (glyph 0 is written first and not listed) -/
example : writtenBeforeListed wEdited 3 = false ∧ Step.writeContents ∉ (plan wEdited.font .inPlace).take 3 := by decide
example : NoBad (edits (failAt .inPlace wEditedB 2) [.setGlyph 1 66]).font := by unfold NoBad; decide
example : reopen (attempt .inPlace (edits (failAt .inPlace wEditedB 2) [.setGlyph 1 66])).1 1 =
    some ([70], [(2, 88), (1, 66)]) := by decide
/-- non-vacuity of `retry_after_safe_failure` at a layer-info content fault (the listing is written by then) -/
example : SafePrefix (own (edits wEditedB [.setGlyph 1 6, .spoilLayerInfo 3]))
    ((plan (edits wEditedB [.setGlyph 1 6, .spoilLayerInfo 3]).font .inPlace).take 6) ∧
    faultAt .inPlace (edits wEditedB [.setGlyph 1 6, .spoilLayerInfo 3])
      (plan (edits wEditedB [.setGlyph 1 6, .spoilLayerInfo 3]).font .inPlace) = some 6 := by decide

/-- F19 with a REAL fault, in place: the new glyph 0 sorts before the unwritable glyph 1; its file is written and its
flag cleared, the save stops at glyph 1 before the listing; glyph 1 is corrected, the retry succeeds — and does not
list glyph 0: re-opening does not show it. -/
theorem retry_after_content_fault_violated_in_place :
    (attempt .inPlace (edits (failAt .inPlace wEdited 3) [.setGlyph 1 66])).2 = true ∧
    diskGlyph (own (attempt .inPlace (edits (failAt .inPlace wEdited 3) [.setGlyph 1 66])).1) 0 = none ∧
    memGlyph (attempt .inPlace (edits (failAt .inPlace wEdited 3) [.setGlyph 1 66])).1.font 0 = some 4 := by decide

/-- … though the deletion of glyph 3 is not lost (`failed_layer_save_keeps_schedule`): the retry removes it -/
example : diskGlyph (own (attempt .inPlace (edits (failAt .inPlace wEdited 3) [.setGlyph 1 66])).1) 3 = none ∧
    fileOf (own (attempt .inPlace (edits (failAt .inPlace wEdited 3) [.setGlyph 1 66])).1) 3 = none := by decide

/-- F19 with a real fault, save-as: the save-as to a new path stops at glyph 1 after the component and glyph 0 were
written THERE and their flags cleared; the retry to the font's own path writes neither. -/
theorem retry_after_content_fault_violated_save_as :
    (attempt .inPlace (edits (failAt (.saveAsNew 2) wEdited 3) [.setGlyph 1 66])).2 = true ∧
    (own (attempt .inPlace (edits (failAt (.saveAsNew 2) wEdited 3) [.setGlyph 1 66])).1).comps = [7] ∧
    (attempt .inPlace (edits (failAt (.saveAsNew 2) wEdited 3) [.setGlyph 1 66])).1.font.comps = [70] := by decide

theorem retry_after_content_fault_violated : ¬ RetryAfterContentFaultPersists := by
  intro h
  have h1 := (h .inPlace wEdited 3 sync_wEdited (by decide) [.setGlyph 1 66] (by unfold NoBad; decide)).2.2.1 0
  rw [retry_after_content_fault_violated_in_place.2.1, retry_after_content_fault_violated_in_place.2.2] at h1
  cases h1

end DefconModel.Props.C18
