/-
C18 — A failed save does no harm and loses nothing.

Theorems about M-SaveSteps (`DefconModel/SaveSteps.lean`): `Font.save` as a list of atomic steps
with a failure injected after any prefix.  `failAt m w k` runs the first `k` steps of the save's
plan and then the `finally` clause.
-/
import DefconModel.SaveSteps

namespace DefconModel.Props.C18
open DefconModel DefconModel.SaveSteps

/-! ### identity kept, nothing temporary left -/

theorem exec_identity (m : Mode) (w : World) (s : Step) :
    (exec m w s).font.path = w.font.path ∧ (exec m w s).font.format = w.font.format ∧
    (exec m w s).font.dirty = w.font.dirty ∧ (exec m w s).font.comps = w.font.comps ∧
    (exec m w s).font.glyphs = w.font.glyphs := by
  cases s <;> simp only [exec] <;> try (cases target m <;> simp [putTarget])
  · cases w.temp <;> simp

theorem runSteps_identity (m : Mode) (w : World) (steps : List Step) :
    (runSteps m w steps).font.path = w.font.path ∧ (runSteps m w steps).font.format = w.font.format ∧
    (runSteps m w steps).font.dirty = w.font.dirty ∧ (runSteps m w steps).font.comps = w.font.comps ∧
    (runSteps m w steps).font.glyphs = w.font.glyphs := by
  unfold runSteps
  induction steps generalizing w with
  | nil => simp
  | cons s rest ih =>
    simp only [List.foldl_cons]
    obtain ⟨a, b, c, d, e⟩ := exec_identity m w s
    obtain ⟨a', b', c', d', e'⟩ := ih (exec m w s)
    exact ⟨a'.trans a, b'.trans b, c'.trans c, d'.trans d, e'.trans e⟩

/-- Whatever step fails, in whatever mode: the font keeps its path and format, still reports
the dirty state it had (so it is still dirty if anything was pending), and its in-memory content
is untouched. -/
theorem identity_kept (m : Mode) (w : World) (k : Nat) :
    (failAt m w k).font.path = w.font.path ∧ (failAt m w k).font.format = w.font.format ∧
    (failAt m w k).font.dirty = w.font.dirty ∧ (failAt m w k).font.comps = w.font.comps ∧
    (failAt m w k).font.glyphs = w.font.glyphs := by
  unfold failAt cleanup
  exact runSteps_identity m w _

/-- … and no temporary directory is left behind, after a failure at any step and after success. -/
theorem no_temp_left (m : Mode) (w : World) (k : Nat) : (failAt m w k).temp = none ∧ (save m w).temp = none := by
  unfold failAt save finalize cleanup; simp

/-! ### an existing destination at another path -/

/-- steps that write into the temporary UFO leave every UFO on disk alone -/
theorem exec_temp_disk (p : Nat) (w : World) (s : Step) (hs : s ≠ .removeDest p ∧ s ≠ .moveTemp p)
    (hs2 : ∀ q, s = .removeDest q ∨ s = .moveTemp q → q = p) : (exec (.saveAsOver p) w s).disk = w.disk := by
  cases s with
  | mkTemp => rfl
  | writeComp i => simp [exec, target, putTarget]
  | openGlyphSet => rfl
  | writeGlyph g => simp [exec, target, putTarget]
  | writeContents => simp [exec, target, putTarget]
  | removeDest q => have := hs2 q (Or.inl rfl); subst this; exact absurd rfl hs.1
  | moveTemp q => have := hs2 q (Or.inr rfl); subst this; exact absurd rfl hs.2

theorem runSteps_temp_disk (p : Nat) (w : World) (steps : List Step)
    (h : ∀ s ∈ steps, s ≠ .removeDest p ∧ s ≠ .moveTemp p)
    (h2 : ∀ s ∈ steps, ∀ q, s = .removeDest q ∨ s = .moveTemp q → q = p) :
    (runSteps (.saveAsOver p) w steps).disk = w.disk := by
  unfold runSteps
  induction steps generalizing w with
  | nil => rfl
  | cons s rest ih =>
    simp only [List.foldl_cons]
    rw [ih _ (fun x hx => h x (by simp [hx])) (fun x hx => h2 x (by simp [hx]))]
    exact exec_temp_disk p w s (h s (by simp)) (h2 s (by simp))

/-- the plan of an overwriting save-as ends with "remove destination, move temp in"; everything
before writes only into the temporary UFO -/
theorem plan_over_prefix (f : Font) (p : Nat) :
    ∃ pre, plan f (.saveAsOver p) = pre ++ [.removeDest p, .moveTemp p] ∧
      (∀ s ∈ pre, s ≠ .removeDest p ∧ s ≠ .moveTemp p) ∧
      (∀ s ∈ pre, ∀ q, s = .removeDest q ∨ s = .moveTemp q → q = p) := by
  refine ⟨[Step.mkTemp] ++
      ((List.range f.comps.length).filter (fun i => isSaveAs (.saveAsOver p) || f.compDirty.getD i false)).map Step.writeComp ++
      [Step.openGlyphSet] ++
      ((f.glyphs.map Prod.fst).filter (fun g => isSaveAs (.saveAsOver p) || g ∈ f.glyphDirty)).map Step.writeGlyph ++
      [Step.writeContents], by unfold plan; simp only [List.append_assoc], ?_, ?_⟩
  · intro s hs
    simp only [List.mem_append, List.mem_cons, List.mem_map, List.mem_singleton, List.not_mem_nil, or_false] at hs
    rcases hs with (((rfl | ⟨i, _, rfl⟩) | rfl) | ⟨g, _, rfl⟩) | rfl <;> simp
  · intro s hs q hq
    simp only [List.mem_append, List.mem_cons, List.mem_map, List.mem_singleton, List.not_mem_nil, or_false] at hs
    rcases hs with (((rfl | ⟨i, _, rfl⟩) | rfl) | ⟨g, _, rfl⟩) | rfl <;> simp at hq

/-- Full statement: a destination at another path is untouched by a failure at ANY step. -/
def OtherDestinationUntouched : Prop :=
  ∀ (w : World) (p k : Nat), p ≠ w.font.path → k < (plan w.font (.saveAsOver p)).length →
    lookup (failAt (.saveAsOver p) w k).disk p = lookup w.disk p

/-- It holds for every failure before the final replace (every write, close, …): the whole disk
is exactly as it was. -/
theorem other_destination_untouched_partial (w : World) (p k : Nat)
    (hk : k + 2 ≤ (plan w.font (.saveAsOver p)).length) :
    (failAt (.saveAsOver p) w k).disk = w.disk := by
  obtain ⟨pre, hplan, h1, h2⟩ := plan_over_prefix w.font p
  unfold failAt cleanup
  simp only
  have hlen : k ≤ pre.length := by
    rw [hplan] at hk; simp at hk; omega
  have htake : (plan w.font (.saveAsOver p)).take k = pre.take k := by
    rw [hplan, List.take_append_of_le_length hlen]
  rw [htake]
  exact runSteps_temp_disk p w _ (fun s hs => h1 s (List.mem_of_mem_take hs)) (fun s hs => h2 s (List.mem_of_mem_take hs))

/-- … and fails in the window between "destination removed" and "temporary UFO moved in"
(finding F20). -/
def w20 : World :=
  { font := { comps := [7], compDirty := [true], glyphs := [], glyphDirty := [], path := 1, format := 3, dirty := true },
    disk := [(1, { comps := [5] }), (2, { comps := [9] })] }

theorem other_destination_violated : ¬ OtherDestinationUntouched := by
  intro h
  have := h w20 2 5 (by decide) (by decide)
  revert this
  decide

/-! ### retry after a failure -/

/-- Full statement: after a failure at any step, a successful in-place retry makes the font's UFO
show what memory holds. -/
def RetryPersists : Prop :=
  ∀ (m : Mode) (w : World) (k : Nat), k < (plan w.font m).length →
    let w1 := failAt m w k
    reopen (save .inPlace w1) w1.font.path = some (w1.font.comps, w1.font.glyphs)

/-- a font opened from UFO 1 with one changed component and one new glyph -/
def w19 : World :=
  { font := { comps := [7, 3], compDirty := [true, false], glyphs := [(0, 4), (1, 6)], glyphDirty := [1],
              path := 1, format := 3, dirty := true },
    disk := [(1, { comps := [5, 3], files := [(0, 4)], listing := [0] })] }

/-- without a failure the save persists everything (non-vacuity of the statement) -/
example : reopen (save .inPlace w19) 1 = some ([7, 3], [(1, 6), (0, 4)]) := by decide

/-- F19, in place: the failure hits after the new glyph's file was written (and its dirty flag
cleared) but before contents.plist: the retry does not list the glyph. -/
theorem retry_violated_in_place :
    reopen (save .inPlace (failAt .inPlace w19 3)) 1 ≠ some ([7, 3], [(1, 6), (0, 4)]) := by decide

/-- F19, save-as: the failed save-as cleared the flags while writing elsewhere; the retry to the
font's own path writes nothing. -/
theorem retry_violated_save_as :
    reopen (save .inPlace (failAt (.saveAsNew 2) w19 2)) 1 ≠ some ([7, 3], [(1, 6), (0, 4)]) := by decide

theorem retry_violated : ¬ RetryPersists := by
  intro h
  have := h .inPlace w19 3 (by decide)
  revert this
  decide

/-- What does hold: a failure before the first write leaves the world exactly as it was (so the
retry is an ordinary save). -/
theorem retry_persists_partial (m : Mode) (w : World) (h : w.temp = none) (hg : w.gsContents = []) :
    failAt m w 0 = w := by
  unfold failAt cleanup runSteps
  cases w with
  | mk f d t g => simp at h hg; subst h; subst hg; simp

end DefconModel.Props.C18
