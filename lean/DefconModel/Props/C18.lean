/-
C18 — A failed save does no harm and loses nothing.

Theorems about M-SaveSteps (`DefconModel/SaveSteps.lean`): `Font.save` as a list of atomic steps
with a failure injected after any prefix.  `failAt m w k` runs the first `k` steps of the save's
plan and then the `finally` clause.
-/
import DefconModel.Lemmas.SaveSteps
import DefconModel.Lemmas.SaveStepsRetry

namespace DefconModel.Props.C18
open DefconModel DefconModel.SaveSteps

/-! ### identity kept, nothing temporary left -/

theorem exec_identity (m : Mode) (w : World) (s : Step) :
    (exec m w s).font.path = w.font.path ∧ (exec m w s).font.format = w.font.format ∧
    (exec m w s).font.dirty = w.font.dirty ∧ (exec m w s).font.comps = w.font.comps ∧
    (exec m w s).font.glyphs = w.font.glyphs := by
  cases s <;> simp only [exec] <;> try (cases target m <;> simp [putTarget])
  · cases w.temp <;> simp

theorem runSteps_identity (m : Mode) (w : World) (steps : List Step) :
    (runSteps m w steps).font.path = w.font.path ∧ (runSteps m w steps).font.format = w.font.format ∧
    (runSteps m w steps).font.dirty = w.font.dirty ∧ (runSteps m w steps).font.comps = w.font.comps ∧
    (runSteps m w steps).font.glyphs = w.font.glyphs := by
  unfold runSteps
  induction steps generalizing w with
  | nil => simp
  | cons s rest ih =>
    simp only [List.foldl_cons]
    obtain ⟨a, b, c, d, e⟩ := exec_identity m w s
    obtain ⟨a', b', c', d', e'⟩ := ih (exec m w s)
    exact ⟨a'.trans a, b'.trans b, c'.trans c, d'.trans d, e'.trans e⟩

theorem recover_font (m : Mode) (w : World) : (recover m w).font = w.font := by
  unfold recover
  split <;> rfl

/-- Whatever step fails, in whatever mode: the font keeps its path and format, still reports
the dirty state it had (so it is still dirty if anything was pending), and its in-memory content
is untouched. -/
theorem identity_kept (m : Mode) (w : World) (k : Nat) :
    (failAt m w k).font.path = w.font.path ∧ (failAt m w k).font.format = w.font.format ∧
    (failAt m w k).font.dirty = w.font.dirty ∧ (failAt m w k).font.comps = w.font.comps ∧
    (failAt m w k).font.glyphs = w.font.glyphs := by
  unfold failAt cleanup
  simp only [recover_font]
  exact runSteps_identity m w _

/-- … and no temporary directory is left behind (neither the one the new UFO is written into nor the
one the old destination is put aside in), after a failure at any step and after success. -/
theorem no_temp_left (m : Mode) (w : World) (k : Nat) :
    (failAt m w k).temp = none ∧ (failAt m w k).aside = none ∧ (save m w).temp = none ∧ (save m w).aside = none := by
  unfold failAt save finalize cleanup; simp

/-! ### an existing destination -/

/-- steps that write into the temporary UFO leave every UFO on disk, and the (empty) aside place, alone -/
theorem exec_temp_disk (p : Nat) (w : World) (s : Step)
    (hs : s ≠ .moveAside p ∧ s ≠ .moveTemp p ∧ s ≠ .dropAside)
    (hs2 : ∀ q, s = .moveAside q ∨ s = .moveTemp q → q = p) :
    (exec (.saveAsOver p) w s).disk = w.disk ∧ (exec (.saveAsOver p) w s).aside = w.aside := by
  cases s with
  | mkTemp => exact ⟨rfl, rfl⟩
  | writeComp i => simp [exec, target, putTarget]
  | openGlyphSet => exact ⟨rfl, rfl⟩
  | writeGlyph g => simp [exec, target, putTarget]
  | writeContents => simp [exec, target, putTarget]
  | moveAside q => have := hs2 q (Or.inl rfl); subst this; exact absurd rfl hs.1
  | moveTemp q => have := hs2 q (Or.inr rfl); subst this; exact absurd rfl hs.2.1
  | dropAside => exact absurd rfl hs.2.2

theorem runSteps_temp_disk (p : Nat) (w : World) (steps : List Step)
    (h : ∀ s ∈ steps, s ≠ .moveAside p ∧ s ≠ .moveTemp p ∧ s ≠ .dropAside)
    (h2 : ∀ s ∈ steps, ∀ q, s = .moveAside q ∨ s = .moveTemp q → q = p) :
    (runSteps (.saveAsOver p) w steps).disk = w.disk ∧ (runSteps (.saveAsOver p) w steps).aside = w.aside := by
  unfold runSteps
  induction steps generalizing w with
  | nil => exact ⟨rfl, rfl⟩
  | cons s rest ih =>
    simp only [List.foldl_cons]
    obtain ⟨a, b⟩ := ih (exec (.saveAsOver p) w s) (fun x hx => h x (by simp [hx])) (fun x hx => h2 x (by simp [hx]))
    obtain ⟨c, d⟩ := exec_temp_disk p w s (h s (by simp)) (h2 s (by simp))
    exact ⟨a.trans c, b.trans d⟩

/-- the plan of an overwriting save-as ends with "put the destination aside, move the temporary UFO in,
drop what was put aside"; everything before writes only into the temporary UFO -/
theorem plan_over_prefix (f : Font) (p : Nat) :
    ∃ pre, plan f (.saveAsOver p) = pre ++ [.moveAside p, .moveTemp p, .dropAside] ∧
      (∀ s ∈ pre, s ≠ .moveAside p ∧ s ≠ .moveTemp p ∧ s ≠ .dropAside) ∧
      (∀ s ∈ pre, ∀ q, s = .moveAside q ∨ s = .moveTemp q → q = p) := by
  refine ⟨[Step.mkTemp] ++
      ((List.range f.comps.length).filter (fun i => isSaveAs (.saveAsOver p) || f.compDirty.getD i false)).map Step.writeComp ++
      [Step.openGlyphSet] ++
      ((f.glyphs.map Prod.fst).filter (fun g => isSaveAs (.saveAsOver p) || g ∈ f.glyphDirty)).map Step.writeGlyph ++
      [Step.writeContents], by unfold plan; simp only [List.append_assoc], ?_, ?_⟩
  · intro s hs
    simp only [List.mem_append, List.mem_cons, List.mem_map, List.mem_singleton, List.not_mem_nil, or_false] at hs
    rcases hs with (((rfl | ⟨i, _, rfl⟩) | rfl) | ⟨g, _, rfl⟩) | rfl <;> simp
  · intro s hs q hq
    simp only [List.mem_append, List.mem_cons, List.mem_map, List.mem_singleton, List.not_mem_nil, or_false] at hs
    rcases hs with (((rfl | ⟨i, _, rfl⟩) | rfl) | ⟨g, _, rfl⟩) | rfl <;> simp at hq

/-- every failure before the final replace (every write, close, …) leaves the whole disk exactly as it was -/
theorem destination_untouched_before_replace (w : World) (p k : Nat) (ha : w.aside = none)
    (hk : k + 3 ≤ (plan w.font (.saveAsOver p)).length) :
    (failAt (.saveAsOver p) w k).disk = w.disk := by
  obtain ⟨pre, hplan, h1, h2⟩ := plan_over_prefix w.font p
  have hlen : k ≤ pre.length := by
    rw [hplan] at hk; simp at hk; omega
  have htake : (plan w.font (.saveAsOver p)).take k = pre.take k := by
    rw [hplan, List.take_append_of_le_length hlen]
  obtain ⟨hd, has⟩ := runSteps_temp_disk p w (pre.take k) (fun s hs => h1 s (List.mem_of_mem_take hs))
    (fun s hs => h2 s (List.mem_of_mem_take hs))
  unfold failAt cleanup
  simp only [htake]
  unfold recover
  rw [has, ha]
  exact hd

/-- **A destination is untouched by a failure at ANY step that can fail** (every step but the last one,
dropping what was put aside, which ignores errors): every UFO on disk reads as before — the one at the
destination too, because a destination that was put aside is put back when the new UFO cannot be moved in.
(The window between "destination removed" and "temporary UFO moved in" was finding F20; repaired in /repo.) -/
theorem destination_untouched (w : World) (p k q : Nat) (ha : w.aside = none)
    (hk : k + 1 < (plan w.font (.saveAsOver p)).length) :
    lookup (failAt (.saveAsOver p) w k).disk q = lookup w.disk q := by
  obtain ⟨pre, hplan, h1, h2⟩ := plan_over_prefix w.font p
  have hlen : k ≤ pre.length + 1 := by
    rw [hplan] at hk; simp at hk; omega
  by_cases hk1 : k ≤ pre.length
  · rw [destination_untouched_before_replace w p k ha (by rw [hplan]; simp; omega)]
  · have hke : k = pre.length + 1 := by omega
    have htake : (plan w.font (.saveAsOver p)).take k = pre ++ [.moveAside p] := by
      rw [hplan, hke, List.take_append]
      simp [List.take_of_length_le]
    obtain ⟨hd, has⟩ := runSteps_temp_disk p w pre h1 h2
    unfold failAt cleanup
    simp only [htake]
    have hrun : runSteps (.saveAsOver p) w (pre ++ [.moveAside p]) =
        exec (.saveAsOver p) (runSteps (.saveAsOver p) w pre) (.moveAside p) := by
      unfold runSteps; simp [List.foldl_append]
    rw [hrun]
    simp only [exec, recover, hd]
    cases hl : lookup w.disk p with
    | none => simp only; exact lookup_remove_of_none w.disk p q hl
    | some u =>
      simp only
      by_cases hq : q = p
      · subst hq; rw [lookup_store_self, hl]
      · rw [lookup_store_ne _ _ _ _ hq, lookup_remove_ne _ _ _ hq]

/-- the statement as the property puts it -/
def DestinationUntouched : Prop :=
  ∀ (w : World) (p k : Nat), w.aside = none → k + 1 < (plan w.font (.saveAsOver p)).length →
    ∀ q, lookup (failAt (.saveAsOver p) w k).disk q = lookup w.disk q

theorem destination_untouched_all : DestinationUntouched := fun w p k ha hk q => destination_untouched w p k q ha hk

/-- the former F20 witness: an overwriting save-as of a font at path 1 onto the UFO at path 2 -/
def w20 : World :=
  { font := { comps := [7], compDirty := [true], glyphs := [], glyphDirty := [], path := 1, format := 3, dirty := true },
    disk := [(1, { comps := [5] }), (2, { comps := [9] })] }

/-- its plan has seven steps; a failure at any of the six that can fail leaves path 2 as it was
(before the repair the failure between removing and moving in, k = 5, lost it) … -/
example : (plan w20.font (.saveAsOver 2)).length = 7 := by decide
example : ∀ k, k < 6 → lookup (failAt (.saveAsOver 2) w20 k).disk 2 = some { comps := [9] } := by decide
/-- … and the completed save installs the new UFO there -/
example : lookup (save (.saveAsOver 2) w20).disk 2 = some { comps := [7] } := by decide

/-! ### retry after a failure -/

/-- Full statement: after a failure at any step, a successful in-place retry makes the font's UFO
show what memory holds. -/
def RetryPersists : Prop :=
  ∀ (m : Mode) (w : World) (k : Nat), k < (plan w.font m).length →
    let w1 := failAt m w k
    reopen (save .inPlace w1) w1.font.path = some (w1.font.comps, w1.font.glyphs)

/-- a font opened from UFO 1 with one changed component and one new glyph -/
def w19 : World :=
  { font := { comps := [7, 3], compDirty := [true, false], glyphs := [(0, 4), (1, 6)], glyphDirty := [1],
              path := 1, format := 3, dirty := true },
    disk := [(1, { comps := [5, 3], files := [(0, 4)], listing := [0] })] }

/-- without a failure the save persists everything (non-vacuity of the statement) -/
example : reopen (save .inPlace w19) 1 = some ([7, 3], [(1, 6), (0, 4)]) := by decide

/-- F19, in place: the failure hits after the new glyph's file was written (and its dirty flag
cleared) but before contents.plist: the retry does not list the glyph. -/
theorem retry_violated_in_place :
    reopen (save .inPlace (failAt .inPlace w19 3)) 1 ≠ some ([7, 3], [(1, 6), (0, 4)]) := by decide

/-- F19, save-as: the failed save-as cleared the flags while writing elsewhere; the retry to the
font's own path writes nothing. -/
theorem retry_violated_save_as :
    reopen (save .inPlace (failAt (.saveAsNew 2) w19 2)) 1 ≠ some ([7, 3], [(1, 6), (0, 4)]) := by decide

theorem retry_violated : ¬ RetryPersists := by
  intro h
  have := h .inPlace w19 3 (by decide)
  revert this
  decide

/-- What does hold: a failure before the first write leaves the world exactly as it was (so the
retry is an ordinary save). -/
theorem retry_persists_partial (m : Mode) (w : World) (h : w.temp = none) (ha : w.aside = none)
    (hg : w.gsContents = []) : failAt m w 0 = w := by
  unfold failAt cleanup runSteps recover
  cases w with
  | mk f d t a g =>
    simp only at h ha hg; subst h; subst ha; subst hg
    cases m <;> simp

/-- **A failure while the components are being written in place is harmless.**  Components (info, groups, kerning,
lib, features, …) go straight into the font's own UFO and each flag is cleared only after its write: whichever of
these writes fails (or the opening of the glyph set right after them), the retry writes exactly what the failed
attempt had not written yet, and the world after the retry is the world an undisturbed save produces — every
file, every flag.  (F19 begins after this point: a glyph file written and its flag cleared before the listing.) -/
theorem retry_after_component_failure (w : World) (k : Nat) (ht : w.temp = none) (ha : w.aside = none)
    (hg : w.gsContents = []) (hk : k ≤ (dirtyComps w.font).length) :
    save .inPlace (failAt .inPlace w k) = save .inPlace w := by
  have htake : (plan w.font .inPlace).take k = ((dirtyComps w.font).take k).map Step.writeComp := by
    rw [plan_inPlace, List.take_append_of_le_length (by simpa using hk), List.map_take]
  obtain ⟨hf, h1, h2, h3⟩ := runSteps_writeComps w ((dirtyComps w.font).take k)
  have hw1 : failAt .inPlace w k = runSteps .inPlace w (((dirtyComps w.font).take k).map Step.writeComp) := by
    unfold failAt
    rw [htake, recover_inPlace]
    exact cleanup_eq _ (h1.trans ht) (h2.trans ha) (h3.trans hg)
  have hplan1 : plan (failAt .inPlace w k).font .inPlace =
      ((dirtyComps w.font).drop k).map Step.writeComp ++ glyphPhase w.font := by
    rw [hw1, hf, plan_inPlace, dirtyComps_after]
    rfl
  have hsplit : plan w.font .inPlace = ((dirtyComps w.font).take k).map Step.writeComp ++
      (((dirtyComps w.font).drop k).map Step.writeComp ++ glyphPhase w.font) := by
    rw [plan_inPlace, ← List.append_assoc, ← List.map_append, List.take_append_drop]
  have hrun : runSteps .inPlace w (plan w.font .inPlace) =
      runSteps .inPlace (failAt .inPlace w k) (((dirtyComps w.font).drop k).map Step.writeComp ++ glyphPhase w.font) := by
    rw [hsplit, runSteps_append, ← hw1]
  unfold save
  rw [hplan1, hrun]

/-- the statement applies to the F19 witness font: a failure at its only component write (k = 0, 1) is repaired by
the retry, the failure after the glyph write (k = 3, `retry_violated_in_place`) is not -/
example : (dirtyComps w19.font).length = 1 := by decide
example : reopen (save .inPlace (failAt .inPlace w19 1)) 1 = some ([7, 3], [(1, 6), (0, 4)]) := by decide

end DefconModel.Props.C18
