import DefconModel.Lemmas.Parts
namespace DefconModel.Props.C18
theorem placeholder : True := trivial
end DefconModel.Props.C18
