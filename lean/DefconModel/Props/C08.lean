/-
C08 — Notification payloads and Will/Did ordering tell the truth.

Theorems about M-Setters (`DefconModel/Setters.lean`, catalogue `SettersCatalogue.lean`) and about the
tables `Gen/NotifNames.lean`, which are REGENERATED from the defcon sources on every run.

* Sentence 1 (`PayloadTruth`) and sentence 2 (`WillDid`) are stated per catalogue entry for EVERY store
  the object can be in and EVERY argument; they are derived from two decidable syntactic criteria that
  are proved sound once, for all programs of the DSL (`payload_criterion_sound`,
  `will_did_criterion_sound`), and then evaluated over the whole catalogue by `decide`.
* The catalogue is tied to the sources by `catalogue_follows_source` (`decide` over the regenerated
  statement-order skeletons) and by the correspondence runs of harness/props/c08.py.
* Sentence 3 is `documented_posted` (`decide` over the regenerated name tables) and, for the notification a
  component posts because ANOTHER object changed (`Component.BaseGlyphDataChanged`), section 5:
  `base_glyph_data_changed_posted` about M-Follow (`DefconModel/Follow.lean`), for every history.
* WHICH getter a notification's old/new values talk about is data of the model (`NotifGetters.lean`), tied to the
  sources (`getter_keys_follow_source`, `payload_sites_have_getters`) and to the catalogue
  (`catalogue_reads_table_getters`): section 0.
* Section 6: three places where "the getter" is a computation of its own — the life cycle of a file name in an
  image set (`image_lifecycle_announcements`), the glyph order the font keeps in step with its layers
  (`glyph_order_change_announced`), the direction of a contour without area (`winding_payload_truth`).
* Where the code violates a sentence the full statement is kept as a `def … : Prop`, the proved part
  is `…_partial` and each recorded finding has a `…_violated` witness.
-/
import DefconModel.Lemmas.Setters
import DefconModel.Lemmas.SettersArith
import DefconModel.Lemmas.Follow
import DefconModel.Lemmas.SettersImages
import DefconModel.Lemmas.OrderNotify
import DefconModel.Lemmas.SettersWinding
import DefconModel.Gen.NotifNames

namespace DefconModel.Props.C08
open DefconModel DefconModel.Setters

/-- the tables extracted from the code that exists -/
abbrev T : Tables := Gen.NotifNames.tables

/-! ## 0. The catalogue transcribes the methods that exist -/

/-- Every catalogue entry has the statement order of the Python method it transcribes: the same posts
(same names, same provenance of the old/new payload: parameter / read before the first state change /
read after it / read in the post itself), hold and release brackets, loops and state changes, in the
same order, as the skeleton extracted from the sources on this run. -/
theorem catalogue_follows_source : ∀ e ∈ catalogue, followsSource T e = true := by decide +kernel

/-- getter_keys_follow_source.  Every `self.postNotification(...)` of Lib/defcon/objects (table regenerated from the
AST on this run) whose notification has a row in the getter table hands over a dict with exactly that row's old-value
key and new-value key (no other old/new value key) and the key that names the item the getter is applied to; a
statement that forwards somebody else's data instead is one of the recorded sites (F44). -/
theorem getter_keys_follow_source : ∀ s ∈ T.sites, siteOk T s = true := by decide +kernel

/-- payload_sites_have_getters.  Conversely no row is dead (every notification of the getter table is posted by
some statement of the sources) and — part of `siteOk` — every statement that hands over an old or new value posts a
notification of the table, or one of the three listed as outside it (`outsideTable`). -/
theorem payload_sites_have_getters : ∀ g ∈ getters, getterPosted T g = true := by decide +kernel

/-- catalogue_reads_table_getters.  Every catalogue statement that posts old/new values judges them against the
getter the table names for that notification (`PayloadTruth` and `WillDid` speak about `ev.obs`: it is the table's
getter); the two forwarding callbacks of Layer are judged with the glyph whose payload they forward. -/
theorem catalogue_reads_table_getters : ∀ e ∈ catalogue, entryGetterOk e = true := by decide +kernel

/-- the Will/Did pairs of `Spec/Setters.lean` and the subject keys of the getter table list the same wills -/
theorem will_table_agrees : willTableOk = true := by decide

/-- the table says `Layer.NameChanged` talks about `layer.name` under the keys oldName / newName, and the sources
post it that way -/
example : (getterOf "Layer.NameChanged").map (fun g => (g.oldKey, g.newKey, g.attr)) = some ("oldName", "newName", "name") ∧
    (⟨"Layer", "_set_name", .lit "Layer.NameChanged", some ["oldName", "newName"]⟩ : PostSite) ∈ T.sites := by
  decide +kernel
/-- a statement that posted a glyph's width change under other keys would fail the obligation -/
example : siteOk T ⟨"Glyph", "_set_width", .lit "Glyph.WidthChanged", some ["oldValue", "newWidth"]⟩ = false ∧
    siteOk T ⟨"Glyph", "_set_width", .lit "Glyph.WidthChanged", some ["oldValue", "newValue", "oldName"]⟩ = false ∧
    siteOk T ⟨"Glyph", "x", .lit "Glyph.Unheard", some ["oldValue", "newValue"]⟩ = false := by decide +kernel

/-! ## 1. Sentence 1 — payloads -/

/-- payload_criterion_sound.  For EVERY program of the DSL: if the payload analysis accepts it (loop-free;
every old value is a variable captured from the notification's own getter before the first state change;
every new value is either read through that getter in the post itself or is the expression the getter's
field was last assigned; no post inside a hold bracket) — or if no post carries old/new values — then
from every store and for every argument every delivery is truthful: old = what the getter returned
before the operation, new = what the getter returns when the observer is called. -/
theorem payload_criterion_sound (e : Entry) (h : payloadOk e = true) : PayloadTruth e :=
  payloadTruth_of_ok e h

/-- entries whose new value is computed by integer arithmetic (margins) or reassembled from six fields
(image transformation): outside the syntactic criterion, proved one by one in section 4
(`margins_payload_truth`, `transformation_payload_truth`) -/
def arithmetic : List String :=
  ["Glyph.leftMargin=", "Glyph.rightMargin=", "Glyph.bottomMargin=", "Glyph.topMargin=", "Image.transformation="]

/-- The criterion accepts every entry of the catalogue except the five arithmetic ones, the two
forwarding callbacks and the recorded finding. -/
theorem catalogue_payload_certified : ∀ e ∈ catalogue,
    payloadOk e = true ∨ e.id ∈ arithmetic ∨ e.id ∈ forwarders ∨ e.id ∈ payloadFindings := by decide +kernel

/-- the full statement of sentence 1 over the catalogue (forwarding callbacks re-post another object's
payload and are judged with that object) -/
def PayloadTruthAll : Prop := ∀ e ∈ catalogue, e.id ∉ forwarders → PayloadTruth e

/-- payload_truth (partial).  Sentence 1 holds, from every store and for every argument, of every catalogue
entry outside the arithmetic ones (section 4) and the recorded finding F44. -/
theorem payload_truth_partial : ∀ e ∈ catalogue,
    e.id ∉ arithmetic → e.id ∉ forwarders → e.id ∉ payloadFindings → PayloadTruth e := by
  intro e he h1 h2 h3
  rcases catalogue_payload_certified e he with h | h | h | h
  · exact payload_criterion_sound e h
  · exact absurd h h1
  · exact absurd h h2
  · exact absurd h h3

/-- F44 witness: an image with its own colour (5) in a layer whose colour changes from 1 to 2 posts
`Image.ColorChanged` with old value 1 while `image.color` returned 5 before (and still does). -/
theorem payload_truth_violated_image_layer_colour : ¬ PayloadTruth imageLayerColorChanged := by
  intro h
  have := h { args := [.int 1, .int 2] } [("color", .int 5)]
    ⟨"Image.ColorChanged", .plain, .none, some (.int 1), some (.int 2), .fld "color", [("color", .int 5)]⟩
    (by decide)
  exact absurd (this.1 (.int 1) rfl) (by decide)

theorem payload_truth_violated : ¬ PayloadTruthAll := fun h =>
  payload_truth_violated_image_layer_colour (h imageLayerColorChanged (by simp [catalogue]) (by decide))

/-- forward_faithful.  The two forwarding callbacks of Layer re-post exactly the old and new value they
were handed (the glyph's payload), whatever the layer's state. -/
theorem forward_faithful (e : Entry) (he : e = layerGlyphNameChange ∨ e = layerGlyphUnicodesChange)
    (σ : Store) (o n : Val) :
    ∀ ev ∈ (runOp e { args := [o, n] } σ).evs, ev.old = some o ∧ ev.new = some n := by
  rcases he with rfl | rfl <;>
  · intro ev hev
    simp [runOp, layerGlyphNameChange, layerGlyphUnicodesChange, run, A, stepStmt, stepA, stepAtom, init, postNote,
      deliver, eval] at hev
    subst hev
    exact ⟨rfl, rfl⟩

/-! ## 2. Sentence 2 — will before did -/

/-- will_did_criterion_sound.  For EVERY program of the DSL: if it posts no will-notification, or if it is
loop-free and of the shape  reads and checks · post Will · statements that neither stop the method nor
bracket holds (a repeated `reject` on an argument already refuted before the will is allowed: it cannot
fire) · post the matching Did · statements that do not change the store  — then from every store
and for every argument: every delivered will is delivered while its getter (for its subject) still returns
what it returned before the operation, and its matching did is delivered later in the same operation at an
instant at which that getter already returns its final value. -/
theorem will_did_criterion_sound (e : Entry) (h : willDidOk e = true) : WillDid e := willDid_of_ok e h

/-- entries with a will-notification that are outside the straight shape without being findings: the
bottom-margin setter creates the vertical origin before its will (proved in section 4,
`bottomMargin_will_before_did`); `ImageSet.__setitem__` posts its will conditionally, after restoring and
dropping a pending deletion: proved in section 6 (`image_lifecycle_announcements`) for every history of an image
set -/
def outsideShape : List String := ["Glyph.bottomMargin=", "ImageSet.__setitem__"]

/-- The criterion accepts every entry of the catalogue except the two above and exactly the call sites
recorded as F23 / F24. -/
theorem catalogue_will_did_certified : ∀ e ∈ catalogue,
    willDidOk e = true ∨ e.id ∈ outsideShape ∨ e.id ∈ heldSites := by decide +kernel

/-- … and none of the recorded call sites passes it (the list is not an over-approximation). -/
theorem held_sites_fail_criterion : ∀ e ∈ catalogue, e.id ∈ heldSites → willDidOk e = false := by decide +kernel

/-- the full statement of sentence 2 over the catalogue -/
def WillDidAll : Prop := ∀ e ∈ catalogue, WillDid e

/-- will_before_did (partial).  Sentence 2 holds, from every store and for every argument, of every catalogue
entry that is not one of the self-holding call sites of F23 / F24 (nor one of the two entries outside the
straight shape). -/
theorem will_before_did_partial : ∀ e ∈ catalogue, e.id ∉ heldSites → e.id ∉ outsideShape → WillDid e := by
  intro e he h1 h2
  rcases catalogue_will_did_certified e he with h | h | h
  · exact will_did_criterion_sound e h
  · exact absurd h h2
  · exact absurd h h1

/-- a run in which some will-notification is delivered when its getter no longer returns what it
returned before the operation -/
def lateWill (e : Entry) (env : Env) (σ : Store) : Bool :=
  (runOp e env σ).evs.any (fun ev => ev.kind = .will ∧ ev.now env ≠ ev.before env σ)

theorem not_willDid_of_lateWill (e : Entry) (env : Env) (σ : Store) (h : lateWill e env σ = true) :
    ¬ WillDid e := by
  intro hw
  simp only [lateWill, List.any_eq_true, decide_eq_true_eq] at h
  obtain ⟨ev, hev, hk, hne⟩ := h
  obtain ⟨pre, post, hsplit⟩ := List.append_of_mem hev
  exact hne (hw env σ pre ev post hsplit hk).1

/-! F23 witnesses, one per call site: objects are numbered; the will for object 1 reaches the observer
when object 1 has already left (or entered) the container. -/

theorem will_before_did_violated_clearContours : ¬ WillDid glyphClearContours :=
  not_willDid_of_lateWill _ {} [("contours", .list [1])] (by decide)
theorem will_before_did_violated_clearComponents : ¬ WillDid glyphClearComponents :=
  not_willDid_of_lateWill _ {} [("components", .list [1])] (by decide)
theorem will_before_did_violated_clearAnchors : ¬ WillDid glyphClearAnchors :=
  not_willDid_of_lateWill _ {} [("anchors", .list [1])] (by decide)
theorem will_before_did_violated_clearGuidelines : ¬ WillDid glyphClearGuidelines :=
  not_willDid_of_lateWill _ {} [("guidelines", .list [1])] (by decide)
theorem will_before_did_violated_clear : ¬ WillDid glyphClear :=
  not_willDid_of_lateWill _ { args := [.int 9] } [("anchors", .list [1]), ("hasImage", .int 1), ("imgState", .int 4)]
    (by decide)
theorem will_before_did_violated_setAnchors : ¬ WillDid glyphSetAnchors :=
  not_willDid_of_lateWill _ { args := [.list [2]] } [("anchors", .list [1])] (by decide)
theorem will_before_did_violated_setGuidelines : ¬ WillDid glyphSetGuidelines :=
  not_willDid_of_lateWill _ { args := [.list [2]] } [("guidelines", .list [1])] (by decide)
theorem will_before_did_violated_decomposeComponent : ¬ WillDid glyphDecomposeComponent :=
  not_willDid_of_lateWill _ { args := [.int 1, .list [5]] } [("components", .list [1]), ("contours", .list [])]
    (by decide)
theorem will_before_did_violated_decomposeAllComponents : ¬ WillDid glyphDecomposeAll :=
  not_willDid_of_lateWill _ {} [("components", .list [1])] (by decide)
theorem will_before_did_violated_copyDataFromGlyph : ¬ WillDid glyphCopyData :=
  not_willDid_of_lateWill _ { args := [.list [], .list [2]] } [("anchors", .list [1]), ("guidelines", .list [])]
    (by decide)
theorem will_before_did_violated_fontClearGuidelines : ¬ WillDid fontClearGuidelines :=
  not_willDid_of_lateWill _ {} [("guidelines", .list [1])] (by decide)
theorem will_before_did_violated_fontSetGuidelines : ¬ WillDid fontSetGuidelines :=
  not_willDid_of_lateWill _ { args := [.list [2]] } [("guidelines", .list [1])] (by decide)
/-- F23 at `Layer.insertGlyph`: the second `GlyphWillBeAdded` (posted by `newGlyph` inside the hold)
reaches the observer when the glyph is already in the layer. -/
theorem will_before_did_violated_insertGlyph : ¬ WillDid layerInsertGlyph :=
  not_willDid_of_lateWill _ { args := [.int 7] } [("keys", .list [1])] (by decide)

/-- Every recorded call site has its witness: the full statement fails at each of them. -/
theorem will_before_did_violated : ¬ WillDidAll := fun h =>
  will_before_did_violated_clearContours (h glyphClearContours (by simp [catalogue]))

/-- F24 witness: one `Layer.insertGlyph` delivers `GlyphWillBeAdded` twice and `GlyphAdded` once. -/
theorem insertGlyph_will_twice :
    ((runOp layerInsertGlyph { args := [.int 7] } [("keys", .list [1])]).evs.map (fun ev => (ev.name, ev.kind))) =
      [("Layer.GlyphWillBeAdded", .will), ("Layer.GlyphWillBeAdded", .will), ("Layer.GlyphAdded", .did)] := by
  decide

/-- the operations that hand an object built by the caller to a container -/
def insertEntries : List Entry :=
  [glyphInsertContour, glyphInsertComponent, glyphInsertAnchor, glyphInsertGuideline, fontInsertGuideline]

/-- rejected_insert_announces_nothing.  `insertContour / insertComponent / insertAnchor / insertGuideline` (glyph and
font; `appendX` is `insertX(len, x)`) of an object that an assertion rejects — it is already a member, it belongs to
another parent, one of its identifiers is known to the container, or the incoming object carries one identifier
TWICE (two points of a contour, a point and its contour) — from every store: nothing is delivered (no
will-notification for an addition that does not happen), the store is unchanged, the call raises. -/
theorem rejected_insert_announces_nothing (e : Entry) (he : e ∈ insertEntries) (env : Env) (σ : Store)
    (h : truthy (env.args.getD 2 .none) = true) :
    (runOp e env σ).evs = [] ∧ (runOp e env σ).store = σ ∧ (runOp e env σ).status = .raised := by
  have hb : ∃ rest, e.body = A (Atom.reject (.arg 2) :: rest) := by
    simp only [insertEntries, List.mem_cons, List.not_mem_nil, or_false] at he
    rcases he with rfl | rfl | rfl | rfl | rfl <;> exact ⟨_, rfl⟩
  obtain ⟨rest, hb⟩ := hb
  have h1 : stepA env (init σ) (Atom.reject (.arg 2)) = { init σ with status := .raised } := by
    have h' : truthy (env.args[2]?.getD Val.none) = true := by simpa using h
    simp [stepA, stepAtom, init, eval, h']
  rw [runOp, hb, run_A, runAtoms_cons, h1, runAtoms_halted _ _ _ (by simp)]
  simp [init]

/-! ## 4 (placed here: it completes sections 1 and 2). The entries outside the syntactic criteria

The four margin setters compute their new value by integer arithmetic on the glyph's bounds, the image
transformation setter spreads its argument over six fields and reads them back: no syntactic criterion
sees that `xMin + (value - xMin) = value`.  They are proved one by one, by running the interpreter
symbolically, on stores typed the way the implementation's are (`MarginTyped`: integer bounds, width,
height; vertical origin absent or an integer; an integer argument — or `NoBounds`: a glyph without
outline, where every margin setter returns at once). -/

/-- margins_payload_truth.  Every delivery of the four margin setters — their own will/did AND the nested
`Glyph.WidthChanged`, `Glyph.HeightChanged`, `Glyph.VerticalOriginChanged` — carries as old value what the
getter returned before the operation and as new value what it returns when the observer is called. -/
theorem margins_payload_truth (e : Entry)
    (he : e = glyphLeftMargin ∨ e = glyphRightMargin ∨ e = glyphTopMargin ∨ e = glyphBottomMargin)
    (env : Env) (σ : Store) (h : MarginTyped env σ ∨ NoBounds σ) :
    ∀ ev ∈ (runOp e env σ).evs, ev.Truthful env σ := by
  rcases he with rfl | rfl | rfl | rfl
  · exact leftMargin_truth env σ h
  · exact rightMargin_truth env σ h
  · exact topMargin_truth env σ h
  · exact bottomMargin_truth env σ h

/-- transformation_payload_truth.  `image.transformation = t` on an image with six integer fields: the one
`Image.TransformationChanged` carries the old six-tuple and `t`, and the getter returns `t` when the
observer is called (after the hold bracket around the six item assignments has been released). -/
theorem transformation_payload_truth (env : Env) (σ : Store) (h : TransformationTyped env σ) :
    ∀ ev ∈ (runOp imageTransformation env σ).evs, ev.Truthful env σ := transformation_truth env σ h

/-- bottomMargin_will_before_did.  The bottom-margin setter creates the vertical origin BEFORE it posts its
will (so the store has already changed) — yet `bottomMargin` still returns the old value when the will is
delivered, and the final value when the did is delivered. -/
theorem bottomMargin_will_before_did (env : Env) (σ : Store) (h : MarginTyped env σ ∨ NoBounds σ) :
    WillDidRun env σ (runOp glyphBottomMargin env σ) := bottomMargin_willDid env σ h

/-! ## 3. Sentence 3 — documented names are posted -/

def documentedPostedB (t : Tables) (except : List (String × String)) : Bool :=
  t.classes.all fun c => c.documented.all fun n => decide (n ∈ t.postedNames c.name) || decide ((c.name, n) ∈ except)

/-- the full statement of sentence 3 over the complete regenerated table -/
def DocumentedPostedAll : Prop := ∀ c ∈ T.classes, ∀ n ∈ c.documented, n ∈ T.postedNames c.name

/-- **documented_posted.**  Every notification name that the docstring of any class of Lib/defcon/objects documents
is posted by some method of that class or of a class it inherits from (string literal, or
`self.<x>NotificationName` resolved from the class the way Python resolves it) — the full statement, over the
complete table regenerated from the source on this run.  (It used to fail for `Layer.GlyphsChanged`: finding F25,
repaired.) -/
theorem documented_posted : DocumentedPostedAll := by
  have h : documentedPostedB T neverPosted = true := by decide +kernel
  intro c hc n hn
  simp only [documentedPostedB, List.all_eq_true, Bool.or_eq_true, decide_eq_true_eq] at h
  rcases h c hc n hn with h | h
  · exact h
  · simp [neverPosted] at h

/-- the table is not empty: `Layer` documents `Layer.GlyphAdded`, and `newGlyph` posts it -/
example : ((T.cls "Layer").map (fun c => decide ("Layer.GlyphAdded" ∈ c.documented))) = some true := by decide +kernel

/-! ## 5. Sentence 3 for a relayed notification — `Component.BaseGlyphDataChanged`

Class `Component` documents `Component.BaseGlyphDataChanged`; the operations that can trigger it are not
operations of the component: they are whatever changes the data of the glyph the component refers to BY NAME —
an edit of that glyph, its deletion, its creation, its replacement by `newGlyph` / `insertGlyph` over the name
or by ANOTHER glyph renamed onto the name, its own renaming.  M-Follow (`DefconModel/Follow.lean`) transcribes
the six callbacks of objects/component.py and the layer operations that feed them. -/

/-- component_follows_base_glyph.  After EVERY history of layer, glyph and component operations (glyphs created,
replaced by a new object under the same name, deleted, renamed — also onto a name that is taken —, outlines edited,
components attached, removed, pointed to another name) every component observes exactly the glyph OBJECT the
layer files under its base name at that moment, and the layer itself when there is none. -/
theorem component_follows_base_glyph (ops : List Follow.Op) :
    ∀ c ∈ (Follow.run {} ops).comps, Follow.Bound (Follow.run {} ops).filed c :=
  (Follow.inv_run Follow.inv_empty ops).bound

/-- base_glyph_data_changed_posted.  From every state reachable by any history, for every operation and every
attached component: if the data of the component's base glyph — the outline of the glyph the layer files under
`component.baseGlyph`, "no such glyph" included — is not the same after the operation as before it, the
component posts `Component.BaseGlyphDataChanged` during the operation. -/
theorem base_glyph_data_changed_posted (ops : List Follow.Op) (op : Follow.Op) (c : Follow.Comp)
    (hc : c ∈ (Follow.run {} ops).comps)
    (h : Follow.baseData (Follow.step (Follow.run {} ops) op).1 c ≠ Follow.baseData (Follow.run {} ops) c) :
    c.id ∈ (Follow.step (Follow.run {} ops) op).2 :=
  Follow.posted_of_changed (Follow.inv_run Follow.inv_empty ops) op c hc h

/-- glyph "b" (object 2) is renamed onto "a", the base glyph of component 7: the component posts at the rename
(its base glyph's outline is now 20, it was 10) and at the next edit of object 2 -/
example :
    let w := Follow.run {} [.newGlyph "a" 1 10, .newGlyph "b" 2 20, .newGlyph "c" 3 0, .addComp 7 "a"]
    let r := Follow.step w (.rename "b" "a")
    (Follow.baseData w ⟨7, "a", .glyph 1⟩, Follow.baseData r.1 ⟨7, "a", .glyph 2⟩, r.2, (Follow.step r.1 (.edit 2 21)).2,
      r.1.comps) = (some 10, some 20, [7], [7], [⟨7, "a", .glyph 2⟩]) := by decide
/-- delete and re-create, rename away and back: posted every time, the watch switches to the layer and back -/
example :
    let w := Follow.run {} [.newGlyph "a" 1 10, .addComp 7 "a"]
    ((Follow.step w (.delGlyph "a")).2, (Follow.step w (.delGlyph "a")).1.comps,
     (Follow.step (Follow.step w (.delGlyph "a")).1 (.newGlyph "a" 2 0)).2,
     (Follow.step w (.rename "a" "z")).2, (Follow.step (Follow.step w (.rename "a" "z")).1 (.rename "z" "a")).2) =
    ([7], [⟨7, "a", .layer⟩], [7], [7], [7]) := by decide
/-- the invariant is what carries the theorem: a component left watching the object that USED to be filed under
its base name (what a callback that ignores `Layer.GlyphNameChanged` produces) hears nothing of the glyph that
is filed there now -/
example : (Follow.step { filed := [("a", 2)], data := [(1, 10), (2, 20)], comps := [⟨7, "a", .glyph 1⟩] } (.edit 2 21)).2 = [] := by
  decide

/-! ## 6. Where the getter is a computation of its own

### 6a. The life cycle of a file name in an image set -/

/-- image_lifecycle_announcements.  After EVERY history of `images[name] = data` (with the digest of the entry kept
under the name, or another one), `del images[name]` and `save` on a new image set, the next operation announces
exactly what its effect on `name in images` documents, each notification delivered while `in` answers as stated:

* `images[name] = data`, name absent — never there, deleted and saved, or deleted and still scheduled for deletion,
  whatever the data: `ImageSet.ImageWillBeAdded` (`in` still False) then `ImageSet.ImageAdded` (`in` True);
* name present, other data: `ImageSet.ImageChanged` (`in` True) and nothing else; same data: nothing, no change;
* `del images[name]`, name present: `ImageSet.ImageWillBeDeleted` (`in` still True) then `ImageSet.ImageDeleted`
  (`in` False), the name is scheduled for deletion; name absent: raises, nothing is announced, nothing changes;
* no other name's answer changes; `save` announces nothing about images and forgets the scheduled deletions.

(The deleted image coming back unannounced — same data assigned to a name scheduled for deletion — was finding
F104, repaired in /repo.) -/
theorem image_lifecycle_announcements (ops : List ImgOp) (op : ImgOp) :
    ImgStepOk (imgRun imgEmpty ops) op (imgStep (imgRun imgEmpty ops) op) :=
  imgStep_ok _ (wf_run _ wf_empty ops) op

/-- … and the same from every image set whose two sets of names are duplicate free and disjoint (what every
history preserves) -/
theorem image_lifecycle_from_any_state (σ : Store) (h : ImgWF σ) (op : ImgOp) :
    ImgStepOk σ op (imgStep σ op) ∧ ImgWF (imgStep σ op).store :=
  ⟨imgStep_ok σ h op, wf_step σ h op⟩

/-- set → same again → other data → delete → the deleted data again (no save) → delete → save → set: what the
observer hears, with `7 in images` as it answers inside the callback -/
example :
    let h := [ImgOp.set 7 false, .set 7 true, .set 7 false, .del 7, .set 7 true, .del 7, .save, .set 7 false]
    (List.range 8).map (fun i => announced (imgStep (imgRun imgEmpty (h.take i)) (h.getD i .save))) =
      [[("ImageSet.ImageWillBeAdded", .int 7, .int 0), ("ImageSet.ImageAdded", .int 7, .int 1)],
       [],
       [("ImageSet.ImageChanged", .int 7, .int 1)],
       [("ImageSet.ImageWillBeDeleted", .int 7, .int 1), ("ImageSet.ImageDeleted", .int 7, .int 0)],
       [("ImageSet.ImageWillBeAdded", .int 7, .int 0), ("ImageSet.ImageAdded", .int 7, .int 1)],
       [("ImageSet.ImageWillBeDeleted", .int 7, .int 1), ("ImageSet.ImageDeleted", .int 7, .int 0)],
       [],
       [("ImageSet.ImageWillBeAdded", .int 7, .int 0), ("ImageSet.ImageAdded", .int 7, .int 1)]] := by decide +kernel
/-- the phases: present, scheduled after the delete, absent after the save -/
example : (phase (imgRun imgEmpty [.set 7 false]) 7, phase (imgRun imgEmpty [.set 7 false, .del 7]) 7,
    phase (imgRun imgEmpty [.set 7 false, .del 7, .save]) 7, phase (imgRun imgEmpty [.set 7 false, .del 7, .set 7 true]) 7) =
    (.present, .scheduled, .absent, .present) := by decide +kernel
/-- F104 as it was: an entry that returns at once when the digest is the one of the entry it has just taken back
from the scheduled deletions makes `in` flip without a word -/
def setItemBeforeFix : Entry :=
  { imageSetSetItem with body := imageSetSetItem.body.filter (fun s => match s with
      | .atom (.when (.var 3) _) => false
      | _ => true) }
example :
    let σ := imgRun imgEmpty [.set 7 false, .del 7]
    let r := runOp setItemBeforeFix { args := [.int 7, .int 0, .int 1] } σ
    (imgHas σ 7, imgHas r.store 7, announced r) = (false, true, []) := by decide +kernel

/-! ### 6b. The glyph order the font keeps in step with its layers -/

/-- glyph_order_change_announced.  From EVERY state of a font — layers with their glyph names, each observed or not,
its notifications held (with whatever is queued) or disabled or neither, a stored glyph order or none, a default layer
or a deleted one — and for every operation of M-GlyphOrder but a direct write into the lib: `newGlyph`, `insertGlyph`
(its own hold / newGlyph / release bracket), `del layer[name]`, a glyph renamed (also onto a taken name, also a name
that lives on in another layer), the same through the font, `font.glyphOrder = …`, layers created, deleted, renamed,
reordered, made default, held, RELEASED (the queued layer notifications reach the font one by one), disabled, enabled,
the font's own holds:

* the posts of `Font.GlyphOrderChanged` form a chain from what `font.glyphOrder` answered before the operation to
  what it answers after it — the first old value is the order before, every new value is what `font.glyphOrder`
  answers at that instant, every later old value is what the previous post announced, the last new value is the order
  after — and nothing posted means nothing changed: WHENEVER `font.glyphOrder` answers differently after the operation
  than before it, `Font.GlyphOrderChanged` IS posted (payload = the stored lib value, compared modulo `None == []`);
* an operation that posts at most one layer notification (everything but a release and `insertGlyph`, which ends with
  one) posts at most one `Font.GlyphOrderChanged`: old = the order before the operation, new = the order the observer
  reads = the order after the operation, and exactly one when the two differ.

While the font's own notifications are not held every post is delivered at once (`snap` is what the observer reads).
(`stepN` is M-GlyphOrder, the model C12 is proved about, plus the one post of `_set_glyphOrder`:
`order_model_is_glyph_order_model`.) -/
theorem glyph_order_change_announced (f : GlyphOrder.Font) (op : GlyphOrder.Op) (h : OrderNotify.viaFont op = true) :
    OrderNotify.Chain (GlyphOrder.glyphOrder f) (GlyphOrder.glyphOrder (OrderNotify.stepN f op).1.1)
      (OrderNotify.stepN f op).2 ∧
    (OrderNotify.singlePost op = true →
      (∀ ev ∈ (OrderNotify.stepN f op).2,
        OrderNotify.norm ev.old = GlyphOrder.glyphOrder f ∧ OrderNotify.norm ev.new = OrderNotify.norm ev.snap ∧
        OrderNotify.norm ev.snap = GlyphOrder.glyphOrder (OrderNotify.stepN f op).1.1) ∧
      (OrderNotify.stepN f op).2.length ≤ 1 ∧
      (GlyphOrder.glyphOrder (OrderNotify.stepN f op).1.1 ≠ GlyphOrder.glyphOrder f →
        (OrderNotify.stepN f op).2.length = 1)) :=
  ⟨OrderNotify.stepN_chain f op h, fun hs => OrderNotify.stepN_announced f op h hs⟩

/-- … in particular after every history: an operation that changes what `font.glyphOrder` answers posts at least
once, its first post carries the order before as old value, its last post the order after as new value -/
theorem glyph_order_change_announced_after_history (ops : List GlyphOrder.Op) (op : GlyphOrder.Op)
    (h : OrderNotify.viaFont op = true)
    (hne : GlyphOrder.glyphOrder (OrderNotify.stepN (GlyphOrder.run {} ops) op).1.1 ≠
      GlyphOrder.glyphOrder (GlyphOrder.run {} ops)) :
    ∃ first last, (OrderNotify.stepN (GlyphOrder.run {} ops) op).2.head? = some first ∧
      (OrderNotify.stepN (GlyphOrder.run {} ops) op).2.getLast? = some last ∧
      OrderNotify.norm first.old = GlyphOrder.glyphOrder (GlyphOrder.run {} ops) ∧
      OrderNotify.norm last.new = GlyphOrder.glyphOrder (OrderNotify.stepN (GlyphOrder.run {} ops) op).1.1 := by
  have hc := (glyph_order_change_announced (GlyphOrder.run {} ops) op h).1
  have hn := OrderNotify.chain_changed hc hne
  match hevs : (OrderNotify.stepN (GlyphOrder.run {} ops) op).2, hn with
  | x :: xs, _ =>
    rw [hevs] at hc
    obtain ⟨l, hl⟩ : ∃ l, (x :: xs).getLast? = some l := ⟨(x :: xs).getLast (by simp), List.getLast?_eq_some_getLast (by simp)⟩
    exact ⟨x, l, rfl, hl, OrderNotify.chain_head hc x rfl, OrderNotify.chain_last hc l hl⟩

/-- M-OrderNotify changes nothing of M-GlyphOrder: same font, same result, for every operation. -/
theorem order_model_is_glyph_order_model (f : GlyphOrder.Font) (op : GlyphOrder.Op) :
    (OrderNotify.stepN f op).1 = GlyphOrder.step f op :=
  OrderNotify.stepN_fst f op

/-- a font that stores the order B, A: a new glyph, a rename and a delete are each announced with the order before
and the order after; a glyph that is already listed changes nothing and is not announced -/
example :
    let f : GlyphOrder.Font := { layers := [("fore", { glyphs := ["A", "B"], observed := true })], lib := some ["B", "A"],
                                 default := some "fore" }
    ((OrderNotify.stepN f (.newGlyph "fore" "C")).2, (OrderNotify.stepN f (.rename "fore" "A" "A.alt")).2,
     (OrderNotify.stepN f (.fontDelGlyph "B")).2, (OrderNotify.stepN f (.insertGlyph "fore" "A")).2) =
    ([⟨some ["B", "A"], some ["B", "A", "C"], some ["B", "A", "C"]⟩],
     [⟨some ["B", "A"], some ["B", "A.alt"], some ["B", "A.alt"]⟩],
     [⟨some ["B", "A"], some ["A"], some ["A"]⟩], []) := by decide
/-- the last glyph of the order deleted: the key leaves the lib, the payload says `None`, the getter `[]` -/
example :
    let f : GlyphOrder.Font := { layers := [("fore", { glyphs := ["A"], observed := true })], lib := some ["A"] }
    (OrderNotify.stepN f (.delGlyph "fore" "A")).2 = [⟨some ["A"], none, none⟩] := by decide
/-- a held layer: two glyphs created and one deleted inside the bracket change nothing and post nothing; the release
re-posts the three layer notifications and the font announces three updates, each starting where the last one ended -/
example :
    let f : GlyphOrder.Font := { layers := [("fore", { glyphs := ["A"], observed := true })], lib := some ["A"] }
    let g := GlyphOrder.run f [.holdLayer "fore", .newGlyph "fore" "B", .newGlyph "fore" "C", .delGlyph "fore" "A"]
    (GlyphOrder.glyphOrder g, (OrderNotify.stepN g (.releaseLayer "fore")).2,
     OrderNotify.singlePost (.releaseLayer "fore")) =
    (["A"], [⟨some ["A"], some ["A", "B"], some ["A", "B"]⟩, ⟨some ["A", "B"], some ["A", "B", "C"], some ["A", "B", "C"]⟩,
             ⟨some ["A", "B", "C"], some ["B", "C"], some ["B", "C"]⟩], false) := by decide
/-- a disabled layer: the glyph is created, the order is NOT updated, nothing is posted — and nothing is demanded,
`font.glyphOrder` answers as before -/
example :
    let f : GlyphOrder.Font := { layers := [("fore", { glyphs := ["A"], observed := true, disabled := 1 })], lib := some ["A"] }
    ((OrderNotify.stepN f (.newGlyph "fore" "B")).2, GlyphOrder.glyphOrder (OrderNotify.stepN f (.newGlyph "fore" "B")).1.1) =
    ([], ["A"]) := by decide

/-! ### 6c. The direction of a contour, zero area included -/

/-- winding_payload_truth.  For EVERY valid contour — closed or open, lines, curves, any coordinates (integers in
particular), a lone point, a two-point stroke, collinear points or a symmetric figure eight just as well as a
contour with area — and every store of M-Setters that describes it: `contour.reverse()`, run by the catalogue entry
with the one fact it takes from outside ("the area is zero") computed from the points, delivers one
`Contour.WindingDirectionChanged` whose old value is the direction of the points before, whose new value is the
direction of the REVERSED points — what `clockwise` (signed area < 0) computes when the observer is called —, and
leaves a store that describes the reversed contour.  A contour without area is not clockwise before and not
clockwise after: old = new = False. -/
theorem winding_payload_truth (pts : List Geom.Point) (hshape : Geom.ReversibleShape pts)
    (herr : Geom.drawErr pts = none) (σ : Store) (hσ : DescribesContour σ pts) :
    let env : Env := { args := [b2v (zeroArea pts)] }
    DescribesContour (runOp contourReverse env σ).store (Geom.reversePoints pts) ∧
    WindingTruth env (runOp contourReverse env σ) pts (Geom.reversePoints pts) ∧
    ((runOp contourReverse env σ).evs.map (·.name)) = ["Contour.WindingDirectionChanged", "Contour.PointsChanged"] :=
  reverse_run pts hshape herr σ hσ

/-- winding_payload_truth for the setter.  `contour.clockwise = v`: nothing happens when the contour already answers
`v`; otherwise the contour is reversed and announced truthfully as above — for a contour without area the announced
new value is False again, NOT `v` (the direction of such a contour cannot be set). -/
theorem winding_payload_truth_setter (pts : List Geom.Point) (hshape : Geom.ReversibleShape pts)
    (herr : Geom.drawErr pts = none) (σ : Store) (hσ : DescribesContour σ pts) (v : Bool) :
    let env : Env := { args := [b2v v, b2v (zeroArea pts)] }
    (clockwiseOf pts = v → (runOp contourClockwise env σ).evs = [] ∧ (runOp contourClockwise env σ).store = σ) ∧
    (clockwiseOf pts ≠ v →
      DescribesContour (runOp contourClockwise env σ).store (Geom.reversePoints pts) ∧
      WindingTruth env (runOp contourClockwise env σ) pts (Geom.reversePoints pts) ∧
      ((runOp contourClockwise env σ).evs.map (·.name)) = ["Contour.WindingDirectionChanged", "Contour.PointsChanged"]) :=
  setClockwise_run pts hshape herr σ hσ v

/-- the geometric fact behind it: reversing flips the direction exactly when the contour has area -/
theorem reverse_flips_unless_zero_area (pts : List Geom.Point) (hshape : Geom.ReversibleShape pts)
    (herr : Geom.drawErr pts = none) :
    clockwiseOf (Geom.reversePoints pts) = (if zeroArea pts then clockwiseOf pts else !clockwiseOf pts) :=
  clockwiseOf_reverse pts hshape herr

namespace Ex
def P (x y : Int) (t : Geom.Seg := .line) : Geom.Point := { pt := ⟨x, y⟩, seg := some t }
/-- a lone point, an open two-point stroke, a closed two-point contour, three collinear points, a symmetric figure
eight, and a square (counter-clockwise, area 100) -/
def lone : List Geom.Point := [P 10 20 .move]
def stroke : List Geom.Point := [P 0 0 .move, P 30 40]
def twoClosed : List Geom.Point := [P 0 0, P 30 40]
def collinear : List Geom.Point := [P 0 0, P 10 10, P 30 30]
def eight : List Geom.Point := [P 0 0, P 20 20, P 20 0, P 0 20]
def square : List Geom.Point := [P 0 0, P 10 0, P 10 10, P 0 10]
def degenerate : List (List Geom.Point) := [lone, stroke, twoClosed, collinear, eight]
end Ex

/-- the hypotheses are met by all of them, the degenerate ones have no area and are not clockwise, before and after -/
example : (∀ c ∈ Ex.square :: Ex.degenerate, Geom.ReversibleShape c ∧ Geom.drawErr c = none) ∧
    (∀ c ∈ Ex.degenerate, zeroArea c = true ∧ clockwiseOf c = false ∧ clockwiseOf (Geom.reversePoints c) = false) ∧
    (zeroArea Ex.square, clockwiseOf Ex.square, clockwiseOf (Geom.reversePoints Ex.square)) = (false, false, true) := by
  decide +kernel
/-- what the observer of the reversed figure eight is told: False → False, and `clockwise` answers False -/
example :
    let env : Env := { args := [b2v (zeroArea Ex.eight)] }
    (runOp contourReverse env [("clockwise", b2v (clockwiseOf Ex.eight))]).evs.map (fun ev => (ev.name, ev.old, ev.new, ev.now env)) =
      [("Contour.WindingDirectionChanged", some (.int 0), some (.int 0), .int 0),
       ("Contour.PointsChanged", none, none, .int 0)] := by decide +kernel
/-- `eight.clockwise = True` announces False → False (it cannot be made clockwise); `square.clockwise = True` announces
False → True -/
example :
    ((runOp contourClockwise { args := [b2v true, b2v (zeroArea Ex.eight)] } [("clockwise", b2v (clockwiseOf Ex.eight))]).evs.map
        (fun ev => (ev.old, ev.new))).head? = some (some (.int 0), some (.int 0)) ∧
    ((runOp contourClockwise { args := [b2v true, b2v (zeroArea Ex.square)] } [("clockwise", b2v (clockwiseOf Ex.square))]).evs.map
        (fun ev => (ev.old, ev.new))).head? = some (some (.int 0), some (.int 1)) := by decide +kernel

/-! ## Non-vacuity: concrete runs, and the criteria at work -/

/-- a contour whose identifiers clash is refused without a word; the same contour, accepted, is announced and added -/
example : ((runOp glyphInsertContour { args := [.int 0, .int 5, .int 1] } [("contours", .list [4])]).evs.length,
    (runOp glyphInsertContour { args := [.int 0, .int 5, .int 0] } [("contours", .list [4])]).evs.map (fun ev => ev.name)) =
    (0, ["Glyph.ContourWillBeAdded", "Glyph.ContoursChanged"]) := by decide

/-- a rename delivers Will (old name still readable) then Changed (new name readable), payloads (3, 8) -/
example : ((runOp glyphName { args := [.int 8] } [("_name", .int 3)]).evs.map
      (fun ev => (ev.name, ev.old, ev.new, ev.now { args := [.int 8] }))) =
    [("Glyph.NameWillChange", some (.int 3), some (.int 8), .int 3),
     ("Glyph.NameChanged", some (.int 3), some (.int 8), .int 8)] := by decide
/-- same-value assignment: nothing is delivered -/
example : (runOp glyphName { args := [.int 3] } [("_name", .int 3)]).evs = [] := by decide
/-- the criteria accept the rename and the left-margin setter's will/did, reject `clearAnchors` -/
example : payloadOk glyphName = true ∧ willDidOk glyphName = true ∧ willDidOk glyphLeftMargin = true ∧
    willDidOk glyphClearAnchors = false := by decide
/-- the catalogue: 74 entries, 13 of them recorded call sites -/
example : catalogue.length = 74 ∧ (catalogue.filter (fun e => e.id ∈ heldSites)).length = 13 := by decide
/-- F10 as it was: a top-margin setter that posts its will twice and never its did fails the criterion,
and really delivers a will after the change -/
def topMarginBeforeFix : Entry :=
  { glyphTopMargin with body := glyphTopMargin.body.map (fun s => match s with
      | .atom (.post "Glyph.TopMarginDidChange" _ sj o n obs) =>
        .atom (.post "Glyph.TopMarginWillChange" .will sj o n obs)
      | s => s) }
example : willDidOk topMarginBeforeFix = false ∧ willDidOk glyphTopMargin = true := by decide
example : lateWill topMarginBeforeFix { args := [.int 10] }
    [("xMin", .int 0), ("yMin", .int 0), ("xMax", .int 9), ("yMax", .int 50), ("_height", .int 100)] = true := by
  decide
/-- the typing hypotheses of section 4 are met by ordinary stores -/
example : MarginTyped { args := [.int 10] }
    [("xMin", .int 0), ("yMin", .int 0), ("xMax", .int 9), ("yMax", .int 50), ("_width", .int 80), ("_height", .int 100)] :=
  ⟨⟨0, by decide⟩, ⟨0, by decide⟩, ⟨9, by decide⟩, ⟨50, by decide⟩, ⟨80, by decide⟩, ⟨100, by decide⟩,
   Or.inl (by decide), ⟨10, rfl⟩⟩
/-- … and the left-margin setter then really delivers will, width change and did -/
example : ((runOp glyphLeftMargin { args := [.int 10] }
    [("xMin", .int 0), ("yMin", .int 0), ("xMax", .int 9), ("yMax", .int 50), ("_width", .int 80), ("_height", .int 100)]).evs.map
      (fun ev => (ev.name, ev.old, ev.new))) =
    [("Glyph.LeftMarginWillChange", some (.int 0), some (.int 10)), ("Glyph.WidthChanged", some (.int 80), some (.int 90)),
     ("Glyph.LeftMarginDidChange", some (.int 0), some (.int 10))] := by decide
/-- the regenerated tables: `Lib.ItemSet` is posted by `Lib` through the inherited
`BaseDictObject.__setitem__` and the class attribute (no statement here depends on how many classes or
methods the sources have) -/
example : "Lib.ItemSet" ∈ T.postedNames "Lib" ∧ "Glyph.Changed" ∈ T.postedNames "Glyph" := by
  decide +kernel

end DefconModel.Props.C08
