/-
C09 — The unicode map always equals the inverse of the glyphs' unicodes.

`UniOK s` says: if the layer's unicode data exists, it maps a code point to exactly the names of
the glyphs currently in the layer (abstract content `abs s`) whose unicodes contain it.
-/
import DefconModel.Lemmas.Layer

namespace DefconModel.Props.C09
open DefconModel DefconModel.Layer

/-- Main theorem: in every state reachable from a well-formed layer by ANY sequence of glyph
creation, replacement, insertion, deletion, renaming, unicodes assignment, reading, saving —
with the unicode data first accessed at any point of the sequence — the map (once it exists) is
exactly the inverse of the glyphs' unicodes: no stale names, none missing, no name twice. -/
theorem uni_inverse (s : State) (ops : List Op) (h : Good s) (hops : OpsOK (abs s) ops) (m : Cmap)
    (hm : (run s ops).uni = some m) :
    (∀ c n, n ∈ namesAt m c ↔ ∃ r, abs (run s ops) n = some r ∧ c ∈ r.unicodes) ∧
    (∀ c, (namesAt m c).Nodup) := by
  have hg := (run_refines s ops h hops).1
  obtain ⟨hw, hiff⟩ := hg.uni m hm
  exact ⟨hiff, fun c => namesAt_nodup hw c⟩

/-- … in particular from a freshly opened layer (nothing read, map not built). -/
theorem uni_inverse_opened (disk : List (String × GRec)) (hk : (AL.keys disk).Nodup)
    (hr : ∀ p ∈ disk, p.2.unicodes.Nodup) (ops : List Op) (hops : OpsOK (abs (opened disk)) ops) (m : Cmap)
    (hm : (run (opened disk) ops).uni = some m) (c : Nat) (n : String) :
    n ∈ namesAt m c ↔ ∃ r, abs (run (opened disk) ops) n = some r ∧ c ∈ r.unicodes := by
  have hg : Good (opened disk) := by
    refine ⟨?_, uniInv_none _, ?_⟩
    · have habs : ∀ k, abs (opened disk) k = AL.get? disk k := by intro k; simp [abs, opened]
      constructor
      · exact hk
      · simp [opened, AL.keys]
      · simpa [opened, AL.keys] using hk
      · simp [opened]
      · intro m hm; simp [opened] at hm
      · intro m hm; simp [opened] at hm
      · intro k
        rw [habs]
        simp only [opened]
        constructor
        · intro hmem
          have : k ∈ AL.keys disk := by simpa [AL.keys] using hmem
          simp only [AL.keys, List.mem_map] at this
          obtain ⟨⟨k', v⟩, hp, rfl⟩ := this
          rw [AL.get?_of_mem_nodup hk hp]; rfl
        · intro hs
          cases hg : AL.get? disk k with
          | none => simp [hg] at hs
          | some v => simpa [AL.keys] using AL.mem_keys_of_get? hg
      · intro k r hl; simp [opened] at hl
    · intro n r hn
      have : abs (opened disk) n = AL.get? disk n := by simp [abs, opened]
      rw [this] at hn
      exact hr _ (AL.mem_of_get? hn)
  exact (uni_inverse (opened disk) ops hg hops m hm).1 c n

/-- The lazily built map is correct at the moment it is built, whatever is loaded, deleted or
pending at that moment. -/
theorem first_access_exact (s : State) (h : Good s) (hn : s.uni = none) (c : Nat) (n : String) :
    n ∈ namesAt (buildUni s) c ↔ ∃ r, abs s n = some r ∧ c ∈ r.unicodes :=
  ((buildUni_spec h.wf) (buildUni s) rfl).2 c n

/-- One step keeps the invariant (the induction step of `uni_inverse`, stated on its own). -/
theorem uni_step (s : State) (op : Op) (h : Good s) (hop : OpOK (abs s) op) : UniOK (stepTotal s op) :=
  (step_refines op h hop).1.uni

/-- the two primitive updates, as set operations on the inverse map -/
theorem add_exact (m : Cmap) (n n' : String) (vs : List Nat) (c : Nat) :
    n' ∈ namesAt (uniAdd m n vs) c ↔ n' ∈ namesAt m c ∨ (n' = n ∧ c ∈ vs) := mem_uniAdd m n n' vs c

theorem remove_exact (m : Cmap) (h : UniWF m) (n n' : String) (vs : List Nat) (c : Nat) :
    n' ∈ namesAt (uniRemove m n vs) c ↔ n' ∈ namesAt m c ∧ ¬ (n' = n ∧ c ∈ vs) := mem_uniRemove h n n' vs c

/-! ### non-vacuity -/

def demoDisk : List (String × GRec) :=
  [("A", { unicodes := [65] }), ("B", { unicodes := [66, 65] }), ("C", {})]

def demoOps : List Op :=
  [.delete "A", .touchUni, .rename "B" "D", .new "A", .setUnicodes "A" [66, 67], .insert "C" { unicodes := [65] }]

example : OpsOK (abs (opened demoDisk)) demoOps := by decide
example : (run (opened demoDisk) demoOps).uni = some [(66, ["D", "A"]), (65, ["D", "C"]), (67, ["A"])] := by decide
/-- before the F4 fix the first access after deleting an unread glyph listed the stale name;
the model of the fixed code does not -/
example : (run (opened demoDisk) [.delete "A", .touchUni]).uni = some [(66, ["B"]), (65, ["B"])] := by decide

end DefconModel.Props.C09
