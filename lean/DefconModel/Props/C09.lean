/-
C09 — The unicode map always equals the inverse of the glyphs' unicodes.

`UniOK s` says: if the layer's unicode data exists, it maps a code point to exactly the names of
the glyphs currently in the layer (abstract content `abs s`) whose unicodes contain it; a name is listed
under a code point at most as often as the glyph's own list repeats that code point, and no entry is empty.
-/
import DefconModel.Lemmas.Layer
import DefconModel.Lemmas.Layers

namespace DefconModel.Props.C09
open DefconModel DefconModel.Layer

/-- Main theorem: in every state reachable from a well-formed layer by ANY sequence of glyph creation,
replacement (`newGlyph` / `insertGlyph` over a name that is present), insertion of a glyph carrying unicodes,
deletion, renaming (onto a free name or onto a present one, whose glyph is replaced), unicodes assignment
(lists WITH repeated code points, reorderings, `glyph.unicode = v`, `glyph.unicodes = []`), reloading after
another program rewrote the file (glyph read or not), look-ups, reading, saving — with the unicode data first
accessed at any point of the sequence — the map (once it exists) is exactly the inverse of the glyphs'
unicodes: no stale names, none missing; and a name is listed under a code point no more often than the glyph's
own list repeats it (the lazy constructor appends once per list element). -/
theorem uni_inverse (s : State) (ops : List Op) (h : Good s) (hops : OpsOK (abs s) ops) (m : Cmap)
    (hm : (run s ops).uni = some m) :
    (∀ c n, n ∈ namesAt m c ↔ ∃ r, abs (run s ops) n = some r ∧ c ∈ r.unicodes) ∧
    (∀ c n, (namesAt m c).count n ≤ cnt (abs (run s ops)) n c) := by
  have hg := (run_refines s ops h hops).1
  exact ⟨fun c n => uniInv_mem hg.uni hm c n, fun c n => ((hg.uni m hm).2 c n).1⟩

/-- The first version of the theorem (its narrower domain: every unicode list that enters the layer is free of
repetitions), with its conclusion: no name is listed twice under a code point. -/
theorem uni_inverse_nodup (s : State) (ops : List Op) (h : Good s) (hr : RecsOK s) (hops : OpsOK (abs s) ops)
    (hnd : OpsNodup ops) (m : Cmap) (hm : (run s ops).uni = some m) :
    (∀ c n, n ∈ namesAt m c ↔ ∃ r, abs (run s ops) n = some r ∧ c ∈ r.unicodes) ∧
    (∀ c, (namesAt m c).Nodup) := by
  obtain ⟨hg, habs⟩ := run_refines s ops h hops
  refine ⟨(uni_inverse s ops h hops m hm).1, fun c => uniInv_nodup hg.uni hm ?_ c⟩
  have hfe : abs (run s ops) = specRun (abs s) ops := funext habs
  rw [hfe]
  exact fnodup_specRun hr ops hnd

/-- … in particular from a freshly opened layer (nothing read, map not built). -/
theorem uni_inverse_opened (disk : List (String × GRec)) (hk : (AL.keys disk).Nodup)
    (hr : ∀ p ∈ disk, p.2.unicodes.Nodup) (ops : List Op) (hops : OpsOK (abs (opened disk)) ops) (m : Cmap)
    (hm : (run (opened disk) ops).uni = some m) (c : Nat) (n : String) :
    n ∈ namesAt m c ↔ ∃ r, abs (run (opened disk) ops) n = some r ∧ c ∈ r.unicodes :=
  (uni_inverse (opened disk) ops (good_opened disk hk hr) hops m hm).1 c n

/-- The lazily built map is correct at the moment it is built, whatever is loaded, deleted or
pending at that moment. -/
theorem first_access_exact (s : State) (h : Good s) (hn : s.uni = none) (c : Nat) (n : String) :
    n ∈ namesAt (buildUni s) c ↔ ∃ r, abs s n = some r ∧ c ∈ r.unicodes :=
  uniInv_mem (buildUni_spec h.wf) rfl c n

/-- One step keeps the invariant (the induction step of `uni_inverse`, stated on its own). -/
theorem uni_step (s : State) (op : Op) (h : Good s) (hop : OpOK (abs s) op) : UniOK (stepTotal s op) :=
  (step_refines op h hop).1.uni

/-- the two primitive updates, as set operations on the inverse map -/
theorem add_exact (m : Cmap) (n n' : String) (vs : List Nat) (c : Nat) :
    n' ∈ namesAt (uniAdd m n vs) c ↔ n' ∈ namesAt m c ∨ (n' = n ∧ c ∈ vs) := mem_uniAdd m n n' vs c

theorem remove_exact (m : Cmap) (h : UniWF m) (n n' : String) (vs : List Nat) (c : Nat) :
    n' ∈ namesAt (uniRemove m n vs) c ↔ n' ∈ namesAt m c ∧ ¬ (n' = n ∧ c ∈ vs) := mem_uniRemove h n n' vs c

/-- `removeGlyphData` on ANY reachable map (names may be listed more than once): under code point `c` one
occurrence of the name goes for every occurrence of `c` in the list handed in; no other name is touched; no
entry is left empty. -/
theorem remove_exact_counted (m : Cmap) (h : MapWF m) (n n' : String) (vs : List Nat) (c : Nat) :
    MapWF (uniRemove m n vs) ∧ (namesAt (uniRemove m n vs) c).count n' =
      if n' = n then (namesAt m c).count n - vs.count c else (namesAt m c).count n' :=
  ⟨(uniRemove_spec h n vs).1, (uniRemove_spec h n vs).2 c n'⟩

/-! ### look-ups -/

/-- `unicodeForGlyphName n` is the first code point of glyph `n` when it has one, `None` when the glyph has
none or is absent — in every reachable state, whatever has been read; the look-up itself (it reads the glyph)
changes neither the content nor the map's correctness. -/
theorem forward_lookup_exact (s : State) (ops : List Op) (h : Good s) (hops : OpsOK (abs s) ops) (n : String) :
    (fwd (run s ops) n).2 = (abs (run s ops) n).bind (fun r => r.unicodes.head?) ∧
    Good (fwd (run s ops) n).1 ∧ ∀ k, abs (fwd (run s ops) n).1 k = abs (run s ops) k := by
  have hg := (run_refines s ops h hops).1
  obtain ⟨h1, h2, h3⟩ := fwd_spec hg n
  exact ⟨h3, h1, h2⟩

/-- `pseudoUnicodeForGlyphName n`: the glyph's own first code point if it has one; otherwise, for a name with a
suffix or a ligature name, the first code point of the base glyph (`baseName`), if that has one. -/
theorem pseudo_lookup_exact (s : State) (ops : List Op) (h : Good s) (hops : OpsOK (abs s) ops) (n : String) :
    (pseudo (run s ops) n).2 = specPseudo (abs (run s ops)) n ∧ Good (pseudo (run s ops) n).1 := by
  have hg := (run_refines s ops h hops).1
  obtain ⟨h1, _, h3⟩ := pseudo_spec hg n
  exact ⟨h3, h1⟩

/-- `glyphNameForUnicode c` names one of the glyphs that carry `c`, and is `None` exactly when no glyph of the
layer carries `c` — in every reachable state in which the map exists. -/
theorem reverse_lookup_member (s : State) (ops : List Op) (h : Good s) (hops : OpsOK (abs s) ops) (m : Cmap)
    (hm : (run s ops).uni = some m) (c : Nat) :
    (∀ n, glyphNameForUnicode m c = some n → ∃ r, abs (run s ops) n = some r ∧ c ∈ r.unicodes) ∧
    (glyphNameForUnicode m c = none ↔ ∀ n r, abs (run s ops) n = some r → c ∉ r.unicodes) := by
  have hiff := (uni_inverse s ops h hops m hm).1
  unfold glyphNameForUnicode
  constructor
  · intro n hn
    exact (hiff c n).mp (List.mem_of_mem_head? hn)
  · rw [List.head?_eq_none_iff]
    constructor
    · intro he n r hr hc
      have := (hiff c n).mpr ⟨r, hr, hc⟩
      rw [he] at this; simp at this
    · intro hall
      cases hl : namesAt m c with
      | nil => rfl
      | cons n rest =>
        exfalso
        obtain ⟨r, hr, hc⟩ := (hiff c n).mp (by rw [hl]; simp)
        exact hall n r hr hc

/-- No reachable map has an entry with an empty list: when the last glyph carrying a code point leaves (is
deleted, renamed, replaced, re-assigned, reloaded) `removeGlyphData` deletes the entry.  Hence `c in
unicodeData` is true exactly for the code points some glyph of the layer carries. -/
theorem no_empty_entries (s : State) (ops : List Op) (h : Good s) (hops : OpsOK (abs s) ops) (m : Cmap)
    (hm : (run s ops).uni = some m) :
    (∀ c l, AL.get? m c = some l → l ≠ []) ∧
    (∀ c, hasCode m c = true ↔ ∃ n r, abs (run s ops) n = some r ∧ c ∈ r.unicodes) := by
  have hg := (run_refines s ops h hops).1
  have hw := (hg.uni m hm).1
  have hiff := (uni_inverse s ops h hops m hm).1
  refine ⟨fun c l hl => hw.nonempty _ (AL.mem_of_get? hl), fun c => ?_⟩
  unfold hasCode
  rw [← namesAt_ne_nil_iff hw]
  constructor
  · intro hne
    cases hl : namesAt m c with
    | nil => exact absurd hl hne
    | cons n rest =>
      obtain ⟨r, hr, hc⟩ := (hiff c n).mp (by rw [hl]; simp)
      exact ⟨n, r, hr, hc⟩
  · rintro ⟨n, r, hr, hc⟩ he
    have := (hiff c n).mpr ⟨r, hr, hc⟩
    rw [he] at this; simp at this

/-! ### the newly covered operations, one by one (each is an instance of `uni_step` + the commutation of the
operation with the abstraction; stated for the reader and for the non-vacuity examples) -/

/-- Renaming glyph `o` onto a name `n` that is PRESENT replaces that glyph: afterwards the layer shows the
renamed glyph's record under `n`, nothing under `o`, and the map — if it exists — is the inverse of that
content: the replaced glyph's code points have left it unless the renamed glyph carries them (finding F107,
repaired). -/
theorem rename_onto_present (s : State) (o n : String) (r : GRec) (h : Good s) (ho : abs s o = some r) (hne : o ≠ n) :
    UniOK (stepTotal s (.rename o n)) ∧
    ∀ k, abs (stepTotal s (.rename o n)) k = upd (upd (abs s) o none) n (some r) k := by
  obtain ⟨hg, ha⟩ := step_refines (.rename o n) h trivial
  refine ⟨hg.uni, fun k => ?_⟩
  rw [ha]
  simp [specTotal, specStep, ho, hne]

/-- Reloading glyph `n` after another program rewrote its file with record `r`: whether the glyph had been read
or not, and whether the map existed or not, the layer shows `r` and the map is the inverse of the new content
(for a glyph that had not been read the map used to keep the code points scanned earlier: finding F108,
repaired). -/
theorem reload_exact (s : State) (n : String) (r : GRec) (h : Good s) (hn : (abs s n).isSome) (hr : r.unicodes.Nodup) :
    UniOK (stepTotal s (.reload n r)) ∧ ∀ k, abs (stepTotal s (.reload n r)) k = upd (abs s) n (some r) k := by
  obtain ⟨hg, ha⟩ := step_refines (.reload n r) h hr
  refine ⟨hg.uni, fun k => ?_⟩
  rw [ha]
  simp [specTotal, specStep, hn]

/-- `glyph.unicode = v` replaces the whole list by `[v]` (by `[]` for `None`); the map follows. -/
theorem unicode_setter_exact (s : State) (n : String) (v : Option Nat) (r : GRec) (h : Good s) (hn : abs s n = some r) :
    UniOK (stepTotal s (.setUnicode n v)) ∧
    abs (stepTotal s (.setUnicode n v)) n = some (withUnicodes r v.toList) := by
  obtain ⟨hg, ha⟩ := step_refines (.setUnicode n v) h trivial
  refine ⟨hg.uni, ?_⟩
  rw [ha]
  simp [specTotal, specStep, hn, upd]

/-- After `glyph.unicodes = []` the glyph is listed under no code point. -/
theorem empty_assignment_clears (s : State) (n : String) (h : Good s) (m : Cmap)
    (hm : (stepTotal s (.setUnicodes n [])).uni = some m) (hn : (abs s n).isSome) (c : Nat) : n ∉ namesAt m c := by
  obtain ⟨hg, ha⟩ := step_refines (.setUnicodes n []) h trivial
  intro hmem
  obtain ⟨r, hr, hc⟩ := (uniInv_mem hg.uni hm c n).mp hmem
  rw [ha] at hr
  cases hh : abs s n with
  | none => simp [hh] at hn
  | some r0 =>
    simp [specTotal, specStep, hh, upd, withUnicodes] at hr
    subst hr
    simp at hc

/-! ### several layers; `font.unicodeData` -/

open Layers in
/-- For EVERY layer of the font — default or not, opened from disk or created in memory — in every state
reachable by operations on any of the layers, operations through the Font API, changes of the default layer,
new layers, saves and look-ups: the layer's unicode map, once it exists, is the inverse of THAT layer's glyphs. -/
theorem uni_inverse_layers (fs : FState) (ops : List FOp) (h : FGood fs) (hops : ∀ op ∈ ops, FOpOK op)
    (l : String) (s : State) (m : Cmap) (hl : AL.get? (Layers.run fs ops).layers l = some s) (hm : s.uni = some m)
    (c : Nat) (n : String) : n ∈ namesAt m c ↔ ∃ r, abs s n = some r ∧ c ∈ r.unicodes :=
  uniInv_mem (good_of_get (good_run h ops hops) hl).uni hm c n

open Layers in
/-- `font.unicodeData` is the unicode data of whichever layer is the default one at that moment: after a change
of the default layer it is the inverse of the NEW default layer's glyphs. -/
theorem font_unicodeData_follows_default (fs : FState) (ops : List FOp) (h : FGood fs) (hops : ∀ op ∈ ops, FOpOK op)
    (l : String) (s : State) (m : Cmap) (hl : AL.get? (Layers.run fs ops).layers l = some s)
    (hm : fontUni (Layers.step (Layers.run fs ops) (.setDefault l)) = some m) (c : Nat) (n : String) :
    n ∈ namesAt m c ↔ ∃ r, abs s n = some r ∧ c ∈ r.unicodes := by
  have hc : AL.contains (Layers.run fs ops).layers l = true := by simp [AL.contains, hl]
  simp only [fontUni, defaultLayer, Layers.step, hc, if_true, hl, Option.bind_some] at hm
  exact uni_inverse_layers fs ops h hops l s m hl hm c n

open Layers in
/-- What `unicodeForGlyphName` of a layer's data answers (as the code stands): the first code point of the glyph
of that name in the font's DEFAULT layer — `UnicodeData.unicodeForGlyphName` goes through `self.font` — which is
the layer's own glyph exactly when the data are the default layer's (`font.unicodeData`). -/
theorem forward_lookup_layers (fs : FState) (h : FGood fs) (l n : String) (d : State)
    (hd : defaultLayer fs = some d) :
    Layers.fwdOn fs l n = (abs d n).bind (fun r => r.unicodes.head?) := by
  unfold Layers.fwdOn
  rw [hd]
  exact (fwd_spec (good_of_get h hd) n).2.2

/-! ### non-vacuity -/

def demoDisk : List (String × GRec) :=
  [("A", { unicodes := [65] }), ("B", { unicodes := [66, 65] }), ("C", {})]

def demoOps : List Op :=
  [.delete "A", .touchUni, .rename "B" "D", .new "A", .setUnicodes "A" [66, 67], .insert "C" { unicodes := [65] }]

example : Good (opened demoDisk) := good_opened demoDisk (by decide) (by decide)
example : OpsOK (abs (opened demoDisk)) demoOps := by decide
example : OpsNodup demoOps := by decide
example : RecsOK (opened []) := by intro n r h; simp [abs, opened] at h
example : (run (opened demoDisk) demoOps).uni = some [(66, ["D", "A"]), (65, ["D", "C"]), (67, ["A"])] := by decide
/-- before the F4 fix the first access after deleting an unread glyph listed the stale name;
the model of the fixed code does not -/
example : (run (opened demoDisk) [.delete "A", .touchUni]).uni = some [(66, ["B"]), (65, ["B"])] := by decide

/-- the widened domain: a list that repeats a code point, a reordering, a rename onto a present name, the single
value setter, an empty assignment, a reload of an unread and of a read glyph, `newGlyph` over a present name -/
def wideOps : List Op :=
  [.get "A", .setUnicodes "A" [65, 65, 67], .touchUni, .setUnicodes "A" [67, 65, 65], .rename "A" "B",
   .setUnicode "C" (some 66), .reload "C" { unicodes := [70] }, .setUnicodes "B" [], .new "C", .fwd "B", .pseudo "C.alt"]
example : OpsOK (abs (opened demoDisk)) wideOps := by decide
/-- the lazy constructor lists a loaded glyph once per element of its list … -/
example : (run (opened demoDisk) [.get "A", .setUnicodes "A" [65, 65, 67], .touchUni]).uni =
    some [(65, ["A", "A", "B"]), (67, ["A"]), (66, ["B"])] := by decide
/-- … a rename onto the present name "B" replaces that glyph: its code point 66 leaves the map (F107) -/
example : (run (opened demoDisk) [.touchUni, .rename "A" "B"]).uni = some [(65, ["B"])] := by decide
example : visible (run (opened demoDisk) [.touchUni, .rename "A" "B"]) = ["B", "C"] := by decide
/-- … a reload of the unread glyph "A" after the map was built moves it to the code points of the new file (F108) -/
example : (run (opened demoDisk) [.touchUni, .reload "A" { unicodes := [70] }]).uni =
    some [(65, ["B"]), (66, ["B"]), (70, ["A"])] := by decide
example : (run (opened demoDisk) wideOps).uni = some [] := by decide
example : (fwd (run (opened demoDisk) [.touchUni]) "B").2 = some 66 := by decide
example : (pseudo (opened [("f", { unicodes := [102] }), ("f_i", {}), ("f.alt", {})]) "f_i").2 = some 102 := by decide
example : baseName "f.alt" = some "f" ∧ baseName ".notdef" = none ∧ baseName "A" = none := by decide
example : glyphNameForUnicode [(65, ["A", "B"])] 65 = some "A" ∧ hasCode [(65, ["A", "B"])] 66 = false := by decide
example : MapWF [(65, ["A", "A", "B"])] := ⟨by decide, by decide⟩
example : (namesAt (uniRemove [(65, ["A", "A", "B"])] "A" [65]) 65) = ["A", "B"] := by decide

/-- two layers: the background has its own glyphs "A" (97) and "C"; the foreground is the default layer -/
def demoFont : Layers.FState :=
  Layers.opened [("fg", demoDisk), ("bg", [("A", { unicodes := [97] }), ("C", { unicodes := [67, 65] })])] "fg"
def demoFontOps : List Layers.FOp :=
  [.on "bg" .touchUni, .on "bg" (.rename "A" "C"), .setDefault "bg", .font .touchUni, .font (.new "Z"),
   .font (.setUnicodes "Z" [90]), .newLayer "sk", .on "sk" (.new "A"), .on "sk" (.setUnicode "A" (some 65)), .save,
   .fwdOn "fg" "Z"]
example : Layers.FGood demoFont := Layers.good_opened _ _ (by decide) (by decide)
example : ∀ op ∈ demoFontOps, Layers.FOpOK op := by decide
example : Layers.fontUni (Layers.run demoFont demoFontOps) = some [(97, ["C"]), (90, ["Z"])] := by decide
example : (Layers.run demoFont demoFontOps).default = "bg" := by decide
/-- `unicodeForGlyphName` of the foreground's data answers from the default layer (now the background) -/
example : Layers.fwdOn (Layers.run demoFont demoFontOps) "fg" "C" = some 97 := by decide

end DefconModel.Props.C09
