/-
C17 — Geometry and metrics obey their laws.

Property theorems about M-Geom (`DefconModel/Geom.lean`: executable model of the geometry code of
defcon's Contour/Glyph/Component/Anchor/Image and of the fontTools pens it runs on).  Helper
lemmas are in `Lemmas/Geom/*.lean`, specification-side definitions in `Spec/Geom.lean`.

Coordinates are rationals (every int and every float is one).  `o : CurveOracle` stands for
fontTools' numeric curve-extrema functions; theorems that involve curve bounds hold for every
oracle obeying `CurveOracle.Lawful` (contains its curve, lies in the control box, commutes with
translation) — the exact extrema box does, and so does `hullOracle` (theorem `oracle_laws_hold`).

Section 7 is about glyphs WITH COMPONENTS: the whole-glyph laws, the component as the affine image
of its base glyph's outline (points and area), `Glyph.move` and the margin setters as operations on
a layer in which the glyph is looked up again, and the cache layer (`DefconModel/GeomCache.lean`:
cached component bounds / control bounds and cached glyph area, evicted by edits of the base
glyphs through every nesting level), which answers what the functional definition answers.
-/
import DefconModel.Lemmas.Geom

namespace DefconModel.Props.C17
open DefconModel DefconModel.Geom

/-! ## 1. Bounds lie within control-point bounds, and both contain the outline -/

/-- A cubic Bézier never leaves the range of its four control values (Bernstein weights are
non-negative and sum to 1) — over any linearly ordered field, so over ℚ and ℝ alike. -/
theorem cubic_in_hull {K : Type} [Field K] [LinearOrder K] [IsStrictOrderedRing K] (a b c d t lo hi : K)
    (h0 : 0 ≤ t) (h1 : t ≤ 1) (ha : lo ≤ a ∧ a ≤ hi) (hb : lo ≤ b ∧ b ≤ hi) (hc : lo ≤ c ∧ c ≤ hi)
    (hd : lo ≤ d ∧ d ≤ hi) :
    lo ≤ (1 - t) ^ 3 * a + 3 * (1 - t) ^ 2 * t * b + 3 * (1 - t) * t ^ 2 * c + t ^ 3 * d ∧
    (1 - t) ^ 3 * a + 3 * (1 - t) ^ 2 * t * b + 3 * (1 - t) * t ^ 2 * c + t ^ 3 * d ≤ hi :=
  ⟨cubic_ge a b c d t lo h0 h1 ha.1 hb.1 hc.1 hd.1, cubic_le a b c d t hi h0 h1 ha.2 hb.2 hc.2 hd.2⟩

/-- … the same for a quadratic Bézier. -/
theorem quadratic_in_hull {K : Type} [Field K] [LinearOrder K] [IsStrictOrderedRing K] (a b c t lo hi : K)
    (h0 : 0 ≤ t) (h1 : t ≤ 1) (ha : lo ≤ a ∧ a ≤ hi) (hb : lo ≤ b ∧ b ≤ hi) (hc : lo ≤ c ∧ c ≤ hi) :
    lo ≤ (1 - t) ^ 2 * a + 2 * (1 - t) * t * b + t ^ 2 * c ∧
    (1 - t) ^ 2 * a + 2 * (1 - t) * t * b + t ^ 2 * c ≤ hi :=
  ⟨quad_ge a b c t lo h0 h1 ha.1 hb.1 hc.1, quad_le a b c t hi h0 h1 ha.2 hb.2 hc.2⟩

/-- Every point of the outline of a contour — at every parameter of every line, quadratic and
cubic segment, closing line included — lies in the contour's `controlPointBounds`. -/
theorem outline_within_control_bounds (pts : List Point) (q : Pt) (hq : OnPath none (prims pts) q) :
    ∃ b, freshCpb pts = some b ∧ b.Has q :=
  onPath_in_ctrlFold (prims pts) none none q (by intro s c h; cases h) hq

/-- `bounds` lies within `controlPointBounds`, whatever a lawful curve-extrema oracle answers
(in particular: BoundsPen's shortcut "skip the curve when its handles are inside" never lets the
box exceed the control box). -/
theorem bounds_within_control_bounds {o : CurveOracle} (ho : o.Lawful) (pts : List Point) :
    OWithin (freshBnd o pts) (freshCpb pts) :=
  bndBox_within_ctrlBox ho (Blocks.prims pts)

/-- `bounds` contains every point of the outline (BoundsPen's shortcut never cuts a curve off). -/
theorem outline_within_bounds {o : CurveOracle} (ho : o.Lawful) (pts : List Point) (q : Pt)
    (hq : OnPath none (prims pts) q) : ∃ b, freshBnd o pts = some b ∧ b.Has q :=
  onPath_in_bndBox ho (Blocks.prims pts) q hq

/-- `controlPointBounds` equals the independent computation: the plain min/max box over all the
contour's points — through point-pen rotation, segment grouping, the implied closing line and
implied quadratic points (which, being midpoints, never widen the box).  For every valid contour
(closed without `move`, or open not ending in off-curves) that draws without error. -/
theorem control_bounds_is_box_of_points (pts : List Point) (hshape : ReversibleShape pts)
    (herr : drawErr pts = none) : freshCpb pts = boxOfPts (pts.map (·.pt)) :=
  freshCpb_eq_boxOfPts pts hshape herr

/-- On an outline of straight lines `bounds` is the same box as `controlPointBounds` — hence (by
the previous theorem) the plain min/max box of the points: the exact independent computation. -/
theorem line_outline_bounds_is_control_bounds (o : CurveOracle) (pts : List Point) (h : allOn pts = true) :
    freshBnd o pts = freshCpb pts :=
  freshBnd_eq_freshCpb_of_allOn o pts h

/-- The same two facts for a component (base glyph drawn through its transformation, nested
components included): its `bounds` lie within its `controlPointBounds`. -/
theorem component_bounds_within_control_bounds {o : CurveOracle} (ho : o.Lawful) (w : World) (k : Component)
    (b c : Option Box) (hb : k.bounds o w = .ok b) (hc : k.cpb w = .ok c) : OWithin b c := by
  unfold Component.bounds at hb
  unfold Component.cpb at hc
  cases h : componentCalls w k with
  | error e => rw [h] at hb; cases hb
  | ok cs =>
    rw [h] at hb hc
    cases hb; cases hc
    exact bndBox_within_ctrlBox ho (Blocks.componentCalls w k cs h)

/-- The oracle laws are satisfiable: the box of the control points obeys them (the driver runs with
it; the exact extrema box obeys them too, by `cubic_in_hull`/`quadratic_in_hull`). -/
theorem oracle_laws_hold : hullOracle.Lawful := hullOracle_lawful

/-! Non-vacuity: a concrete contour (line + cubic + quadratic with an implied point, a dyadic
coordinate) that draws without error, a point on its outline (middle of the first line), and its
boxes; a component with a flip whose bounds and control bounds exist. -/
example : drawErr Ex.closed = none := by decide +kernel
example : OnPath none (prims Ex.closed) ⟨50, 0⟩ := by
  have h : prims Ex.closed = [.moveTo ⟨0, 0⟩, .lineTo ⟨100, 0⟩, .curveTo ⟨150, 1 / 2⟩ ⟨150, 80⟩ ⟨100, 100⟩,
     .qCurveTo ⟨60, 140⟩ ⟨40, 140⟩, .qCurveTo ⟨20, 140⟩ ⟨0, 100⟩, .closePath] := by decide +kernel
  rw [h]
  right; left
  exact ⟨1 / 2, by norm_num, by norm_num, by simp [Prim.at, Pt.lerp, lerp]; norm_num⟩
example : freshCpb Ex.closed = some ⟨0, 0, 150, 140⟩ := by decide +kernel
example : allOn Ex.square = true ∧ freshBnd hullOracle Ex.square = some ⟨10, 20, 110, 120⟩ := by decide +kernel
example : boxOfPts (Ex.opened.map (·.pt)) = some ⟨0, -5 / 8, 100, 60⟩ ∧ drawErr Ex.opened = none := by decide +kernel
example : freshBnd hullOracle Ex.closed = some ⟨0, 0, 150, 140⟩ := by decide +kernel
example : Component.bounds hullOracle Ex.world ⟨"base", ⟨-1, 0, 0, 1, 40, -7 / 2⟩⟩ = .ok (some ⟨-110, -7 / 2, 40, 273 / 2⟩) := by
  decide +kernel
example : Component.cpb Ex.world ⟨"base", ⟨-1, 0, 0, 1, 40, -7 / 2⟩⟩ = .ok (some ⟨-110, -7 / 2, 40, 273 / 2⟩) := by
  decide +kernel

/-! ## 2. Moving by (dx, dy) translates coordinates, bounds, control bounds; area unchanged -/

/-- `Contour.move` adds `(dx, dy)` to every point and changes nothing else about the points. -/
theorem move_points (c : Contour) (dx dy : Rat) :
    (c.move dx dy).points = c.points.map (fun p => { p with pt := ⟨p.pt.x + dx, p.pt.y + dy⟩ }) := rfl

/-- Recomputed from the moved points, `controlPointBounds` is the old box moved by `(dx, dy)`. -/
theorem move_translates_control_bounds (pts : List Point) (dx dy : Rat) :
    freshCpb (pts.map (·.move dx dy)) = (freshCpb pts).map (·.shift dx dy) :=
  freshCpb_move dx dy pts

/-- Recomputed from the moved points, `bounds` is the old box moved by `(dx, dy)`. -/
theorem move_translates_bounds {o : CurveOracle} (ho : o.Lawful) (pts : List Point) (dx dy : Rat) :
    freshBnd o (pts.map (·.move dx dy)) = (freshBnd o pts).map (·.shift dx dy) :=
  freshBnd_move dx dy ho pts

/-- The signed area (hence `area` and `clockwise`) of the moved points is unchanged: the changes of
the individual pen terms cancel when the sub path closes. -/
theorem move_keeps_area (pts : List Point) (dx dy : Rat) :
    freshArea (pts.map (·.move dx dy)) = freshArea pts :=
  freshArea_move dx dy pts

/-- `Contour.move` patches the cached `bounds` in place instead of recomputing.  That is right:
reading `bounds` and then moving leaves the same contour (points *and* caches) as moving and then
reading, and the two answers differ by exactly `(dx, dy)` — for any cache state, any vector. -/
theorem move_commutes_with_reading_bounds {o : CurveOracle} (ho : o.Lawful) (caching : Bool) (c : Contour)
    (dx dy : Rat) :
    (c.move dx dy).getBounds o caching =
      (((c.getBounds o caching).1).move dx dy, ((c.getBounds o caching).2).map (Option.map (·.shift dx dy))) :=
  Contour.getBounds_move dx dy ho caching c

/-- … the same for `controlPointBounds` … -/
theorem move_commutes_with_reading_control_bounds (caching : Bool) (c : Contour) (dx dy : Rat) :
    (c.move dx dy).getCpb caching =
      (((c.getCpb caching).1).move dx dy, ((c.getCpb caching).2).map (Option.map (·.shift dx dy))) :=
  Contour.getCpb_move dx dy caching c

/-- … and for the area representation, which `move` leaves in the cache untouched. -/
theorem move_commutes_with_reading_area (caching : Bool) (c : Contour) (dx dy : Rat) :
    (c.move dx dy).getArea caching = (((c.getArea caching).1).move dx dy, (c.getArea caching).2) :=
  Contour.getArea_move dx dy caching c

/-- `Component.move` translates the component's `bounds` and `controlPointBounds` (its outline is
the base glyph's under the transformation; nested components included). -/
theorem component_move_translates {o : CurveOracle} (ho : o.Lawful) (w : World) (k : Component) (dx dy : Rat) :
    (k.move dx dy).bounds o w = (k.bounds o w).map (Option.map (·.shift dx dy)) ∧
    (k.move dx dy).cpb w = (k.cpb w).map (Option.map (·.shift dx dy)) :=
  ⟨Component.bounds_move dx dy ho w k, Component.cpb_move dx dy w k⟩

/-- `Glyph.move` moves every contour, component and anchor by `(dx, dy)` and nothing else. -/
theorem glyph_move_parts (g : Glyph) (dx dy : Rat) :
    (g.move dx dy).contours = g.contours.map (·.move dx dy) ∧
    (g.move dx dy).components = g.components.map (·.move dx dy) ∧
    (g.move dx dy).anchors = g.anchors.map (·.shift dx dy) ∧
    (g.move dx dy).width = g.width ∧ (g.move dx dy).height = g.height ∧ (g.move dx dy).vo = g.vo ∧
    (g.move dx dy).image = g.image := ⟨rfl, rfl, rfl, rfl, rfl, rfl, rfl⟩

/-- `Glyph.move` translates the glyph's `bounds` and `controlPointBounds` by `(dx, dy)`, whatever is
cached in its contours, and leaves its `area` unchanged (base glyphs looked up in the same layer:
the glyph is not its own base). -/
theorem glyph_move_translates {o : CurveOracle} (ho : o.Lawful) (w : World) (g : Glyph) (dx dy : Rat) :
    ((g.move dx dy).getBounds o w).2 = (g.getBounds o w).2.map (Option.map (·.shift dx dy)) ∧
    ((g.move dx dy).getCpb w).2 = (g.getCpb w).2.map (Option.map (·.shift dx dy)) ∧
    (g.move dx dy).area w = g.area w := by
  refine ⟨?_, ?_, Glyph.area_move dx dy w g⟩
  · rw [Glyph.getBounds_move dx dy ho]
  · rw [Glyph.getCpb_move dx dy]

/-! Non-vacuity: the example contour has a non-zero area, which a non-trivial dyadic move keeps
while the boxes shift. -/
example : freshArea Ex.closed = 184555 / 12 := by decide +kernel
example : freshArea (Ex.closed.map (·.move (3 / 2) (-4))) = 184555 / 12 := by decide +kernel
example : freshCpb (Ex.closed.map (·.move (3 / 2) (-4))) = some ⟨3 / 2, -4, 303 / 2, 136⟩ := by decide +kernel
example : ((Ex.base.move 1 1).getBounds hullOracle Ex.world).2 = .ok (some ⟨1, 1, 151, 141⟩) := by decide +kernel

/-! ## 3. Cached values always equal an independent (fresh) computation -/

/-- In every state reachable from an empty layer by any sequence of the modelled operations
(reads that fill caches, moves that patch them, reversals/rotations that drop them, margin
setters …) every cached representation of every contour equals what its factory computes from the
current points. -/
theorem caches_coherent_in_every_reachable_state {o : CurveOracle} (ho : o.Lawful) (caching : Bool)
    (ops : List Op) (hops : ∀ op ∈ ops, op.fresh) :
    (run o { caching := caching, glyphs := [] } ops).1.CacheOK o :=
  run_cacheOK ho ops hops (by intro ng h; cases h)

/-- Hence what `bounds`, `controlPointBounds` and the area representation answer is exactly the
fresh computation over the current points (or the exception drawing them raises), cached or not. -/
theorem reads_answer_the_fresh_computation {o : CurveOracle} (c : Contour) (h : c.CacheOK o) (caching : Bool) :
    (c.getBounds o caching).2 = answer (drawErr c.points) (freshBnd o c.points) ∧
    (c.getCpb caching).2 = answer (drawErr c.points) (freshCpb c.points) ∧
    (c.getArea caching).2 = answer (drawErr c.points) (freshArea c.points) :=
  ⟨(h.getBounds caching).2.2, (h.getCpb caching).2.2, (h.getArea caching).2.2⟩

/-! Non-vacuity: a history that reads, moves (patching filled caches), reverses, rotates and sets
margins consists of fresh operations; it runs without error in the model and ends in a state with
filled caches. -/
example : ∀ op ∈ Ex.history, op.fresh := by
  intro op h
  simp only [Ex.history, List.mem_cons, List.not_mem_nil, or_false] at h
  rcases h with rfl | rfl | rfl | rfl | rfl | rfl | rfl | rfl | rfl | rfl | rfl | rfl | rfl | rfl <;>
    first
      | trivial
      | (intro c hc
         simp only [Ex.base, Ex.composite, List.mem_cons, List.not_mem_nil, or_false] at hc
         rcases hc with rfl | rfl <;> exact ⟨rfl, rfl, rfl⟩)
example : ((run hullOracle {} Ex.history).2.map (fun r => match r with | .err _ => false | _ => true)).all id = true := by
  decide +kernel
example : ((run hullOracle {} Ex.history).1.glyphs.any
    (fun ng => ng.2.contours.any (fun c => c.bnd.isSome || c.cpb.isSome))) = true := by
  decide +kernel

/-! ## 4. Reversing a contour -/

/-- Reversing keeps the point set: every point with its position, smooth flag, name and identifier
is still there, in another order (closed contours; open contours not ending in off-curves). -/
theorem reverse_keeps_points (pts : List Point) (h : ReversibleShape pts) :
    ((reversePoints pts).map Point.core).Perm (pts.map Point.core) :=
  reversePoints_perm pts h

/-- Reversing keeps closedness. -/
theorem reverse_keeps_closedness (pts : List Point) (h : ReversibleShape pts) :
    isOpen (reversePoints pts) = isOpen pts :=
  reversePoints_isOpen pts h

/-- Reversing twice restores the point sequence — positions, segment types, smooth flags, names and
identifiers. -/
theorem reverse_twice_restores (pts : List Point) (h : ReversibleShape pts) :
    reversePoints (reversePoints pts) = pts :=
  reversePoints_reversePoints pts h

/-- Reversing negates the signed area AreaPen computes — so `area` is kept and `clockwise` flips —
and the reversed contour is again a valid contour that draws without error.  For every valid
contour: closed (lines, cubics, quadratics with implied points, starting anywhere, also on an
off-curve point), made of off-curve points only, open (area of the implicitly closed path), one
point, empty. -/
theorem reverse_negates_area (pts : List Point) (hshape : ReversibleShape pts) (herr : drawErr pts = none) :
    freshArea (reversePoints pts) = - freshArea pts ∧ ReversibleShape (reversePoints pts) ∧
    drawErr (reversePoints pts) = none :=
  reverse_area_all pts hshape herr

/-- Hence reversing flips the direction (`clockwise` = signed area < 0) of every contour of non-zero
area, and keeps `area` = |signed area|. -/
theorem reverse_flips_direction (pts : List Point) (hshape : ReversibleShape pts) (herr : drawErr pts = none)
    (hne : freshArea pts ≠ 0) :
    (freshArea (reversePoints pts) < 0 ↔ ¬ freshArea pts < 0) ∧
    absR (freshArea (reversePoints pts)) = absR (freshArea pts) := by
  rw [(reverse_area_all pts hshape herr).1]
  constructor
  · constructor
    · intro h h'; linarith
    · intro h
      rcases lt_trichotomy (freshArea pts) 0 with h' | h' | h'
      · exact absurd h' h
      · exact absurd h' hne
      · linarith
  · unfold absR
    split_ifs <;> linarith

/-- Reversing keeps `controlPointBounds`. -/
theorem reverse_keeps_control_bounds (pts : List Point) (hshape : ReversibleShape pts) (herr : drawErr pts = none) :
    freshCpb (reversePoints pts) = freshCpb pts := by
  obtain ⟨_, hshape', herr'⟩ := reverse_area_all pts hshape herr
  rw [freshCpb_eq_boxOfPts _ hshape' herr', freshCpb_eq_boxOfPts _ hshape herr]
  apply boxOfPts_perm
  have := (reversePoints_perm pts hshape).map (fun c => c.1)
  simpa [Point.core, List.map_map, Function.comp_def] using this

/-- A closed contour keeps its first point first when reversed. -/
theorem reverse_keeps_first_point (p0 : Point) (rest : List Point) (h : p0.seg ≠ some .move) :
    ((reversePoints (p0 :: rest)).map Point.core).head? = some p0.core :=
  reversePoints_head_closed p0 rest h

/-! Non-vacuity: both shapes occur; the reversed example differs from the original. -/
example : ReversibleShape Ex.closed := by decide
example : ReversibleShape Ex.opened := by decide
example : reversePoints Ex.closed ≠ Ex.closed := by decide +kernel
example : reversePoints Ex.opened ≠ Ex.opened := by decide +kernel
example : drawErr Ex.opened = none ∧ freshArea Ex.closed ≠ 0 ∧ freshArea Ex.opened ≠ 0 := by decide +kernel
example : freshArea (reversePoints Ex.closed) = -184555 / 12 := by decide +kernel

/-! ## 5. Changing the start point -/

/-- A successful `setStartPoint` either did nothing (open contour, or fewer than two on-curve
points) or rotated the point sequence of a closed contour so that the chosen on-curve point comes
first (Python index semantics, negative indices included), dropping the cached representations. -/
theorem setStartPoint_rotates (c c' : Contour) (i : Int) (h : c.setStartPoint i = .ok c') :
    (c' = c ∧ (onCurveCount c.points < 2 ∨ isOpen c.points = true)) ∨
    (∃ k p, pyIndex c.points.length i = some k ∧ c.points[k]? = some p ∧ p.onCurve = true ∧
      isOpen c.points = false ∧ 2 ≤ onCurveCount c.points ∧
      c' = { points := c.points.drop k ++ c.points.take k }) :=
  setStartPoint_ok h

/-- The rotation keeps the point list up to order, and a closed contour (no `move`) stays closed. -/
theorem setStartPoint_keeps_points_and_closedness (c c' : Contour) (i : Int) (h : c.setStartPoint i = .ok c')
    (hm : noMove c.points = true) :
    c'.points.Perm c.points ∧ isOpen c'.points = isOpen c.points := by
  rcases setStartPoint_ok h with ⟨rfl, _⟩ | ⟨k, p, _, hp, _, hopen, _, rfl⟩
  · exact ⟨List.Perm.refl _, rfl⟩
  · exact ⟨drop_append_take_perm _ _, by rw [hopen]; exact isOpen_rotate hp hm⟩

/-- Changing the start point does not change the shape: the signed area AreaPen computes (hence
`area` and `clockwise`) is the same, and the rotated contour still draws without error — for every
closed contour (lines, cubics, quadratics with implied points) and every admissible index. -/
theorem setStartPoint_keeps_area (c c' : Contour) (i : Int) (h : c.setStartPoint i = .ok c')
    (hm : noMove c.points = true) (herr : drawErr c.points = none) :
    freshArea c'.points = freshArea c.points ∧ drawErr c'.points = none := by
  rcases setStartPoint_ok h with ⟨rfl, _⟩ | ⟨k, p, _, hp, hon, _, h2, rfl⟩
  · exact ⟨rfl, herr⟩
  · have hlen : 2 ≤ c.points.length := by
      have : onCurveCount c.points ≤ c.points.length := List.length_filter_le _ _
      omega
    exact freshArea_rotate c.points hm herr k p hp hon hlen

/-- … nor `controlPointBounds`. -/
theorem setStartPoint_keeps_control_bounds (c c' : Contour) (i : Int) (h : c.setStartPoint i = .ok c')
    (hm : noMove c.points = true) (herr : drawErr c.points = none) (hclosed : isOpen c.points = false) :
    freshCpb c'.points = freshCpb c.points := by
  have hkeep := setStartPoint_keeps_points_and_closedness c c' i h hm
  have herr' := (setStartPoint_keeps_area c c' i h hm herr).2
  have hm' : noMove c'.points = true := by
    simp only [noMove, List.all_eq_true, decide_eq_true_eq] at hm ⊢
    intro p hp
    exact hm p (hkeep.1.mem_iff.1 hp)
  rw [freshCpb_eq_boxOfPts _ (Or.inl ⟨by rw [hkeep.2]; exact hclosed, hm'⟩) herr',
    freshCpb_eq_boxOfPts _ (Or.inl ⟨hclosed, hm⟩) herr]
  exact boxOfPts_perm (hkeep.1.map _)

/-- An index that names an off-curve point is rejected (AssertionError), an index out of range too
(IndexError) — in both cases nothing changes (`setStartPoint` returns no new contour). -/
theorem setStartPoint_rejects (c : Contour) (i : Int) (h2 : 2 ≤ onCurveCount c.points)
    (hopen : isOpen c.points = false) :
    (pyIndex c.points.length i = none → c.setStartPoint i = .error .index) ∧
    (∀ k p, pyIndex c.points.length i = some k → c.points[k]? = some p → p.seg = none →
      c.setStartPoint i = .error .assertion) := by
  have h2' : ¬ onCurveCount c.points < 2 := by omega
  constructor
  · intro h
    simp [Contour.setStartPoint, h2', hopen, h]
  · intro k p hk hp hs
    simp [Contour.setStartPoint, h2', hopen, hk, hp, hs]

/-! Non-vacuity: a rotation that does something (negative index), one that is a no-op (open contour),
and both rejections. -/
example : ({ points := Ex.closed } : Contour).setStartPoint (-4) =
    .ok { points := Ex.closed.drop 4 ++ Ex.closed.take 4 } := by decide +kernel
example : noMove Ex.closed = true := by decide
example : ({ points := Ex.opened } : Contour).setStartPoint 1 = .ok { points := Ex.opened } := by decide +kernel
example : freshArea (Ex.closed.drop 4 ++ Ex.closed.take 4) = 184555 / 12 := by decide +kernel
example : ({ points := Ex.closed } : Contour).setStartPoint 2 = .error .assertion := by decide +kernel
example : ({ points := Ex.closed } : Contour).setStartPoint 8 = .error .index := by decide +kernel

/-! ## 6. The four margin setters

`b` is what `glyph.bounds` answered (`hb`); `g1` is the glyph after that read (its contour caches
filled).  Base glyphs of components are looked up in the same layer before and after: the glyph is
not (transitively) its own base. -/

/-- `leftMargin = v`: the outline is moved so that afterwards `bounds` is the old box shifted by
`v - xMin`; hence the left margin reads back `v`, the right margin is kept, the width grows by the
difference, height and vertical origin are untouched. -/
theorem leftMargin_law {o : CurveOracle} (ho : o.Lawful) (w : World) (g : Glyph) (b : Box) (v : Rat)
    (hb : (g.getBounds o w).2 = .ok (some b)) :
    let g1 := (g.getBounds o w).1
    let g2 := setLeftMargin g1 (some b) v
    let b2 := b.shift (v - b.xMin) 0
    (g2.getBounds o w).2 = .ok (some b2) ∧
    leftMarginOf (some b2) = some v ∧
    rightMarginOf g2 (some b2) = rightMarginOf g1 (some b) ∧
    g2.width = g1.width + (v - b.xMin) ∧ g2.height = g1.height ∧ g2.vo = g1.vo := by
  intro g1 g2 b2
  obtain ⟨hw, hh, hv⟩ := setLeftMargin_metrics g1 b v
  refine ⟨setLeftMargin_bounds ho w g b v hb, ?_, ?_, hw, hh, hv⟩
  · simp [leftMarginOf, b2, Box.shift]
  · simp only [rightMarginOf, Option.map_some, Option.some.injEq, b2, Box.shift, g2]
    rw [hw]; ring

/-- `rightMargin = v`: the outline stays (so `bounds`, and with it the left margin, is unchanged),
the right margin reads back `v`, the width changes by the difference to the old right margin. -/
theorem rightMargin_law (o : CurveOracle) (w : World) (g : Glyph) (b : Box) (v : Rat)
    (hb : (g.getBounds o w).2 = .ok (some b)) :
    let g1 := (g.getBounds o w).1
    let g2 := setRightMargin g1 (some b) v
    (g2.getBounds o w).2 = .ok (some b) ∧
    rightMarginOf g2 (some b) = some v ∧
    g2.width = g1.width + (v - (g1.width - b.xMax)) ∧ g2.height = g1.height ∧ g2.vo = g1.vo := by
  intro g1 g2
  obtain ⟨hc, hk, hh, hv⟩ := setRightMargin_outline g1 (some b) v
  obtain ⟨h1, h2⟩ := setRightMargin_law g1 b v
  refine ⟨?_, h1, h2, hh, hv⟩
  rw [Glyph.getBounds_congr o w g1 g2 hc hk, Glyph.getBounds_idem, hb]

/-- `bottomMargin = v`: the outline stays, the bottom margin reads back `v`, the top margin is kept,
the height changes by the difference to the old bottom margin, the width is untouched — with and
without a vertical origin. -/
theorem bottomMargin_law (o : CurveOracle) (w : World) (g : Glyph) (b : Box) (v old : Rat)
    (hb : (g.getBounds o w).2 = .ok (some b))
    (hold : bottomMarginOf (g.getBounds o w).1 (some b) = some old) :
    let g1 := (g.getBounds o w).1
    let g2 := setBottomMargin g1 (some b) v
    (g2.getBounds o w).2 = .ok (some b) ∧
    bottomMarginOf g2 (some b) = some v ∧
    topMarginOf g2 (some b) = topMarginOf g1 (some b) ∧
    g2.height = g1.height + (v - old) ∧ g2.width = g1.width := by
  intro g1 g2
  obtain ⟨hc, hk, hw⟩ := setBottomMargin_outline g1 (some b) v
  obtain ⟨h1, h2, h3⟩ := setBottomMargin_law g1 b v old hold
  refine ⟨?_, h1, h2, h3, hw⟩
  rw [Glyph.getBounds_congr o w g1 g2 hc hk, Glyph.getBounds_idem, hb]

/-- `topMargin = v`: the outline stays, the top margin reads back `v`, the bottom margin is kept,
the height changes by the difference to the old top margin, the width is untouched — with and
without a vertical origin. -/
theorem topMargin_law (o : CurveOracle) (w : World) (g : Glyph) (b : Box) (v old : Rat)
    (hb : (g.getBounds o w).2 = .ok (some b))
    (hold : topMarginOf (g.getBounds o w).1 (some b) = some old) :
    let g1 := (g.getBounds o w).1
    let g2 := setTopMargin g1 (some b) v
    (g2.getBounds o w).2 = .ok (some b) ∧
    topMarginOf g2 (some b) = some v ∧
    bottomMarginOf g2 (some b) = bottomMarginOf g1 (some b) ∧
    g2.height = g1.height + (v - old) ∧ g2.width = g1.width := by
  intro g1 g2
  obtain ⟨hc, hk, hw⟩ := setTopMargin_outline g1 (some b) v
  obtain ⟨h1, h2, h3⟩ := setTopMargin_law g1 b v old hold
  refine ⟨?_, h1, h2, h3, hw⟩
  rw [Glyph.getBounds_congr o w g1 g2 hc hk, Glyph.getBounds_idem, hb]

/-- Remark (finding F26, property C02 — recorded there, no C17 law is broken by it): assigning the
bottom margin its current value still creates a vertical origin when the glyph had none; all four
margins, width and height read back unchanged. -/
theorem bottomMargin_same_value_creates_vertical_origin (g : Glyph) (b : Box) (h : g.vo = none) :
    let g2 := setBottomMargin g (some b) b.yMin
    g2.vo = some g.height ∧ g2.height = g.height ∧ g2.width = g.width ∧
    bottomMarginOf g2 (some b) = bottomMarginOf g (some b) ∧ topMarginOf g2 (some b) = topMarginOf g (some b) := by
  simp [setBottomMargin, bottomMarginOf, topMarginOf, h]

/-- A glyph without outline has no margins, and the setters leave it alone. -/
theorem margins_of_empty_outline (g : Glyph) (v : Rat) :
    leftMarginOf none = none ∧ rightMarginOf g none = none ∧ bottomMarginOf g none = none ∧
    topMarginOf g none = none ∧ setLeftMargin g none v = g ∧ setRightMargin g none v = g ∧
    setBottomMargin g none v = g ∧ setTopMargin g none v = g :=
  ⟨rfl, rfl, rfl, rfl, rfl, rfl, rfl, rfl⟩

/-! Non-vacuity: the example glyphs have bounds (hypothesis `hb`), with a vertical origin (`base`) and
without (`composite`, which has a flipped component), and the setters change something. -/
example : (Ex.base.getBounds hullOracle Ex.world).2 = .ok (some ⟨0, 0, 150, 140⟩) := by decide +kernel
example : (Ex.composite.getBounds hullOracle Ex.world).2 = .ok (some ⟨-110, -7 / 2, 110, 273 / 2⟩) := by decide +kernel
example : bottomMarginOf (Ex.base.getBounds hullOracle Ex.world).1 (some ⟨0, 0, 150, 140⟩) = some 50 := by
  decide +kernel
example : topMarginOf (Ex.composite.getBounds hullOracle Ex.world).1 (some ⟨-110, -7 / 2, 110, 273 / 2⟩) = some (-273 / 2) := by
  decide +kernel
example : (setLeftMargin (Ex.composite.getBounds hullOracle Ex.world).1 (some ⟨-110, -7 / 2, 110, 273 / 2⟩) 25).width = 435 := by
  decide +kernel

/-! ## 7. Glyphs with components

`w` is the layer the base glyphs are looked up in (by name, at the moment of drawing, as
`DecomposingPen.addComponent` does); nesting is followed to any depth up to the fuel of `glyphCalls`. -/

/-- `glyph.bounds` lies within `glyph.controlPointBounds` for the whole glyph — the union over its
contours (cached or not, the caches being coherent) and over its components, each component being
its base glyph's outline drawn through the 2×3 transformation, nested components included. -/
theorem bounds_within_control_glyph {o : CurveOracle} (ho : o.Lawful) (w : World) (g : Glyph) (hg : g.CacheOK o)
    (b cb : Option Box) (hb : (g.getBounds o w).2 = .ok b) (hcb : (g.getCpb w).2 = .ok cb) : OWithin b cb :=
  Glyph.bounds_within_cpb ho w g hg hb hcb

/-- What a glyph sends to a pen through `TransformPen(pen, t)` is, call by call, the `t`-image of what
it sends directly — on every nesting level (the transformations of nested components compose). -/
theorem transformed_glyph_draws_the_image (w : World) (fuel : Nat) (t : Transform) (g : Glyph) :
    glyphCalls w fuel (some t) g = mapCalls (Call.transform t) (glyphCalls w fuel none g) :=
  glyphCalls_some t w fuel g

/-- A component is the affine image of its base glyph: every point `q` of the base glyph's outline
(any parameter of any segment, nested components included) is mapped by the component's
transformation into the component's `bounds` and `controlPointBounds` — bounds of the transformed
outline, not transformed bounds (affine maps keep the convex combinations Bézier points are). -/
theorem component_outline_within_bounds {o : CurveOracle} (ho : o.Lawful) (w : World) (k : Component) (bg : Glyph)
    (cs0 : List Call) (hbase : AL.get? w.glyphs k.base = some bg) (hcs : glyphCalls w fuelDefault none bg = .ok cs0)
    (q : Pt) (hq : OnPath none (expand cs0) q) :
    (∃ b, k.bounds o w = .ok (some b) ∧ b.Has (k.t.apply q)) ∧
    (∃ c, k.cpb w = .ok (some c) ∧ c.Has (k.t.apply q)) := by
  have hcalls : componentCalls w k = .ok (cs0.map (Call.transform k.t)) := by
    simp only [componentCalls, hbase, glyphCalls_some, hcs, mapCalls]
  have hblocks : Blocks (expand (cs0.map (Call.transform k.t))) := Blocks.componentCalls w k _ hcalls
  have hq' : OnPath none (expand (cs0.map (Call.transform k.t))) (k.t.apply q) := by
    rw [expand_transform]
    exact OnPath.transform k.t hq
  constructor
  · obtain ⟨b, hb, hh⟩ := onPath_in_bndBox ho hblocks _ hq'
    exact ⟨b, by simp only [Component.bounds, hcalls, Except.map, hb], hh⟩
  · obtain ⟨c, hc, hh⟩ := onPath_in_ctrlFold _ none none _ (by intro s c h; cases h) hq'
    exact ⟨c, by simp only [Component.cpb, hcalls, Except.map]; exact congrArg _ hc, hh⟩

/-- The signed area AreaPen accumulates for a component is the determinant of its transformation
times the signed area of its base glyph's outline (so a flip — negative determinant — reverses the
direction it counts with), and drawing the image raises no "open contour" error where the original
raises none. -/
theorem component_area_is_determinant_times_base (w : World) (k : Component) (bg : Glyph) (cs0 : List Call)
    (hbase : AL.get? w.glyphs k.base = some bg) (hcs : glyphCalls w fuelDefault none bg = .ok cs0)
    (herr : (areaRun false (expand cs0)).openErr = false) :
    ∃ cs, componentCalls w k = .ok cs ∧ (areaRun false (expand cs)).openErr = false ∧
      signedArea cs = k.t.det * signedArea cs0 := by
  refine ⟨cs0.map (Call.transform k.t), ?_, ?_⟩
  · simp only [componentCalls, hbase, glyphCalls_some, hcs, mapCalls]
  · have := areaRun_transform k.t false (Blocks.glyphCalls w _ _ _ cs0 hcs) herr
    simpa [signedArea, expand_transform] using this

/-- The signed area of an outline is the sum over its parts (a glyph's own contours, then each
component's contribution): AreaPen starts every sub path afresh. -/
theorem area_adds_over_parts (a b : List Call) (hb : Blocks (expand b)) :
    signedArea (a ++ b) = signedArea a + signedArea b ∧
    (areaRun false (expand (a ++ b))).openErr =
      ((areaRun false (expand a)).openErr || (areaRun false (expand b)).openErr) := by
  simp only [signedArea, expand_append]
  exact areaRun_append false (expand a) hb

/-- `Glyph.move` as an operation on the layer: after `layer[n].move((dx, dy))` the glyph found under
`n` is the moved one (contours, component offsets, anchors), and — the glyph not being built on
itself — its `bounds` and `controlPointBounds` in the new layer are the old ones shifted by
`(dx, dy)`, its `area` is the old one.  Any nesting depth of its components. -/
theorem glyph_move_translates_in_layer {o : CurveOracle} (ho : o.Lawful) (w : World) (n : String) (g : Glyph)
    (hg : AL.get? w.glyphs n = some g) (hself : g.Avoids w n) (dx dy : Rat) :
    AL.get? (step o w (.gMove n dx dy)).1.glyphs n = some (g.move dx dy) ∧
    ((g.move dx dy).getBounds o (step o w (.gMove n dx dy)).1).2 = (g.getBounds o w).2.map (Option.map (·.shift dx dy)) ∧
    ((g.move dx dy).getCpb (step o w (.gMove n dx dy)).1).2 = (g.getCpb w).2.map (Option.map (·.shift dx dy)) ∧
    (g.move dx dy).area (step o w (.gMove n dx dy)).1 = g.area w :=
  gMove_in_layer ho hg hself dx dy

/-- The four margin setters on a glyph that has components, as operations on the layer followed by
reads: with `b` the glyph's bounds (contours and components) before,
* `leftMargin = v`: the margins read `v`, old right, old bottom, old top; the width grew by `v - old left`;
* `rightMargin = v`: old left, `v`, old bottom, old top; the width changed by `v - old right`;
* `bottomMargin = v`: old left, old right, `v`, old top; the height changed by `v - old bottom`;
* `topMargin = v`: old left, old right, old bottom, `v`; the height changed by `v - old top`;
with and without a vertical origin; height resp. width otherwise untouched. -/
theorem margin_laws_with_components {o : CurveOracle} (ho : o.Lawful) (w : World) (n : String) (g : Glyph)
    (hg : AL.get? w.glyphs n = some g) (hself : g.Avoids w n) (b : Box) (v oldB oldT : Rat)
    (hb : (g.getBounds o w).2 = .ok (some b)) (hB : bottomMarginOf g (some b) = some oldB)
    (hT : topMarginOf g (some b) = some oldT) :
    ((step o (step o w (.setLeft n v)).1 (.gMargins n)).2 =
        .margins (some v) (rightMarginOf g (some b)) (some oldB) (some oldT) ∧
      (step o (step o w (.setLeft n v)).1 (.gMetrics n)).2 = .metrics (g.width + (v - b.xMin)) g.height g.vo) ∧
    ((step o (step o w (.setRight n v)).1 (.gMargins n)).2 =
        .margins (some b.xMin) (some v) (some oldB) (some oldT) ∧
      (step o (step o w (.setRight n v)).1 (.gMetrics n)).2 =
        .metrics (g.width + (v - (g.width - b.xMax))) g.height g.vo) ∧
    ((step o (step o w (.setBottom n v)).1 (.gMargins n)).2 =
        .margins (some b.xMin) (rightMarginOf g (some b)) (some v) (some oldT) ∧
      ∃ vo', (step o (step o w (.setBottom n v)).1 (.gMetrics n)).2 = .metrics g.width (g.height + (v - oldB)) vo') ∧
    ((step o (step o w (.setTop n v)).1 (.gMargins n)).2 =
        .margins (some b.xMin) (rightMarginOf g (some b)) (some oldB) (some v) ∧
      ∃ vo', (step o (step o w (.setTop n v)).1 (.gMetrics n)).2 = .metrics g.width (g.height + (v - oldT)) vo') := by
  refine ⟨?_, ?_, ?_, ?_⟩
  · have := setLeft_in_layer ho hg hself b v hb
    rwa [hB, hT] at this
  · have := setRight_in_layer hg hself b v hb
    rwa [hB, hT] at this
  · have := setBottom_in_layer hg hself b v oldB hb hB
    rwa [hT] at this
  · have := setTop_in_layer hg hself b v oldT hb hT
    rwa [hB] at this

/-- Base edits are reflected.  Run any history — reads of bounds / control bounds / area / margins of
glyphs and components, margin assignments, and edits of the glyphs they are built on: moves, point
edits, reversals, start points, new transformations and base glyphs, deleting, re-adding and
renaming glyphs, on any nesting level — once with the caches of the code (`crun`: component bounds
and glyph areas answered from the tables, filled by reads, evicted by the notifications the edits
post) and once with the functional definition (`xrun`: everything recomputed from the current
outlines on every request).  The layers stay equal and every answer is the same. -/
theorem base_edit_reflected (o : CurveOracle) (w0 : World) (ops : List XOp) :
    (crun o { w := w0 } ops).1.w = (xrun o w0 ops).1 ∧ (crun o { w := w0 } ops).2 = (xrun o w0 ops).2 :=
  ⟨(crun_refines (CWorld.OK.empty o w0) ops).1, (crun_refines (CWorld.OK.empty o w0) ops).2.1⟩

/-- … because in every reachable state every cached component `bounds` / `controlPointBounds` and every
cached glyph `area` equals what its factory computes from the current layer (the cached value is
never stale: an edit of a base glyph has evicted it). -/
theorem base_edit_reflected_in_caches (o : CurveOracle) (w0 : World) (ops : List XOp) :
    (crun o { w := w0 } ops).1.OK o :=
  (crun_refines (CWorld.OK.empty o w0) ops).2.2

/-- In particular: after any history, what `glyph.bounds`, `glyph.controlPointBounds`, `glyph.area` and
the margins of any glyph `n` answer through the caches is the recomputation over the layer as the
history left it. -/
theorem reads_after_base_edits_are_recomputations (o : CurveOracle) (w0 : World) (ops : List XOp) (n : String) :
    (cstep o (crun o { w := w0 } ops).1 (.base (.gBounds n))).2 = (step o (xrun o w0 ops).1 (.gBounds n)).2 ∧
    (cstep o (crun o { w := w0 } ops).1 (.base (.gCpb n))).2 = (step o (xrun o w0 ops).1 (.gCpb n)).2 ∧
    (cstep o (crun o { w := w0 } ops).1 (.base (.gArea n))).2 = (step o (xrun o w0 ops).1 (.gArea n)).2 ∧
    (cstep o (crun o { w := w0 } ops).1 (.base (.gMargins n))).2 = (step o (xrun o w0 ops).1 (.gMargins n)).2 := by
  obtain ⟨h1, _, h3⟩ := crun_refines (CWorld.OK.empty o w0) ops
  simp only at h1
  rw [← h1]
  exact ⟨(cstep_refines h3 _).2.1, (cstep_refines h3 _).2.1, (cstep_refines h3 _).2.1, (cstep_refines h3 _).2.1⟩

/-- The cached representations of the contours stay coherent under the edits of the second layer too
(a point edit drops them, the other edits leave the contours alone). -/
theorem contour_caches_coherent_under_base_edits {o : CurveOracle} (ho : o.Lawful) (caching : Bool)
    (ops : List XOp) (hops : ∀ op ∈ ops, op.fresh) :
    (xrun o { caching := caching, glyphs := [] } ops).1.CacheOK o :=
  xrun_cacheOK ho ops hops (by intro ng h; cases h)

/-! Non-vacuity: three nesting levels with a flip of determinant -1/2 (`Ex.world3`); the whole-glyph
boxes exist; the component's signed area is -1/2 times that of its base glyph; the glyph is not built
on itself; the history `Ex.xhistory` (reads, then a point edit / move / reversal / new transformation /
deletion / re-adding / renaming / new base of the glyphs `top` is built on, each followed by reads of
`top`) runs without error, the boxes read after the edits differ, and it ends with filled caches. -/
example : (Ex.top.getBounds hullOracle Ex.world3).2 = .ok (some ⟨-183 / 4, -273 / 2, 150, 140⟩) := by decide +kernel
example : (Ex.top.getCpb Ex.world3).2 = .ok (some ⟨-183 / 4, -273 / 2, 150, 140⟩) := by decide +kernel
example : (glyphCalls Ex.world3 fuelDefault none Ex.composite).map signedArea = .ok (-184555 / 12) := by decide +kernel
example : (componentCalls Ex.world3 ⟨"comp", ⟨1 / 2, 0, 1 / 4, -1, 10, 0⟩⟩).map signedArea = .ok (184555 / 24) := by
  decide +kernel
example : (⟨1 / 2, 0, 1 / 4, -1, 10, 0⟩ : Transform).det = -1 / 2 := by decide +kernel
example : (glyphCalls Ex.world3 fuelDefault none Ex.composite).map (fun cs => (areaRun false (expand cs)).openErr) =
    .ok false := by decide +kernel
example : Ex.top.Avoids Ex.world3 "top" := by
  intro k hk
  simp only [Ex.top, List.mem_cons, List.not_mem_nil, or_false] at hk
  rcases hk with rfl | rfl <;> decide +kernel
example : bottomMarginOf Ex.top (some ⟨-183 / 4, -273 / 2, 150, 140⟩) = some (-273 / 2) ∧
    topMarginOf Ex.top (some ⟨-183 / 4, -273 / 2, 150, 140⟩) = some (-40) := by decide +kernel
example : Ex.noErr (crun hullOracle {} Ex.xhistory).2 = true := by decide +kernel
example : Ex.boxes (crun hullOracle {} Ex.xhistory).2 =
    [some ⟨-183 / 4, -273 / 2, 150, 140⟩, some ⟨-183 / 4, -273 / 2, 150, 140⟩, some ⟨-110, -7 / 2, 40, 273 / 2⟩,
     some ⟨-1277 / 8, -273 / 2, 725 / 2, 140⟩, some ⟨-1277 / 8, -137, 725 / 2, 281 / 2⟩,
     some ⟨-110, -62, 725 / 2, 279⟩, some ⟨-110, 20, 110, 245⟩, some ⟨-110, 20, 110, 245⟩,
     some ⟨-110, 20, 110, 245⟩, some ⟨7, 20, 227, 245⟩] := by decide +kernel
example : (crun hullOracle {} Ex.xhistory).1.kb = [(("top", 1), none), (("top", 0), some ⟨7, 38, 187, 245⟩)] := by
  decide +kernel
example : ∀ op ∈ Ex.xhistory, op.fresh := by
  intro op h
  simp only [Ex.xhistory, List.mem_cons, List.not_mem_nil, or_false] at h
  rcases h with rfl | rfl | rfl | rfl | rfl | rfl | rfl | rfl | rfl | rfl | rfl | rfl | rfl | rfl | rfl | rfl | rfl |
      rfl | rfl | rfl | rfl | rfl | rfl | rfl | rfl | rfl | rfl <;>
    first
      | trivial
      | (intro c hc
         simp only [Ex.base, Ex.composite, Ex.top, List.mem_cons, List.not_mem_nil, or_false] at hc
         first
           | (rcases hc with rfl | rfl <;> exact ⟨rfl, rfl, rfl⟩)
           | (rcases hc with rfl; exact ⟨rfl, rfl, rfl⟩)
           | (subst hc; exact ⟨rfl, rfl, rfl⟩))

end DefconModel.Props.C17
