/-
C17 — Geometry and metrics obey their laws.
-/
import DefconModel.Lemmas.Geom

namespace DefconModel.Props.C17
open DefconModel DefconModel.Geom

/-- `Contour.move` adds `(dx, dy)` to every point and changes nothing else about the points. -/
theorem move_points (c : Contour) (dx dy : Rat) :
    (c.move dx dy).points = c.points.map (fun p => { p with pt := ⟨p.pt.x + dx, p.pt.y + dy⟩ }) := rfl

end DefconModel.Props.C17
