/-
C11 — Parent links are right and removed objects are fully detached.

Property theorems about M-Parents (`DefconModel/Parents.lean`, the executable model of the parent
references, child lists and parent<-child observer registrations of defcon's object tree, after
repo_fixes/C11-*.diff).  `Wired` (Spec/Parents.lean) is the invariant: every stored reference — owner
pointer or cache — is the true container of its kind, owners list what points to them, live containers are
pointed to by what they list, objects without owner hold no reference, and every registration is an object's
own or its owner's, in the centre of the font above it.  Helper lemmas are in `Lemmas/Parents.lean`.

Sections 7-9 (round 3) are about M-Cross (`DefconModel/Cross.lean`): M-Parents composed with the CROSS LINKS of the
notification wiring - a component observes its layer and the glyph object filed under its base glyph name, an
image observes its layer and the font's image set (after repo_fixes/C11-r3-1) - and with a delivery function
that follows the complete table.  Helper lemmas are in `Lemmas/Cross.lean`, `Reach` / `Mentioned` / `Outside` in
`Spec/Cross.lean`.  Section 11 is about the STORED wiring (`Cross.OState`): registrations that are kept and changed
only at the events at which the code changes them (layer announcements heard by the six callbacks of
component.py, begin / end of a component's own observation), proved equal to what the tree says in every
reachable state (`Lemmas/CrossFrame.lean`: which operation changes what a layer files under which name;
`Lemmas/CrossSync.lean`: the invariant).
-/
import DefconModel.Lemmas.Parents
import DefconModel.Lemmas.Cross
import DefconModel.Lemmas.CrossSync

set_option linter.unusedSimpArgs false
set_option linter.unusedVariables false

namespace DefconModel.Props.C11
open DefconModel DefconModel.Parents

/-! ## 1. The invariant holds after every history -/

/-- One operation — insertion, removal, clearing, list assignment, creating a glyph (also under an
existing name, loaded or not), loading, deleting, renaming, copying a glyph into a layer, creating, deleting,
renaming a layer, building libs and images, changing any object, reading every accessor of every object —
preserves the invariant, whatever its arguments, also when it is rejected half-way (`setList`). -/
theorem wired_preserved (h : Heap) (op : Op) (w : Wired h) : Wired (step h op).1 := wired_step w op

/-- Every state reachable from the empty world by any sequence of operations satisfies it. -/
theorem wired_reachable (ops : List Op) : Wired (run {} ops) := wired_run ops wired_empty

/-! ## 2. Parent accessors answer exactly the containers that list the object -/

/-- What a container that is alive (a font, or anything that still belongs to a container) lists, points
back to it: ownership is read off the child lists. -/
theorem listed_is_owned (h : Heap) (w : Wired h) (p x : Id) (hp : h.alive p) (hx : x ∈ h.kidsOf p) :
    h.ownerOf x = some p := w.down p x hp (by simp) hx

/-- … and conversely an object that points to an owner is in that owner's list. -/
theorem owned_is_listed (h : Heap) (w : Wired h) (x p : Id) (ho : h.ownerOf x = some p) : x ∈ h.kidsOf p := by
  obtain ⟨n, e, eo⟩ := ownerOf_some ho
  exact w.up x n p e eo

/-- No object is listed by two live containers. -/
theorem no_double_listing (h : Heap) (w : Wired h) (p q x : Id) (hp : h.alive p) (hq : h.alive q)
    (hxp : x ∈ h.kidsOf p) (hxq : x ∈ h.kidsOf q) : p = q := by
  have a := listed_is_owned h w p x hp hxp
  have b := listed_is_owned h w q x hq hxq
  rw [a] at b; exact Option.some.inj b

/-- Every accessor of a contour, component, anchor, guideline, image or lib answers the true container of
its kind — the one found by following owner pointers, never a stale cache —, `dispatcher` the font's. -/
theorem leaf_accessors_exact (h : Heap) (w : Wired h) (x : Id) (n : Node) (e : h.get x = some n)
    (k : n.kind.isLeaf = true) :
    glyphOf h x = ancOf h .glyph x ∧ layerOf h x = ancOf h .layer x ∧ layerSetOf h x = ancOf h .layerSet x ∧
    fontOf h x = ancOf h .font x ∧ dispOf h x = ancOf h .font x := leaf_exact w.toStruct e k

/-- The same for a glyph object: `layer`, `layerSet`, `font`, `getParent()` (the font) and `dispatcher`. -/
theorem glyph_accessors_exact (h : Heap) (w : Wired h) (g : Id) (n : Node) (e : h.get g = some n)
    (k : n.kind = .glyph) :
    layerOf h g = ancOf h .layer g ∧ layerSetOf h g = ancOf h .layerSet g ∧ fontOf h g = ancOf h .font g ∧
    parentOf h g = ancOf h .font g ∧ dispOf h g = ancOf h .font g := by
  obtain ⟨E1, E2, E3⟩ := exact_glyph w.toStruct e k
  have kf : n.kind ≠ .font := by rw [k]; simp
  refine ⟨?_, ?_, ?_, ?_, (font_exact w.toStruct e kf).2⟩
  · simp [layerOf, e, k, E1]
  · simp [layerSetOf, e, k, E2]
  · simp [fontOf, e, k, E3]
  · simp [parentOf, e, k, E3]

/-- … for a layer: `layerSet`, `font`, `getParent()` (the layer set), `dispatcher`. -/
theorem layer_accessors_exact (h : Heap) (w : Wired h) (l : Id) (n : Node) (e : h.get l = some n)
    (k : n.kind = .layer) :
    layerSetOf h l = ancOf h .layerSet l ∧ parentOf h l = ancOf h .layerSet l ∧ fontOf h l = ancOf h .font l ∧
    dispOf h l = ancOf h .font l := by
  obtain ⟨E1, E2⟩ := exact_layer w.toStruct e k
  have kf : n.kind ≠ .font := by rw [k]; simp
  refine ⟨?_, ?_, (font_exact w.toStruct e kf).1, (font_exact w.toStruct e kf).2⟩
  · simp [layerSetOf, e, k, E1]
  · simp [parentOf, e, k, E1]

/-- The walk along child lists: a font lists its layer set, which lists a layer, which lists a glyph, which
lists `x`.  Then every accessor of `x`, of the glyph, of the layer and of the layer set answers exactly these
containers, and all of them share the font's dispatcher. -/
theorem parents_exact (h : Heap) (w : Wired h) (f s l g x : Id)
    (kf : h.kindOf f = some .font) (hs : s ∈ h.kidsOf f) (ks : h.kindOf s = some .layerSet)
    (hl : l ∈ h.kidsOf s) (hg : g ∈ h.kidsOf l) (kg : h.kindOf g = some .glyph) (hx : x ∈ h.kidsOf g) :
    (glyphOf h x = some g ∧ layerOf h x = some l ∧ layerSetOf h x = some s ∧ fontOf h x = some f ∧
      parentOf h x = some g ∧ dispOf h x = some f) ∧
    (layerOf h g = some l ∧ layerSetOf h g = some s ∧ fontOf h g = some f ∧ parentOf h g = some f ∧
      dispOf h g = some f) ∧
    (layerSetOf h l = some s ∧ fontOf h l = some f ∧ parentOf h l = some s ∧ dispOf h l = some f) ∧
    (fontOf h s = some f ∧ parentOf h s = some f ∧ dispOf h s = some f) := by
  have st := w.toStruct
  obtain ⟨nf, ef, knf⟩ := kindOf_some kf
  have os := listed_is_owned h w f s ⟨nf, ef, Or.inl knf⟩ hs
  obtain ⟨nS, eS, knS⟩ := kindOf_some ks
  have aliveS : h.alive s := ⟨nS, eS, Or.inr (by rw [← ownerOf_eq eS, os]; simp)⟩
  have ol := listed_is_owned h w s l aliveS hl
  obtain ⟨nl, el, hal⟩ := owned_node w ol eS
  have knl : nl.kind = .layer := by
    cases hk : nl.kind <;> simp [hk, knS, allowed] at hal ⊢
  have kl : h.kindOf l = some .layer := by rw [kindOf_eq el, knl]
  have aliveL : h.alive l := ⟨nl, el, Or.inr (by rw [← ownerOf_eq el, ol]; simp)⟩
  have og := listed_is_owned h w l g aliveL hg
  obtain ⟨ng, eg, kng⟩ := kindOf_some kg
  have aliveG : h.alive g := ⟨ng, eg, Or.inr (by rw [← ownerOf_eq eg, og]; simp)⟩
  have ox := listed_is_owned h w g x aliveG hx
  have c : LayerCtx h l s f := ⟨kl, ol, ks, os, kf⟩
  -- ancestors
  have aFl : ancOf h .font l = some f := c.centre st
  have aSl : ancOf h .layerSet l = some s := ancOf_eq st ol ks
  have aLg : ancOf h .layer g = some l := ancOf_eq st og kl
  have aSg : ancOf h .layerSet g = some s := by rw [ancOf_ne st og (by rw [kl]; simp)]; exact aSl
  have aFg : ancOf h .font g = some f := by rw [ancOf_ne st og (by rw [kl]; simp)]; exact aFl
  have aFs : ancOf h .font s = some f := ancOf_eq st os kf
  obtain ⟨nx, ex, hax⟩ := owned_node w ox eg
  have kleaf : nx.kind.isLeaf = true := by simpa [kng, allowed] using hax
  obtain ⟨X1, X2, X3, X4, X5⟩ := leaf_accessors_exact h w x nx ex kleaf
  have gne : ∀ k : Kind, k ≠ .glyph → ancOf h k x = ancOf h k g := fun k hk =>
    ancOf_ne st ox (by rw [kg]; simpa using hk.symm)
  have hgx : glyphOf h x = some g := by rw [X1]; exact ancOf_eq st ox kg
  obtain ⟨G1, G2, G3, G4, G5⟩ := glyph_accessors_exact h w g ng eg kng
  obtain ⟨L1, L2, L3, L4⟩ := layer_accessors_exact h w l nl el knl
  have knSf : nS.kind ≠ .font := by rw [knS]; simp
  obtain ⟨S1, S2⟩ := font_exact st eS knSf
  refine ⟨⟨hgx, ?_, ?_, ?_, ?_, ?_⟩, ⟨?_, ?_, ?_, ?_, ?_⟩, ⟨?_, ?_, ?_, ?_⟩, ⟨?_, ?_, ?_⟩⟩
  · rw [X2, gne _ (by simp)]; exact aLg
  · rw [X3, gne _ (by simp)]; exact aSg
  · rw [X4, gne _ (by simp)]; exact aFg
  · -- getParent of a leaf in a glyph is the glyph
    have pg : nx.pGlyph = some g := by rw [glyphOf_leaf ex kleaf] at hgx; exact hgx
    cases hk : nx.kind <;> simp [parentOf, ex, hk, pg, Kind.isLeaf] at kleaf ⊢
  · rw [X5, gne _ (by simp)]; exact aFg
  · rw [G1]; exact aLg
  · rw [G2]; exact aSg
  · rw [G3]; exact aFg
  · rw [G4]; exact aFg
  · rw [G5]; exact aFg
  · rw [L1]; exact aSl
  · rw [L3]; exact aFl
  · rw [L2]; exact aSl
  · rw [L4]; exact aFl
  · rw [S1]; exact aFs
  · have : parentOf h s = nS.pFont := by simp [parentOf, eS, knS]
    rw [this, exact_layerSet st eS knS]; exact aFs
  · rw [S2]; exact aFs

/-- A guideline or lib listed by the font itself answers the font and nothing else. -/
theorem font_child_exact (h : Heap) (w : Wired h) (f x : Id) (nx : Node) (kf : h.kindOf f = some .font)
    (hx : x ∈ h.kidsOf f) (ex : h.get x = some nx) (kx : nx.kind.isLeaf = true) :
    glyphOf h x = none ∧ layerOf h x = none ∧ layerSetOf h x = none ∧ fontOf h x = some f ∧
    parentOf h x = some f ∧ dispOf h x = some f := by
  have st := w.toStruct
  obtain ⟨nf, ef, knf⟩ := kindOf_some kf
  have ox := listed_is_owned h w f x ⟨nf, ef, Or.inl knf⟩ hx
  obtain ⟨X1, X2, X3, X4, X5⟩ := leaf_accessors_exact h w x nx ex kx
  have low : ∀ k : Kind, k ≠ .font → ancOf h k x = none := fun k hk => by
    rw [ancOf_ne st ox (by rw [kf]; simpa using hk.symm)]; exact ancOf_none st (ownerOf_font kf)
  have aF : ancOf h .font x = some f := ancOf_eq st ox kf
  refine ⟨by rw [X1, low _ (by simp)], by rw [X2, low _ (by simp)], by rw [X3, low _ (by simp)],
    by rw [X4, aF], ?_, by rw [X5, aF]⟩
  have pg : nx.pGlyph = none := by rw [← glyphOf_leaf ex kx, X1, low _ (by simp)]
  have pl : nx.pLayer = none := by
    have := X2; rw [layerOf_leaf ex kx, pg, low _ (by simp)] at this; simpa using this
  obtain ⟨nx', ex', hax⟩ := owned_node w ox ef
  rw [ex] at ex'; cases ex'
  have hkind : nx.kind = .guideline ∨ nx.kind = .lib := by
    cases hk : nx.kind <;> simp [hk, knf, allowed, Kind.isLeaf] at hax kx ⊢
  have eo := ownerOf_eq ex
  rw [ox] at eo
  rcases hkind with hk | hk
  · have pf : nx.pFont = some f := by simpa [owner, hk, pg] using eo.symm
    simp [parentOf, ex, hk, pg, pf]
  · have pf : nx.pFont = some f := by simpa [owner, hk, pg, pl] using eo.symm
    simp [parentOf, ex, hk, pg, pl, pf]

/-! ## 3. Removed and replaced objects are fully detached -/

/-- An object that points to no owner answers nothing: `glyph`, `layer`, `layerSet`, `font`, `getParent()`,
`dispatcher` are all `None`; and no registration mentions it, neither as observable nor as observer. -/
theorem detached_answers_nothing (h : Heap) (w : Wired h) (x : Id) (n : Node) (e : h.get x = some n)
    (k : n.kind ≠ .font) (eo : owner n = none) :
    glyphOf h x = none ∧ layerOf h x = none ∧ layerSetOf h x = none ∧ fontOf h x = none ∧ parentOf h x = none ∧
    dispOf h x = none ∧ ∀ r ∈ h.regs, r.observable ≠ x ∧ r.observer ≠ x := by
  obtain ⟨_, a, b, c, d, e', f⟩ := exact_loose w.toStruct e k eo
  exact ⟨a, b, c, d, f, e', loose_unregistered w e k eo⟩

/-- `glyph.removeContour/Component/Anchor/Guideline(x)` of an object the glyph owns is accepted; afterwards the
object points to no owner (hence, by `detached_answers_nothing`, answers nothing and is unregistered) and
the glyph does not list it. -/
theorem remove_detaches (h : Heap) (w : Wired h) (g x : Id) (nx : Node) (kg : h.kindOf g = some .glyph)
    (ex : h.get x = some nx) (kx : nx.kind.isChild = true) (ho : h.ownerOf x = some g) :
    (step h (.remove g x)).2 = .ok ∧ (step h (.remove g x)).1.ownerOf x = none ∧
    x ∉ (step h (.remove g x)).1.kidsOf g := by
  have hkids : x ∈ h.kidsOf g := owned_is_listed h w x g ho
  have e : step h (.remove g x) = (removeChild h g x, .ok) := by
    simp [step, kg, kindOf_eq ex, kx, hkids]
  rw [e]
  exact ⟨rfl, ownerOf_removeChild_self w kg ho⟩

/-- Deleting a glyph from a layer that belongs to a font (`del layer[name]`, the glyph object `g` is loaded): the
operation is accepted; afterwards the glyph object and everything it owned — contours, components, anchors,
guidelines, image, lib — point to no owner, and the layer does not list it. -/
theorem delGlyph_detaches (h : Heap) (w : Wired h) (l g : Id) (name : String) (hl : liveLayer h l = true)
    (hf : h.findNamed l .glyph name = some g) :
    (step h (.delGlyph l name)).2 = .ok ∧
    (∀ y, y = g ∨ h.ownerOf y = some g → (step h (.delGlyph l name)).1.ownerOf y = none) ∧
    g ∉ (step h (.delGlyph l name)).1.kidsOf l := by
  obtain ⟨kl, s, hs⟩ := liveLayer_spec hl
  obtain ⟨hg, kg⟩ := findNamed_some hf
  obtain ⟨f, c⟩ := layerCtx_of_live w.toStruct kl hs
  obtain ⟨ng, eg, kng, ho, hd⟩ := glyph_of_live_layer w c hg kg
  have e : step h (.delGlyph l name) = (mark (killGlyph h l g) l, .ok) := by
    simp [step, kl, hl, hf]
  rw [e]
  obtain ⟨d1, d2⟩ := killGlyph_detaches w eg kng ho hd
  refine ⟨rfl, fun y hy => ?_, ?_⟩
  · have := d1 y hy
    simpa [Heap.ownerOf] using this
  · simpa [Heap.kidsOf] using d2

/-- Deleting a layer from a font (`del font.layers[name]`): the operation is accepted; afterwards the layer, the
glyph objects and the lib it owned, and everything those glyphs owned point to no owner (hence answer nothing
and are unregistered, `detached_answers_nothing`), and the layer set does not list the layer. -/
theorem delLayer_detaches (h : Heap) (w : Wired h) (f s l : Id) (name : String)
    (hs : layerSetOfFont h f = some s) (hf : h.findNamed s .layer name = some l) :
    (step h (.delLayer f name)).2 = .ok ∧
    (∀ y, (y = l ∨ h.ownerOf y = some l ∨ ∃ k, h.ownerOf k = some l ∧ h.ownerOf y = some k) →
      (step h (.delLayer f name)).1.ownerOf y = none) ∧
    l ∉ (step h (.delLayer f name)).1.kidsOf s := by
  obtain ⟨kf, ks, os⟩ := layerSetOfFont_spec w hs
  obtain ⟨hl, kl⟩ := findNamed_some hf
  obtain ⟨nS, eS, knS⟩ := kindOf_some ks
  have ol := w.down s l ⟨nS, eS, Or.inr (by rw [← ownerOf_eq eS, os]; simp)⟩ (by simp) hl
  have e : step h (.delLayer f name) = (mark (killLayer h s l) s, .ok) := by simp [step, hs, hf]
  rw [e]
  obtain ⟨d1, d2⟩ := killLayer_detaches w ⟨kl, ol, ks, os, kf⟩
  refine ⟨rfl, fun y hy => ?_, ?_⟩
  · have := d1 y hy
    simpa [Heap.ownerOf] using this
  · simpa [Heap.kidsOf] using d2

/-- Creating a glyph under a name whose glyph object `g` is loaded (`layer.newGlyph(name)`, F16; `insertGlyph` and a
rename onto the name go through the same `_insertGlyph`): the operation is accepted and returns a new object;
the replaced object and everything it owned point to no owner afterwards. -/
theorem newGlyph_replaces (h : Heap) (w : Wired h) (l g : Id) (name : String) (hl : liveLayer h l = true)
    (hf : h.findNamed l .glyph name = some g) :
    (step h (.newGlyph l name)).2 = .id h.next ∧
    ∀ y, y = g ∨ h.ownerOf y = some g → (step h (.newGlyph l name)).1.ownerOf y = none := by
  obtain ⟨kl, s, hs⟩ := liveLayer_spec hl
  obtain ⟨hg, kg⟩ := findNamed_some hf
  obtain ⟨f, c⟩ := layerCtx_of_live w.toStruct kl hs
  obtain ⟨ng, eg, kng, ho, hd⟩ := glyph_of_live_layer w c hg kg
  have e : step h (.newGlyph l name) = (mark ((addGlyph h l name).setDirty h.next) l, .id h.next) := by
    simp [step, kl, hl]
  rw [e]
  refine ⟨rfl, fun y hy => ?_⟩
  have ed : dropNamed h l name = killGlyph h l g := by simp [dropNamed, hf]
  have d1 := (killGlyph_detaches w eg kng ho hd).1 y hy
  have hyl : y ≠ l := by
    rcases hy with e1 | e1
    · intro e2; rw [e1] at e2; rw [e2, kl] at kg; cases kg
    · intro e2; rw [e2] at e1; exact layer_owner_not_glyph w.toStruct kl kg e1
  have hyn : y ≠ (killGlyph h l g).next := by
    rw [next_killGlyph]
    intro e2
    rcases hy with e1 | e1
    · rw [e1] at e2; rw [e2, get_next] at eg; cases eg
    · obtain ⟨ny, ey, _⟩ := ownerOf_some e1
      rw [e2, get_next] at ey; cases ey
  have gy : (mark ((addGlyph h l name).setDirty h.next) l).get y = (killGlyph h l g).get y := by
    rw [get_mark, get_setDirty, addGlyph_eq, ed]
    show (spawn (killGlyph h l g) l _).get y = _
    rw [get_spawn, get_addKid, if_neg (Ne.symm hyl), get_alloc, if_neg hyn]
  simp only [Heap.ownerOf, gy]
  exact d1

/-- Later changes to a detached object are silent: without a dispatcher `x.dirty = True` / any attribute
change posts nothing, changes no node, no registration and no dirty flag other than the object's own. -/
theorem detached_inert (h : Heap) (x : Id) (hd : dispOf h x = none) :
    (step h (.mutate x)).1.nodes = h.nodes ∧ (step h (.mutate x)).1.regs = h.regs ∧
    (∀ a ∈ (step h (.mutate x)).1.dirty, a ∈ h.dirty ∨ a = x) ∧
    ((step h (.mutate x)).2 = .mut [] ∨ (step h (.mutate x)).2 = .err .noSuchObject) := by
  simp only [step]
  cases hk : h.kindOf x with
  | none => exact ⟨rfl, rfl, fun a ha => Or.inl ha, Or.inr rfl⟩
  | some k =>
    simp only
    split
    · rw [post_silent FUEL h x hd]
      exact ⟨rfl, rfl, fun a ha => Or.inl ha, Or.inl rfl⟩
    · have hd' : dispOf (h.setDirty x) x = none := by
        rw [dispOf_congr (h := h) (fun i => by simp)]; exact hd
      simp only [markPost]
      rw [post_silent FUEL (h.setDirty x) x hd']
      refine ⟨by unfold Heap.setDirty; split <;> rfl, by simp, fun a ha => ?_, Or.inl rfl⟩
      unfold Heap.setDirty at ha
      split at ha
      · exact Or.inl ha
      · simp only [List.mem_cons] at ha
        rcases ha with ha | ha
        · exact Or.inr ha
        · exact Or.inl ha

/-- No ghost links: a change of ANY object reaches only the object itself and the containers above it by owner
pointers — every sender of a `*.Changed` notification and every container whose dirty flag is raised is one of
them.  A former container that is not above the object any more is neither notified nor dirtied. -/
theorem change_reaches_only_owners (h : Heap) (w : Wired h) (x : Id) :
    (∀ posted, (step h (.mutate x)).2 = .mut posted → ∀ a ∈ posted, Anc h x a) ∧
    (∀ a ∈ (step h (.mutate x)).1.dirty, a ∈ h.dirty ∨ Anc h x a) := by
  simp only [step]
  cases hk : h.kindOf x with
  | none => exact ⟨fun posted hp => by simp at hp, fun a ha => Or.inl ha⟩
  | some k =>
    simp only
    split
    · obtain ⟨p1, p2⟩ := post_sound FUEL w x
      exact ⟨fun posted hp a ha => by simp only [Res.mut.injEq] at hp; subst hp; exact p1 a ha, p2⟩
    · have w' : Wired (h.setDirty x) := wired_setDirty w x
      obtain ⟨p1, p2⟩ := post_sound FUEL w' x
      have cg : ∀ {a}, Anc (h.setDirty x) x a → Anc h x a := fun ha =>
        Anc.congr (h := h.setDirty x) (h' := h) (fun i => by simp) ha
      refine ⟨fun posted hp a ha => by simp only [markPost, Res.mut.injEq] at hp; subst hp; exact cg (p1 a ha), fun a ha => ?_⟩
      rcases p2 a ha with hd | hd
      · unfold Heap.setDirty at hd
        split at hd
        · exact Or.inl hd
        · simp only [List.mem_cons] at hd
          rcases hd with hd | hd
          · subst hd; exact Or.inr (Anc.refl _)
          · exact Or.inl hd
      · exact Or.inr (cg hd)

/-! ## 4. Re-insertion, and exclusive ownership -/

/-- An object still owned by a container — any container: another glyph, a glyph of the same font, another
font, the same font — cannot be inserted: `Glyph.insertX` and `Font.insertGuideline` reject it with an
`AssertionError` and change nothing. -/
theorem foreign_rejected (h : Heap) (w : Wired h) (q x p : Id) (nx : Node) (ex : h.get x = some nx)
    (ho : h.ownerOf x = some p)
    (hk : (h.kindOf q = some .glyph ∧ nx.kind.isChild = true) ∨ (h.kindOf q = some .font ∧ nx.kind = .guideline)) :
    step h (.insert q x) = (h, .err .assertionError) := by
  have st := w.toStruct
  have hown : nx.pGlyph.isSome = true ∨ (nx.kind = .guideline ∧ (fontOf h x).isSome = true) := by
    cases eg : nx.pGlyph with
    | some g => left; rfl
    | none =>
      right
      -- owned without a glyph reference: a guideline of a font
      have kleaf : nx.kind.isLeaf = true := by
        rcases hk with ⟨_, hc⟩ | ⟨_, hc⟩
        · exact child_leaf hc
        · simp [hc, Kind.isLeaf]
      have eo := ownerOf_eq ex
      rw [ho] at eo
      have hg : nx.kind = .guideline := by
        rcases hk with ⟨_, hc⟩ | ⟨_, hc⟩
        · cases hkk : nx.kind <;> simp [hkk, Kind.isChild, owner, eg] at hc eo ⊢
        · exact hc
      refine ⟨hg, ?_⟩
      have pf : nx.pFont = some p := by simpa [owner, hg, eg] using eo.symm
      rw [fontOf_leaf_via ex (by simp [hg, Kind.viaLayer]), pf]; rfl
  simp only [step, insertStep]
  rcases hk with ⟨kq, hc⟩ | ⟨kq, hc⟩
  · simp only [kq, ex]
    by_cases hm : x ∈ h.kidsOf q
    · simp [hc, hm]
    · rcases hown with h1 | ⟨h1, h2⟩
      · simp [hc, hm, h1]
      · cases eg : nx.pGlyph with
        | some g => simp [hc, hm, eg]
        | none => simp [hc, hm, eg, h2]; exact h1
  · simp only [kq, ex]
    rcases hown with h1 | ⟨h1, h2⟩
    · by_cases hf : (fontOf h x).isSome = true
      · simp [hc, hf]
      · simp [hc, hf, h1]
    · simp [hc, h2]

/-- A detached contour, component, anchor or guideline can be inserted into any glyph that does not list it:
the insertion is accepted, the object then points to that glyph and is listed by it (and, the invariant being
preserved, every accessor answers through that glyph: `leaf_accessors_exact`). -/
theorem reinsert_ok (h : Heap) (w : Wired h) (g x : Id) (nx : Node) (kg : h.kindOf g = some .glyph)
    (ex : h.get x = some nx) (kx : nx.kind.isChild = true) (lo : owner nx = none) (hn : x ∉ h.kidsOf g) :
    (step h (.insert g x)).2 = .ok ∧ (step h (.insert g x)).1.ownerOf x = some g ∧
    x ∈ (step h (.insert g x)).1.kidsOf g ∧ Wired (step h (.insert g x)).1 := by
  have kleaf := child_leaf kx
  obtain ⟨l1, l2, l3, l4, l5⟩ := w.loose x nx ex lo
  have knf : nx.kind ≠ .font := by intro e; simp [e, Kind.isChild] at kx
  obtain ⟨_, _, _, _, F, _⟩ := exact_loose w.toStruct ex knf lo
  have e : step h (.insert g x) = (mark (attachChild h g x) g, .ok) := by
    simp [step, insertStep, kg, ex, kx, hn, l1, F]
  refine ⟨by rw [e], ?_, ?_, wired_preserved h _ w⟩
  · rw [e]
    obtain ⟨ng, eg, _⟩ := kindOf_some kg
    have hxg : g ≠ x := fun e2 => by subst e2; exact hn (by
      exfalso
      rw [eg] at ex; cases ex
      rename_i kng
      rw [kng] at kx; simp [Kind.isChild] at kx)
    have gx : (mark (attachChild h g x) g).get x =
        some { nx with pGlyph := some g, pLayer := none, pLayerSet := none, pFont := none } := by
      simp [attachChild, get_addKid, get_upd, hxg, ex]
    rw [ownerOf_eq gx]
    exact owner_leaf_glyph (n := { nx with pGlyph := some g, pLayer := none, pLayerSet := none, pFont := none }) kleaf rfl
  · rw [e]
    obtain ⟨ng, eg, _⟩ := kindOf_some kg
    have hxg : x ≠ g := fun e2 => by
      subst e2; rw [eg] at ex; cases ex
      rename_i kng
      rw [kng] at kx; simp [Kind.isChild] at kx
    have gg : (mark (attachChild h g x) g).get g = some { ng with kids := ng.kids ++ [x] } := by
      simp [attachChild, get_addKid, get_upd, hxg, eg]
    rw [kidsOf_eq gg]; simp

/-- The same for a detached guideline and a font. -/
theorem reinsert_font_guideline_ok (h : Heap) (w : Wired h) (f x : Id) (nx : Node) (kf : h.kindOf f = some .font)
    (ex : h.get x = some nx) (kx : nx.kind = .guideline) (lo : owner nx = none) :
    (step h (.insert f x)).2 = .ok ∧ (step h (.insert f x)).1.ownerOf x = some f ∧
    x ∈ (step h (.insert f x)).1.kidsOf f := by
  obtain ⟨l1, l2, l3, l4, l5⟩ := w.loose x nx ex lo
  have knf : nx.kind ≠ .font := by rw [kx]; simp
  obtain ⟨_, _, _, _, F, _⟩ := exact_loose w.toStruct ex knf lo
  have e : step h (.insert f x) = (mark (attachFontGuideline h f x) f, .ok) := by
    simp [step, insertStep, kf, ex, kx, l1, F]
  obtain ⟨nf, ef, knff⟩ := kindOf_some kf
  have hxf : x ≠ f := fun e2 => by subst e2; rw [ef] at ex; cases ex; rw [kx] at knff; cases knff
  refine ⟨by rw [e], ?_, ?_⟩
  · rw [e]
    have gx : (mark (attachFontGuideline h f x) f).get x = some { nx with pFont := some f } := by
      simp [attachFontGuideline, get_addKid, get_upd, Ne.symm hxf, ex]
    rw [ownerOf_eq gx]; simp [owner, kx, l1]
  · rw [e]
    have gg : (mark (attachFontGuideline h f x) f).get f = some { nf with kids := nf.kids ++ [x] } := by
      simp [attachFontGuideline, get_addKid, get_upd, hxf, ef]
    rw [kidsOf_eq gg]; simp

/-! ## 5. Non-vacuity: concrete histories meeting the hypotheses, and the laws in action -/

/-- font 0 (layer set 1, layer 2, lib 3), glyph 4 "A" with contour 5 and anchor 6, glyph 7 "B" -/
def demo : Heap := run {} [.newFont, .newGlyph 2 "A", .new .contour, .insert 4 5, .new .anchor, .insert 4 6,
  .newGlyph 2 "B", .dump]

example : Wired demo := wired_reachable _
/-- the hypotheses of `parents_exact` hold for contour 5, and its conclusion is what the accessors compute -/
example : demo.kindOf 0 = some .font ∧ 1 ∈ demo.kidsOf 0 ∧ demo.kindOf 1 = some .layerSet ∧ 2 ∈ demo.kidsOf 1 ∧
    4 ∈ demo.kidsOf 2 ∧ demo.kindOf 4 = some .glyph ∧ 5 ∈ demo.kidsOf 4 := by decide
example : glyphOf demo 5 = some 4 ∧ layerOf demo 5 = some 2 ∧ layerSetOf demo 5 = some 1 ∧ fontOf demo 5 = some 0 ∧
    dispOf demo 5 = some 0 ∧ parentOf demo 4 = some 0 := by decide
/-- a change of the contour reaches exactly contour, glyph, layer, layer set, font -/
example : (step (step demo .clean).1 (.mutate 5)).2 = .mut [5, 4, 2, 1, 0] := by decide
/-- removal: accepted, the contour then answers nothing, changing it is silent, it can go into glyph 7, and
from there a change does not reach its former glyph 4 -/
example : (step demo (.remove 4 5)).2 = .ok ∧ dispOf (step demo (.remove 4 5)).1 5 = none ∧
    (step (step demo (.remove 4 5)).1 (.mutate 5)).2 = .mut [] := by decide
example : (run demo [.remove 4 5, .insert 7 5, .clean, .mutate 5]).dirty = [0, 1, 2, 7] := by decide
/-- an owned object is rejected by another glyph (and by its own), nothing changes -/
example : (step demo (.insert 7 5)).2 = .err .assertionError ∧ (step demo (.insert 4 5)).2 = .err .assertionError := by
  decide
/-- F16: a glyph created under the name of a loaded glyph lets go of the old object 4 and of its contour and anchor -/
example : let h := (step demo (.newGlyph 2 "A")).1
    h.ownerOf 4 = none ∧ h.ownerOf 5 = none ∧ h.ownerOf 6 = none ∧ layerOf h 4 = none ∧ dispOf h 5 = none ∧
    (h.regs.filter fun r => r.observable = 4 ∨ r.observable = 5 ∨ r.observer = 4).length = 0 := by decide
/-- F17: a glyph's guideline is rejected by the font of that glyph -/
example : (run demo [.new .guideline, .insert 4 8]).ownerOf 8 = some 4 ∧
    (step (run demo [.new .guideline, .insert 4 8]) (.insert 0 8)).2 = .err .assertionError := by decide
/-- a deleted layer lets go of its glyphs and of what they own -/
example : let h := run demo [.newLayer 0 "back", .newGlyph 8 "A", .new .contour, .insert 9 10, .delLayer 0 "back"]
    h.ownerOf 8 = none ∧ h.ownerOf 9 = none ∧ h.ownerOf 10 = none ∧ fontOf h 10 = none ∧ 8 ∉ h.kidsOf 1 := by decide

/-! ## 6. Known finding F48: a glyph deleted from a layer that has no font keeps answering that layer -/

/-- The full statement: whenever a layer lets go of a glyph object it lists and that points to it — `killGlyph`
is `Layer._deleteGlyph` / `_insertGlyph` over it, with the `if glyph.dispatcher is None: return` of the code —
the glyph's `layer` accessor answers nothing afterwards. -/
def RemovedGlyphForgetsLayer : Prop :=
  ∀ (h : Heap) (l g : Id) (ng : Node), h.get g = some ng → ng.kind = .glyph → ng.pLayer = some l → g ∈ h.kidsOf l →
    layerOf (killGlyph h l g) g = none

/-- a stand-alone `Layer()` (object 0) with one glyph (object 1) -/
def fontless : Heap := { nodes := [{ kind := .layer, kids := [1] }, { kind := .glyph, pLayer := some 0 }] }

/-- (such a heap is outside `Wired`: the invariant asks a glyph in a layer to store a layer set and a font) -/
example : fontless.storedLayer 1 = some 0 ∧ fontless.storedLayerSet 1 = none ∧ dispOf fontless 1 = none := by decide

/-- … is violated by the code as it is: without a font the glyph has no dispatcher, nothing is ended. -/
theorem removed_glyph_forgets_layer_violated : ¬ RemovedGlyphForgetsLayer := by
  intro hh
  have := hh fontless 0 1 { kind := .glyph, pLayer := some 0 } rfl rfl rfl (by decide)
  revert this
  decide

/-- What holds: when the layer belongs to a font (`liveLayer`) — `delGlyph_detaches`, `newGlyph_replaces`. -/
theorem removed_glyph_forgets_layer_partial (h : Heap) (w : Wired h) (l g : Id) (name : String)
    (hl : liveLayer h l = true) (hf : h.findNamed l .glyph name = some g) :
    layerOf (step h (.delGlyph l name)).1 g = none := by
  obtain ⟨_, d, _⟩ := delGlyph_detaches h w l g name hl hf
  have w' := wired_preserved h (.delGlyph l name) w
  have ho := d g (Or.inl rfl)
  obtain ⟨hg, kg⟩ := findNamed_some hf
  have kg' : (step h (.delGlyph l name)).1.kindOf g = some .glyph := by
    obtain ⟨kl, s, hs⟩ := liveLayer_spec hl
    obtain ⟨f, c⟩ := layerCtx_of_live w.toStruct kl hs
    obtain ⟨ng, eg, kng, hog, hd⟩ := glyph_of_live_layer w c hg kg
    have e : step h (.delGlyph l name) = (mark (killGlyph h l g) l, .ok) := by simp [step, kl, hl, hf]
    rw [e, kindOf_mark]
    exact kindOf_killGlyph w eg kng hog kg
  obtain ⟨n', e', k'⟩ := kindOf_some kg'
  have lo : owner n' = none := by rw [← ownerOf_eq e']; exact ho
  exact (detached_answers_nothing _ w' g n' e' (by rw [k']; simp) lo).2.1

/-! ## 7. Cross links: the complete registration table mentions objects of the font only -/

open DefconModel.Cross

/-- Every state M-Cross reaches from the empty world — by any sequence of M-Parents operations, `Component()` with
a base glyph name, `component.baseGlyph = …`, loading a glyph whose components name base glyphs,
`glyph.decomposeComponent(c)` — has a wired heap. -/
theorem xwired_reachable (ops : List Cross.Op) : Wired (xrun {} ops).heap := xwired_run ops wired_empty

/-- What "belongs to font `f`" means, by child lists: anything but a font belongs to `f` exactly when a container
that belongs to `f` LISTS it.  (So an object that has left every list of the font — by whatever operation —
belongs to no font, `Outside`, and so does everything it took along.) -/
theorem in_font_iff_listed (h : Heap) (w : Wired h) (x f : Id) (kx : h.kindOf x ≠ some .font) :
    centreOf h x = some f ↔ ∃ p, x ∈ h.kidsOf p ∧ centreOf h p = some f := in_font_iff_listed' w kx

/-- `no_wiring_left`: in every reachable state an object that is not (transitively) in a font is mentioned by NO
registration of the complete table — neither a parent<-child or self registration nor a cross link, neither as
observer nor as observable.  Whatever the removal path was (remove / clear of a contour, component, anchor,
guideline, deletion or replacement of a glyph, a rename over it, deletion of a layer, decomposition of a
component): nothing is left behind in the font's notification centre. -/
theorem no_wiring_left (ops : List Cross.Op) (x : Id) (hx : Outside (xrun {} ops).heap x) :
    ¬ Mentioned (xrun {} ops) x := outside_unmentioned (xwired_reachable ops) hx

/-- … and conversely every registration of the complete table is between objects that belong to the font whose
centre holds it (the image set is the font's own). -/
theorem wiring_within_font (s : State) (w : Wired s.heap) :
    (∀ r ∈ s.heap.regs, centreOf s.heap r.observable = some r.centre ∧ centreOf s.heap r.observer = some r.centre) ∧
    (∀ r ∈ crossTable s, centreOf s.heap r.observer = some r.centre ∧
      (match r.observable with
        | .node o => centreOf s.heap o = some r.centre
        | .imageSet f => f = r.centre)) :=
  ⟨fun r hr => regs_in_font w hr, fun r hr => cross_in_font w hr⟩

/-- An object that points to no owner (anything removed or replaced) is mentioned by no registration, and neither
is an object owned by something that belongs to no font (what a stand-alone `Glyph()` holds). -/
theorem loose_unmentioned (s : State) (w : Wired s.heap) (x : Id) (k : s.heap.kindOf x ≠ some .font) :
    (s.heap.ownerOf x = none → ¬ Mentioned s x) ∧
    (∀ p, s.heap.ownerOf x = some p → Outside s.heap p → ¬ Mentioned s x) :=
  ⟨fun ho => outside_unmentioned w (outside_of_loose w ho k),
   fun p ho hp => outside_unmentioned w (outside_of_owner w ho hp)⟩

/-- `cross_links_exact`, components: a component `c` listed by a glyph `g` listed by a layer `l` of a font `f`
observes EXACTLY its layer and the glyph object the layer files under its base glyph name — with the six
registrations of `_beginBaseGlyphObservations` —, the layer alone — with the three of `_beginLayerObservations` —
when the layer files no glyph under that name, and nothing when it names no base glyph. -/
theorem cross_links_exact (s : State) (w : Wired s.heap) (f ls l g c : Id)
    (kf : s.heap.kindOf f = some .font) (hs : ls ∈ s.heap.kidsOf f) (ks : s.heap.kindOf ls = some .layerSet)
    (hl : l ∈ s.heap.kidsOf ls) (hg : g ∈ s.heap.kidsOf l) (kg : s.heap.kindOf g = some .glyph)
    (hc : c ∈ s.heap.kidsOf g) (kc : s.heap.kindOf c = some .component) (r : XReg) :
    (r ∈ crossTable s ∧ r.observer = c) ↔
      ∃ b, s.baseOf c = some b ∧
        r ∈ compRows f c (Watch.of l (s.heap.findNamed l .glyph b)) := by
  obtain ⟨⟨_, hlay, _, _, _, hdisp⟩, _⟩ := parents_exact s.heap w f ls l g c kf hs ks hl hg kg hc
  obtain ⟨n, en, kn⟩ := kindOf_some kc
  rw [mem_crossTable_observer en]
  have hi : imageWatch s.heap c = none := by simp [imageWatch, kc]
  unfold rowsOf
  simp only [hdisp, hi, List.append_nil]
  cases eb : s.baseOf c with
  | none =>
    have : watchOf s c = none := by simp [watchOf, kc, eb]
    simp [this]
  | some b =>
    have : watchOf s c = some (Watch.of l (s.heap.findNamed l .glyph b)) := by simp [watchOf, kc, eb, hdisp, hlay]
    simp [this]

/-- `cross_links_exact`, images: the image `i` of a glyph `g` listed by a layer `l` of a font `f` observes exactly
the font's image set (ImageSet.ImageAdded / ImageDeleted / ImageChanged) and its layer (Layer.ColorChanged). -/
theorem image_links_exact (s : State) (w : Wired s.heap) (f ls l g i : Id)
    (kf : s.heap.kindOf f = some .font) (hs : ls ∈ s.heap.kidsOf f) (ks : s.heap.kindOf ls = some .layerSet)
    (hl : l ∈ s.heap.kidsOf ls) (hg : g ∈ s.heap.kidsOf l) (kg : s.heap.kindOf g = some .glyph)
    (hi : i ∈ s.heap.kidsOf g) (ki : s.heap.kindOf i = some .image) (r : XReg) :
    (r ∈ crossTable s ∧ r.observer = i) ↔ r ∈ imageRows f i l f := by
  obtain ⟨⟨_, hlay, _, hfont, _, hdisp⟩, _⟩ := parents_exact s.heap w f ls l g i kf hs ks hl hg kg hi
  obtain ⟨n, en, kn⟩ := kindOf_some ki
  rw [mem_crossTable_observer en]
  have hw : watchOf s i = none := by simp [watchOf, ki]
  have hiw : imageWatch s.heap i = some (l, f) := by simp [imageWatch, ki, hfont, hlay]
  unfold rowsOf
  simp [hdisp, hw, hiw]

/-- An object outside the fonts observes nothing and nothing observes it across: the cross-link rows of the
state do not have it as observer, and no component follows it. -/
theorem outside_not_followed (s : State) (w : Wired s.heap) (x : Id) (hx : Outside s.heap x) :
    rowsOf s x = [] ∧ ∀ c, watches s c x = false := by
  constructor
  · unfold rowsOf
    rw [disp_exact w.toStruct, show centreOf s.heap x = none from hx]
  · intro c
    cases hw : watches s c x with
    | false => rfl
    | true =>
      exfalso
      unfold watches at hw
      split at hw
      · rename_i l o ew
        simp only [decide_eq_true_eq] at hw
        subst hw
        obtain ⟨f, _, _, rest, _⟩ := watch_in_font w ew
        have := (rest l o rfl).2.1
        rw [show centreOf s.heap o = none from hx] at this
        cases this
      · cases hw

/-! ## 8. Every removal path leaves nothing behind -/

/-- `glyph.removeContour/Component/Anchor/Guideline(x)`: afterwards no registration of the complete table mentions
`x` (for a component: its observations of its layer and of its base glyph are gone too). -/
theorem remove_unwires (s : State) (w : Wired s.heap) (g x : Id) (nx : Node) (kg : s.heap.kindOf g = some .glyph)
    (ex : s.heap.get x = some nx) (kx : nx.kind.isChild = true) (ho : s.heap.ownerOf x = some g) :
    ¬ Mentioned (xstep s (.base (.remove g x))).1 x := by
  have w' := xwired_step w (.base (.remove g x))
  have eh := xstep_base_heap s (.remove g x) (fun _ => by simp)
  have hkids : x ∈ s.heap.kidsOf g := owned_is_listed s.heap w x g ho
  have e : step s.heap (.remove g x) = (removeChild s.heap g x, .ok) := by
    simp [step, kg, kindOf_eq ex, kx, hkids]
  rw [e] at eh
  refine outside_unmentioned w' (outside_of_loose w' ?_ ?_)
  · rw [eh]; exact (ownerOf_removeChild_self w kg ho).1
  · rw [eh, kindOf_removeChild (kindOf_eq ex)]
    intro hk; simp only [Option.some.injEq] at hk; rw [hk] at kx; simp [Kind.isChild] at kx

/-- `glyph.decomposeComponent(c)` (which draws the base glyph's outline into the glyph and removes the component):
afterwards no registration mentions `c`. -/
theorem decompose_unwires (s : State) (w : Wired s.heap) (g c l : Id) (kg : s.heap.kindOf g = some .glyph)
    (kc : s.heap.kindOf c = some .component) (ho : s.heap.ownerOf c = some g) (hl : layerOf s.heap g = some l) :
    (xstep s (.decompose g c)).2 = .ok ∧ ¬ Mentioned (xstep s (.decompose g c)).1 c := by
  have w' := xwired_step w (.decompose g c)
  have hkids : c ∈ s.heap.kidsOf g := owned_is_listed s.heap w c g ho
  have e : ∃ n, xstep s (.decompose g c) = ({ s with heap := removeChild (spawnMany s.heap g .contour n) g c }, .ok) := by
    refine ⟨decomposeCount s l c, ?_⟩
    simp [xstep, kg, kc, hkids, hl]
  obtain ⟨n, e⟩ := e
  rw [e] at w' ⊢
  refine ⟨rfl, ?_⟩
  obtain ⟨w1, k1⟩ := wired_spawnMany (ds := []) (g := g) (k := .contour) (by simp [Kind.isLeaf]) n w kg
  refine outside_unmentioned w' (outside_of_loose w' ?_ ?_)
  · exact (ownerOf_removeChild_self w1 (k1 g _ kg) (ownerOf_spawnMany n ho)).1
  · show (removeChild (spawnMany s.heap g .contour n) g c).kindOf c ≠ some .font
    rw [kindOf_removeChild (k1 c _ kc)]; simp

/-- `del layer[name]` for a loaded glyph `g`: afterwards no registration mentions the glyph or anything it owned
(its components' observations of their base glyphs, its image's observation of the image set included). -/
theorem delGlyph_unwires (s : State) (w : Wired s.heap) (l g : Id) (name : String) (hl : liveLayer s.heap l = true)
    (hf : s.heap.findNamed l .glyph name = some g) (y : Id) (hy : y = g ∨ s.heap.ownerOf y = some g) :
    ¬ Mentioned (xstep s (.base (.delGlyph l name))).1 y := by
  have w' := xwired_step w (.base (.delGlyph l name))
  have eh := xstep_base_heap s (.delGlyph l name) (fun _ => by simp)
  obtain ⟨_, d, _⟩ := delGlyph_detaches s.heap w l g name hl hf
  obtain ⟨kl, ls, hs⟩ := liveLayer_spec hl
  obtain ⟨hg, kg⟩ := findNamed_some hf
  obtain ⟨f, c⟩ := layerCtx_of_live w.toStruct kl hs
  obtain ⟨ng, eg, kng, hog, hd⟩ := glyph_of_live_layer w c hg kg
  have e : step s.heap (.delGlyph l name) = (mark (killGlyph s.heap l g) l, .ok) := by simp [step, kl, hl, hf]
  have ky : ∃ k, s.heap.kindOf y = some k ∧ k ≠ .font := by
    rcases hy with e1 | e1
    · subst e1; exact ⟨.glyph, kg, by simp⟩
    · obtain ⟨ny, ey, _⟩ := ownerOf_some e1
      exact ⟨ny.kind, kindOf_eq ey, fun hk => kind_ne_font_of_owner e1 (by rw [kindOf_eq ey, hk])⟩
  obtain ⟨k, ky, knf⟩ := ky
  refine outside_unmentioned w' (outside_of_loose w' ?_ ?_)
  · rw [eh]; exact d y hy
  · rw [eh, e, kindOf_mark, kindOf_killGlyph w eg kng hog ky]; simpa using knf

/-- `layer.newGlyph(name)` over a loaded glyph `g` (and, through the same `_insertGlyph`, `insertGlyph` and a rename
onto the name): afterwards no registration mentions the replaced glyph or anything it owned — in particular no
component that named it observes the replaced object any more (the defect repaired by repo_fixes/C11-r3-1; by
`cross_links_exact` in the state after the operation such a component observes what the layer files under the name
then). -/
theorem newGlyph_unwires (s : State) (w : Wired s.heap) (l g : Id) (name : String) (hl : liveLayer s.heap l = true)
    (hf : s.heap.findNamed l .glyph name = some g) (y : Id) (hy : y = g ∨ s.heap.ownerOf y = some g) :
    ¬ Mentioned (xstep s (.base (.newGlyph l name))).1 y := by
  have w' := xwired_step w (.base (.newGlyph l name))
  have eh := xstep_base_heap s (.newGlyph l name) (fun _ => by simp)
  obtain ⟨_, d⟩ := newGlyph_replaces s.heap w l g name hl hf
  obtain ⟨kl, ls, hs⟩ := liveLayer_spec hl
  obtain ⟨hg, kg⟩ := findNamed_some hf
  have e : step s.heap (.newGlyph l name) = (mark ((addGlyph s.heap l name).setDirty s.heap.next) l, .id s.heap.next) := by
    simp [step, kl, hl]
  obtain ⟨_, k1, _, _⟩ := wired_addGlyph w kl hs name
  have ky : ∃ k, s.heap.kindOf y = some k ∧ k ≠ .font := by
    rcases hy with e1 | e1
    · subst e1; exact ⟨.glyph, kg, by simp⟩
    · obtain ⟨ny, ey, _⟩ := ownerOf_some e1
      exact ⟨ny.kind, kindOf_eq ey, fun hk => kind_ne_font_of_owner e1 (by rw [kindOf_eq ey, hk])⟩
  obtain ⟨k, ky, knf⟩ := ky
  refine outside_unmentioned w' (outside_of_loose w' ?_ ?_)
  · rw [eh]; exact d y hy
  · rw [eh, e, kindOf_mark, kindOf_setDirty, k1 y k ky]; simpa using knf

/-- `del font.layers[name]`: afterwards no registration mentions the layer, its glyphs and lib, or anything those
glyphs owned — whatever the order in which the layer lets go of a base glyph and of the glyph whose component
observes it (the second defect repaired by repo_fixes/C11-r3-1). -/
theorem delLayer_unwires (s : State) (w : Wired s.heap) (f ls l : Id) (name : String)
    (hs : layerSetOfFont s.heap f = some ls) (hf : s.heap.findNamed ls .layer name = some l) (y : Id)
    (hy : y = l ∨ s.heap.ownerOf y = some l ∨ ∃ k, s.heap.ownerOf k = some l ∧ s.heap.ownerOf y = some k) :
    ¬ Mentioned (xstep s (.base (.delLayer f name))).1 y := by
  have w' := xwired_step w (.base (.delLayer f name))
  have eh := xstep_base_heap s (.delLayer f name) (fun _ => by simp)
  obtain ⟨_, d, _⟩ := delLayer_detaches s.heap w f ls l name hs hf
  obtain ⟨_, kl⟩ := findNamed_some hf
  have e : step s.heap (.delLayer f name) = (mark (killLayer s.heap ls l) ls, .ok) := by simp [step, hs, hf]
  have ky : ∃ k, s.heap.kindOf y = some k ∧ k ≠ .font := by
    rcases hy with e1 | e1 | ⟨k, _, e1⟩
    · subst e1; exact ⟨.layer, kl, by simp⟩
    · obtain ⟨ny, ey, _⟩ := ownerOf_some e1
      exact ⟨ny.kind, kindOf_eq ey, fun hk => kind_ne_font_of_owner e1 (by rw [kindOf_eq ey, hk])⟩
    · obtain ⟨ny, ey, _⟩ := ownerOf_some e1
      exact ⟨ny.kind, kindOf_eq ey, fun hk => kind_ne_font_of_owner e1 (by rw [kindOf_eq ey, hk])⟩
  obtain ⟨k, ky, knf⟩ := ky
  refine outside_unmentioned w' (outside_of_loose w' ?_ ?_)
  · rw [eh]; exact d y hy
  · rw [eh, e, kindOf_mark, kk_killLayer s.heap ls l y k ky]; simpa using knf

/-! ## 9. A change travels along live links only -/

/-- `change_reaches_only_linked` (extends `change_reaches_only_owners` to the complete table): when ANY object `x` is
changed, every sender of a `*.Changed` notification and every container whose dirty flag is raised is reached
from `x` along LIVE links — owner pointers, and the observation of a glyph object by a component that belongs to a
glyph of the font and whose layer files that object under the component's base glyph name NOW. -/
theorem change_reaches_only_linked (s : State) (w : Wired s.heap) (x : Id) :
    (∀ posted, (xmutate s x).2 = .mut posted → ∀ a ∈ posted, Reach s x a) ∧
    (∀ a ∈ (xmutate s x).1.heap.dirty, a ∈ s.heap.dirty ∨ Reach s x a) := by
  unfold xmutate
  cases hk : s.heap.kindOf x with
  | none => exact ⟨fun posted hp => by simp at hp, fun a ha => Or.inl ha⟩
  | some k =>
    simp only
    by_cases hlf : k.isLeaf = true
    · simp only [hlf, if_true]
      obtain ⟨d', e, p1, p2⟩ := xpost_sound s.base w XFUEL s.heap.dirty x .changed
      rw [wd_self] at e p1
      refine ⟨fun posted hp a ha => ?_, fun a ha => ?_⟩
      · simp only [Res.mut.injEq] at hp; subst hp; exact p1 a ha
      · rw [e] at ha; exact p2 a ha
    · simp only [hlf]
      have e0 : s.heap.setDirty x = wd s.heap (if x ∈ s.heap.dirty then s.heap.dirty else x :: s.heap.dirty) := by
        have := wd_setDirty s.heap s.heap.dirty x
        rw [wd_self] at this; exact this
      obtain ⟨d', e, p1, p2⟩ := xpost_sound s.base w XFUEL (if x ∈ s.heap.dirty then s.heap.dirty else x :: s.heap.dirty) x .changed
      simp only [Bool.false_eq_true, if_false]
      rw [e0]
      refine ⟨fun posted hp a ha => ?_, fun a ha => ?_⟩
      · simp only [Res.mut.injEq] at hp; subst hp; exact p1 a ha
      · rw [e] at ha
        rcases p2 a ha with h1 | h1
        · split at h1
          · exact Or.inl h1
          · simp only [List.mem_cons] at h1
            rcases h1 with h1 | h1
            · subst h1; exact Or.inr (Reach.refl _)
            · exact Or.inl h1
        · exact Or.inr h1

/-- `removed_object_inert_full` (extends `detached_inert`).
(a) Changing an object that has no dispatcher — anything removed or replaced, anything a removed glyph or layer
    took along — sends nothing, changes no node and no registration, and raises no flag but its own.
(b) Whatever object `x` of a font is changed — also the former base glyph of a removed component, or the former
    glyph of a removed contour —, an object `y` that belongs to no font is neither a sender nor dirtied, and no
    cross link leads through it; everything that is reached belongs to `x`'s font. -/
theorem removed_object_inert_full (s : State) (w : Wired s.heap) (x : Id) :
    (dispOf s.heap x = none →
      (xmutate s x).1.heap.nodes = s.heap.nodes ∧ (xmutate s x).1.heap.regs = s.heap.regs ∧
      (∀ a ∈ (xmutate s x).1.heap.dirty, a ∈ s.heap.dirty ∨ a = x) ∧
      ((xmutate s x).2 = .mut [] ∨ (xmutate s x).2 = .err .noSuchObject)) ∧
    (∀ y, Outside s.heap y → y ≠ x →
      (∀ posted, (xmutate s x).2 = .mut posted → y ∉ posted) ∧
      (y ∈ (xmutate s x).1.heap.dirty → y ∈ s.heap.dirty) ∧ rowsOf s y = [] ∧ ∀ c, watches s c y = false) ∧
    (∀ a, centreOf s.heap x ≠ none → Reach s x a → centreOf s.heap a = centreOf s.heap x) := by
  have A : dispOf s.heap x = none →
      (xmutate s x).1.heap.nodes = s.heap.nodes ∧ (xmutate s x).1.heap.regs = s.heap.regs ∧
      (∀ a ∈ (xmutate s x).1.heap.dirty, a ∈ s.heap.dirty ∨ a = x) ∧
      ((xmutate s x).2 = .mut [] ∨ (xmutate s x).2 = .err .noSuchObject) := by
    intro hd
    unfold xmutate
    cases hk : s.heap.kindOf x with
    | none => exact ⟨rfl, rfl, fun a ha => Or.inl ha, Or.inr rfl⟩
    | some k =>
      simp only
      by_cases hlf : k.isLeaf = true
      · simp only [hlf, if_true]
        rw [xpost_silent s.base XFUEL s.heap x .changed hd]
        exact ⟨rfl, rfl, fun a ha => Or.inl ha, Or.inl rfl⟩
      · simp only [hlf, Bool.false_eq_true, if_false]
        have hd' : dispOf (s.heap.setDirty x) x = none := by
          rw [dispOf_congr (h := s.heap) (fun i => by simp)]; exact hd
        rw [xpost_silent s.base XFUEL (s.heap.setDirty x) x .changed hd']
        refine ⟨by unfold Heap.setDirty; split <;> rfl, by simp, fun a ha => ?_, Or.inl rfl⟩
        unfold Heap.setDirty at ha
        split at ha
        · exact Or.inl ha
        · simp only [List.mem_cons] at ha
          rcases ha with ha | ha
          · exact Or.inr ha
          · exact Or.inl ha
  refine ⟨A, fun y hy hne => ?_, fun a hx r => reach_in_font w r hx⟩
  obtain ⟨n1, n2⟩ := outside_not_followed s w y hy
  by_cases hx : centreOf s.heap x = none
  · -- the changed object is outside the fonts itself: nothing is sent at all
    have hd : dispOf s.heap x = none := by rw [disp_exact w.toStruct]; exact hx
    obtain ⟨_, _, a3, a4⟩ := A hd
    refine ⟨fun posted hp hm => ?_, fun hm => ?_, n1, n2⟩
    · rcases a4 with a4 | a4
      · rw [a4] at hp; simp only [Res.mut.injEq] at hp; subst hp; simp at hm
      · rw [a4] at hp; cases hp
    · rcases a3 y hm with h1 | h1
      · exact h1
      · exact absurd h1 hne
  · -- the changed object belongs to a font: so does everything that is reached
    obtain ⟨c1, c2⟩ := change_reaches_only_linked s w x
    have key : Reach s x y → False := fun r => by
      have := reach_in_font w r hx
      rw [show centreOf s.heap y = none from hy] at this
      exact hx this.symm
    exact ⟨fun posted hp hm => key (c1 posted hp y hm), fun hm => (c2 y hm).resolve_right key, n1, n2⟩

/-! ## 10. Non-vacuity of sections 7–9 -/

/-- font 0 (layer set 1, layer 2, lib 3), glyph 4 "A" with contour 5, glyph 6 "C" with component 7 that names "A"
and image 8 -/
def xdemo : State := xrun {} [.base .newFont, .base (.newGlyph 2 "A"), .base (.new .contour), .base (.insert 4 5),
  .base (.newGlyph 2 "C"), .newComp (some "A"), .base (.insert 6 7), .base (.touch 6 .image)]

example : Wired xdemo.heap := xwired_reachable _
/-- the component observes glyph object 4 and layer 2, the image layer 2 and the image set of font 0: ten rows -/
example : watchOf xdemo 7 = some (.glyph 2 4) ∧ imageWatch xdemo.heap 8 = some (2, 0) ∧ (crossTable xdemo).length = 10 := by
  decide
/-- the hypotheses of `cross_links_exact` and `image_links_exact` hold for component 7 and image 8 -/
example : xdemo.heap.kindOf 0 = some .font ∧ 1 ∈ xdemo.heap.kidsOf 0 ∧ xdemo.heap.kindOf 1 = some .layerSet ∧
    2 ∈ xdemo.heap.kidsOf 1 ∧ 6 ∈ xdemo.heap.kidsOf 2 ∧ xdemo.heap.kindOf 6 = some .glyph ∧ 7 ∈ xdemo.heap.kidsOf 6 ∧
    xdemo.heap.kindOf 7 = some .component ∧ 8 ∈ xdemo.heap.kidsOf 6 ∧ xdemo.heap.kindOf 8 = some .image ∧
    xdemo.baseOf 7 = some "A" ∧ xdemo.heap.findNamed 2 .glyph "A" = some 4 := by decide
/-- `in_font_iff_listed`: component 7 belongs to font 0, being listed by glyph 6, which does -/
example : centreOf xdemo.heap 7 = some 0 ∧ 7 ∈ xdemo.heap.kidsOf 6 ∧ centreOf xdemo.heap 6 = some 0 := by decide
/-- a change of the base glyph's contour 5 travels along the live links: contour 5 → glyph 4 → component 7 → glyph 6 -/
example : Reach xdemo 5 6 :=
  Reach.up (p := 4) (by decide) (Reach.follow (c := 7) (by decide) (Reach.up (p := 6) (by decide) (Reach.refl _)))
/-- … and is heard: glyph 6 posts `Glyph.Changed` (and its layer, layer set and font follow), then glyph 4 does -/
example : (xstep (xstep xdemo (.base .clean)).1 (.base (.mutate 5))).2 = .mut [5, 6, 2, 1, 0, 4, 2, 1, 0] := by decide

/-- the component removed: it belongs to no font, no registration mentions it, changing it is silent, and a
change of its former base glyph does not reach its former glyph 6 any more -/
def xremoved : State := xrun xdemo [.base (.remove 6 7), .base .clean]
example : xdemo.heap.kindOf 6 = some .glyph ∧ xdemo.heap.ownerOf 7 = some 6 := by decide
example : Outside xremoved.heap 7 ∧ dispOf xremoved.heap 7 = none ∧ (xmutate xremoved 7).2 = .mut [] ∧
    (xstep xremoved (.base (.mutate 5))).2 = .mut [5, 4, 2, 1, 0] ∧ (crossTable xremoved).length = 4 := by
  unfold Outside; decide
example : ¬ Mentioned xremoved 7 := by unfold Mentioned; decide
/-- (the hypotheses of `loose_unmentioned`: the removed component points to no owner and is not a font) -/
example : xremoved.heap.ownerOf 7 = none ∧ xremoved.heap.kindOf 7 ≠ some .font := by decide

/-- the base glyph replaced by `newGlyph` over its name: the component observes the new object 9; the replaced
glyph 4 and its contour 5 belong to no font and are mentioned nowhere -/
def xreplaced : State := (xstep xdemo (.base (.newGlyph 2 "A"))).1
example : liveLayer xdemo.heap 2 = true ∧ xdemo.heap.findNamed 2 .glyph "A" = some 4 := by decide
example : watchOf xreplaced 7 = some (.glyph 2 9) ∧ Outside xreplaced.heap 4 ∧ Outside xreplaced.heap 5 := by
  unfold Outside; decide
example : ¬ Mentioned xreplaced 4 ∧ ¬ Mentioned xreplaced 5 := by unfold Mentioned; decide
/-- the base glyph deleted or renamed away: the component observes the layer alone -/
example : watchOf (xstep xdemo (.base (.delGlyph 2 "A"))).1 7 = some (.layer 2) ∧
    watchOf (xstep xdemo (.base (.renameGlyph 4 "Q"))).1 7 = some (.layer 2) ∧
    watchOf (xstep xdemo (.setBase 7 (some "Q"))).1 7 = some (.layer 2) ∧
    watchOf (xstep xdemo (.setBase 7 none)).1 7 = none := by decide
/-- the glyph with the component and the image deleted: no cross link is left -/
example : xdemo.heap.findNamed 2 .glyph "C" = some 6 ∧ crossTable (xstep xdemo (.base (.delGlyph 2 "C"))).1 = [] := by decide
example : ¬ Mentioned (xstep xdemo (.base (.delGlyph 2 "C"))).1 7 ∧ ¬ Mentioned (xstep xdemo (.base (.delGlyph 2 "C"))).1 8 := by
  unfold Mentioned; decide
/-- the component decomposed: the base glyph's contour is copied (object 9), the component is let go -/
example : layerOf xdemo.heap 6 = some 2 ∧ (xstep xdemo (.decompose 6 7)).2 = .ok ∧
    (xstep xdemo (.decompose 6 7)).1.heap.kidsOf 6 = [8, 9] ∧ ¬ Mentioned (xstep xdemo (.decompose 6 7)).1 7 := by
  unfold Mentioned; decide

/-- a layer "back" (4) with the base glyph 5 created BEFORE the glyph 6 whose component 7 observes it, and an image 8:
deleting the layer leaves no registration that mentions any of them -/
def xlayer : State := xrun {} [.base .newFont, .base (.newLayer 0 "back"), .base (.newGlyph 4 "A"), .base (.newGlyph 4 "C"),
  .newComp (some "A"), .base (.insert 6 7), .base (.touch 6 .image)]
example : layerSetOfFont xlayer.heap 0 = some 1 ∧ xlayer.heap.findNamed 1 .layer "back" = some 4 ∧
    watchOf xlayer 7 = some (.glyph 4 5) := by decide
example : crossTable (xstep xlayer (.base (.delLayer 0 "back"))).1 = [] ∧
    ¬ Mentioned (xstep xlayer (.base (.delLayer 0 "back"))).1 5 ∧ ¬ Mentioned (xstep xlayer (.base (.delLayer 0 "back"))).1 7 ∧
    ¬ Mentioned (xstep xlayer (.base (.delLayer 0 "back"))).1 8 := by
  unfold Mentioned; decide

/-! ## 11. The wiring is kept, not computed: registrations established and dropped at the code's events -/

/-- The layer announcements are complete.  `announced` lists what an operation tells the components of a layer —
`Layer.GlyphAdded` (newGlyph, insertGlyph), `Layer.GlyphWillBeDeleted` / `GlyphDeleted` (`del layer[name]`),
`Layer.GlyphNameChanged` with the new name and `Glyph.NameChanged` of the renamed object with the old one
(`glyph.name = …`) —: for every (layer, glyph name) pair that is NOT announced, a layer that belongs to a font files
the same glyph object under that name after the operation as before — whatever the operation (all 21 of
M-Parents, `Component()`, `baseGlyph =`, loading, decomposing) and its arguments. -/
theorem announcements_complete (s : State) (w : Wired s.heap) (op : Cross.Op) (l : Id) (n : String)
    (kl : s.heap.kindOf l = some .layer) (al : s.heap.alive l) (hn : (l, n) ∉ announced s.heap op) :
    (xstep s op).1.heap.findNamed l .glyph n = s.heap.findNamed l .glyph n := filing_xstep w op kl al hn

/-- `synced`: the stored wiring — what each component observes, changed ONLY by the reaction of the components
that observe the announcing layer and have the announced base glyph name (`rebind`: end, look the name up again,
begin) and by begin / end of a component's own observation when it gets, loses or changes its place in a font
or its base glyph name (`settle`) — equals what the tree says (`watchOf`) in every reachable state. -/
theorem synced (ops : List Cross.Op) (c : Id) : (orun {} ops).watchAt c = watchOf (orun {} ops).st c :=
  synced_run ops (s := {}) wired_empty synced_empty c

/-- … hence the table of the stored registrations is the table of the tree, and the state it sits on is the
state sections 7–9 are about. -/
theorem stored_wiring_exact (ops : List Cross.Op) :
    storedTable (orun {} ops) = crossTable (orun {} ops).st ∧ (orun {} ops).st = xrun {} ops :=
  ⟨storedTable_eq (synced ops), orun_st ops {}⟩

/-- `cross_links_exact` for the stored registrations of a reachable state: a component in the tree holds exactly
the registrations on its layer and on the glyph object the layer files under its base glyph name. -/
theorem cross_links_exact_stored (ops : List Cross.Op) (f ls l g c : Id)
    (kf : (orun {} ops).st.heap.kindOf f = some .font) (hs : ls ∈ (orun {} ops).st.heap.kidsOf f)
    (ks : (orun {} ops).st.heap.kindOf ls = some .layerSet) (hl : l ∈ (orun {} ops).st.heap.kidsOf ls)
    (hg : g ∈ (orun {} ops).st.heap.kidsOf l) (kg : (orun {} ops).st.heap.kindOf g = some .glyph)
    (hc : c ∈ (orun {} ops).st.heap.kidsOf g) (kc : (orun {} ops).st.heap.kindOf c = some .component) (r : XReg) :
    (r ∈ storedTable (orun {} ops) ∧ r.observer = c) ↔
      ∃ b, (orun {} ops).st.baseOf c = some b ∧
        r ∈ compRows f c (Watch.of l ((orun {} ops).st.heap.findNamed l .glyph b)) := by
  rw [(stored_wiring_exact ops).1]
  have w : Wired (orun {} ops).st.heap := by rw [(stored_wiring_exact ops).2]; exact xwired_reachable ops
  exact cross_links_exact (orun {} ops).st w f ls l g c kf hs ks hl hg kg hc kc r

/-- `no_wiring_left` for the stored registrations: an object outside the fonts is observer or observable of none
of them — every removal path has ended what it had to end. -/
theorem no_wiring_left_stored (ops : List Cross.Op) (x : Id) (hx : Outside (orun {} ops).st.heap x) :
    ∀ r ∈ storedTable (orun {} ops), r.observer ≠ x ∧ r.observable ≠ .node x := by
  intro r hr
  rw [(stored_wiring_exact ops).1] at hr
  have w : Wired (orun {} ops).st.heap := by rw [(stored_wiring_exact ops).2]; exact xwired_reachable ops
  have hm := outside_unmentioned w hx
  exact ⟨fun e => hm (Or.inr ⟨r, hr, Or.inl e⟩), fun e => hm (Or.inr ⟨r, hr, Or.inr e⟩)⟩

/-- the history of `xdemo` with the stored wiring -/
def odemo : OState := orun {} [.base .newFont, .base (.newGlyph 2 "A"), .base (.new .contour), .base (.insert 4 5),
  .base (.newGlyph 2 "C"), .newComp (some "A"), .base (.insert 6 7), .base (.touch 6 .image)]

/-- established at the insertion: glyph object 4 and layer 2; ten stored rows -/
example : odemo.watchAt 7 = some (.glyph 2 4) ∧ (storedTable odemo).length = 10 ∧ odemo.st.heap.alive 2 := by
  refine ⟨by decide, by decide, ⟨_, rfl, Or.inr (by decide)⟩⟩
/-- what `newGlyph 2 "A"` announces, and what it does not: the filing of "C" is untouched -/
example : announced odemo.st.heap (.base (.newGlyph 2 "A")) = [(2, "A")] ∧
    (xstep odemo.st (.base (.newGlyph 2 "A"))).1.heap.findNamed 2 .glyph "C" = some 6 := by decide
/-- re-bound at the announcements: the base glyph replaced (new object 9), deleted, renamed away, renamed back -/
example : (orun odemo [.base (.newGlyph 2 "A")]).watchAt 7 = some (.glyph 2 9) ∧
    (orun odemo [.base (.delGlyph 2 "A")]).watchAt 7 = some (.layer 2) ∧
    (orun odemo [.base (.renameGlyph 4 "Q")]).watchAt 7 = some (.layer 2) ∧
    (orun odemo [.base (.renameGlyph 4 "Q"), .base (.renameGlyph 4 "A")]).watchAt 7 = some (.glyph 2 4) ∧
    (orun odemo [.base (.renameGlyph 6 "Z")]).watchAt 7 = some (.glyph 2 4) := by decide
/-- dropped at every removal, established again at the next insertion -/
example : (orun odemo [.base (.remove 6 7)]).watchAt 7 = none ∧ (orun odemo [.decompose 6 7]).watchAt 7 = none ∧
    (orun odemo [.base (.delGlyph 2 "C")]).watchAt 7 = none ∧ (orun odemo [.base (.clearAll 6)]).watchAt 7 = none ∧
    (orun odemo [.base (.remove 6 7), .base (.insert 6 7)]).watchAt 7 = some (.glyph 2 4) ∧
    (orun odemo [.setBase 7 (some "Q")]).watchAt 7 = some (.layer 2) ∧
    (orun odemo [.setBase 7 none]).watchAt 7 = none := by decide

end DefconModel.Props.C11
