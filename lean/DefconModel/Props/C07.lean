import DefconModel.Spec.Layer
namespace DefconModel.Props.C07
open DefconModel DefconModel.Layer

theorem placeholder : abs {} "A" = none := by decide

end DefconModel.Props.C07
