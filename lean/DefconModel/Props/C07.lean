/-
C07 — Lazy loading is transparent.

Theorems about M-Layer (`DefconModel/Layer.lean`, the executable model of the glyph bookkeeping of
`Lib/defcon/objects/layer.py`).  `abs s` is the abstract content of a layer (what a user who reads
everything sees); every query and every operation is shown to depend on the state only through
`abs s`, whatever has been loaded, deleted, renamed, re-added or saved before.
-/
import DefconModel.Lemmas.Layer

namespace DefconModel.Props.C07
open DefconModel DefconModel.Layer

/-- A freshly opened layer is well formed and shows exactly the glyph set's contents. -/
theorem opened_good (disk : List (String × GRec)) (hk : (AL.keys disk).Nodup)
    (hr : ∀ p ∈ disk, p.2.unicodes.Nodup) :
    Good (opened disk) ∧ ∀ k, abs (opened disk) k = AL.get? disk k := by
  have habs : ∀ k, abs (opened disk) k = AL.get? disk k := by
    intro k; simp [abs, opened]
  refine ⟨⟨?_, ?_, ?_⟩, habs⟩
  · constructor
    · exact hk
    · simp [opened, AL.keys]
    · simpa [opened, AL.keys] using hk
    · simp [opened]
    · intro m hm; simp [opened] at hm
    · intro m hm; simp [opened] at hm
    · intro k
      rw [habs]
      simp only [opened]
      constructor
      · intro hm
        have : k ∈ AL.keys disk := by simpa [AL.keys] using hm
        cases hg : AL.get? disk k with
        | some v => rfl
        | none =>
          exfalso
          simp only [AL.keys, List.mem_map] at this
          obtain ⟨⟨k', v⟩, hp, rfl⟩ := this
          rw [AL.get?_of_mem_nodup hk hp] at hg
          simp at hg
      · intro hs
        cases hg : AL.get? disk k with
        | none => simp [hg] at hs
        | some v => simpa [AL.keys] using AL.mem_keys_of_get? hg
    · intro k r hl; simp [opened] at hl
  · exact uniInv_none _
  · intro n r hn _
    rw [habs] at hn
    exact hr _ (AL.mem_of_get? hn)

/-- Reading a glyph is invisible: the abstract content is unchanged (and the invariants hold). -/
theorem load_invisible (s s' : State) (n : String) (r : GRec) (h : Good s)
    (hg : getItem s n = .ok (s', r)) : Good s' ∧ (∀ k, abs s' k = abs s k) ∧ abs s n = some r :=
  let ⟨a, b, c, _⟩ := getItem_spec h hg
  ⟨a, b, c⟩

/-- Reading fails exactly for names the layer does not contain. -/
theorem load_fails_iff_absent (s : State) (n : String) (h : Good s) :
    (∃ e, getItem s n = .error e) ↔ abs s n = none := getItem_error_iff h.wf

/-- Every operation commutes with the abstraction: its effect on the abstract content — and
whether it is rejected — is a function of the abstract content alone (`specStep` never looks at
what is loaded, scheduled for deletion or on disk).  Covers reading, creating, replacing,
inserting, deleting (read or never read, on disk or not), renaming, unicode assignment, other
edits, in-place save, and first access to the unicode data. -/
theorem op_commutes (s : State) (op : Op) (h : Good s) (hop : OpOK (abs s) op) :
    Good (stepTotal s op) ∧ ∀ k, abs (stepTotal s op) k = specTotal (abs s) op k :=
  step_refines op h hop

/-- … hence so does every operation sequence. -/
theorem run_commutes (s : State) (ops : List Op) (h : Good s) (hops : OpsOK (abs s) ops) :
    Good (run s ops) ∧ ∀ k, abs (run s ops) k = specRun (abs s) ops k :=
  run_refines s ops h hops

/-- Lazy loading is transparent: two layers with the same abstract content — nothing read, some
glyphs read, all read, or a memory-only twin with no glyph set at all — still have the same
abstract content after any common operation sequence. -/
theorem lazy_transparent (s1 s2 : State) (ops : List Op) (h1 : Good s1) (h2 : Good s2)
    (heq : ∀ k, abs s1 k = abs s2 k) (hops : OpsOK (abs s1) ops) :
    ∀ k, abs (run s1 ops) k = abs (run s2 ops) k := by
  have hfe : abs s1 = abs s2 := funext heq
  intro k
  rw [(run_refines s1 ops h1 hops).2 k, (run_refines s2 ops h2 (hfe ▸ hops)).2 k, hfe]

/-! ### every query is a function of the abstract content -/

/-- `keys()`, `in`, `len`, iteration -/
theorem keys_exact (s : State) (h : Good s) (n : String) : n ∈ visible s ↔ (abs s n).isSome :=
  mem_visible_iff h.wf n

theorem keys_nodup (s : State) (h : Good s) : (visible s).Nodup :=
  (List.filter_sublist).nodup h.wf.keysNodup

/-- `componentReferences` : base `b` is referenced by `n` iff `n`'s record lists `b` -/
theorem componentReferences_exact (s : State) (h : Good s) (b n : String) :
    (b, n) ∈ componentReferences s ↔ ∃ r, abs s n = some r ∧ b ∈ r.comps := by
  rw [componentReferences_eq]
  simp only [List.mem_flatMap, List.mem_map, Prod.mk.injEq]
  constructor
  · rintro ⟨⟨k, r⟩, hp, b', hb, rfl, rfl⟩
    exact ⟨r, (mem_visRecs_iff h.wf k r).mp hp, hb⟩
  · rintro ⟨r, hr, hb⟩
    exact ⟨(n, r), (mem_visRecs_iff h.wf n r).mpr hr, b, hb, rfl, rfl⟩

/-- `imageReferences` -/
theorem imageReferences_exact (s : State) (h : Good s) (f n : String) :
    (f, n) ∈ imageReferences s ↔ ∃ r, abs s n = some r ∧ r.image = some f := by
  rw [imageReferences_eq]
  simp only [List.mem_filterMap, Option.map_eq_some_iff, Prod.mk.injEq]
  constructor
  · rintro ⟨⟨k, r⟩, hp, f', hf, rfl, rfl⟩
    exact ⟨r, (mem_visRecs_iff h.wf k r).mp hp, hf⟩
  · rintro ⟨r, hr, hf⟩
    exact ⟨(n, r), (mem_visRecs_iff h.wf n r).mpr hr, f, hf, rfl, rfl⟩

/-- Full statement for `glyphsWithOutlines`: membership depends on the abstract content only. -/
def OutlinesTransparent : Prop :=
  ∀ s1 s2 : State, Good s1 → Good s2 → (∀ k, abs s1 k = abs s2 k) →
    ∀ n, n ∈ glyphsWithOutlines s1 ↔ n ∈ glyphsWithOutlines s2

/-- `glyphsWithOutlines`: exactly the glyphs whose content has a point that ends a segment — the loaded path and
the fast GLIF scan apply the same test (`_hasOutlineData` / `_fetchHasOutlineData`; they used to differ:
finding F33, repaired in /repo) -/
theorem glyphsWithOutlines_exact (s : State) (h : Good s) (n : String) :
    n ∈ glyphsWithOutlines s ↔ ∃ r, abs s n = some r ∧ r.outlineFast = true := by
  unfold glyphsWithOutlines
  simp only [List.mem_append, List.mem_map, List.mem_filter, decide_eq_true_eq]
  constructor
  · rintro (⟨⟨k, v⟩, ⟨hp, hs, ho⟩, rfl⟩ | ⟨⟨k, v⟩, ⟨hp, hnl, hs, ho⟩, rfl⟩)
    · have := abs_of_loaded (AL.get?_of_mem_nodup h.wf.loadedKeys hp)
      exact ⟨v.1, this, ho⟩
    · have hnl' : AL.get? s.loaded k = none := (AL.contains_false_iff _ _).mp (by simpa [isLoaded] using hnl)
      have hab : abs s k = some v := by
        rw [abs_of_not_loaded hnl']; simp only at hs; simp [hs, AL.get?_of_mem_nodup h.wf.diskKeys hp]
      exact ⟨v, hab, ho⟩
  · rintro ⟨r, hr, ho⟩
    cases hl : AL.get? s.loaded n with
    | some p =>
      left
      rw [abs_of_loaded hl] at hr
      simp only [Option.some.injEq] at hr
      refine ⟨(n, p), ⟨AL.mem_of_get? hl, ?_, by simpa [hr] using ho⟩, rfl⟩
      intro hs; rw [h.wf.schedNotLoaded n hs] at hl; simp at hl
    | none =>
      right
      rw [abs_of_not_loaded hl] at hr
      by_cases hs : n ∈ s.sched
      · simp [hs] at hr
      · simp only [hs, if_false] at hr
        exact ⟨(n, r), ⟨AL.mem_of_get? hr, by simp [isLoaded, AL.contains, hl], hs, ho⟩, rfl⟩

/-- the full statement: the answer depends on the abstract content only, not on what has been read -/
theorem glyphsWithOutlines_transparent : OutlinesTransparent := by
  intro s1 s2 h1 h2 hab n
  rw [glyphsWithOutlines_exact s1 h1, glyphsWithOutlines_exact s2 h2, hab n]

/-- the former F33 witness (a glyph whose contours hold only move / off-curve points: `len(glyph) > 0`, no
segment): listed neither before nor after it is read -/
def f33Disk : List (String × GRec) := [("A", { outlineLoaded := true, outlineFast := false })]
example : glyphsWithOutlines (opened f33Disk) = [] := by decide
example : glyphsWithOutlines (stepTotal (opened f33Disk) (.get "A")) = [] := by decide

/-! ### the layer-level core of C01/C06: what an in-place save writes -/

/-- After an in-place save the glyph set holds exactly the abstract content, so re-opening it
yields the same layer — after any history. -/
theorem save_reopen (s : State) (h : Good s) :
    ∀ k, abs (opened (save s).disk) k = abs s k := by
  intro k
  simp only [abs, opened, AL.get?_nil, List.not_mem_nil, if_false]
  exact save_disk h.wf k

/-! ### non-vacuity -/

def demoDisk : List (String × GRec) :=
  [("A", { unicodes := [65], outlineLoaded := true, outlineFast := true }),
   ("B", { unicodes := [66, 65], comps := ["A"] }),
   ("C", { image := some "i.png" })]

example : Good (opened demoDisk) := (opened_good demoDisk (by decide) (by decide)).1
/-- delete a never-read glyph, rename another onto nothing, re-add under the old name -/
def demoOps : List Op := [.delete "A", .rename "B" "D", .touchUni, .new "A", .setUnicodes "A" [66], .save, .delete "C"]
example : OpsOK (abs (opened demoDisk)) demoOps := by decide
example : visible (run (opened demoDisk) demoOps) = ["D", "A"] := by decide
example : (run (opened demoDisk) demoOps).uni = some [(66, ["D", "A"]), (65, ["D"])] := by decide
example : componentReferences (run (opened demoDisk) demoOps) = [("A", "D")] := by decide

end DefconModel.Props.C07
