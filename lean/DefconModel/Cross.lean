/-
M-Cross: M-Parents (the object tree, its parent references and parent<-child registrations) composed
with the CROSS LINKS of defcon's notification wiring, after repo_fixes/C11-r3-1:

* a component that belongs to a glyph of a font and names a base glyph observes its layer and — when the
  layer files a glyph object under that name — that object (objects/component.py:
  `beginSelfBaseGlyphNotificationObservation`, `_beginBaseGlyphObservations`, `_beginLayerObservations` and the
  six callbacks that re-bind it when a glyph is added, deleted or renamed; M-Follow, `Follow.lean`, models the
  same callbacks for one layer — `Watch` is its `Follow.Watch` with the layer made explicit);
* an image that belongs to a glyph of a font observes the font's image set and its layer's colour
  (objects/image.py: `beginSelfImageSetNotificationObservation`).

The state is the M-Parents heap plus the base-glyph NAME of every component.  `watchOf` / `imageWatch` say
what a component / image observes in a state; `crossTable` lists the registrations this amounts to, with the
notification names of the code; `table` = the parent<-child and self registrations of M-Parents (`heap.regs`)
together with the cross links = the complete registry of the fonts' notification centres as far as the
modelled objects go (the harness compares it with `NotificationCenter._registry` after every operation).

The second half of the file keeps the components' wiring as STATE (`OState`, `ostep`): registrations established
and dropped at the events at which the code does it, not recomputed — `synced` (Props/C11.lean) proves the two
descriptions equal in every reachable state, and the driver dumps the stored one.

`xpost` delivers a change along the complete table: besides the `*.Changed` chain of M-Parents' `post`, a glyph
that hears `Contour.Changed` / `Component.Changed` posts `Glyph.ContoursChanged` / `Glyph.ComponentsChanged`, the
components that observe it post `Component.BaseGlyphDataChanged`, and their glyphs post
`Glyph.ComponentsChanged` and `Glyph.Changed` (glyph.py `_componentBaseGlyphDataChanged`: without raising
their own dirty flag).

Core Lean only.
-/
import DefconModel.Parents

namespace DefconModel
namespace Cross
open Parents

/-- what a component observes (component.py) -/
inductive Watch where
  /-- `_beginBaseGlyphObservations`: glyph object `o` (Glyph.NameChanged / ContoursChanged / ComponentsChanged) and
  layer `l` (Layer.GlyphWillBeDeleted / GlyphAdded / GlyphNameChanged) -/
  | glyph (l o : Id)
  /-- `_beginLayerObservations`: layer `l` only (Layer.GlyphNameChanged / GlyphAdded / GlyphDeleted) -/
  | layer (l : Id)
deriving DecidableEq, Repr

/-- `if baseGlyph in layer: _beginBaseGlyphObservations() else: _beginLayerObservations()`, given what layer `l`
files under the base glyph name -/
def Watch.of (l : Id) : Option Id → Watch
  | some o => .glyph l o
  | none => .layer l

structure State where
  heap : Heap := {}
  /-- component → `baseGlyph` (absent = `None`) -/
  base : List (Id × String) := []

def State.baseOf (s : State) (c : Id) : Option String := AL.get? s.base c

/-- `beginSelfBaseGlyphNotificationObservation` evaluated in this state: nothing without a base glyph name or
without a dispatcher; else `if baseGlyph in layer: _beginBaseGlyphObservations() else: _beginLayerObservations()` -/
def watchOf (s : State) (c : Id) : Option Watch :=
  match s.heap.kindOf c, s.baseOf c with
  | some .component, some b =>
    match dispOf s.heap c, layerOf s.heap c with
    | some _, some l => some (Watch.of l (s.heap.findNamed l .glyph b))
    | _, _ => none
  | _, _ => none

/-- `beginSelfImageSetNotificationObservation`: the layer and the font (whose image set it is) an image observes -/
def imageWatch (h : Heap) (i : Id) : Option (Id × Id) :=
  match h.kindOf i with
  | some .image =>
    match fontOf h i, layerOf h i with
    | some f, some l => some (l, f)
    | _, _ => none
  | _ => none

/-- notification names of the cross links -/
inductive XName where
  | glyphNameChanged | glyphContoursChanged | glyphComponentsChanged
  | layerGlyphWillBeDeleted | layerGlyphAdded | layerGlyphNameChanged | layerGlyphDeleted
  | imageSetImageAdded | imageSetImageDeleted | imageSetImageChanged | layerColorChanged
deriving DecidableEq, Repr

/-- an observable: an object of the heap, or the image set of a font (not a heap object) -/
inductive Obj where
  | node (i : Id)
  | imageSet (f : Id)
deriving DecidableEq, Repr

structure XReg where
  centre : Id
  observer : Id
  observable : Obj
  name : XName
deriving DecidableEq, Repr

def compRows (f c : Id) : Watch → List XReg
  | .glyph l o =>
    [⟨f, c, .node o, .glyphNameChanged⟩, ⟨f, c, .node o, .glyphContoursChanged⟩, ⟨f, c, .node o, .glyphComponentsChanged⟩,
     ⟨f, c, .node l, .layerGlyphWillBeDeleted⟩, ⟨f, c, .node l, .layerGlyphAdded⟩, ⟨f, c, .node l, .layerGlyphNameChanged⟩]
  | .layer l =>
    [⟨f, c, .node l, .layerGlyphNameChanged⟩, ⟨f, c, .node l, .layerGlyphAdded⟩, ⟨f, c, .node l, .layerGlyphDeleted⟩]

def imageRows (c i l f : Id) : List XReg :=
  [⟨c, i, .imageSet f, .imageSetImageAdded⟩, ⟨c, i, .imageSet f, .imageSetImageDeleted⟩,
   ⟨c, i, .imageSet f, .imageSetImageChanged⟩, ⟨c, i, .node l, .layerColorChanged⟩]

/-- the cross-link registrations of object `x` as observer -/
def rowsOf (s : State) (x : Id) : List XReg :=
  match dispOf s.heap x with
  | none => []
  | some c =>
    (match watchOf s x with
      | some w => compRows c x w
      | none => []) ++
    (match imageWatch s.heap x with
      | some (l, f) => imageRows c x l f
      | none => [])

/-- all cross-link registrations -/
def crossTable (s : State) : List XReg := (List.range s.heap.next).flatMap (rowsOf s)

/-- component `c` observes glyph object `o` (it hears its Glyph.ContoursChanged / ComponentsChanged) -/
def watches (s : State) (c o : Id) : Bool :=
  match watchOf s c with
  | some (.glyph _ o') => o' = o
  | _ => false

/-! ### Delivery along the complete table -/

inductive Ev where
  /-- the `*.Changed` notification of the object's kind -/
  | changed
  /-- `Glyph.ContoursChanged` / `Glyph.ComponentsChanged` of a glyph -/
  | data
  /-- `Component.BaseGlyphDataChanged` of a component -/
  | baseData
deriving DecidableEq, Repr

/-- `s` posts `ev`.  Returns the state (only dirty flags change) and the senders of `*.Changed`
notifications, in posting order.  `base` is the components' base-name table. -/
def xpost (base : List (Id × String)) : Nat → Heap → Id → Ev → Heap × List Id
  | 0, h, _, _ => (h, [])
  | fuel + 1, h, s, ev =>
    match dispOf h s, h.kindOf s with
    | some c, some ks =>
      match ev with
      | .changed =>
        let obs := h.regs.filter fun r => r.centre = c ∧ r.observable = s ∧ r.name = changedName ks ∧ r.observer ≠ s
        obs.foldl (fun (acc : Heap × List Id) r =>
          if h.kindOf r.observer = some .font ∧ ks = .layerSet ∧ ¬ acc.1.isDirty s then acc
          else
            -- Glyph._contourChanged / _componentChanged: Glyph.ContoursChanged / ComponentsChanged first
            let r0 := if ks = .contour ∨ ks = .component then xpost base fuel acc.1 r.observer .data else (acc.1, [])
            let res := xpost base fuel (r0.1.setDirty r.observer) r.observer .changed
            (res.1, acc.2 ++ r0.2 ++ res.2)) (h, [s])
      | .data =>
        let cs := (List.range h.next).filter fun k => watches ⟨h, base⟩ k s
        cs.foldl (fun (acc : Heap × List Id) k =>
          let res := xpost base fuel acc.1 k .baseData
          (res.1, acc.2 ++ res.2)) (h, [])
      | .baseData =>
        let obs := h.regs.filter fun r => r.centre = c ∧ r.observable = s ∧ r.name = .componentBaseGlyphDataChanged
        obs.foldl (fun (acc : Heap × List Id) r =>
          -- Glyph._componentBaseGlyphDataChanged: Glyph.ComponentsChanged, then Glyph.Changed (flag not raised)
          let r0 := xpost base fuel acc.1 r.observer .data
          let res := xpost base fuel r0.1 r.observer .changed
          (res.1, acc.2 ++ r0.2 ++ res.2)) (h, [])
    | _, _ => (h, [])

def XFUEL : Nat := 24

/-- an attribute change of `x` through its public API -/
def xmutate (s : State) (x : Id) : State × Res :=
  match s.heap.kindOf x with
  | none => (s, .err .noSuchObject)
  | some k =>
    let h0 := if k.isLeaf then s.heap else s.heap.setDirty x
    let r := xpost s.base XFUEL h0 x .changed
    ({ s with heap := r.1 }, .mut r.2)

/-! ### Operations -/

inductive Op where
  /-- an operation of M-Parents -/
  | base (op : Parents.Op)
  /-- `Component()` and `component.baseGlyph = b` before it belongs to anything -/
  | newComp (b : Option String)
  /-- `component.baseGlyph = b` -/
  | setBase (c : Id) (b : Option String)
  /-- `layer[name]` for a glyph that is only on disk; `bases` = the base glyph names of its components -/
  | load (l : Id) (name : String) (spec : List Nat) (bases : List (Option String))
  /-- `glyph.decomposeComponent(c)` -/
  | decompose (g c : Id)

def setBases (base : List (Id × String)) : List Id → List (Option String) → List (Id × String)
  | c :: cs, some b :: bs => setBases (AL.set base c b) cs bs
  | _ :: cs, none :: bs => setBases base cs bs
  | _, _ => base

/-- the contours `DecomposeComponentPointPen` draws for a component with base name `b` in layer `l`: those of the
glyph filed under `b` and, recursively, of the base glyphs of its components -/
def flatCount (s : State) (l : Id) : Nat → String → Nat
  | 0, _ => 0
  | fuel + 1, b =>
    match s.heap.findNamed l .glyph b with
    | none => 0
    | some o =>
      (s.heap.kidsOfKind o .contour).length +
        ((s.heap.kidsOfKind o .component).map fun k =>
          match s.baseOf k with
          | some b' => flatCount s l fuel b'
          | none => 0).sum

/-- the contours `glyph.decomposeComponent(c)` adds to a glyph of layer `l` -/
def decomposeCount (s : State) (l c : Id) : Nat :=
  match s.baseOf c with
  | some b => flatCount s l 6 b
  | none => 0

def xstep (s : State) : Op → State × Res
  | .base (.mutate x) => xmutate s x
  | .base (.insertGlyph l src name) =>
    let r := step s.heap (.insertGlyph l src name)
    match r.2 with
    | .id g =>
      -- the copy's components are built from the source's, in order
      ({ heap := r.1,
         base := setBases s.base (r.1.kidsOfKind g .component)
                   ((s.heap.kidsOfKind src .component).map s.baseOf) }, r.2)
    | _ => ({ s with heap := r.1 }, r.2)
  | .base op =>
    let r := step s.heap op
    ({ s with heap := r.1 }, r.2)
  | .newComp b =>
    let c := s.heap.next
    ({ heap := (step s.heap (.new .component)).1,
       base := match b with
         | some b => AL.set s.base c b
         | none => s.base }, .id c)
  | .setBase c b =>
    if s.heap.kindOf c ≠ some .component then (s, .err .noSuchObject)
    else if s.baseOf c = b then (s, .ok)
    else
      let base := match b with
        | some b => AL.set s.base c b
        | none => AL.erase s.base c
      -- `Component.BaseGlyphChanged`, then `self.dirty = True`
      ((xmutate { heap := s.heap, base := base } c).1, .ok)
  | .load l name spec bases =>
    let r := step s.heap (.getGlyph l name spec)
    match r.2 with
    | .id g =>
      if g = s.heap.next then
        ({ heap := r.1, base := setBases s.base (r.1.kidsOfKind g .component) bases }, r.2)
      else ({ s with heap := r.1 }, r.2)
    | _ => ({ s with heap := r.1 }, r.2)
  | .decompose g c =>
    if s.heap.kindOf g ≠ some .glyph ∨ s.heap.kindOf c ≠ some .component then (s, .err .noSuchObject)
    else if c ∉ s.heap.kidsOf g then (s, .err .valueError)
    else
      match layerOf s.heap g with
      | none => (s, .err .detached)
      | some l => ({ s with heap := removeChild (spawnMany s.heap g .contour (decomposeCount s l c)) g c }, .ok)

def xrun (s : State) (ops : List Op) : State := ops.foldl (fun s op => (xstep s op).1) s

/-! ### The stored wiring

`watchOf` above says what a component observes as a function of the tree.  The code does not compute it that
way: it keeps registrations in the font's notification centre and changes them at EVENTS —

* `beginSelfBaseGlyphNotificationObservation` when a component gets a glyph of a font (insertComponent, the
  component pen of a loaded / copied glyph) and in `_set_baseGlyph`;
* `endSelfBaseGlyphNotificationObservation` in `Component.endSelfNotificationObservation` (removeComponent,
  clearComponents, clear, decomposeComponent, the glyph leaving its layer, the layer leaving its font) and in
  `_set_baseGlyph`;
* the six callbacks, when the layer ANNOUNCES something about the component's base glyph name: `Layer.GlyphAdded`
  (newGlyph, insertGlyph), `Layer.GlyphWillBeDeleted` / `GlyphDeleted` (`del layer[name]`), `Layer.GlyphNameChanged`
  with the new name and `Glyph.NameChanged` of the observed object with the old one (`glyph.name = …`).  Each of
  them ends what the component observes and begins again, looking the name up in the layer at that moment.

`OState` stores what every component observes; `ostep` changes it at these events ONLY: `announced` lists the
(layer, name) pairs an operation announces, `rebind` is the reaction of a component that observes that layer and has
that base glyph name, `settle` is begin / end of the component's own observation (it gets or loses its place in a
font, is put into another layer, changes its base glyph name).  A component that hears nothing keeps what it has.
That the stored wiring always equals `watchOf` is a theorem (`synced`, Props/C11.lean), not a definition. -/

def Watch.layerId : Watch → Id
  | .glyph l _ => l
  | .layer l => l

/-- what an operation announces to the components: (layer, glyph name) pairs.  (`layer[name]` of a glyph that is
only on disk announces nothing in the code; no component can be waiting for such a name, see the harness'
assumptions — the model lets the components look again.) -/
def announced (h : Heap) : Op → List (Id × String)
  | .base (.newGlyph l name) => [(l, name)]
  | .base (.insertGlyph l src name) => [(l, name.getD (h.nameOf src))]
  | .base (.getGlyph l name _) => [(l, name)]
  | .load l name _ _ => [(l, name)]
  | .base (.delGlyph l name) => [(l, name)]
  | .base (.renameGlyph g name) =>
    match h.storedLayer g with
    | some l => [(l, h.nameOf g), (l, name)]
    | none => []
  | _ => []

/-- the reaction of a component with base glyph name `b` that observes `w` to the announcements: if one of them
is about its layer and its base glyph name it ends what it observes and begins again (`h'`: the layer as the
callback finds it) -/
def rebind (h' : Heap) (b : Option String) (anns : List (Id × String)) (w : Watch) : Watch :=
  match b with
  | some b => if (w.layerId, b) ∈ anns then Watch.of w.layerId (h'.findNamed w.layerId .glyph b) else w
  | none => w

/-- begin / end of a component's own observation after an operation: `s'` the state after it, `before` the base
glyph name it had, `w` what it observes (after the callbacks) -/
def settle (s' : State) (before : Option String) (c : Id) (w : Option Watch) : Option Watch :=
  match s'.heap.kindOf c, s'.baseOf c with
  | some .component, some b =>
    match dispOf s'.heap c, layerOf s'.heap c with
    | some _, some l =>
      match w with
      | some w0 =>
        -- still in the same layer with the same base glyph name: nothing happens; else
        -- `endSelfBaseGlyphNotificationObservation` + `beginSelfBaseGlyphNotificationObservation`
        if w0.layerId = l ∧ before = some b then some w0 else some (Watch.of l (s'.heap.findNamed l .glyph b))
      | none => some (Watch.of l (s'.heap.findNamed l .glyph b))     -- beginSelfBaseGlyphNotificationObservation
    | _, _ => none                                                       -- endSelfBaseGlyphNotificationObservation
  | _, _ => none

structure OState where
  st : State := {}
  /-- what each component observes, by object number -/
  watch : List (Option Watch) := []

def OState.watchAt (s : OState) (c : Id) : Option Watch := (s.watch[c]?).join

def ostep (s : OState) (op : Op) : OState × Res :=
  let r := xstep s.st op
  let anns := announced s.st.heap op
  ({ st := r.1,
     watch := (List.range r.1.heap.next).map fun c =>
       settle r.1 (s.st.baseOf c) c ((s.watchAt c).map (rebind r.1.heap (s.st.baseOf c) anns)) }, r.2)

def orun (s : OState) (ops : List Op) : OState := ops.foldl (fun s op => (ostep s op).1) s

/-- the cross-link registrations of `x` as observer, from the STORED wiring -/
def storedRowsOf (s : OState) (x : Id) : List XReg :=
  match dispOf s.st.heap x with
  | none => []
  | some c =>
    (match s.watchAt x with
      | some w => compRows c x w
      | none => []) ++
    (match imageWatch s.st.heap x with
      | some (l, f) => imageRows c x l f
      | none => [])

def storedTable (s : OState) : List XReg := (List.range s.st.heap.next).flatMap (storedRowsOf s)

end Cross
end DefconModel
