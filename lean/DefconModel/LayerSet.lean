/-
M-LayerSet: executable model of the layer bookkeeping of `defcon.objects.layerSet.LayerSet`
(`_layers`, `_layerOrder`, default layer, `_layerActionHistory`) and of the in-place
`LayerSet.save`, which replays the action history against the writer's `layerContents`
(ufoLib's `deleteGlyphSet` / `renameGlyphSet` / `getGlyphSet` / `writeLayerContents` rules ported),
as the code stands after the F35 fix.

A memory layer is identified by `lid` (the identity of the Layer object).  An entry of
`layercontents.plist` records which layer object's glyph directory it is (`lid`) and whether that
directory is the default directory `glyphs`.  Directory names themselves are not modelled.
Core Lean only.
-/
import DefconModel.Util.AL

namespace DefconModel
namespace LayerSet

structure MLayer where
  lid : Nat
  /-- the layer is bound to a glyph set (directory) of the UFO -/
  onDisk : Bool
deriving DecidableEq, Repr

structure DLayer where
  lid : Nat
  isDefault : Bool
deriving DecidableEq, Repr

inductive Action where
  | new (n : String)
  | delete (n : String)
  | rename (o n : String)
  | default (new : String) (old : Option String)
deriving DecidableEq, Repr

structure State where
  layers : List (String × MLayer) := []
  order : List String := []
  /-- the default layer object -/
  default : Option Nat := none
  history : List Action := []
  /-- `layercontents.plist` of the bound UFO, in file order -/
  disk : List (String × DLayer) := []
  nextLid : Nat := 0
deriving Repr

inductive Err where
  | keyError | ufoLibError | assertionError
  /-- not an exception: ufoLib silently moves a glyph directory onto the existing default
  directory, merging two layers (what F35 did) -/
  | merged
deriving DecidableEq, Repr

def nameOfLid (s : State) (lid : Nat) : Option String :=
  (s.layers.find? (fun p => p.2.lid = lid)).map Prod.fst

def defaultName (s : State) : Option String :=
  match s.default with
  | none => none
  | some lid => nameOfLid s lid

/-- `newLayer(name)` (no glyph set: a layer created in memory) -/
def newLayer (s : State) (n : String) : Except Err State :=
  if AL.contains s.layers n then .error .keyError
  else .ok { s with
    layers := AL.set s.layers n ⟨s.nextLid, false⟩
    order := s.order ++ [n]
    history := s.history ++ [.new n]
    nextLid := s.nextLid + 1 }

/-- `del layerSet[name]` -/
def delLayer (s : State) (n : String) : Except Err State :=
  if AL.contains s.layers n then
    .ok { s with layers := AL.erase s.layers n, order := s.order.filter (· ≠ n), history := s.history ++ [.delete n] }
  else .error .keyError

/-- `layer.name = new` (`_layerNameChange`) -/
def renameLayer (s : State) (o n : String) : Except Err State :=
  match AL.get? s.layers o with
  | none => .error .keyError
  | some l =>
    if o = n then .ok s
    else .ok { s with
      layers := AL.set (AL.erase s.layers o) n l
      order := s.order.map (fun x => if x = o then n else x)
      history := s.history ++ [.rename o n] }

/-- `layerSet.defaultLayer = layerSet[name]` -/
def setDefault (s : State) (n : String) : Except Err State :=
  match AL.get? s.layers n with
  | none => .error .keyError
  | some l =>
    if s.default = some l.lid then .ok s
    else .ok { s with default := some l.lid, history := s.history ++ [.default n (defaultName s)] }

/-- `layerSet.layerOrder = order` -/
def setOrder (s : State) (order : List String) : Except Err State :=
  if s.order = order then .ok s
  else if order.length = s.order.length ∧ (∀ x ∈ order, x ∈ s.order) ∧ (∀ x ∈ s.order, x ∈ order) then
    .ok { s with order := order }
  else .error .assertionError

/-! ### replay of the history against `writer.layerContents` -/

def setFlag (d : List (String × DLayer)) (n : String) (flag : Bool) : List (String × DLayer) :=
  match AL.get? d n with
  | none => d
  | some dl => AL.set d n { dl with isDefault := flag }

/-- `renameGlyphSet(n, n, defaultLayer=True)`: flag `n` as the default; when its directory is not
the default directory it is moved there — without any check that the place is free -/
def flagDefault (d : List (String × DLayer)) (n : String) : Except Err (List (String × DLayer)) :=
  match AL.get? d n with
  | none => .ok d
  | some dl =>
    if dl.isDefault then .ok d
    else if d.any (fun p => p.2.isDefault) then .error .merged
    else .ok (AL.set d n { dl with isDefault := true })

/-- one action of the history -/
def applyAction (d : List (String × DLayer)) : Action → Except Err (List (String × DLayer))
  | .new _ => .ok d
  | .delete n => .ok (AL.erase d n)
  | .rename o n =>
    match AL.get? d o with
    | none => .ok d
    | some dl =>
      if AL.contains d n then .error .ufoLibError
      else .ok (AL.erase d o ++ [(n, dl)])      -- the default flag travels with the directory (F35 fix)
  | .default new old =>
    let d1 := match old with
      | some o => setFlag d o false
      | none => d
    flagDefault d1 new

def replay : List Action → List (String × DLayer) → Except Err (List (String × DLayer))
  | [], d => .ok d
  | a :: h, d =>
    match applyAction d a with
    | .error e => .error e
    | .ok d1 => replay h d1

/-- `writer.getGlyphSet(layerName, defaultLayer=isDefault)` for one layer: an existing directory is
used as it is; otherwise a new one is created.  ufoLib refuses a default glyph set while another
layer is mapped to the default directory. -/
def getGlyphSet (d : List (String × DLayer)) (n : String) (lid : Nat) (isDefault : Bool) :
    Except Err (List (String × DLayer)) :=
  if isDefault ∧ d.any (fun p => p.2.isDefault ∧ p.1 ≠ n) then .error .ufoLibError
  else
    match AL.get? d n with
    | some _ => .ok d
    | none => .ok (d ++ [(n, ⟨lid, isDefault⟩)])

def getGlyphSets (s : State) (d : List (String × DLayer)) : List String → Except Err (List (String × DLayer))
  | [] => .ok d
  | n :: rest =>
    match AL.get? s.layers n with
    | none => .error .keyError
    | some l =>
      match getGlyphSet d n l.lid (s.default = some l.lid) with
      | .error e => .error e
      | .ok d1 => getGlyphSets s d1 rest

/-- `writer.writeLayerContents(layerOrder)`: refuses an order whose names differ from the glyph
sets that exist -/
def writeLayerContents (d : List (String × DLayer)) (order : List String) : Except Err (List (String × DLayer)) :=
  if (∀ x ∈ order, AL.contains d x) ∧ (∀ p ∈ d, p.1 ∈ order) then
    .ok (order.filterMap (fun n => (AL.get? d n).map (fun dl => (n, dl))))
  else .error .ufoLibError

/-- after a save every layer is bound to its glyph set in the written UFO -/
def bound (l : MLayer) : MLayer := { l with onDisk := true }

/-- in-place `LayerSet.save` (format 3) followed by the re-binding of every layer -/
def saveInPlace (s : State) : Except Err State :=
  match replay s.history s.disk with
  | .error e => .error e
  | .ok d0 =>
  match getGlyphSets s d0 s.order with
  | .error e => .error e
  | .ok d1 =>
    match writeLayerContents d1 s.order with
    | .error e => .error e
    | .ok d2 =>
      .ok { s with
        disk := d2
        layers := s.layers.map (fun p => (p.1, bound p.2))
        history := (s.order.filter (fun n => some n ≠ defaultName s)).map Action.new }

/-- save-as: every layer gets a new glyph set in an empty UFO -/
def saveAs (s : State) : Except Err State :=
  match getGlyphSets s [] s.order with
  | .error e => .error e
  | .ok d1 =>
    match writeLayerContents d1 s.order with
    | .error e => .error e
    | .ok d2 =>
      .ok { s with
        disk := d2
        layers := s.layers.map (fun p => (p.1, bound p.2))
        history := (s.order.filter (fun n => some n ≠ defaultName s)).map Action.new }

inductive Op where
  | newLayer (n : String)
  | delLayer (n : String)
  | rename (o n : String)
  | setDefault (n : String)
  | setOrder (order : List String)
  | saveInPlace
  | saveAs
deriving Repr

def step (s : State) : Op → Except Err State
  | .newLayer n => newLayer s n
  | .delLayer n => delLayer s n
  | .rename o n => renameLayer s o n
  | .setDefault n => setDefault s n
  | .setOrder o => setOrder s o
  | .saveInPlace => saveInPlace s
  | .saveAs => saveAs s

/-- a layer set freshly loaded from a UFO: one layer object (identity `lid`) per entry of
layercontents; `Font.__init__` leaves the history `new …, default D None` behind -/
def opened (ls : List (String × Nat)) (defLid : Nat) (defName : String) : State :=
  { layers := ls.map (fun p => (p.1, ⟨p.2, true⟩))
    order := ls.map Prod.fst
    default := some defLid
    history := ls.map (fun p => Action.new p.1) ++ [Action.default defName none]
    disk := ls.map (fun p => (p.1, ⟨p.2, decide (p.2 = defLid)⟩))
    nextLid := ls.length }

end LayerSet
end DefconModel
