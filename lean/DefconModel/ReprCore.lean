/-
M-Repr, part 1: the representation cache of one object (`objects/base.py` 336-420) and the
types of the regenerated tables.  Core Lean only.

  _representations : dict name -> dict subKey -> value        ↦  `Cache V`
  _makeRepresentationSubKey(**kwargs)                          ↦  `makeSubKey`
  getRepresentation (with a dispatcher)                        ↦  `Cache.lookupOrStore`
  destroyRepresentation(name) / (name, **kwargs)               ↦  `Cache.destroyName` / `Cache.destroyOne`
  destroyAllRepresentations                                    ↦  `[]`
  _destroyRepresentationsForNotification                       ↦  `Cache.evict`
  hasCachedRepresentation / representationKeys                 ↦  `Cache.has` / `Cache.keys`
-/
import DefconModel.Util.AL

namespace DefconModel
namespace Repr

/-! ### destructive notifications as they are *written* in the class tables -/

/-- `destructiveNotifications=("A.X")` is a parenthesised **string**, so the test
`notificationName in dataDict["destructiveNotifications"]` is a substring test;
a tuple / list / set is a membership test. -/
inductive Destr where
  | str (s : String)
  | names (l : List String)
deriving Repr, DecidableEq, Inhabited

def isPrefix : List Char → List Char → Bool
  | [], _ => true
  | _ :: _, [] => false
  | a :: p, b :: s => a == b && isPrefix p s

/-- Python `p in s` for strings -/
def isInfix (p : List Char) : List Char → Bool
  | [] => p.isEmpty
  | c :: s => isPrefix p (c :: s) || isInfix p s

def Destr.hit : Destr → String → Bool
  | .str s, n => isInfix n.toList s.toList
  | .names l, n => l.contains n

/-- the regenerated tables (see harness/repr_extract.py) -/
structure Tables where
  factories : List (String × String × Destr)
  changeName : List (String × String)
  posts : List ((String × String) × List String)
  observes : List (String × String × String × String)
  /-- (class, method) ↦ "same" (every post behind a test) / "none" (a post is reached unconditionally) -/
  guards : List ((String × String) × String) := []
  /-- (class, method) ↦ names destroyed by a direct `destroyRepresentation` call ("*": computed name) -/
  destroys : List ((String × String) × List String) := []
deriving Repr, Inhabited

/-- notifications method `m` of class `c` can post on self (no entry: none) -/
def Tables.postsOf (T : Tables) (c m : String) : List String :=
  (AL.get? T.posts (c, m)).getD []

/-- the class-level `representationFactories` of class `c`: (name, destructive spec) -/
def Tables.factoriesOf (T : Tables) (c : String) : List (String × Destr) :=
  T.factories.filterMap fun (c', n, d) => if c' = c then some (n, d) else none

/-- `registerRepresentationFactory(cls, name, factory)` with default settings:
`destructiveNotifications = set([cls.changeNotificationName])` -/
def Tables.defaultDestr (T : Tables) (c : String) : Destr :=
  .names ((AL.get? T.changeName c).toList)

/-! ### sub-keys -/

abbrev KwArgs := List (String × Int)
abbrev SubKey := Option (List (String × Int))

/-- insertion into a list sorted by keyword (keywords of one call are distinct) -/
def insertKw (p : String × Int) : List (String × Int) → List (String × Int)
  | [] => [p]
  | q :: r => if p.1 < q.1 then p :: q :: r else q :: insertKw p r

/-- `sorted(kwargs.items())` -/
def sortKw : KwArgs → List (String × Int)
  | [] => []
  | p :: r => insertKw p (sortKw r)

/-- `_makeRepresentationSubKey`: `None` without keyword arguments, else the sorted item tuple -/
def makeSubKey (kw : KwArgs) : SubKey :=
  match kw with
  | [] => none
  | _ :: _ => some (sortKw kw)

/-! ### `del d[k]` on a dict: no entry under `k` remains -/

def eraseAll {κ α : Type} [DecidableEq κ] (l : List (κ × α)) (k : κ) : List (κ × α) :=
  l.filter fun p => p.1 ≠ k

theorem get?_eraseAll {κ α : Type} [DecidableEq κ] (l : List (κ × α)) (k k2 : κ) :
    AL.get? (eraseAll l k) k2 = if k = k2 then none else AL.get? l k2 := by
  induction l with
  | nil => simp [eraseAll]
  | cons p r ih =>
    obtain ⟨k', v⟩ := p
    unfold eraseAll at ih ⊢
    by_cases h1 : k' = k
    · subst h1
      by_cases h2 : k' = k2
      · subst h2; simpa using ih
      · simp [h2] at ih ⊢; exact ih
    · by_cases h2 : k = k2
      · subst h2; simp [h1] at ih ⊢; exact ih
      · simp [h1, h2] at ih ⊢
        by_cases h3 : k' = k2 <;> simp [h3, ih]

/-! ### the two-level cache -/

abbrev Cache (V : Type) := List (String × List (SubKey × V))

namespace Cache
variable {V : Type}

def get? (c : Cache V) (name : String) (sk : SubKey) : Option V :=
  match AL.get? c name with
  | none => none
  | some d => AL.get? d sk

def has (c : Cache V) (name : String) (sk : SubKey) : Bool := (c.get? name sk).isSome

/-- `representations[subKey] = representation` (the inner dict is created when missing) -/
def store (c : Cache V) (name : String) (sk : SubKey) (v : V) : Cache V :=
  AL.set c name (AL.set ((AL.get? c name).getD []) sk v)

/-- `getRepresentation` of an object that has a dispatcher; `fresh` is what the factory
would return now.  Result: new cache, returned value, whether the factory ran. -/
def lookupOrStore (c : Cache V) (name : String) (sk : SubKey) (fresh : V) : Cache V × V × Bool :=
  match c.get? name sk with
  | some v => (c, v, false)
  | none => (c.store name sk fresh, fresh, true)

/-- `destroyRepresentation(name)` without keyword arguments -/
def destroyName (c : Cache V) (name : String) : Cache V := eraseAll c name

/-- `destroyRepresentation(name, **kwargs)` with keyword arguments -/
def destroyOne (c : Cache V) (name : String) (sk : SubKey) : Cache V :=
  match AL.get? c name with
  | none => c
  | some d => AL.set c name (eraseAll d sk)

/-- `_destroyRepresentationsForNotification`: every factory whose destructive spec is hit -/
def evict (facs : List (String × Destr)) (c : Cache V) (notif : String) : Cache V :=
  facs.foldl (fun c (p : String × Destr) => if p.2.hit notif then c.destroyName p.1 else c) c

def evictAll (facs : List (String × Destr)) (c : Cache V) (notifs : List String) : Cache V :=
  notifs.foldl (fun c n => evict facs c n) c

/-- `representationKeys()` -/
def keys (c : Cache V) : List (String × SubKey) :=
  c.flatMap fun (p : String × List (SubKey × V)) => p.2.map fun q => (p.1, q.1)

end Cache

end Repr
end DefconModel
