import DefconModel.Drivers.Notify
