import DefconModel.Drivers.Notify
import DefconModel.Drivers.Layer
import DefconModel.Drivers.Repr
