import DefconModel.Drivers.Notify
import DefconModel.Drivers.Geom
