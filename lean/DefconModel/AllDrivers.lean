import DefconModel.Drivers.Notify
import DefconModel.Drivers.Layer
import DefconModel.Drivers.GlyphOrder
import DefconModel.Drivers.Kern
import DefconModel.Drivers.NameSort
import DefconModel.Drivers.Persist
import DefconModel.Drivers.Classes
import DefconModel.Drivers.Ident
