/-
M-Dirty: executable model of how a change propagates up the object tree of a font.

Mechanism modelled (objects/base.py `_set_dirty`, and the parent callbacks registered by every
`beginSelf<Child>NotificationObservation`: `Glyph._contourChanged`, `Layer._glyphDirtyStateChange`,
`LayerSet._layerDirtyStateChange`, `Font._objectDirtyStateChange`, …):

  `x.dirty = True`  stores the flag and posts `x`'s `*.Changed` notification;
  the notification centre drops it if `x`'s notifications are disabled, queues it (once) if they
  are held, and otherwise delivers it — to the observers of `x` (logged) and to the parent's
  callback, which sets the parent dirty, i.e. repeats the same one level up;
  releasing the last hold on `x` re-posts what was queued.

Nodes are numbers; `path x` (the chain x, parent x, …, font) is supplied by the tree.
Core Lean only.
-/
import DefconModel.Util.AL

namespace DefconModel
namespace Dirty

structure State where
  dirty : List Nat := []
  /-- observable-scoped holds: node ↦ count -/
  holds : List (Nat × Nat) := []
  /-- nodes whose `*.Changed` is queued in their hold, in first-post order -/
  pending : List Nat := []
  disabled : List Nat := []
  /-- deliveries of `*.Changed` (by sender), in order -/
  log : List Nat := []
deriving Repr

def held (s : State) (x : Nat) : Bool := AL.contains s.holds x

def setFlag (s : State) (x : Nat) : State := if x ∈ s.dirty then s else { s with dirty := s.dirty ++ [x] }

/-- post `x.Changed` where `x :: rest` is the chain from `x` up to the font -/
def announce (s : State) : List Nat → State
  | [] => s
  | x :: rest =>
    if x ∈ s.disabled then s
    else if held s x then (if x ∈ s.pending then s else { s with pending := s.pending ++ [x] })
    else
      let s1 := { s with log := s.log ++ [x] }
      match rest with
      | [] => s1
      | p :: _ => announce (setFlag s1 p) rest

/-- a public mutator changed `x` : `x.dirty = True`; `x :: rest` is the chain from `x` to the font -/
def touch (s : State) (x : Nat) (rest : List Nat) : State := announce (setFlag s x) (x :: rest)

def hold (s : State) (x : Nat) : State :=
  { s with holds := AL.set s.holds x ((AL.get? s.holds x).getD 0 + 1) }

/-- `x.releaseHeldNotifications()`, with `x :: rest` the chain from `x` to the font -/
def release (s : State) (x : Nat) (rest : List Nat) : State :=
  match AL.get? s.holds x with
  | none => s                      -- KeyError in the code; outside the domain
  | some n =>
    if n - 1 = 0 then
      let s1 := { s with holds := AL.erase s.holds x }
      if x ∈ s1.pending then announce { s1 with pending := s1.pending.filter (· ≠ x) } (x :: rest) else s1
    else { s with holds := AL.set s.holds x (n - 1) }

def disable (s : State) (x : Nat) : State := { s with disabled := x :: s.disabled }

end Dirty
end DefconModel
