/-
The catalogue of M-Setters: one entry per attribute-change notification that carries old/new values
and per Will/Did pair of the anchored defcon classes — the statements of the method that exists, in
source order, in the DSL of `Setters.lean`.  `srcCls.method` names the Python method the entry
transcribes; `Gen/NotifNames.lean` (regenerated from the AST on every run) holds that method's statement
order, and `Props/C08.lean` proves that every entry's own order agrees with it.

Conventions: `arg 0` is the value handed to a setter (already converted: `str(value)`, `Color(value)`,
`list(value)` are identities on the harness's canonical values); for container mutators `arg 0` is
the index and `arg 1` the object; further arguments are facts the method reads from objects that are
not part of this store (duplicate-identifier checks, validity according to fontTools, ...), named in
each entry.  Statements of methods that the method calls are inlined and marked `nested`.
-/
import DefconModel.Setters

namespace DefconModel
namespace Setters

structure Entry where
  /-- the operation (call site), e.g. `Glyph.width=` -/
  id : String
  /-- class of the object at run time (resolves `self.*NotificationName`) -/
  cls : String
  /-- class that defines the transcribed method, and the method -/
  srcCls : String
  method : String
  body : List Stmt
deriving Repr, Inhabited

open Expr Atom

/-- loop-free statements as statements -/
def A (as : List Atom) : List Stmt := as.map Stmt.atom

def ne (a b : Expr) : Expr := .not (.eq a b)
def notNone (a : Expr) : Expr := .not (.isNone a)
def T : Expr := .lit (.int 1)

/-- `old = self._f; if old != value: self._f = value; post(name, old, value); self.dirty = True` -/
def simpleSetter (id cls method f note : String) (dirtyAfter : Bool := true) : Entry :=
  { id := id, cls := cls, srcCls := cls, method := method,
    body := A ([capture 0 (fld f), guard (ne (var 0) (arg 0)), set f (arg 0),
             post note .plain none (some (var 0)) (some (arg 0)) (fld f)] ++
            (if dirtyAfter then [dirty] else [])) }

/-- dict-backed attribute of Anchor / Guideline / Image:
`old = self.get(k); if value == old: return; self[k] = value; post(name, old, value)` -/
def dictSetter (id cls method k note : String) : Entry :=
  { id := id, cls := cls, srcCls := cls, method := method,
    body := A [capture 0 (fld k), guard (ne (arg 0) (var 0)), nested (set k (arg 0)), nested dirty,
             post note .plain none (some (var 0)) (some (arg 0)) (fld k)] }

/-- … with `if value is None: del self[k] else: self[k] = value` -/
def dictSetterDel (id cls method k note : String) : Entry :=
  { id := id, cls := cls, srcCls := cls, method := method,
    body := A [capture 0 (fld k), guard (ne (arg 0) (var 0)), nested (setOrUnset k (arg 0)), nested dirty,
             post note .plain none (some (var 0)) (some (arg 0)) (fld k)] }

/-- identifier setter of Anchor / Guideline (dict-backed) and Contour / Component (attribute):
write-once, duplicate rejected (`arg 1` = "value is already in the parent's identifiers"). -/
def identSetter (id cls f note : String) (dirtyAfter : Bool) : Entry :=
  { id := id, cls := cls, srcCls := cls, method := "_set_identifier",
    body := A ([guard (isNone (fld f)), capture 0 (fld f), guard (ne (arg 0) (var 0)), reject (arg 1),
             nested (set f (arg 0)),
             post note .plain none (some (var 0)) (some (arg 0)) (fld f)] ++
            (if dirtyAfter then [dirty] else [])) }

/-- `insertX(index, x)`: `arg 0` index, `arg 1` object, `arg 2` = "an assertion rejects it" (already a
member, owned by another parent, duplicate identifier).  The code checks the identifiers BEFORE the
will-notification (a rejected object is not announced) and AGAIN after it, just before registering them
(an observer of the will might have given the object an identifier): for observers that only read, the
second check repeats the first. -/
def insertEntry (id cls method will did f : String) (extra : List Atom := []) : Entry :=
  { id := id, cls := cls, srcCls := cls, method := method,
    body := A ([reject (arg 2),
             post will .will (some (arg 1)) none none (mem subj (fld f)),
             reject (arg 2),
             set f (insertAt (fld f) (arg 0) (arg 1)),
             post did .did none none none (fld f)] ++ extra ++ [dirty]) }

/-- `removeX(x)`: `arg 0` object -/
def removeEntry (id cls method will did f : String) (extra : List Atom := []) : Entry :=
  { id := id, cls := cls, srcCls := cls, method := method,
    body := A ([reject (.not (mem (arg 0) (fld f))),
             post will .will (some (arg 0)) none none (mem subj (fld f)),
             set f (remove (fld f) (arg 0)),
             post did .did none none none (fld f)] ++ extra ++ [dirty]) }

/-- the statements of `removeX(var v)` inlined in a caller's loop -/
def removeBody (will did f : String) (v : Nat) (extra : List Atom := []) : List Atom :=
  [nested (post will .will (some (var v)) none none (mem subj (fld f))),
   nested (set f (remove (fld f) (var v))),
   nested (post did .did none none none (fld f))] ++ extra.map nested ++ [nested dirty]

/-- the statements of `appendX(var v)` inlined in a caller's loop -/
def appendBody (will did f : String) (v : Nat) (extra : List Atom := []) : List Atom :=
  [nested (post will .will (some (var v)) none none (mem subj (fld f))),
   nested (set f (insertAt (fld f) (lit (.int 1000000)) (var v))),
   nested (post did .did none none none (fld f))] ++ extra.map nested ++ [nested dirty]

/-- `clearXs()`: hold; for x in reversed(xs): removeX(x); release -/
def clearBody (will did f : String) (own : Bool) (extra : List Atom := []) : List Stmt :=
  if own then A [hold] ++ [.forEach 9 (fld f) true true (removeBody will did f 9 extra)] ++ A [release]
  else A [nested hold] ++ [.forEach 9 (fld f) true false (removeBody will did f 9 extra)] ++ A [nested release]

def clearEntry (id cls method will did f : String) (pre : List Stmt := []) (extra : List Atom := []) : Entry :=
  { id := id, cls := cls, srcCls := cls, method := method, body := pre ++ clearBody will did f true extra }

/-- `xs = value`: clearXs(); hold; for x in value: appendX(x); release.  `arg 0` = the new objects -/
def assignListEntry (id cls method will did willA f : String) (pre : List Stmt := []) (extra : List Atom := []) : Entry :=
  { id := id, cls := cls, srcCls := cls, method := method,
    body := pre ++ clearBody will did f false extra ++
      A [hold] ++ [.forEach 8 (arg 0) false true (appendBody willA did f 8 extra)] ++ A [release] }

/-! ### Glyph -/

def glyphName : Entry :=
  { id := "Glyph.name=", cls := "Glyph", srcCls := "Glyph", method := "_set_name",
    body := A [capture 0 (fld "_name"), guard (ne (var 0) (arg 0)),
             post "Glyph.NameWillChange" .will none (some (var 0)) (some (arg 0)) (fld "_name"),
             set "_name" (arg 0),
             post "Glyph.NameChanged" .did none (some (var 0)) (some (arg 0)) (fld "_name"),
             dirty] }

def glyphUnicodes := simpleSetter "Glyph.unicodes=" "Glyph" "_set_unicodes" "_unicodes" "Glyph.UnicodesChanged"
def glyphWidth := simpleSetter "Glyph.width=" "Glyph" "_set_width" "_width" "Glyph.WidthChanged"
def glyphHeight := simpleSetter "Glyph.height=" "Glyph" "_set_height" "_height" "Glyph.HeightChanged"
def glyphNote := simpleSetter "Glyph.note=" "Glyph" "_set_note" "_note" "Glyph.NoteChanged"

/-- lib-wrapped: `old = self.lib.get(k); if value == old: return; del / set; post` -/
def libWrapped (id method k note : String) : Entry :=
  { id := id, cls := "Glyph", srcCls := "Glyph", method := method,
    body := A [capture 0 (fld k), guard (ne (arg 0) (var 0)), nested (setOrUnset k (arg 0)),
             post note .plain none (some (var 0)) (some (arg 0)) (fld k)] }

def glyphMarkColor := libWrapped "Glyph.markColor=" "_set_markColor" "markColor" "Glyph.MarkColorChanged"
def glyphVerticalOrigin := libWrapped "Glyph.verticalOrigin=" "_set_verticalOrigin" "vo" "Glyph.VerticalOriginChanged"

/-- `self.width = e` inlined (`_set_width`): local 5 = old width, 6 = new width, 7 = changed -/
def nestedWidth (e : Expr) : List Atom :=
  [nested (capture 6 e), nested (capture 5 (fld "_width")), nested (capture 7 (ne (var 5) (var 6))),
   nested (when (var 7) (set "_width" (var 6))),
   nested (when (var 7) (post "Glyph.WidthChanged" .plain none (some (var 5)) (some (var 6)) (fld "_width"))),
   nested (when (var 7) dirty)]

def nestedHeight (e : Expr) : List Atom :=
  [nested (capture 6 e), nested (capture 5 (fld "_height")), nested (capture 7 (ne (var 5) (var 6))),
   nested (when (var 7) (set "_height" (var 6))),
   nested (when (var 7) (post "Glyph.HeightChanged" .plain none (some (var 5)) (some (var 6)) (fld "_height"))),
   nested (when (var 7) dirty)]

/-- `self.verticalOrigin = e` inlined (`_set_verticalOrigin`): locals 2 = new, 3 = old, 4 = changed -/
def nestedVO (e : Expr) : List Atom :=
  [nested (capture 2 e), nested (capture 3 (fld "vo")), nested (capture 4 (ne (var 2) (var 3))),
   nested (when (var 4) (setOrUnset "vo" (var 2))),
   nested (when (var 4) (post "Glyph.VerticalOriginChanged" .plain none (some (var 3)) (some (var 2)) (fld "vo")))]

def leftMarginG : Expr := fld "xMin"
def rightMarginG : Expr := sub (fld "_width") (fld "xMax")
def bottomMarginG : Expr :=
  ite (isNone (fld "vo")) (fld "yMin") (sub (fld "yMin") (sub (fld "vo") (fld "_height")))
def topMarginG : Expr := ite (isNone (fld "vo")) (sub (fld "_height") (fld "yMax")) (sub (fld "vo") (fld "yMax"))

/-- bounds are the fields xMin … yMax (all `None` for a glyph without outline);
`self.move((dx, 0))` shifts them (contours, components and anchors are not part of this store) -/
def glyphLeftMargin : Entry :=
  { id := "Glyph.leftMargin=", cls := "Glyph", srcCls := "Glyph", method := "_set_leftMargin",
    body := A ([guard (notNone (fld "xMin")), capture 0 (fld "xMin"), capture 1 (sub (arg 0) (fld "xMin")),
             guard (ne (arg 0) (var 0)),
             post "Glyph.LeftMarginWillChange" .will none (some (var 0)) (some (arg 0)) leftMarginG,
             nested (set "xMin" (add (fld "xMin") (var 1))), nested (set "xMax" (add (fld "xMax") (var 1)))] ++
            nestedWidth (add (fld "_width") (var 1)) ++
            [dirty,
             post "Glyph.LeftMarginDidChange" .did none (some (var 0)) (some (arg 0)) leftMarginG]) }

def glyphRightMargin : Entry :=
  { id := "Glyph.rightMargin=", cls := "Glyph", srcCls := "Glyph", method := "_set_rightMargin",
    body := A ([guard (notNone (fld "xMin")), capture 0 (sub (fld "_width") (fld "xMax")),
             guard (ne (var 0) (arg 0)),
             post "Glyph.RightMarginWillChange" .will none (some (var 0)) (some (arg 0)) rightMarginG] ++
            nestedWidth (add (fld "xMax") (arg 0)) ++
            [dirty,
             post "Glyph.RightMarginDidChange" .did none (some (var 0)) (some (arg 0)) rightMarginG]) }

def glyphBottomMargin : Entry :=
  { id := "Glyph.bottomMargin=", cls := "Glyph", srcCls := "Glyph", method := "_set_bottomMargin",
    body := A ([guard (notNone (fld "xMin")), capture 0 bottomMarginG, capture 8 (isNone (fld "vo"))] ++
            (nestedVO (fld "_height")).map (fun a => match a with
              | .nested a => .nested (.when (var 8) a)
              | a => a) ++
            [capture 1 (sub (arg 0) (var 0)), guard (ne (arg 0) (var 0)),
             post "Glyph.BottomMarginWillChange" .will none (some (var 0)) (some (arg 0)) bottomMarginG] ++
            nestedHeight (add (fld "_height") (var 1)) ++
            [dirty,
             post "Glyph.BottomMarginDidChange" .did none (some (var 0)) (some (arg 0)) bottomMarginG]) }

def glyphTopMargin : Entry :=
  { id := "Glyph.topMargin=", cls := "Glyph", srcCls := "Glyph", method := "_set_topMargin",
    body := A ([guard (notNone (fld "xMin")), capture 0 topMarginG, capture 1 (sub (arg 0) (var 0)),
             guard (ne (var 0) (arg 0)),
             post "Glyph.TopMarginWillChange" .will none (some (var 0)) (some (arg 0)) topMarginG] ++
            nestedVO (add (fld "yMax") (arg 0)) ++ nestedHeight (add (fld "_height") (var 1)) ++
            [dirty,
             post "Glyph.TopMarginDidChange" .did none (some (var 0)) (some (arg 0)) topMarginG]) }

/-- `glyph.image = None`: `arg 1` = the state of a cleared image -/
def glyphImageNone : Entry :=
  { id := "Glyph.image=None", cls := "Glyph", srcCls := "Glyph", method := "_set_image#0",
    body := A [guard (isNone (arg 0)), guard (eq (fld "hasImage") T),
             post "Glyph.ImageWillBeCleared" .will none none none (fld "imgState"),
             nested (set "imgState" (arg 1)),
             post "Glyph.ImageCleared" .did none none none (fld "imgState"),
             post "Glyph.ImageChanged" .plain none none none (fld "imgState"),
             dirty] }

def glyphInsertContour := insertEntry "Glyph.insertContour" "Glyph" "insertContour"
  "Glyph.ContourWillBeAdded" "Glyph.ContoursChanged" "contours"
def glyphInsertComponent := insertEntry "Glyph.insertComponent" "Glyph" "insertComponent"
  "Glyph.ComponentWillBeAdded" "Glyph.ComponentsChanged" "components"
def glyphInsertAnchor := insertEntry "Glyph.insertAnchor" "Glyph" "insertAnchor"
  "Glyph.AnchorWillBeAdded" "Glyph.AnchorsChanged" "anchors"
def glyphInsertGuideline := insertEntry "Glyph.insertGuideline" "Glyph" "insertGuideline"
  "Glyph.GuidelineWillBeAdded" "Glyph.GuidelinesChanged" "guidelines"
def glyphRemoveContour := removeEntry "Glyph.removeContour" "Glyph" "removeContour"
  "Glyph.ContourWillBeDeleted" "Glyph.ContoursChanged" "contours"
def glyphRemoveComponent := removeEntry "Glyph.removeComponent" "Glyph" "removeComponent"
  "Glyph.ComponentWillBeDeleted" "Glyph.ComponentsChanged" "components"
def glyphRemoveAnchor := removeEntry "Glyph.removeAnchor" "Glyph" "removeAnchor"
  "Glyph.AnchorWillBeDeleted" "Glyph.AnchorsChanged" "anchors"
def glyphRemoveGuideline := removeEntry "Glyph.removeGuideline" "Glyph" "removeGuideline"
  "Glyph.GuidelineWillBeDeleted" "Glyph.GuidelinesChanged" "guidelines"

def glyphClearContours := clearEntry "Glyph.clearContours" "Glyph" "clearContours"
  "Glyph.ContourWillBeDeleted" "Glyph.ContoursChanged" "contours"
def glyphClearComponents := clearEntry "Glyph.clearComponents" "Glyph" "clearComponents"
  "Glyph.ComponentWillBeDeleted" "Glyph.ComponentsChanged" "components"
def glyphClearAnchors := clearEntry "Glyph.clearAnchors" "Glyph" "clearAnchors"
  "Glyph.AnchorWillBeDeleted" "Glyph.AnchorsChanged" "anchors"
def glyphClearGuidelines := clearEntry "Glyph.clearGuidelines" "Glyph" "clearGuidelines"
  "Glyph.GuidelineWillBeDeleted" "Glyph.GuidelinesChanged" "guidelines"

/-- `clearImage()` → `self.image = None` inlined; `arg 0` = the state of a cleared image -/
def nestedClearImage : List Atom :=
  [nested (capture 7 (eq (fld "hasImage") T)),
   nested (when (var 7) (post "Glyph.ImageWillBeCleared" .will none none none (fld "imgState"))),
   nested (when (var 7) (set "imgState" (arg 0))),
   nested (when (var 7) (post "Glyph.ImageCleared" .did none none none (fld "imgState"))),
   nested (when (var 7) (post "Glyph.ImageChanged" .plain none none none (fld "imgState"))),
   nested (when (var 7) dirty)]

def glyphClear : Entry :=
  { id := "Glyph.clear", cls := "Glyph", srcCls := "Glyph", method := "clear",
    body := A [hold] ++
      clearBody "Glyph.ContourWillBeDeleted" "Glyph.ContoursChanged" "contours" false ++
      clearBody "Glyph.ComponentWillBeDeleted" "Glyph.ComponentsChanged" "components" false ++
      clearBody "Glyph.AnchorWillBeDeleted" "Glyph.AnchorsChanged" "anchors" false ++
      clearBody "Glyph.GuidelineWillBeDeleted" "Glyph.GuidelinesChanged" "guidelines" false ++
      A nestedClearImage ++ A [release] }

def glyphSetAnchors := assignListEntry "Glyph.anchors=" "Glyph" "_set_anchors"
  "Glyph.AnchorWillBeDeleted" "Glyph.AnchorsChanged" "Glyph.AnchorWillBeAdded" "anchors"
def glyphSetGuidelines := assignListEntry "Glyph.guidelines=" "Glyph" "_set_guidelines"
  "Glyph.GuidelineWillBeDeleted" "Glyph.GuidelinesChanged" "Glyph.GuidelineWillBeAdded" "guidelines"

/-- `decomposeComponent(c)`: `arg 0` = component, `arg 1` = the contours the pen adds -/
def glyphDecomposeComponent : Entry :=
  { id := "Glyph.decomposeComponent", cls := "Glyph", srcCls := "Glyph", method := "decomposeComponent",
    body := A [hold] ++
            [.forEach 8 (arg 1) false false
               (appendBody "Glyph.ContourWillBeAdded" "Glyph.ContoursChanged" "contours" 8)] ++
            A [nested (post "Glyph.ComponentWillBeDeleted" .will (some (arg 0)) none none (mem subj (fld "components"))),
             nested (set "components" (remove (fld "components") (arg 0))),
             nested (post "Glyph.ComponentsChanged" .did none none none (fld "components")),
             nested dirty,
             release,
             post "Glyph.ContoursChanged" .did none none none (fld "contours")] }

/-- `decomposeAllComponents()`, component side only (the contours the pen adds are not in this entry) -/
def glyphDecomposeAll : Entry :=
  { id := "Glyph.decomposeAllComponents", cls := "Glyph", srcCls := "Glyph", method := "decomposeAllComponents",
    body := A [guard (.not (isEmpty (fld "components"))), hold] ++
            [.forEach 9 (fld "components") false true
               (removeBody "Glyph.ComponentWillBeDeleted" "Glyph.ComponentsChanged" "components" 9)] ++
            A [release,
             post "Glyph.ContoursChanged" .did none none none (fld "contours")] }

/-- `copyDataFromGlyph(g)`, the part that replaces guidelines (`arg 0`) and anchors (`arg 1`) -/
def glyphCopyData : Entry :=
  { id := "Glyph.copyDataFromGlyph", cls := "Glyph", srcCls := "Glyph", method := "copyDataFromGlyph",
    body := clearBody "Glyph.GuidelineWillBeDeleted" "Glyph.GuidelinesChanged" "guidelines" false ++
      A [nested hold] ++
      [.forEach 8 (arg 0) false false (appendBody "Glyph.GuidelineWillBeAdded" "Glyph.GuidelinesChanged" "guidelines" 8)] ++
      A [nested release] ++
      clearBody "Glyph.AnchorWillBeDeleted" "Glyph.AnchorsChanged" "anchors" false ++
      A [nested hold] ++
      [.forEach 8 (arg 1) false false (appendBody "Glyph.AnchorWillBeAdded" "Glyph.AnchorsChanged" "anchors" 8)] ++
      A [nested release] }

/-! ### Anchor, Guideline, Image, Component, Contour -/

def anchorX := dictSetter "Anchor.x=" "Anchor" "_set_x" "x" "Anchor.XChanged"
def anchorY := dictSetter "Anchor.y=" "Anchor" "_set_y" "y" "Anchor.YChanged"
def anchorName := dictSetter "Anchor.name=" "Anchor" "_set_name" "name" "Anchor.NameChanged"
def anchorColor := dictSetter "Anchor.color=" "Anchor" "_set_color" "color" "Anchor.ColorChanged"
def anchorIdentifier := identSetter "Anchor.identifier=" "Anchor" "identifier" "Anchor.IdentifierChanged" false

def guidelineX := dictSetter "Guideline.x=" "Guideline" "_set_x" "x" "Guideline.XChanged"
def guidelineY := dictSetter "Guideline.y=" "Guideline" "_set_y" "y" "Guideline.YChanged"
def guidelineAngle := dictSetter "Guideline.angle=" "Guideline" "_set_angle" "angle" "Guideline.AngleChanged"
def guidelineName := dictSetterDel "Guideline.name=" "Guideline" "_set_name" "name" "Guideline.NameChanged"
def guidelineColor := dictSetterDel "Guideline.color=" "Guideline" "_set_color" "color" "Guideline.ColorChanged"
def guidelineIdentifier :=
  identSetter "Guideline.identifier=" "Guideline" "identifier" "Guideline.IdentifierChanged" false

def imageFileName := dictSetter "Image.fileName=" "Image" "_set_fileName" "fileName" "Image.FileNameChanged"
def imageColor := dictSetter "Image.color=" "Image" "_set_color" "color" "Image.ColorChanged"

def imageTransformationG : Expr :=
  cons (fld "xScale") (cons (fld "xyScale") (cons (fld "yxScale") (cons (fld "yScale")
    (cons (fld "xOffset") (cons (fld "yOffset") (lit (.list [])))))))

def imageTransformation : Entry :=
  { id := "Image.transformation=", cls := "Image", srcCls := "Image", method := "_set_transformation",
    body := A [capture 0 imageTransformationG, guard (ne (var 0) (arg 0)), hold,
             nested (set "xScale" (nth (arg 0) 0)), nested dirty, nested (set "xyScale" (nth (arg 0) 1)), nested dirty,
             nested (set "yxScale" (nth (arg 0) 2)), nested dirty, nested (set "yScale" (nth (arg 0) 3)), nested dirty,
             nested (set "xOffset" (nth (arg 0) 4)), nested dirty, nested (set "yOffset" (nth (arg 0) 5)), nested dirty,
             release,
             post "Image.TransformationChanged" .plain none (some (var 0)) (some (arg 0)) imageTransformationG] }

/-- `image.move((dx, dy))`: `arg 0` = dx, `arg 1` = dy -/
def imageMove : Entry :=
  { id := "Image.move", cls := "Image", srcCls := "Image", method := "move",
    body := A [guard (.or (ne (arg 0) (lit (.int 0))) (ne (arg 1) (lit (.int 0)))),
             capture 0 imageTransformationG, hold,
             nested (set "xOffset" (add (fld "xOffset") (arg 0))), nested dirty,
             nested (set "yOffset" (add (fld "yOffset") (arg 1))), nested dirty,
             release,
             post "Image.TransformationChanged" .plain none (some (var 0)) (some imageTransformationG)
               imageTransformationG] }

/-- the callback that forwards the LAYER's colour change as the image's: `arg 0` / `arg 1` = the
layer's old / new colour -/
def imageLayerColorChanged : Entry :=
  { id := "Image.layerColorChanged", cls := "Image", srcCls := "Image",
    method := "layerColorChangedNotificationCallback",
    body := A [guard (notNone (fld "color")),
             post "Image.ColorChanged" .plain none (some (arg 0)) (some (arg 1)) (fld "color")] }

def componentBaseGlyph :=
  simpleSetter "Component.baseGlyph=" "Component" "_set_baseGlyph" "_baseGlyph" "Component.BaseGlyphChanged"
def componentTransformation := simpleSetter "Component.transformation=" "Component" "_set_transformation"
  "_transformation" "Component.TransformationChanged"
def componentIdentifier :=
  identSetter "Component.identifier=" "Component" "_identifier" "Component.IdentifierChanged" true
def contourIdentifier := identSetter "Contour.identifier=" "Contour" "_identifier" "Contour.IdentifierChanged" true

/-- `contour.reverse()`: `clockwise` = "the area is negative"; `arg 0` = "the area is zero" (then the
reversed contour is not clockwise either) -/
def contourReverseBody : List Atom :=
  [capture 0 (fld "clockwise"),
   set "clockwise" (ite (arg 0) (fld "clockwise") (.not (fld "clockwise"))),
   post "Contour.WindingDirectionChanged" .plain none (some (var 0)) (some (fld "clockwise")) (fld "clockwise"),
   post "Contour.PointsChanged" .plain none none none (fld "clockwise"),
   dirty]

def contourReverse : Entry :=
  { id := "Contour.reverse", cls := "Contour", srcCls := "Contour", method := "reverse", body := A contourReverseBody }

/-- `contour.clockwise = value`: `arg 0` = value, `arg 1` = "the area is zero" -/
def contourClockwise : Entry :=
  { id := "Contour.clockwise=", cls := "Contour", srcCls := "Contour", method := "_set_clockwise",
    body := A [guard (ne (fld "clockwise") (arg 0)),
             nested (capture 0 (fld "clockwise")),
             nested (set "clockwise" (ite (arg 1) (fld "clockwise") (.not (fld "clockwise")))),
             nested (post "Contour.WindingDirectionChanged" .plain none (some (var 0)) (some (fld "clockwise"))
               (fld "clockwise")),
             nested (post "Contour.PointsChanged" .plain none none none (fld "clockwise")),
             nested dirty] }

/-! ### Layer, LayerSet, Font, Info, Features, dict objects, ImageSet -/

def layerName : Entry :=
  { id := "Layer.name=", cls := "Layer", srcCls := "Layer", method := "_set_name",
    body := (simpleSetter "" "" "" "_name" "Layer.NameChanged").body }
def layerColor : Entry :=
  { id := "Layer.color=", cls := "Layer", srcCls := "Layer", method := "_set_color",
    body := (simpleSetter "" "" "" "_color" "Layer.ColorChanged").body }

/-- `newGlyph(name)` inlined or not: will, insert into the key set, added -/
def newGlyphBody (n : Bool) : List Atom :=
  let w (a : Atom) : Atom := if n then nested a else a
  [w (post "Layer.GlyphWillBeAdded" .will (some (arg 0)) none none (mem subj (fld "keys"))),
   nested (set "keys" (sinsert (fld "keys") (arg 0))),
   w (post "Layer.GlyphAdded" .did (some (arg 0)) none none (mem subj (fld "keys"))),
   w dirty]

def layerNewGlyph : Entry :=
  { id := "Layer.newGlyph", cls := "Layer", srcCls := "Layer", method := "newGlyph", body := A (newGlyphBody false) }

def layerInsertGlyph : Entry :=
  { id := "Layer.insertGlyph", cls := "Layer", srcCls := "Layer", method := "insertGlyph",
    body := A ([post "Layer.GlyphWillBeAdded" .will (some (arg 0)) none none (mem subj (fld "keys")), hold] ++
            newGlyphBody true ++ [release]) }

def layerDelGlyph : Entry :=
  { id := "Layer.__delitem__", cls := "Layer", srcCls := "Layer", method := "__delitem__",
    body := A [reject (.not (mem (arg 0) (fld "keys"))),
             post "Layer.GlyphWillBeDeleted" .will (some (arg 0)) none none (mem subj (fld "keys")),
             nested (set "keys" (remove (fld "keys") (arg 0))),
             post "Layer.GlyphDeleted" .did (some (arg 0)) none none (mem subj (fld "keys")),
             dirty] }

/-- callbacks that forward a glyph's payload as the layer's: `arg 0` / `arg 1` = old / new -/
def layerGlyphNameChange : Entry :=
  { id := "Layer._glyphNameChange", cls := "Layer", srcCls := "Layer", method := "_glyphNameChange",
    body := A [nested (set "keys" (sinsert (remove (fld "keys") (arg 0)) (arg 1))),
             post "Layer.GlyphNameChanged" .plain none (some (arg 0)) (some (arg 1)) (fld "keys")] }

/-- `layers.defaultLayer = layer`: `arg 0` = the layer's name (`None` for `None`) -/
def layerGlyphUnicodesChange : Entry :=
  { id := "Layer._glyphUnicodesChange", cls := "Layer", srcCls := "Layer", method := "_glyphUnicodesChange",
    body := A [touch,
             post "Layer.GlyphUnicodesChanged" .plain none (some (arg 0)) (some (arg 1)) (lit .none)] }

def layerSetDefault : Entry :=
  { id := "LayerSet.defaultLayer=", cls := "LayerSet", srcCls := "LayerSet", method := "_set_defaultLayer",
    body := A [reject (isNone (arg 0)), guard (ne (arg 0) (fld "default")),
             post "LayerSet.DefaultLayerWillChange" .will none none none (fld "default"),
             capture 0 (fld "default"),
             set "default" (arg 0),
             post "LayerSet.DefaultLayerChanged" .did none (some (var 0)) (some (arg 0)) (fld "default"),
             dirty] }

/-- `layers.layerOrder = order`: `arg 1` = "not a permutation of the current order" -/
def layerSetOrder : Entry :=
  { id := "LayerSet.layerOrder=", cls := "LayerSet", srcCls := "LayerSet", method := "_set_layerOrder",
    body := A [capture 0 (fld "order"), guard (ne (fld "order") (arg 0)), reject (arg 1), set "order" (arg 0),
             post "LayerSet.LayerOrderChanged" .plain none (some (var 0)) (some (arg 0)) (fld "order"),
             dirty] }

def layerSetDel : Entry :=
  { id := "LayerSet.__delitem__", cls := "LayerSet", srcCls := "LayerSet", method := "__delitem__",
    body := A [reject (.not (mem (arg 0) (fld "names"))),
             post "LayerSet.LayerWillBeDeleted" .will (some (arg 0)) none none (mem subj (fld "names")),
             nested (set "names" (remove (fld "names") (arg 0))),
             nested (set "order" (remove (fld "order") (arg 0))),
             post "LayerSet.LayerDeleted" .did (some (arg 0)) none none (mem subj (fld "names")),
             post "LayerSet.LayersChanged" .plain none none none (fld "names"),
             dirty] }

/-- `font.glyphOrder = value`: `arg 1` = "value is None or empty"; an empty order assigned to a font
that has none changes nothing and returns -/
def fontGlyphOrder : Entry :=
  { id := "Font.glyphOrder=", cls := "Font", srcCls := "Font", method := "_set_glyphOrder",
    body := A [capture 0 (fld "glyphOrder"), guard (ne (var 0) (arg 0)),
             capture 1 (ite (arg 1) (lit .none) (arg 0)),
             guard (.not (.and (arg 1) (isNone (var 0)))),
             nested (setOrUnset "glyphOrder" (var 1)),
             post "Font.GlyphOrderChanged" .plain none (some (var 0)) (some (var 1)) (fld "glyphOrder")] }

def fontExtra : List Atom := [nested dirty]
def fontInsertGuideline := insertEntry "Font.insertGuideline" "Font" "insertGuideline"
  "Font.GuidelineWillBeAdded" "Font.GuidelinesChanged" "guidelines" fontExtra
def fontRemoveGuideline := removeEntry "Font.removeGuideline" "Font" "removeGuideline"
  "Font.GuidelineWillBeDeleted" "Font.GuidelinesChanged" "guidelines" fontExtra
def fontClearGuidelines := clearEntry "Font.clearGuidelines" "Font" "clearGuidelines"
  "Font.GuidelineWillBeDeleted" "Font.GuidelinesChanged" "guidelines" [] [dirty]
def fontSetGuidelines := assignListEntry "Font.guidelines=" "Font" "_set_guidelines"
  "Font.GuidelineWillBeDeleted" "Font.GuidelinesChanged" "Font.GuidelineWillBeAdded" "guidelines" [] [dirty]

/-- `info.<attr> = value` (`init_property.setter`): key = attribute, `arg 1` = the attribute's default,
`arg 2` = "fontTools' validator rejects the value" -/
def infoSetter : Entry :=
  { id := "Info.<attr>=", cls := "Info", srcCls := "Info", method := "init_property.setter",
    body := A [capture 0 kfld, guard (ne (var 0) (arg 0)),
             capture 1 (ite (isNone (arg 0)) (arg 1) (arg 0)),
             reject (.and (notNone (arg 0)) (arg 2)),
             setK (var 1),
             post "Info.ValueChanged" .plain (some (lit .none)) (some (var 0)) (some (var 1)) kfld,
             dirty] }

def featuresText := simpleSetter "Features.text=" "Features" "_set_text" "_text" "Features.TextChanged"

/-- `BaseDictObject.__setitem__` of a class with an item notification: key = key -/
def dictSetItem (cls note : String) : Entry :=
  { id := cls ++ ".__setitem__", cls := cls, srcCls := "BaseDictObject", method := "__setitem__",
    body := A [capture 0 kfld, guard (.not (.and (notNone (arg 0)) (eq (var 0) (arg 0)))),
             setK (arg 0),
             post note .plain none (some (var 0)) (some (arg 0)) kfld,
             dirty] }

def libSetItem := dictSetItem "Lib" "Lib.ItemSet"
def kerningSetItem := dictSetItem "Kerning" "Kerning.PairSet"
def groupsSetItem := dictSetItem "Groups" "Groups.GroupSet"

/-- `images[name] = data` (`_setImage`).  The image set is two sets of file names: `names` = what `in` / `fileNames`
answer, `sched` = names deleted since the last save (`_scheduledForDeletion`, whose entries keep the stamps of the
file on disk).  `arg 0` = name, `arg 1` = "a validity assertion fails", `arg 2` = "the data has the digest of the
entry stored under the name" (the entry in the set, or the one just taken back from the scheduled deletions).

locals: 0 = isNewImage, 2 = the name is scheduled for deletion, 1 = there is an entry to compare with,
3 = the deleted image itself comes back (repaired in /repo, finding F104: it used to come back unannounced) -/
def imageSetSetItem : Entry :=
  { id := "ImageSet.__setitem__", cls := "ImageSet", srcCls := "ImageSet", method := "_setImage",
    body := A [reject (arg 1), capture 0 (.not (mem (arg 0) (fld "names"))),
             capture 2 (mem (arg 0) (fld "sched")),
             when (var 2) (reject (mem (arg 0) (fld "names"))),
             when (var 2) (nested (set "names" (sinsert (fld "names") (arg 0)))),
             when (var 2) (nested (set "sched" (remove (fld "sched") (arg 0)))),
             capture 1 (mem (arg 0) (fld "names")),
             capture 3 (.and (.and (var 1) (arg 2)) (var 0)),
             when (var 3) (nested (set "names" (remove (fld "names") (arg 0)))),
             when (var 3) (post "ImageSet.ImageWillBeAdded" .will (some (arg 0)) none none (mem subj (fld "names"))),
             when (var 3) (nested (set "names" (sinsert (fld "names") (arg 0)))),
             when (var 3) (post "ImageSet.ImageAdded" .did (some (arg 0)) none none (mem subj (fld "names"))),
             when (var 3) dirty,
             guard (.not (.and (var 1) (arg 2))),
             when (var 1) (nested (set "names" (remove (fld "names") (arg 0)))),
             when (var 0) (post "ImageSet.ImageWillBeAdded" .will (some (arg 0)) none none (mem subj (fld "names"))),
             nested (set "names" (sinsert (fld "names") (arg 0))),
             when (var 0) (post "ImageSet.ImageAdded" .did (some (arg 0)) none none (mem subj (fld "names"))),
             when (.not (var 0)) (post "ImageSet.ImageChanged" .plain (some (arg 0)) none none (mem subj (fld "names"))),
             dirty] }

/-- `del images[name]`: the entry moves to the scheduled deletions -/
def imageSetDelItem : Entry :=
  { id := "ImageSet.__delitem__", cls := "ImageSet", srcCls := "ImageSet", method := "__delitem__",
    body := A [reject (.not (mem (arg 0) (fld "names"))),
             post "ImageSet.ImageWillBeDeleted" .will (some (arg 0)) none none (mem subj (fld "names")),
             nested (set "names" (remove (fld "names") (arg 0))),
             nested (set "sched" (sinsert (fld "sched") (arg 0))),
             post "ImageSet.ImageDeleted" .did (some (arg 0)) none none (mem subj (fld "names")),
             dirty] }

def catalogue : List Entry := [
  glyphName, glyphUnicodes, glyphWidth, glyphHeight, glyphNote, glyphMarkColor, glyphVerticalOrigin,
  glyphLeftMargin, glyphRightMargin, glyphBottomMargin, glyphTopMargin, glyphImageNone,
  glyphInsertContour, glyphInsertComponent, glyphInsertAnchor, glyphInsertGuideline,
  glyphRemoveContour, glyphRemoveComponent, glyphRemoveAnchor, glyphRemoveGuideline,
  glyphClearContours, glyphClearComponents, glyphClearAnchors, glyphClearGuidelines, glyphClear,
  glyphSetAnchors, glyphSetGuidelines, glyphDecomposeComponent, glyphDecomposeAll, glyphCopyData,
  anchorX, anchorY, anchorName, anchorColor, anchorIdentifier,
  guidelineX, guidelineY, guidelineAngle, guidelineName, guidelineColor, guidelineIdentifier,
  imageFileName, imageColor, imageTransformation, imageMove, imageLayerColorChanged,
  componentBaseGlyph, componentTransformation, componentIdentifier, contourIdentifier, contourReverse, contourClockwise,
  layerName, layerColor, layerNewGlyph, layerInsertGlyph, layerDelGlyph, layerGlyphNameChange, layerGlyphUnicodesChange,
  layerSetDefault, layerSetOrder, layerSetDel,
  fontGlyphOrder, fontInsertGuideline, fontRemoveGuideline, fontClearGuidelines, fontSetGuidelines,
  infoSetter, featuresText, libSetItem, kerningSetItem, groupsSetItem, imageSetSetItem, imageSetDelItem]

def findEntry (id : String) : Option Entry := catalogue.find? (fun e => e.id = id)

end Setters
end DefconModel
