/-
M-Geom: executable model of the geometry and metrics code of defcon
(Lib/defcon/objects/{contour,glyph,component,anchor,image,point}.py,
Lib/defcon/tools/representations.py) together with the fontTools 4.43 pieces it runs on, ported:

* `BasePointToSegmentPen.endPath` / `PointToSegmentPen._flushContour`  → `toSegments`, `flush`
* `BasePen.curveTo/qCurveTo`, `decomposeQuadraticSegment`                → `expandCall`
* `TransformPen`, `Transform.transform`, `DecomposingPen.addComponent`    → `Call.transform`, `Transform.compose`, `glyphCalls`
* `ControlBoundsPen`, `BoundsPen`, `AreaPen`                             → `ctrlBox`, `bndBox`, `areaRun`
* `ReverseContourPointPen._flushContour`                                  → `reversePoints`
* `arrayTools.updateBounds/unionRect/pointInRect`                        → `Box.add/union/contains`

Coordinates are rationals (`Rat`, core Lean): every int and every float is one, and on the inputs the
harness compares exactly (integers and dyadic k/8) float arithmetic is exact.  The float constants of
AreaPen (`0.5`, `0.15`, `/ 3`) are the rationals they stand for.

The numeric curve-extrema code (`bezierTools.calcCubicBounds/calcQuadraticBounds`, which takes square
roots) is a *parameter* of the model (`CurveOracle`): the model says where BoundsPen consults it and
what it does with the answer.

The cached representations `defcon.contour.bounds / controlPointBounds / area` are part of the
contour state (`Contour.bnd/cpb/area`), because `Contour.move` patches them in place instead of
recomputing.  Glyph- and component-level representations are recomputed on every request (their
eviction is driven by notifications: property C03).

Core Lean only; no imports outside this project.
-/
import DefconModel.Util.AL

namespace DefconModel
namespace Geom

/-! ## Values -/

inductive Seg where
  | move | line | curve | qcurve
deriving DecidableEq, Repr, Inhabited

structure Pt where
  x : Rat
  y : Rat
deriving DecidableEq, Repr, Inhabited

/-- `defcon.objects.point.Point` -/
structure Point where
  pt : Pt
  seg : Option Seg := none
  smooth : Bool := false
  name : Option String := none
  ident : Option String := none
deriving DecidableEq, Repr, Inhabited

def Point.onCurve (p : Point) : Bool := p.seg.isSome

/-- Python's `min(a, b)` / `max(a, b)` on numbers (by value). -/
def mn (a b : Rat) : Rat := if a ≤ b then a else b
def mx (a b : Rat) : Rat := if a ≤ b then b else a

/-- `(xMin, yMin, xMax, yMax)` -/
structure Box where
  xMin : Rat
  yMin : Rat
  xMax : Rat
  yMax : Rat
deriving DecidableEq, Repr, Inhabited

def Box.ofPt (p : Pt) : Box := ⟨p.x, p.y, p.x, p.y⟩
/-- `arrayTools.updateBounds` -/
def Box.add (b : Box) (p : Pt) : Box := ⟨mn b.xMin p.x, mn b.yMin p.y, mx b.xMax p.x, mx b.yMax p.y⟩
/-- `arrayTools.unionRect` -/
def Box.union (a b : Box) : Box := ⟨mn a.xMin b.xMin, mn a.yMin b.yMin, mx a.xMax b.xMax, mx a.yMax b.yMax⟩
/-- `arrayTools.pointInRect` -/
def Box.contains (b : Box) (p : Pt) : Bool :=
  decide (b.xMin ≤ p.x) && decide (p.x ≤ b.xMax) && decide (b.yMin ≤ p.y) && decide (p.y ≤ b.yMax)
def Box.shift (b : Box) (dx dy : Rat) : Box := ⟨b.xMin + dx, b.yMin + dy, b.xMax + dx, b.yMax + dy⟩

def Pt.shift (p : Pt) (dx dy : Rat) : Pt := ⟨p.x + dx, p.y + dy⟩
/-- `Point.move` -/
def Point.move (p : Point) (dx dy : Rat) : Point := { p with pt := p.pt.shift dx dy }

inductive Err where
  | penError | notImplemented | assertion | index | key | unsupported | fuel | curved
deriving DecidableEq, Repr

/-! ## PointPen → SegmentPen (fontTools.pens.pointPen) -/

/-- One entry of the `segments` list built by `BasePointToSegmentPen.endPath`:
`(segmentType, points)`.  `blob` marks the special `(None, "qcurve")` entry of a closed contour
without on-curve points (then `pts` are the off-curves only). -/
structure Segm where
  ty : Seg
  pts : List Pt
  blob : Bool := false
deriving DecidableEq, Repr

def firstOnCurve? : List Point → Option Nat
  | [] => none
  | p :: ps => if p.onCurve then some 0 else (firstOnCurve? ps).map (· + 1)

/-- the loop `for pt, segmentType, … in points` of `endPath`; trailing off-curves are never flushed -/
def group (acc : List Pt) : List Point → List Segm
  | [] => []
  | p :: ps =>
    match p.seg with
    | none => group (acc ++ [p.pt]) ps
    | some t => ⟨t, acc ++ [p.pt], false⟩ :: group [] ps

/-- `BasePointToSegmentPen.endPath`: `none` = no points, `_flushContour` is not called. -/
def toSegments (pts : List Point) : Option (List Segm) :=
  match pts with
  | [] => none
  | [p] => some [⟨.move, [p.pt], false⟩]
  | p0 :: rest =>
    if p0.seg = some .move then some (⟨.move, [p0.pt], false⟩ :: group [] rest)
    else
      match firstOnCurve? pts with
      | none => some [⟨.qcurve, pts.map (·.pt), true⟩]
      | some i => some (group [] (pts.drop (i + 1) ++ pts.take (i + 1)))

/-- calls received by the segment pen -/
inductive Call where
  | moveTo (p : Pt)
  | lineTo (p : Pt)
  | curveTo (pts : List Pt)
  /-- `blob`: the last argument is `None` (no on-curve point) -/
  | qCurveTo (pts : List Pt) (blob : Bool)
  | closePath
  | endPath
deriving DecidableEq, Repr

/-- the point `lastPt` is set to after a curve / qcurve segment -/
def Segm.endPt (s : Segm) : Option Pt := if s.blob then none else s.pts.getLast?

/-- the `for i in range(nSegments)` loop of `PointToSegmentPen._flushContour`
(`outputImpliedClosingLine = False`).  Segments the real pen rejects are reported by `Segm.bad`. -/
def flushLoop (closed : Bool) : Option Pt → List Segm → List Call
  | _, [] => []
  | lastPt, s :: rest =>
    match s.ty with
    | .line =>
      match s.pts.getLast? with
      | none => flushLoop closed lastPt rest
      | some pt =>
        if !rest.isEmpty || !closed || some pt == lastPt then .lineTo pt :: flushLoop closed (some pt) rest
        else flushLoop closed lastPt rest
    | .curve => .curveTo s.pts :: flushLoop closed s.endPt rest
    | .qcurve => .qCurveTo s.pts s.blob :: flushLoop closed s.endPt rest
    | .move => flushLoop closed lastPt rest

/-- `if movePt is None: pass else: pen.moveTo(movePt)` -/
def moveCall (movePt : Option Pt) : List Call :=
  match movePt with
  | some p => [.moveTo p]
  | none => []

/-- `PointToSegmentPen._flushContour` -/
def flush (segs : List Segm) : List Call :=
  match segs with
  | [] => []
  | s0 :: rest =>
    if s0.ty = .move then
      match s0.pts.getLast? with
      | none => []
      | some mp => .moveTo mp :: (flushLoop false (some mp) rest ++ [.endPath])
    else
      let movePt := (segs.getLast?.bind Segm.endPt)
      moveCall movePt ++ flushLoop true movePt segs ++ [.closePath]

/-- a segment on which the real pens raise: `PenError` for a line with off-curves or a move that is
not first; `unsupported` marks what this model does not port (super-beziers: more than two
off-curves before a `curve`, invalid in UFO) -/
def Segm.bad (first : Bool) (s : Segm) : Option Err :=
  match s.ty with
  | .line => if s.pts.length ≠ 1 then some .penError else none
  | .move => if first then none else some .penError
  | .curve => if s.pts.length > 3 then some .unsupported else none
  | .qcurve => none

def segsBad : Bool → List Segm → Option Err
  | _, [] => none
  | first, s :: rest => match s.bad first with
    | some e => some e
    | none => segsBad false rest

/-- the exception (if any) drawing this point list into a segment pen raises -/
def drawErr (pts : List Point) : Option Err :=
  match toSegments pts with
  | none => none
  | some segs => segsBad true segs

/-- what `contour.draw(pen)` sends to `pen` -/
def drawCalls (pts : List Point) : List Call :=
  match toSegments pts with
  | none => []
  | some segs => flush segs

/-! ## BasePen -/

inductive Prim where
  | moveTo (p : Pt)
  | lineTo (p : Pt)
  | curveTo (a b p : Pt)
  | qCurveTo (a p : Pt)
  | closePath
  | endPath
deriving DecidableEq, Repr

/-- `0.5 * (x + nx), 0.5 * (y + ny)` -/
def mid (a b : Pt) : Pt := ⟨(a.x + b.x) / 2, (a.y + b.y) / 2⟩

/-- `decomposeQuadraticSegment` (argument: off-curves followed by the on-curve) -/
def decomposeQuad : List Pt → List (Pt × Pt)
  | [] => []
  | [_] => []
  | [a, b] => [(a, b)]
  | a :: b :: c :: rest => (a, mid a b) :: decomposeQuad (b :: c :: rest)

def quadPrim (ab : Pt × Pt) : Prim := .qCurveTo ab.1 ab.2

/-- `BasePen.qCurveTo(*points)` with a real final on-curve -/
def expandQ (pts : List Pt) : List Prim :=
  match pts with
  | [] => []
  | [p] => [.lineTo p]
  | _ => (decomposeQuad pts).map quadPrim

/-- `BasePen.moveTo/lineTo/curveTo/qCurveTo/closePath/endPath` → `_moveTo/_lineTo/_curveToOne/_qCurveToOne/…` -/
def expandCall : Call → List Prim
  | .moveTo p => [.moveTo p]
  | .lineTo p => [.lineTo p]
  | .curveTo pts =>
    match pts with
    | [p] => [.lineTo p]
    | [a, p] => expandQ [a, p]
    | [a, b, p] => [.curveTo a b p]
    | _ => []
  | .qCurveTo pts blob =>
    if blob then
      match pts.getLast?, pts.head? with
      | some l, some f => .moveTo (mid l f) :: expandQ (pts ++ [mid l f])
      | _, _ => []
    else expandQ pts
  | .closePath => [.closePath]
  | .endPath => [.endPath]

def expand (cs : List Call) : List Prim := cs.flatMap expandCall

/-! ## Transformations (fontTools.misc.transform, TransformPen) -/

structure Transform where
  xx : Rat
  xy : Rat
  yx : Rat
  yy : Rat
  dx : Rat
  dy : Rat
deriving DecidableEq, Repr, Inhabited

/-- `Transform.transformPoint` -/
def Transform.apply (t : Transform) (p : Pt) : Pt :=
  ⟨t.xx * p.x + t.yx * p.y + t.dx, t.xy * p.x + t.yy * p.y + t.dy⟩

/-- `outer.transform(inner)`: first `inner`, then `outer` -/
def Transform.compose (outer inner : Transform) : Transform :=
  ⟨inner.xx * outer.xx + inner.xy * outer.yx, inner.xx * outer.xy + inner.xy * outer.yy,
   inner.yx * outer.xx + inner.yy * outer.yx, inner.yx * outer.xy + inner.yy * outer.yy,
   outer.xx * inner.dx + outer.yx * inner.dy + outer.dx, outer.xy * inner.dx + outer.yy * inner.dy + outer.dy⟩

/-- what `TransformPen` forwards -/
def Call.transform (t : Transform) : Call → Call
  | .moveTo p => .moveTo (t.apply p)
  | .lineTo p => .lineTo (t.apply p)
  | .curveTo pts => .curveTo (pts.map t.apply)
  | .qCurveTo pts blob => .qCurveTo (pts.map t.apply) blob
  | .closePath => .closePath
  | .endPath => .endPath

/-! ## The pens of tools/representations.py -/

def Prim.pts : Prim → List Pt
  | .moveTo p => [p]
  | .lineTo p => [p]
  | .curveTo a b p => [a, b, p]
  | .qCurveTo a p => [a, p]
  | .closePath => []
  | .endPath => []

/-- `updateBounds` on the pen's `bounds` attribute (`None` before the first `moveTo`) -/
def addPt (b : Option Box) (p : Pt) : Option Box :=
  match b with
  | none => some (Box.ofPt p)
  | some b => some (b.add p)

def ctrlStep (b : Option Box) (pr : Prim) : Option Box := pr.pts.foldl addPt b

/-- `ControlBoundsPen`: `pen.bounds` after the calls -/
def ctrlBox (ps : List Prim) : Option Box := ps.foldl ctrlStep none

/-- stand-in for `bezierTools.calcCubicBounds / calcQuadraticBounds` -/
structure CurveOracle where
  cubic : Pt → Pt → Pt → Pt → Box
  quad : Pt → Pt → Pt → Box

structure BndSt where
  box : Option Box := none
  /-- `BasePen._getCurrentPoint()` -/
  cur : Pt := ⟨0, 0⟩
  /-- the oracle was consulted: the result is only as exact as the oracle -/
  asked : Bool := false

def unionO (b : Option Box) (c : Box) : Option Box :=
  match b with
  | none => some c
  | some b => some (b.union c)

def containsO (b : Option Box) (p : Pt) : Bool :=
  match b with
  | none => false
  | some b => b.contains p

/-- `BoundsPen._moveTo/_lineTo/_curveToOne/_qCurveToOne` -/
def bndStep (o : CurveOracle) (st : BndSt) : Prim → BndSt
  | .moveTo p => { st with box := addPt st.box p, cur := p }
  | .lineTo p => { st with box := addPt st.box p, cur := p }
  | .curveTo a b p =>
    let bx := addPt st.box p
    if containsO bx a && containsO bx b then { st with box := bx, cur := p }
    else { box := unionO bx (o.cubic st.cur a b p), cur := p, asked := true }
  | .qCurveTo a p =>
    let bx := addPt st.box p
    if containsO bx a then { st with box := bx, cur := p }
    else { box := unionO bx (o.quad st.cur a p), cur := p, asked := true }
  | .closePath => st
  | .endPath => st

def bndRun (o : CurveOracle) (ps : List Prim) : BndSt := ps.foldl (bndStep o) {}

/-- `BoundsPen`: `pen.bounds` after the calls -/
def bndBox (o : CurveOracle) (ps : List Prim) : Option Box := (bndRun o ps).box

structure AreaSt where
  value : Rat := 0
  p0 : Pt := ⟨0, 0⟩
  start : Pt := ⟨0, 0⟩
  /-- `_endPath` met `_p0 != _startPoint`: NotImplementedError (glyph area only) -/
  openErr : Bool := false

/-- `AreaPen._lineTo` -/
def areaLine (st : AreaSt) (p1 : Pt) : AreaSt :=
  { st with value := st.value - (p1.x - st.p0.x) * (p1.y + st.p0.y) * (1 / 2), p0 := p1 }

/-- `AreaPen._qCurveToOne` -/
def areaQuad (st : AreaSt) (p1 p2 : Pt) : AreaSt :=
  let x0 := st.p0.x
  let y0 := st.p0.y
  let x1 := p1.x - x0
  let y1 := p1.y - y0
  let x2 := p2.x - x0
  let y2 := p2.y - y0
  areaLine { st with value := st.value - (x2 * y1 - x1 * y2) / 3 } p2

/-- `AreaPen._curveToOne` -/
def areaCubic (st : AreaSt) (p1 p2 p3 : Pt) : AreaSt :=
  let x0 := st.p0.x
  let y0 := st.p0.y
  let x1 := p1.x - x0
  let y1 := p1.y - y0
  let x2 := p2.x - x0
  let y2 := p2.y - y0
  let x3 := p3.x - x0
  let y3 := p3.y - y0
  areaLine { st with value := st.value - (x1 * (-y2 - y3) + x2 * (y1 - 2 * y3) + x3 * (y1 + 2 * y2)) * (3 / 20) } p3

/-- `implicitClose`: the contour factory sets `pen._endPath = pen._closePath` -/
def areaStep (implicitClose : Bool) (st : AreaSt) : Prim → AreaSt
  | .moveTo p => { st with p0 := p, start := p }
  | .lineTo p => areaLine st p
  | .qCurveTo a p => areaQuad st a p
  | .curveTo a b p => areaCubic st a b p
  | .closePath => areaLine st st.start
  | .endPath =>
    if implicitClose then areaLine st st.start
    else if st.p0 = st.start then st else { st with openErr := true }

def areaRun (implicitClose : Bool) (ps : List Prim) : AreaSt := ps.foldl (areaStep implicitClose) {}

/-! ## Contour (objects/contour.py) -/

structure Contour where
  points : List Point
  /-- `_representations["defcon.contour.bounds"][None]` when present -/
  bnd : Option (Option Box) := none
  /-- `_representations["defcon.contour.controlPointBounds"][None]` when present -/
  cpb : Option (Option Box) := none
  /-- `_representations["defcon.contour.area"][None]` when present (signed) -/
  area : Option Rat := none
deriving DecidableEq, Repr

def prims (pts : List Point) : List Prim := expand (drawCalls pts)

/-- `contourControlPointBoundsRepresentationFactory` -/
def freshCpb (pts : List Point) : Option Box := ctrlBox (prims pts)
/-- `contourBoundsRepresentationFactory` -/
def freshBnd (o : CurveOracle) (pts : List Point) : Option Box := bndBox o (prims pts)
/-- `contourAreaRepresentationFactory` (signed; open contours are closed implicitly) -/
def freshArea (pts : List Point) : Rat := (areaRun true (prims pts)).value

/-- `BaseObject.getRepresentation`: return the cached value, else compute and (when the object has a
dispatcher, i.e. lives in a font) store it.  An exception in the factory stores nothing. -/
def getRep {β : Type} (caching : Bool) (cache : Option β) (err : Option Err) (fresh : β) :
    Option β × Except Err β :=
  match cache with
  | some v => (cache, .ok v)
  | none =>
    match err with
    | some e => (none, .error e)
    | none => (if caching then some fresh else none, .ok fresh)

def Contour.getBounds (o : CurveOracle) (caching : Bool) (c : Contour) : Contour × Except Err (Option Box) :=
  let r := getRep caching c.bnd (drawErr c.points) (freshBnd o c.points)
  ({ c with bnd := r.1 }, r.2)

def Contour.getCpb (caching : Bool) (c : Contour) : Contour × Except Err (Option Box) :=
  let r := getRep caching c.cpb (drawErr c.points) (freshCpb c.points)
  ({ c with cpb := r.1 }, r.2)

def Contour.getArea (caching : Bool) (c : Contour) : Contour × Except Err Rat :=
  let r := getRep caching c.area (drawErr c.points) (freshArea c.points)
  ({ c with area := r.1 }, r.2)

/-- `Contour.open` -/
def isOpen (pts : List Point) : Bool :=
  match pts with
  | [] => true
  | p :: _ => p.seg = some .move

/-- the patch `Contour.move` applies to a cached box -/
def shiftCache (b : Option (Option Box)) (dx dy : Rat) : Option (Option Box) :=
  match b with
  | none => none
  | some none => some none
  | some (some b) => some (some (b.shift dx dy))

/-- `Contour.move`: every point moved; cached bounds and control bounds patched in place; the
contour's own observation is disabled while `Contour.PointsChanged` is posted, so nothing is
evicted (the cached area stays). -/
def Contour.move (c : Contour) (dx dy : Rat) : Contour :=
  { points := c.points.map (·.move dx dy),
    bnd := shiftCache c.bnd dx dy,
    cpb := shiftCache c.cpb dx dy,
    area := c.area }

/-- the loop `for pt, nextSegmentType, … in contour` of `ReverseContourPointPen._flushContour` -/
def retype (last : Option Seg) : List Point → List Point
  | [] => []
  | p :: ps =>
    match p.seg with
    | some t => { p with seg := last } :: retype (some t) ps
    | none => p :: retype last ps

/-- `while contour[0][1] is None: contour.pop(0)` -/
def dropLeadingOff : List Point → List Point
  | [] => []
  | p :: ps => if p.onCurve then p :: ps else dropLeadingOff ps

def firstOnType? : List Point → Option Seg
  | [] => none
  | p :: ps => match p.seg with
    | some t => some t
    | none => firstOnType? ps

/-- `ReverseContourPointPen._flushContour`: the points the reversed contour receives -/
def reversePoints (pts : List Point) : List Point :=
  match pts with
  | [] => []
  | p0 :: rest =>
    if p0.seg = some .move then
      retype (some .move) (dropLeadingOff pts.reverse)
    else
      retype (firstOnType? (rest ++ [p0])) (rest ++ [p0]).reverse

/-- `Contour.reverse`: points replaced; `WindingDirectionChanged` + `PointsChanged` evict everything -/
def Contour.reverse (c : Contour) : Contour := { points := reversePoints c.points }

def onCurveCount (pts : List Point) : Nat := (pts.filter Point.onCurve).length

/-- Python list index (negative counts from the end); `none` = IndexError -/
def pyIndex (n : Nat) (i : Int) : Option Nat :=
  if 0 ≤ i then (if i.toNat < n then some i.toNat else none)
  else (if (-i).toNat ≤ n then some (n - (-i).toNat) else none)

/-- `Contour.setStartPoint` -/
def Contour.setStartPoint (c : Contour) (index : Int) : Except Err Contour :=
  if onCurveCount c.points < 2 then .ok c
  else if isOpen c.points then .ok c
  else
    match pyIndex c.points.length index with
    | none => .error .index
    | some i =>
      match c.points[i]? with
      | none => .error .index
      | some p =>
        if p.seg = none then .error .assertion
        else .ok { points := c.points.drop i ++ c.points.take i }

/-- `Contour.segments` -/
def splitSegs (cur : List Point) : List Point → List (List Point)
  | [] => if cur.isEmpty then [] else [cur]
  | p :: ps => if p.onCurve then (cur ++ [p]) :: splitSegs [] ps else splitSegs (cur ++ [p]) ps

def lastIsOff (pts : List Point) : Bool :=
  match pts.getLast? with
  | none => false
  | some p => !p.onCurve

def segmentsOf (pts : List Point) : List (List Point) :=
  if pts.isEmpty then []
  else
    let segs := splitSegs [] pts
    if lastIsOff pts then
      match segs with
      | [] => []
      | [s] => [s]
      | s :: rest => rest.dropLast ++ [rest.getLast?.getD [] ++ s]
    else
      match segs with
      | [] => []
      | s :: rest => if (s.getLast?.bind (·.seg)) ≠ some .move then rest ++ [s] else s :: rest

/-! ## Component, anchor, image, glyph (objects/{component,anchor,image,glyph}.py) -/

structure Component where
  base : String
  t : Transform
deriving DecidableEq, Repr

/-- `Component.move` -/
def Component.move (k : Component) (dx dy : Rat) : Component :=
  { k with t := { k.t with dx := k.t.dx + dx, dy := k.t.dy + dy } }

structure Glyph where
  width : Rat := 0
  height : Rat := 0
  /-- `lib["public.verticalOrigin"]` -/
  vo : Option Rat := none
  contours : List Contour := []
  components : List Component := []
  /-- anchors: `(x, y)` -/
  anchors : List Pt := []
  /-- image `(xOffset, yOffset)` -/
  image : Pt := ⟨0, 0⟩
deriving Repr

/-- one layer of one font -/
structure World where
  /-- the objects have a dispatcher (belong to a font): representations are cached -/
  caching : Bool := true
  glyphs : List (String × Glyph) := []
deriving Repr

def transformCalls (t : Option Transform) (cs : List Call) : List Call :=
  match t with
  | none => cs
  | some t => cs.map (Call.transform t)

def composeO (t : Option Transform) (inner : Transform) : Transform :=
  match t with
  | none => inner
  | some t => t.compose inner

/-- first exception among the contours of a glyph, as `drawPoints` meets them -/
def contoursErr : List Contour → Option Err
  | [] => none
  | c :: cs => match drawErr c.points with
    | some e => some e
    | none => contoursErr cs

/-- `DecomposingPen.addComponent` for one component of a glyph being drawn under `t`: the base glyph
(when the layer has it; a missing one is skipped) is drawn through `TransformPen(pen, t ∘ k.t)`;
`rec` draws a glyph one nesting level down.  An exception ends the drawing. -/
def compStep (w : World) (rec : Option Transform → Glyph → Except Err (List Call)) (t : Option Transform)
    (acc : Except Err (List Call)) (k : Component) : Except Err (List Call) :=
  match acc with
  | .error e => .error e
  | .ok cs =>
    match AL.get? w.glyphs k.base with
    | none => .ok cs
    | some bg =>
      match rec (some (composeO t k.t)) bg with
      | .error e => .error e
      | .ok cs2 => .ok (cs ++ cs2)

/-- the calls of a glyph's own contours, under `t` -/
def ownCalls (t : Option Transform) (g : Glyph) : Except Err (List Call) :=
  match contoursErr g.contours with
  | some e => .error e
  | none => .ok (transformCalls t (g.contours.flatMap (fun c => drawCalls c.points)))

/-- What `glyph.draw(pen)` (under an optional enclosing `TransformPen`) sends to `pen`, components
decomposed through `DecomposingPen.addComponent`.  `fuel` bounds the nesting depth (cyclic
references are outside the domain). -/
def glyphCalls (w : World) : Nat → Option Transform → Glyph → Except Err (List Call)
  | 0, _, _ => .error .fuel
  | fuel + 1, t, g => g.components.foldl (compStep w (glyphCalls w fuel) t) (ownCalls t g)

def fuelDefault : Nat := 16

/-- what `component.draw(pen)` sends to `pen` -/
def componentCalls (w : World) (k : Component) : Except Err (List Call) :=
  match AL.get? w.glyphs k.base with
  | none => .ok []
  | some bg => glyphCalls w fuelDefault (some k.t) bg

/-- `componentBoundsRepresentationFactory` -/
def Component.bounds (o : CurveOracle) (w : World) (k : Component) : Except Err (Option Box) :=
  (componentCalls w k).map (fun cs => bndBox o (expand cs))

/-- `componentPointBoundsRepresentationFactory` -/
def Component.cpb (w : World) (k : Component) : Except Err (Option Box) :=
  (componentCalls w k).map (fun cs => ctrlBox (expand cs))

/-- `glyphAreaRepresentationFactory`: `abs(pen.value)`, NotImplementedError for an open contour that
does not end where it started -/
def Glyph.area (w : World) (g : Glyph) : Except Err Rat :=
  match glyphCalls w fuelDefault none g with
  | .error e => .error e
  | .ok cs =>
    let st := areaRun false (expand cs)
    if st.openErr then .error .notImplemented
    else .ok (if st.value < 0 then -st.value else st.value)

def unionOO (a : Option Box) (b : Option Box) : Option Box :=
  match b with
  | none => a
  | some b => unionO a b

/-- the contour part of `Glyph._getContourComponentBounds`: asks every contour in turn (filling its
cache); stops at the first exception -/
def contoursBoxes (get : Contour → Contour × Except Err (Option Box)) :
    List Contour → Option Box → List Contour × Except Err (Option Box)
  | [], acc => ([], .ok acc)
  | c :: cs, acc =>
    match get c with
    | (c', .error e) => (c' :: cs, .error e)
    | (c', .ok b) =>
      let r := contoursBoxes get cs (unionOO acc b)
      (c' :: r.1, r.2)

def componentsBoxes (get : Component → Except Err (Option Box)) :
    List Component → Option Box → Except Err (Option Box)
  | [], acc => .ok acc
  | k :: ks, acc =>
    match get k with
    | .error e => .error e
    | .ok b => componentsBoxes get ks (unionOO acc b)

/-- … then the components, unless a contour raised -/
def thenComponents (get : Component → Except Err (Option Box)) (ks : List Component) :
    Except Err (Option Box) → Except Err (Option Box)
  | .error e => .error e
  | .ok acc => componentsBoxes get ks acc

/-- `Glyph.bounds` -/
def Glyph.getBounds (o : CurveOracle) (w : World) (g : Glyph) : Glyph × Except Err (Option Box) :=
  let r := contoursBoxes (Contour.getBounds o w.caching) g.contours none
  ({ g with contours := r.1 }, thenComponents (Component.bounds o w) g.components r.2)

/-- `Glyph.controlPointBounds` -/
def Glyph.getCpb (w : World) (g : Glyph) : Glyph × Except Err (Option Box) :=
  let r := contoursBoxes (Contour.getCpb w.caching) g.contours none
  ({ g with contours := r.1 }, thenComponents (Component.cpb w) g.components r.2)

/-- `Glyph.move`: contours, components, anchors (not the image) -/
def Glyph.move (g : Glyph) (dx dy : Rat) : Glyph :=
  { g with contours := g.contours.map (·.move dx dy),
           components := g.components.map (·.move dx dy),
           anchors := g.anchors.map (·.shift dx dy) }

/-- `Image.move` -/
def moveImage (im : Pt) (dx dy : Rat) : Pt := if dx = 0 ∧ dy = 0 then im else im.shift dx dy

/-! ### Margins (objects/glyph.py:285-385).  Each function is given the value `self.bounds`
returned (`b`), and is applied to the glyph *after* that read (caches filled). -/

def leftMarginOf (b : Option Box) : Option Rat := b.map (·.xMin)
def rightMarginOf (g : Glyph) (b : Option Box) : Option Rat := b.map (fun b => g.width - b.xMax)
def bottomMarginOf (g : Glyph) (b : Option Box) : Option Rat :=
  b.map (fun b => match g.vo with
    | none => b.yMin
    | some vo => b.yMin - (vo - g.height))
def topMarginOf (g : Glyph) (b : Option Box) : Option Rat :=
  b.map (fun b => match g.vo with
    | none => g.height - b.yMax
    | some vo => vo - b.yMax)

/-- `_set_leftMargin` -/
def setLeftMargin (g : Glyph) (b : Option Box) (value : Rat) : Glyph :=
  match b with
  | none => g
  | some b =>
    let diff := value - b.xMin
    if value ≠ b.xMin then
      let g1 := g.move diff 0
      { g1 with width := g1.width + diff }
    else g

/-- `_set_rightMargin` -/
def setRightMargin (g : Glyph) (b : Option Box) (value : Rat) : Glyph :=
  match b with
  | none => g
  | some b => if g.width - b.xMax ≠ value then { g with width := b.xMax + value } else g

/-- `_set_bottomMargin` (assigns `verticalOrigin = height` when there was none, whatever the value) -/
def setBottomMargin (g : Glyph) (b : Option Box) (value : Rat) : Glyph :=
  match b with
  | none => g
  | some b =>
    let oldValue := match g.vo with
      | none => b.yMin
      | some vo => b.yMin - (vo - g.height)
    let g1 := match g.vo with
      | none => { g with vo := some g.height }
      | some _ => g
    let diff := value - oldValue
    if value ≠ oldValue then { g1 with height := g1.height + diff } else g1

/-- `_set_topMargin` -/
def setTopMargin (g : Glyph) (b : Option Box) (value : Rat) : Glyph :=
  match b with
  | none => g
  | some b =>
    let oldValue := match g.vo with
      | none => g.height - b.yMax
      | some vo => vo - b.yMax
    let diff := value - oldValue
    if oldValue ≠ value then { g with vo := some (b.yMax + value), height := g.height + diff } else g

/-! ## Operations on a world (what the harness drives) -/

inductive Op where
  | newGlyph (name : String) (g : Glyph)
  -- observations on contour `i` of glyph `g`
  | cBounds (g : String) (i : Nat)
  | cCpb (g : String) (i : Nat)
  | cArea (g : String) (i : Nat)
  | cOpen (g : String) (i : Nat)
  | cPoints (g : String) (i : Nat)
  | cSegments (g : String) (i : Nat)
  -- observations on component `j`
  | kBounds (g : String) (j : Nat)
  | kCpb (g : String) (j : Nat)
  | kTransform (g : String) (j : Nat)
  -- observations on the glyph
  | gBounds (g : String)
  | gCpb (g : String)
  | gArea (g : String)
  | gMargins (g : String)
  | gMetrics (g : String)
  | gAnchors (g : String)
  | gImage (g : String)
  -- mutations
  | cMove (g : String) (i : Nat) (dx dy : Rat)
  | cReverse (g : String) (i : Nat)
  | cSetStart (g : String) (i : Nat) (index : Int)
  | cSetClockwise (g : String) (i : Nat) (value : Bool)
  | kMove (g : String) (j : Nat) (dx dy : Rat)
  | aMove (g : String) (j : Nat) (dx dy : Rat)
  | iMove (g : String) (dx dy : Rat)
  | gMove (g : String) (dx dy : Rat)
  | setLeft (g : String) (v : Rat)
  | setRight (g : String) (v : Rat)
  | setBottom (g : String) (v : Rat)
  | setTop (g : String) (v : Rat)
  | setWidth (g : String) (v : Rat)
  | setHeight (g : String) (v : Rat)
  | setVO (g : String) (v : Option Rat)
deriving Repr

inductive Res where
  | ok
  | box (b : Option Box)
  /-- signed area representation, `clockwise`, `area` -/
  | area (signed : Rat) (clockwise : Bool) (abs : Rat)
  | rat (r : Rat)
  | bool (b : Bool)
  | points (l : List Point)
  | segments (l : List (List Point))
  | transform (t : Transform)
  /-- left, right, bottom, top -/
  | margins (l r b t : Option Rat)
  /-- width, height, verticalOrigin -/
  | metrics (w h : Rat) (vo : Option Rat)
  | pts (l : List Pt)
  | err (e : Err)
deriving Repr

def absR (r : Rat) : Rat := if r < 0 then -r else r

def setAt {α : Type} (l : List α) (i : Nat) (a : α) : List α := l.set i a

def ofExcept {β : Type} (f : β → Res) : Except Err β → Res
  | .ok v => f v
  | .error e => .err e

def putGlyph (w : World) (name : String) (g : Glyph) : World := { w with glyphs := AL.set w.glyphs name g }

def putContour (w : World) (name : String) (g : Glyph) (i : Nat) (c : Contour) : World :=
  putGlyph w name { g with contours := setAt g.contours i c }

/-- an operation on contour `i` of glyph `name`: new contour and result -/
def onContour (w : World) (name : String) (i : Nat) (f : Contour → Contour × Res) : World × Res :=
  match AL.get? w.glyphs name with
  | none => (w, .err .key)
  | some g =>
    match g.contours[i]? with
    | none => (w, .err .index)
    | some c =>
      let r := f c
      (putContour w name g i r.1, r.2)

def onGlyph (w : World) (name : String) (f : Glyph → Glyph × Res) : World × Res :=
  match AL.get? w.glyphs name with
  | none => (w, .err .key)
  | some g =>
    let r := f g
    (putGlyph w name r.1, r.2)

def areaRes (a : Rat) : Res := .area a (decide (a < 0)) (absR a)

/-- `Contour.clockwise = value`: `if self.clockwise != value: self.reverse()` -/
def Contour.setClockwise (caching : Bool) (c : Contour) (value : Bool) : Contour × Res :=
  match c.getArea caching with
  | (c1, .error e) => (c1, .err e)
  | (c1, .ok a) => if decide (a < 0) ≠ value then (c1.reverse, .ok) else (c1, .ok)

def marginsRes (g : Glyph) (b : Option Box) : Res :=
  .margins (leftMarginOf b) (rightMarginOf g b) (bottomMarginOf g b) (topMarginOf g b)

/-- a margin setter: read `self.bounds`, then apply `f` -/
def withBounds (o : CurveOracle) (w : World) (name : String) (f : Glyph → Option Box → Glyph) : World × Res :=
  onGlyph w name (fun g =>
    match g.getBounds o w with
    | (g1, .error e) => (g1, .err e)
    | (g1, .ok b) => (f g1 b, .ok))

def step (o : CurveOracle) (w : World) : Op → World × Res
  | .newGlyph name g => (putGlyph w name g, .ok)
  | .cBounds g i => onContour w g i (fun c => let r := c.getBounds o w.caching; (r.1, ofExcept .box r.2))
  | .cCpb g i => onContour w g i (fun c => let r := c.getCpb w.caching; (r.1, ofExcept .box r.2))
  | .cArea g i => onContour w g i (fun c => let r := c.getArea w.caching; (r.1, ofExcept areaRes r.2))
  | .cOpen g i => onContour w g i (fun c => (c, .bool (isOpen c.points)))
  | .cPoints g i => onContour w g i (fun c => (c, .points c.points))
  | .cSegments g i => onContour w g i (fun c => (c, .segments (segmentsOf c.points)))
  | .kBounds g j => onGlyph w g (fun gl =>
      match gl.components[j]? with
      | none => (gl, .err .index)
      | some k => (gl, ofExcept .box (k.bounds o w)))
  | .kCpb g j => onGlyph w g (fun gl =>
      match gl.components[j]? with
      | none => (gl, .err .index)
      | some k => (gl, ofExcept .box (k.cpb w)))
  | .kTransform g j => onGlyph w g (fun gl =>
      match gl.components[j]? with
      | none => (gl, .err .index)
      | some k => (gl, .transform k.t))
  | .gBounds g => onGlyph w g (fun gl => let r := gl.getBounds o w; (r.1, ofExcept .box r.2))
  | .gCpb g => onGlyph w g (fun gl => let r := gl.getCpb w; (r.1, ofExcept .box r.2))
  | .gArea g => onGlyph w g (fun gl => (gl, ofExcept .rat (gl.area w)))
  | .gMargins g => onGlyph w g (fun gl =>
      match gl.getBounds o w with
      | (g1, .error e) => (g1, .err e)
      | (g1, .ok b) => (g1, marginsRes g1 b))
  | .gMetrics g => onGlyph w g (fun gl => (gl, .metrics gl.width gl.height gl.vo))
  | .gAnchors g => onGlyph w g (fun gl => (gl, .pts gl.anchors))
  | .gImage g => onGlyph w g (fun gl => (gl, .pts [gl.image]))
  | .cMove g i dx dy => onContour w g i (fun c => (c.move dx dy, .ok))
  | .cReverse g i => onContour w g i (fun c =>
      -- `oldDirection = self.clockwise` is read first: an exception there leaves the contour alone
      match c.getArea w.caching with
      | (c1, .error e) => (c1, .err e)
      | (c1, .ok _) => (c1.reverse, .ok))
  | .cSetStart g i index => onContour w g i (fun c =>
      match c.setStartPoint index with
      | .error e => (c, .err e)
      | .ok c' => (c', .ok))
  | .cSetClockwise g i value => onContour w g i (fun c => c.setClockwise w.caching value)
  | .kMove g j dx dy => onGlyph w g (fun gl =>
      match gl.components[j]? with
      | none => (gl, .err .index)
      | some k => ({ gl with components := setAt gl.components j (k.move dx dy) }, .ok))
  | .aMove g j dx dy => onGlyph w g (fun gl =>
      match gl.anchors[j]? with
      | none => (gl, .err .index)
      | some a => ({ gl with anchors := setAt gl.anchors j (a.shift dx dy) }, .ok))
  | .iMove g dx dy => onGlyph w g (fun gl => ({ gl with image := moveImage gl.image dx dy }, .ok))
  | .gMove g dx dy => onGlyph w g (fun gl => (gl.move dx dy, .ok))
  | .setLeft g v => withBounds o w g (fun gl b => setLeftMargin gl b v)
  | .setRight g v => withBounds o w g (fun gl b => setRightMargin gl b v)
  | .setBottom g v => withBounds o w g (fun gl b => setBottomMargin gl b v)
  | .setTop g v => withBounds o w g (fun gl b => setTopMargin gl b v)
  | .setWidth g v => onGlyph w g (fun gl => ({ gl with width := v }, .ok))
  | .setHeight g v => onGlyph w g (fun gl => ({ gl with height := v }, .ok))
  | .setVO g v => onGlyph w g (fun gl => ({ gl with vo := v }, .ok))

def run (o : CurveOracle) (w : World) : List Op → World × List Res
  | [] => (w, [])
  | op :: ops =>
    let r := step o w op
    let r2 := run o r.1 ops
    (r2.1, r.2 :: r2.2)

/-- the oracle the driver runs with: the box of the control points (never tighter than the curve) -/
def hullOracle : CurveOracle where
  cubic := fun p0 a b p => (((Box.ofPt p0).add a).add b).add p
  quad := fun p0 a p => ((Box.ofPt p0).add a).add p

end Geom
end DefconModel
