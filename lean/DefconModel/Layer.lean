/-
M-Layer: executable model of the glyph bookkeeping of `defcon.objects.layer.Layer`
(Lib/defcon/objects/layer.py) and of `UnicodeData.add/removeGlyphData`
(Lib/defcon/objects/uniData.py), as the code stands after the F4, F107 and F108 fixes.

  disk    the bound glyph set's contents (name ↦ record of what layer-level queries can see)
  loaded  `_glyphs` (dict order), with the glyph's dirty flag
  keys    `_keys`
  sched   `_scheduledForDeletion`
  uni     `_unicodeData` (None until first asked for)

Core Lean only.
-/
import DefconModel.Util.AL

namespace DefconModel
namespace Layer

/-- What layer-level queries can see of one glyph. `outlineLoaded` is `len(glyph) > 0` (what the
loaded path of `glyphsWithOutlines` tests); `outlineFast` is what `_fetchHasOutlineData` answers
for the glyph's GLIF (a contour point of type line/curve/qcurve exists). -/
structure GRec where
  unicodes : List Nat := []
  comps : List String := []
  image : Option String := none
  outlineLoaded : Bool := false
  outlineFast : Bool := false
deriving DecidableEq, Repr

abbrev Cmap := List (Nat × List String)

structure State where
  disk : List (String × GRec) := []
  loaded : List (String × (GRec × Bool)) := []
  keys : List String := []
  sched : List String := []
  uni : Option Cmap := none
deriving Repr

inductive Err where
  | keyError
deriving DecidableEq, Repr

/-! ### UnicodeData.addGlyphData / removeGlyphData -/

def namesAt (m : Cmap) (c : Nat) : List String := (AL.get? m c).getD []

def uniRemove (m : Cmap) (name : String) : List Nat → Cmap
  | [] => m
  | v :: vs =>
    match AL.get? m v with
    | none => uniRemove m name vs
    | some l =>
      let l' := l.erase name
      uniRemove (if l'.isEmpty then AL.erase m v else AL.set m v l') name vs

def uniAdd (m : Cmap) (name : String) : List Nat → Cmap
  | [] => m
  | v :: vs =>
    let l := namesAt m v
    uniAdd (AL.set m v (if name ∈ l then l else l ++ [name])) name vs

/-- the lazy constructor's `cmap[code].append(glyphName)` for a LOADED glyph: no membership test, one
append per element of `glyph.unicodes` (a list that repeats a code point lists the name twice) -/
def uniAppend (m : Cmap) (name : String) : List Nat → Cmap
  | [] => m
  | v :: vs => uniAppend (AL.set m v (namesAt m v ++ [name])) name vs

/-- `[code for code, names in unicodeData.items() if glyphName in names]` -/
def codesOf (m : Cmap) (name : String) : List Nat := (m.filter (fun p => name ∈ p.2)).map Prod.fst

/-- `UnicodeData.glyphNameForUnicode` : the first name listed under the code point -/
def glyphNameForUnicode (m : Cmap) (c : Nat) : Option String := (namesAt m c).head?

/-- `c in unicodeData` -/
def hasCode (m : Cmap) (c : Nat) : Bool := AL.contains m c

/-! ### primitives -/

def isLoaded (s : State) (n : String) : Bool := AL.contains s.loaded n
def onDisk (s : State) (n : String) : Bool := AL.contains s.disk n

/-- `Layer.keys()` : `_keys` minus the names scheduled for deletion -/
def visible (s : State) : List String := s.keys.filter (fun n => n ∉ s.sched)

def addKey (ks : List String) (n : String) : List String := if n ∈ ks then ks else ks ++ [n]

/-- `_insertGlyph` -/
def insertGlyph (s : State) (n : String) (r : GRec) (dirty : Bool) : State :=
  { s with
    loaded := AL.set s.loaded n (r, dirty)
    sched := s.sched.filter (· ≠ n)
    keys := addKey s.keys n
    uni := match s.uni with
      | none => none
      | some m => if r.unicodes.isEmpty then some m else some (uniAdd m n r.unicodes) }

def withUni (s : State) (u : Option Cmap) : State := { s with uni := u }

/-- `loadGlyph`: the glyph object is inserted while its unicodes are still empty and is then filled by `readGlyph`
with its notifications disabled, so the unicode data (which, if it exists, already lists the glyph from the scan
of the glyph set) is not touched -/
def load (s : State) (n : String) : Except Err State :=
  match AL.get? s.disk n with
  | none => .error .keyError
  | some r => if n ∈ s.sched then .error .keyError else .ok (withUni (insertGlyph s n r false) s.uni)

/-- `__getitem__` : the record of glyph `n`, loading it if necessary -/
def getItem (s : State) (n : String) : Except Err (State × GRec) :=
  match AL.get? s.loaded n with
  | some (r, _) => .ok (s, r)
  | none =>
    match load s n with
    | .error e => .error e
    | .ok s' =>
      match AL.get? s'.loaded n with
      | some (r, _) => .ok (s', r)
      | none => .error .keyError

/-- `self._unicodeData.removeGlyphData(name, unicodes)` when the map exists -/
def forgetUni (s : State) (n : String) (us : List Nat) : State :=
  { s with uni := s.uni.map (fun m => uniRemove m n us) }

/-- the bookkeeping part of `_deleteGlyph` -/
def dropGlyph (s : State) (n : String) : State :=
  { s with
    loaded := AL.erase s.loaded n
    keys := s.keys.filter (· ≠ n)
    sched := if onDisk s n then addKey s.sched n else s.sched }

/-- `_deleteGlyph` (the unicode data part touches `self[name]`, i.e. may load the glyph) -/
def deleteGlyph (s : State) (n : String) : Except Err State :=
  match s.uni with
  | none => .ok (dropGlyph s n)
  | some _ =>
    match getItem s n with
    | .error e => .error e
    | .ok (s', r) => .ok (dropGlyph (forgetUni s' n r.unicodes) n)

/-- store a glyph object with record `r` under `n`, replacing whatever the layer shows under that name:
`if name in self and self._unicodeData is not None: removeGlyphData(name, self[name].unicodes)`, then `_insertGlyph`
(the shape shared by `newGlyph` and, since F107, by `_glyphNameChange`) -/
def putGlyph (s : State) (n : String) (r : GRec) : Except Err State :=
  if n ∈ visible s ∧ s.uni.isSome then
    match getItem s n with
    | .error e => .error e
    | .ok (s', r0) => .ok (insertGlyph (forgetUni s' n r0.unicodes) n r true)
  else .ok (insertGlyph s n r true)

/-- `newGlyph` -/
def newGlyph (s : State) (n : String) : Except Err State := putGlyph s n {}

/-- `del layer[name]` -/
def delete (s : State) (n : String) : Except Err State :=
  if n ∈ visible s then deleteGlyph s n else .error .keyError

def withUnicodes (r : GRec) (us : List Nat) : GRec := { r with unicodes := us }

def withRest (r : GRec) (comps : List String) (image : Option String) (oload ofast : Bool) : GRec :=
  { r with comps := comps, image := image, outlineLoaded := oload, outlineFast := ofast }

/-- replace the record of a loaded glyph (and mark it dirty), with a new unicode map -/
def setLoaded (s : State) (n : String) (r : GRec) (u : Option Cmap) : State :=
  { s with loaded := AL.set s.loaded n (r, true), uni := u }

/-- `glyph.unicodes = us` on `layer[n]` (setter guard, then `Layer._glyphUnicodesChange`) -/
def setUnicodes (s : State) (n : String) (us : List Nat) : Except Err State :=
  match getItem s n with
  | .error e => .error e
  | .ok (s1, r) =>
    if r.unicodes = us then .ok s1
    else .ok (setLoaded s1 n (withUnicodes r us) (s1.uni.map (fun m => uniAdd (uniRemove m n r.unicodes) n us)))

/-- any other edit of `layer[n]` visible to layer-level queries (components, image, outline) -/
def editRest (s : State) (n : String) (comps : List String) (image : Option String)
    (oload ofast : Bool) : Except Err State :=
  match getItem s n with
  | .error e => .error e
  | .ok (s1, r) =>
    .ok (setLoaded s1 n (withRest r comps image oload ofast) s1.uni)

/-- an edit of `layer[n]` that no layer-level query can see (width, note, lib, …): the glyph is
loaded and becomes dirty -/
def touch (s : State) (n : String) : Except Err State :=
  match getItem s n with
  | .error e => .error e
  | .ok (s1, r) => .ok (setLoaded s1 n r s1.uni)

/-- `layer[old].name = new` (`Glyph._set_name` guard, then `Layer._glyphNameChange`: the old name is deleted, its
code points are removed once more, and the glyph object is stored under the new name — where it REPLACES a glyph
the layer may show under that name, whose code points leave the map first: F107) -/
def rename (s : State) (old new : String) : Except Err State :=
  match getItem s old with
  | .error e => .error e
  | .ok (s1, r) =>
    if old = new then .ok s1
    else
      match deleteGlyph s1 old with
      | .error e => .error e
      | .ok s2 => putGlyph (forgetUni s2 old r.unicodes) new r

/-- `insertGlyph(glyph, name)` = `newGlyph(name)` then `copyDataFromGlyph` -/
def insert (s : State) (n : String) (r : GRec) : Except Err State :=
  match newGlyph s n with
  | .error e => .error e
  | .ok s1 =>
    match setUnicodes s1 n r.unicodes with
    | .error e => .error e
    | .ok s2 => editRest s2 n r.comps r.image r.outlineLoaded r.outlineFast

/-- `glyph.unicode = v` on `layer[n]`: the whole list is replaced by `[v]` (by `[]` for `None`) -/
def setUnicode (s : State) (n : String) (v : Option Nat) : Except Err State := setUnicodes s n v.toList

/-- Another program rewrites the GLIF of glyph `n` (new record `r`) and the layer is told `reloadGlyphs([n])`.
* `n` loaded: `glyph.unicodes = []` then `readGlyph` assigns the file's list, both announced to the layer
  (`removeGlyphData(old); addGlyphData([])`, then `removeGlyphData([]); addGlyphData(new)` — the calls with `[]`
  change nothing, and an assignment the setter's guard skips would have changed nothing either); the glyph is clean;
* `n` not loaded: `loadGlyph`, which does not touch the map; then (F108) the name is removed from every entry
  that lists it (`codesOf`) and added under the code points just read.
Where the glyph has no file (it exists only in memory) the harness assigns the same content in memory. -/
def reload (s : State) (n : String) (r : GRec) : Except Err State :=
  if n ∉ visible s then .error .keyError
  else if onDisk s n then
    let s0 : State := { s with disk := AL.set s.disk n r }
    match AL.get? s0.loaded n with
    | some (r0, _) =>
      .ok { s0 with loaded := AL.set s0.loaded n (r, false),
                    uni := s0.uni.map (fun m => uniAdd (uniRemove m n r0.unicodes) n r.unicodes) }
    | none =>
      let s1 := withUni (insertGlyph s0 n r false) s0.uni
      .ok (withUni s1 (s1.uni.map (fun m => uniAdd (uniRemove m n (codesOf m n)) n r.unicodes)))
  else
    match setUnicodes s n r.unicodes with
    | .error e => .error e
    | .ok s1 => editRest s1 n r.comps r.image r.outlineLoaded r.outlineFast

/-- `unicodeData.unicodeForGlyphName(n)` when the data belong to the layer the font looks glyphs up in (its
default layer): `if n not in font: None`, else `font[n]` (which loads the glyph) and its first code point -/
def fwd (s : State) (n : String) : State × Option Nat :=
  match getItem s n with
  | .ok (s', r) => (s', r.unicodes.head?)
  | .error _ => (s, none)

/-- the base name `pseudoUnicodeForGlyphName` falls back to: none for names starting with `.` or `_` and for
names without `.` and `_`; else the part before the first `.`, and of that the part before the first `_` -/
def baseName (n : String) : Option String :=
  let cs := n.toList
  match cs with
  | [] => none
  | c :: _ =>
    if c = '.' ∨ c = '_' then none
    else if '.' ∉ cs ∧ '_' ∉ cs then none
    else some (String.ofList (cs.takeWhile (fun c => c ≠ '.' ∧ c ≠ '_')))

/-- `unicodeData.pseudoUnicodeForGlyphName(n)` -/
def pseudo (s : State) (n : String) : State × Option Nat :=
  match fwd s n with
  | (s1, some v) => (s1, some v)
  | (s1, none) =>
    match baseName n with
    | none => (s1, none)
    | some b => fwd s1 b

/-- `Layer.save(glyphSet)` in place: dirty loaded glyphs written, scheduled names deleted -/
def save (s : State) : State :=
  let disk1 := s.loaded.foldl (fun d (p : String × (GRec × Bool)) =>
    if p.2.2 then AL.set d p.1 p.2.1 else d) s.disk
  let disk2 := s.sched.foldl (fun d n => AL.erase d n) disk1
  { s with disk := disk2, loaded := s.loaded.map (fun p => (p.1, (p.2.1, false))), sched := [] }

/-- first access to `layer.unicodeData` builds the map: loaded glyphs not scheduled for
deletion (dict order; one unguarded append per element of the glyph's list), then the glyph set's other names
minus pending deletions (ufoLib's `getUnicodes` scanner reports every code point of a GLIF once, so the name is
appended once per distinct code point: a guarded add) -/
def buildUni (s : State) : Cmap :=
  let m1 := s.loaded.foldl (fun m (p : String × (GRec × Bool)) =>
    if p.1 ∈ s.sched then m else uniAppend m p.1 p.2.1.unicodes) []
  s.disk.foldl (fun m (p : String × GRec) =>
    if isLoaded s p.1 ∨ p.1 ∈ s.sched then m else uniAdd m p.1 p.2.unicodes) m1

def touchUni (s : State) : State :=
  match s.uni with
  | some _ => s
  | none => { s with uni := some (buildUni s) }

/-! ### queries -/

def glyphsWithOutlines (s : State) : List String :=
  (s.loaded.filter (fun p => p.1 ∉ s.sched ∧ p.2.1.outlineFast)).map Prod.fst ++
  (s.disk.filter (fun p => ¬ isLoaded s p.1 ∧ p.1 ∉ s.sched ∧ p.2.outlineFast)).map Prod.fst

/-- pairs (base glyph, referencing glyph) -/
def componentReferences (s : State) : List (String × String) :=
  (s.loaded.filter (fun p => p.1 ∉ s.sched)).flatMap (fun p => p.2.1.comps.map (fun b => (b, p.1))) ++
  (s.disk.filter (fun p => ¬ isLoaded s p.1 ∧ p.1 ∉ s.sched)).flatMap (fun p => p.2.comps.map (fun b => (b, p.1)))

/-- pairs (image file name, glyph) -/
def imageReferences (s : State) : List (String × String) :=
  (s.loaded.filter (fun p => p.1 ∉ s.sched)).filterMap (fun p => p.2.1.image.map (fun f => (f, p.1))) ++
  (s.disk.filter (fun p => ¬ isLoaded s p.1 ∧ p.1 ∉ s.sched)).filterMap (fun p => p.2.image.map (fun f => (f, p.1)))

/-! ### operations -/

inductive Op where
  | get (n : String)
  | new (n : String)
  | insert (n : String) (r : GRec)
  | delete (n : String)
  | rename (old new : String)
  | setUnicodes (n : String) (us : List Nat)
  | edit (n : String) (comps : List String) (image : Option String) (oload ofast : Bool)
  | save
  | touchUni
  | touch (n : String)
  | setUnicode (n : String) (v : Option Nat)
  | reload (n : String) (r : GRec)
  | fwd (n : String)
  | pseudo (n : String)
deriving Repr

def step (s : State) : Op → Except Err State
  | .get n => (getItem s n).map Prod.fst
  | .new n => newGlyph s n
  | .insert n r => insert s n r
  | .delete n => delete s n
  | .rename o n => rename s o n
  | .setUnicodes n us => setUnicodes s n us
  | .edit n c i oload ofast => editRest s n c i oload ofast
  | .save => .ok (save s)
  | .touchUni => .ok (touchUni s)
  | .touch n => touch s n
  | .setUnicode n v => setUnicode s n v
  | .reload n r => reload s n r
  | .fwd n => .ok (fwd s n).1
  | .pseudo n => .ok (pseudo s n).1

/-- a failing operation raises before it changes anything the queries can see; the model keeps
the pre-state (the implementation may have loaded a glyph on the way) -/
def stepTotal (s : State) (op : Op) : State :=
  match step s op with
  | .ok s' => s'
  | .error _ => s

def run (s : State) (ops : List Op) : State := ops.foldl stepTotal s

/-- a layer freshly opened on a glyph set -/
def opened (disk : List (String × GRec)) : State := { disk := disk, keys := disk.map Prod.fst }

end Layer
end DefconModel
