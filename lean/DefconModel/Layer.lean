/-
M-Layer: executable model of the glyph bookkeeping of `defcon.objects.layer.Layer`
(Lib/defcon/objects/layer.py) and of `UnicodeData.add/removeGlyphData`
(Lib/defcon/objects/uniData.py), as the code stands after the F4 fix.

  disk    the bound glyph set's contents (name ↦ record of what layer-level queries can see)
  loaded  `_glyphs` (dict order), with the glyph's dirty flag
  keys    `_keys`
  sched   `_scheduledForDeletion`
  uni     `_unicodeData` (None until first asked for)

Core Lean only.
-/
import DefconModel.Util.AL

namespace DefconModel
namespace Layer

/-- What layer-level queries can see of one glyph. `outlineLoaded` is `len(glyph) > 0` (what the
loaded path of `glyphsWithOutlines` tests); `outlineFast` is what `_fetchHasOutlineData` answers
for the glyph's GLIF (a contour point of type line/curve/qcurve exists). -/
structure GRec where
  unicodes : List Nat := []
  comps : List String := []
  image : Option String := none
  outlineLoaded : Bool := false
  outlineFast : Bool := false
deriving DecidableEq, Repr

abbrev Cmap := List (Nat × List String)

structure State where
  disk : List (String × GRec) := []
  loaded : List (String × (GRec × Bool)) := []
  keys : List String := []
  sched : List String := []
  uni : Option Cmap := none
deriving Repr

inductive Err where
  | keyError
deriving DecidableEq, Repr

/-! ### UnicodeData.addGlyphData / removeGlyphData -/

def namesAt (m : Cmap) (c : Nat) : List String := (AL.get? m c).getD []

def uniRemove (m : Cmap) (name : String) : List Nat → Cmap
  | [] => m
  | v :: vs =>
    match AL.get? m v with
    | none => uniRemove m name vs
    | some l =>
      let l' := l.erase name
      uniRemove (if l'.isEmpty then AL.erase m v else AL.set m v l') name vs

def uniAdd (m : Cmap) (name : String) : List Nat → Cmap
  | [] => m
  | v :: vs =>
    let l := namesAt m v
    uniAdd (AL.set m v (if name ∈ l then l else l ++ [name])) name vs

/-! ### primitives -/

def isLoaded (s : State) (n : String) : Bool := AL.contains s.loaded n
def onDisk (s : State) (n : String) : Bool := AL.contains s.disk n

/-- `Layer.keys()` : `_keys` minus the names scheduled for deletion -/
def visible (s : State) : List String := s.keys.filter (fun n => n ∉ s.sched)

def addKey (ks : List String) (n : String) : List String := if n ∈ ks then ks else ks ++ [n]

/-- `_insertGlyph` -/
def insertGlyph (s : State) (n : String) (r : GRec) (dirty : Bool) : State :=
  { s with
    loaded := AL.set s.loaded n (r, dirty)
    sched := s.sched.filter (· ≠ n)
    keys := addKey s.keys n
    uni := match s.uni with
      | none => none
      | some m => if r.unicodes.isEmpty then some m else some (uniAdd m n r.unicodes) }

/-- `loadGlyph` -/
def load (s : State) (n : String) : Except Err State :=
  match AL.get? s.disk n with
  | none => .error .keyError
  | some r => if n ∈ s.sched then .error .keyError else .ok (insertGlyph s n r false)

/-- `__getitem__` : the record of glyph `n`, loading it if necessary -/
def getItem (s : State) (n : String) : Except Err (State × GRec) :=
  match AL.get? s.loaded n with
  | some (r, _) => .ok (s, r)
  | none =>
    match load s n with
    | .error e => .error e
    | .ok s' =>
      match AL.get? s'.loaded n with
      | some (r, _) => .ok (s', r)
      | none => .error .keyError

/-- `self._unicodeData.removeGlyphData(name, unicodes)` when the map exists -/
def forgetUni (s : State) (n : String) (us : List Nat) : State :=
  { s with uni := s.uni.map (fun m => uniRemove m n us) }

/-- the bookkeeping part of `_deleteGlyph` -/
def dropGlyph (s : State) (n : String) : State :=
  { s with
    loaded := AL.erase s.loaded n
    keys := s.keys.filter (· ≠ n)
    sched := if onDisk s n then addKey s.sched n else s.sched }

/-- `_deleteGlyph` (the unicode data part touches `self[name]`, i.e. may load the glyph) -/
def deleteGlyph (s : State) (n : String) : Except Err State :=
  match s.uni with
  | none => .ok (dropGlyph s n)
  | some _ =>
    match getItem s n with
    | .error e => .error e
    | .ok (s', r) => .ok (dropGlyph (forgetUni s' n r.unicodes) n)

/-- `newGlyph` -/
def newGlyph (s : State) (n : String) : Except Err State :=
  if n ∈ visible s ∧ s.uni.isSome then
    match getItem s n with
    | .error e => .error e
    | .ok (s', r) => .ok (insertGlyph (forgetUni s' n r.unicodes) n {} true)
  else .ok (insertGlyph s n {} true)

/-- `del layer[name]` -/
def delete (s : State) (n : String) : Except Err State :=
  if n ∈ visible s then deleteGlyph s n else .error .keyError

def withUnicodes (r : GRec) (us : List Nat) : GRec := { r with unicodes := us }

def withRest (r : GRec) (comps : List String) (image : Option String) (oload ofast : Bool) : GRec :=
  { r with comps := comps, image := image, outlineLoaded := oload, outlineFast := ofast }

/-- replace the record of a loaded glyph (and mark it dirty), with a new unicode map -/
def setLoaded (s : State) (n : String) (r : GRec) (u : Option Cmap) : State :=
  { s with loaded := AL.set s.loaded n (r, true), uni := u }

/-- `glyph.unicodes = us` on `layer[n]` (setter guard, then `Layer._glyphUnicodesChange`) -/
def setUnicodes (s : State) (n : String) (us : List Nat) : Except Err State :=
  match getItem s n with
  | .error e => .error e
  | .ok (s1, r) =>
    if r.unicodes = us then .ok s1
    else .ok (setLoaded s1 n (withUnicodes r us) (s1.uni.map (fun m => uniAdd (uniRemove m n r.unicodes) n us)))

/-- any other edit of `layer[n]` visible to layer-level queries (components, image, outline) -/
def editRest (s : State) (n : String) (comps : List String) (image : Option String)
    (oload ofast : Bool) : Except Err State :=
  match getItem s n with
  | .error e => .error e
  | .ok (s1, r) =>
    .ok (setLoaded s1 n (withRest r comps image oload ofast) s1.uni)

/-- an edit of `layer[n]` that no layer-level query can see (width, note, lib, …): the glyph is
loaded and becomes dirty -/
def touch (s : State) (n : String) : Except Err State :=
  match getItem s n with
  | .error e => .error e
  | .ok (s1, r) => .ok (setLoaded s1 n r s1.uni)

/-- `layer[old].name = new` (`Glyph._set_name` guard, then `Layer._glyphNameChange`) -/
def rename (s : State) (old new : String) : Except Err State :=
  match getItem s old with
  | .error e => .error e
  | .ok (s1, r) =>
    if old = new then .ok s1
    else
      match deleteGlyph s1 old with
      | .error e => .error e
      | .ok s2 => .ok (insertGlyph (forgetUni s2 old r.unicodes) new r true)

/-- `insertGlyph(glyph, name)` = `newGlyph(name)` then `copyDataFromGlyph` -/
def insert (s : State) (n : String) (r : GRec) : Except Err State :=
  match newGlyph s n with
  | .error e => .error e
  | .ok s1 =>
    match setUnicodes s1 n r.unicodes with
    | .error e => .error e
    | .ok s2 => editRest s2 n r.comps r.image r.outlineLoaded r.outlineFast

/-- `Layer.save(glyphSet)` in place: dirty loaded glyphs written, scheduled names deleted -/
def save (s : State) : State :=
  let disk1 := s.loaded.foldl (fun d (p : String × (GRec × Bool)) =>
    if p.2.2 then AL.set d p.1 p.2.1 else d) s.disk
  let disk2 := s.sched.foldl (fun d n => AL.erase d n) disk1
  { s with disk := disk2, loaded := s.loaded.map (fun p => (p.1, (p.2.1, false))), sched := [] }

/-- first access to `layer.unicodeData` builds the map: loaded glyphs not scheduled for
deletion (dict order), then the glyph set's other names minus pending deletions -/
def buildUni (s : State) : Cmap :=
  let m1 := s.loaded.foldl (fun m (p : String × (GRec × Bool)) =>
    if p.1 ∈ s.sched then m else uniAdd m p.1 p.2.1.unicodes) []
  s.disk.foldl (fun m (p : String × GRec) =>
    if isLoaded s p.1 ∨ p.1 ∈ s.sched then m else uniAdd m p.1 p.2.unicodes) m1

def touchUni (s : State) : State :=
  match s.uni with
  | some _ => s
  | none => { s with uni := some (buildUni s) }

/-! ### queries -/

def glyphsWithOutlines (s : State) : List String :=
  (s.loaded.filter (fun p => p.1 ∉ s.sched ∧ p.2.1.outlineFast)).map Prod.fst ++
  (s.disk.filter (fun p => ¬ isLoaded s p.1 ∧ p.1 ∉ s.sched ∧ p.2.outlineFast)).map Prod.fst

/-- pairs (base glyph, referencing glyph) -/
def componentReferences (s : State) : List (String × String) :=
  (s.loaded.filter (fun p => p.1 ∉ s.sched)).flatMap (fun p => p.2.1.comps.map (fun b => (b, p.1))) ++
  (s.disk.filter (fun p => ¬ isLoaded s p.1 ∧ p.1 ∉ s.sched)).flatMap (fun p => p.2.comps.map (fun b => (b, p.1)))

/-- pairs (image file name, glyph) -/
def imageReferences (s : State) : List (String × String) :=
  (s.loaded.filter (fun p => p.1 ∉ s.sched)).filterMap (fun p => p.2.1.image.map (fun f => (f, p.1))) ++
  (s.disk.filter (fun p => ¬ isLoaded s p.1 ∧ p.1 ∉ s.sched)).filterMap (fun p => p.2.image.map (fun f => (f, p.1)))

/-! ### operations -/

inductive Op where
  | get (n : String)
  | new (n : String)
  | insert (n : String) (r : GRec)
  | delete (n : String)
  | rename (old new : String)
  | setUnicodes (n : String) (us : List Nat)
  | edit (n : String) (comps : List String) (image : Option String) (oload ofast : Bool)
  | save
  | touchUni
  | touch (n : String)
deriving Repr

def step (s : State) : Op → Except Err State
  | .get n => (getItem s n).map Prod.fst
  | .new n => newGlyph s n
  | .insert n r => insert s n r
  | .delete n => delete s n
  | .rename o n => rename s o n
  | .setUnicodes n us => setUnicodes s n us
  | .edit n c i oload ofast => editRest s n c i oload ofast
  | .save => .ok (save s)
  | .touchUni => .ok (touchUni s)
  | .touch n => touch s n

/-- a failing operation raises before it changes anything the queries can see; the model keeps
the pre-state (the implementation may have loaded a glyph on the way) -/
def stepTotal (s : State) (op : Op) : State :=
  match step s op with
  | .ok s' => s'
  | .error _ => s

def run (s : State) (ops : List Op) : State := ops.foldl stepTotal s

/-- a layer freshly opened on a glyph set -/
def opened (disk : List (String × GRec)) : State := { disk := disk, keys := disk.map Prod.fst }

end Layer
end DefconModel
