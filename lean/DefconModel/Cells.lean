/-
M-Cells: a small HEAP model of mutable Python values, and of what each copy path of defcon does to
each field of a glyph.

Lean values are immutable, so "a copy shares no mutable state with its source" (C13) has no content
for the records of M-Pen.  Here a Python value is a tree of CELLS WITH IDENTITIES:

  * atoms — `None`, bool, int, float-as-rational, str, and tuples of those — are immutable values;
  * a `list` / `dict` / `set` / object is a cell at an ADDRESS of the heap; it holds references
    (or atoms); two references to the same address are the same Python object (`is`);
  * assignment and shallow copies SHARE cells, `copy.deepcopy` allocates a fresh cell for every
    cell it reaches, a rebuild (a new object filled field by field through setters / pens)
    allocates a fresh cell and treats every field according to its own entry of a table.

A heap is the list of its cells (address = position, allocation = append: an address is never
reused, as `id()` is never reused while the object lives — the harness keeps every object alive).

Ported from
  Lib/defcon/objects/glyph.py      copyDataFromGlyph, _set_unicodes, _set_guidelines, _set_anchors,
                                   _set_image, _set_lib, getDataForSerialization / setDataFromSerialization
  Lib/defcon/objects/base.py       BaseDictObject.__deepcopy__, getDataForSerialization
  Lib/defcon/objects/component.py  _set_transformation
  Lib/defcon/objects/layer.py      insertGlyph (newGlyph + copyDataFromGlyph), font.py insertGlyph
  Lib/defcon/pens/glyphObjectPointPen.py, objects/contour.py addPoint, objects/point.py __init__

Core Lean only.
-/
namespace DefconModel
namespace Cells

/-! ## Values -/

/-- immutable scalars; a float is the rational it denotes -/
inductive Scalar where
  | none
  | bool (b : Bool)
  | int (i : Int)
  | rat (num : Int) (den : Nat)
  | str (s : String)
deriving DecidableEq, Repr

/-- immutable values: scalars and tuples of scalars -/
inductive Atom where
  | sc (s : Scalar)
  | tuple (xs : List Scalar)
deriving DecidableEq, Repr

abbrev Addr := Nat

/-- what a variable, an attribute or a container slot holds: an immutable value or a reference -/
inductive Val where
  | atom (a : Atom)
  | ref (p : Addr)
deriving DecidableEq, Repr

inductive Kind where
  | list
  | dict
  | set
  /-- an object with named attributes (Glyph, Contour, Point, Component, Anchor, Guideline, Image, Lib) -/
  | obj (cls : String)
deriving DecidableEq, Repr

/-- a mutable cell: `keys` name the items of a dict / an object (empty for lists and sets) -/
structure Cell where
  kind : Kind
  keys : List String
  items : List Val
deriving DecidableEq, Repr

abbrev Heap := List Cell

/-- the (immutable) value a reference stands for: the tree below it -/
inductive Tree where
  | atom (a : Atom)
  | node (kind : Kind) (keys : List String) (kids : List Tree)
deriving Repr, BEq

def allSome {α : Type} : List (Option α) → Option (List α)
  | [] => some []
  | none :: _ => none
  | some x :: r => (allSome r).map (x :: ·)

/-- the value `v` denotes in heap `h`; `none` = deeper than `fuel` (cyclic) or dangling -/
def denote (h : Heap) : Nat → Val → Option Tree
  | _, .atom a => some (.atom a)
  | 0, .ref _ => none
  | n + 1, .ref p =>
    match h[p]? with
    | none => none
    | some c => (allSome (c.items.map (denote h n))).map (.node c.kind c.keys)

/-! ## Mutation -/

/-- what Python code can do to a heap: overwrite a cell in place (`l.append`, `d[k] = v`, `o.x = v`, …
are all "the cell at `p` now holds these items") or allocate a new object -/
inductive Mut where
  | write (p : Addr) (c : Cell)
  | alloc (c : Cell)
deriving DecidableEq, Repr

def Mut.apply (h : Heap) : Mut → Heap
  | .write p c => h.set p c
  | .alloc c => h ++ [c]

def applyAll (h : Heap) (ms : List Mut) : Heap := ms.foldl Mut.apply h

/-! ## Copying -/

/-- a field is named by the attribute / key path from the glyph; the items of a list, dict or set are `*` -/
abbrev Path := List String

inductive Mode where
  /-- `dst.f = src.f`: the destination holds the very same value (a shared cell, if it is a cell) -/
  | alias
  /-- `copy.deepcopy`: a fresh cell for every cell reachable -/
  | deep
  /-- fresh by construction: a new cell (new object / `list(…)` / comprehension / pen) whose items are
  treated according to their own entries -/
  | rebuild
deriving DecidableEq, Repr

/-- the path keys of the items of a cell: attribute names for objects, `*` otherwise -/
def Cell.pathKeys (c : Cell) : List String :=
  match c.kind with
  | .obj _ => c.keys
  | _ => []

/-- copy the items of a cell one after the other, threading the heap (`f key heap value`) -/
def copyItems (f : String → Heap → Val → Option (Heap × Val)) :
    List String → Heap → List Val → Option (Heap × List Val)
  | _, h, [] => some (h, [])
  | ks, h, v :: vs =>
    match f (ks.headD "*") h v with
    | none => none
    | some (h1, v') =>
      match copyItems f ks.tail h1 vs with
      | none => none
      | some (h2, vs') => some (h2, v' :: vs')

def allDeep : Path → Mode := fun _ => .deep

/-- copy the value `v` found at field `path` according to the table; below a `deep` entry everything
is copied deeply.  `none` = out of fuel / dangling reference. -/
def copyAt : Nat → (Path → Mode) → Path → Heap → Val → Option (Heap × Val)
  | _, _, _, h, .atom a => some (h, .atom a)
  | 0, _, _, _, .ref _ => none
  | n + 1, tbl, path, h, .ref p =>
    match tbl path with
    | .alias => some (h, .ref p)
    | m =>
      match h[p]? with
      | none => none
      | some c =>
        match copyItems (fun k => copyAt n (if m = .deep then allDeep else tbl) (path ++ [k])) c.pathKeys h c.items with
        | none => none
        | some (h', items') => some (h' ++ [{ c with items := items' }], .ref h'.length)

/-- `copy.deepcopy(v)` -/
def deepcopy (n : Nat) (h : Heap) (v : Val) : Option (Heap × Val) := copyAt n allDeep [] h v

/-- conjunction over the items of a cell, with their path keys -/
def allItems (f : String → Val → Bool) : List String → List Val → Bool
  | _, [] => true
  | ks, v :: vs => f (ks.headD "*") v && allItems f ks.tail vs

/-- no mutable cell is handed over as it is: every `alias` entry the copy meets is met at an atom -/
def aliasFree : Nat → (Path → Mode) → Path → Heap → Val → Bool
  | _, _, _, _, .atom _ => true
  | 0, _, _, _, .ref _ => true
  | n + 1, tbl, path, h, .ref p =>
    match tbl path with
    | .alias => false
    | .deep => true
    | .rebuild =>
      match h[p]? with
      | none => true
      | some c => allItems (fun k => aliasFree n tbl (path ++ [k]) h) c.pathKeys c.items

/-! ## Field tables -/

/-- what a field may hold -/
inductive Ty where
  /-- always an immutable value (number, string, `None`, tuple of those) -/
  | atomic
  /-- a cell of known structure: its items have entries of their own -/
  | cell
  /-- any value (nested lists / dicts of a lib) -/
  | any
deriving DecidableEq, Repr

structure Entry where
  path : Path
  ty : Ty
  mode : Mode
deriving DecidableEq, Repr

abbrev Table := List Entry

def Table.find (t : Table) (path : Path) : Option Entry :=
  match t with
  | [] => none
  | e :: r => if e.path = path then some e else Table.find r path

/-- a field without entry is an atom that is assigned -/
def Table.mode (t : Table) (path : Path) : Mode := ((t.find path).map (·.mode)).getD .alias
def Table.ty (t : Table) (path : Path) : Ty := ((t.find path).map (·.ty)).getD .atomic

/-- does the value found at `path` have the shape the table's types describe? -/
def conforms : Nat → (Path → Ty) → Path → Heap → Val → Bool
  | _, _, _, _, .atom _ => true
  | 0, _, _, _, .ref _ => true
  | n + 1, ty, path, h, .ref p =>
    match ty path with
    | .atomic => false
    | .any => true
    | .cell =>
      match h[p]? with
      | none => true
      | some c => allItems (fun k => conforms n ty (path ++ [k]) h) c.pathKeys c.items

/-- an entry that cannot make a copy share a cell: alias only where the field is always an atom,
and a field of unknown structure is copied deeply -/
def Entry.safe (e : Entry) : Bool :=
  match e.ty with
  | .atomic => true
  | .cell => e.mode ≠ .alias
  | .any => e.mode = .deep

def Table.safe (t : Table) : Bool := t.all Entry.safe

/-! ### the glyph, field by field

`Glyph.copyDataFromGlyph` (and so `Layer.insertGlyph`, `Font.insertGlyph`, which copy into a `newGlyph`):

    self.width = glyph.width                    assignment of a number
    self.height = glyph.height
    self.unicodes = list(glyph.unicodes)        the getter and the setter both build a new list of ints
    self.note = glyph.note
    self.guidelines = [self.instantiateGuideline(g) for g in glyph.guidelines]
                                                new Guideline objects, x / y / angle / name / identifier
                                                assigned, the colour re-made by `Color(…)`
    self.anchors = [self.instantiateAnchor(a) for a in glyph.anchors]
    self.image = glyph.image                    the setter copies fileName, the six numbers and the colour
                                                INTO the destination's own Image object
    glyph.drawPoints(self.getPointPen())        new Contour / Point / Component objects; coordinates,
                                                segment type, smooth, name, identifiers, base glyph and
                                                TRANSFORMATION are assigned as they come
    self.lib = deepcopy(glyph.lib)              a deep copy, poured into the destination's own Lib
-/

def scalarKeys (pre : Path) (ks : List String) : Table := ks.map fun k => ⟨pre ++ [k], .atomic, .alias⟩

/-- the code's table (repaired tree: `Component._set_transformation` stores a tuple, so that the
assignment of the transformation hands over an immutable value) -/
def codeTable : Table :=
  [⟨[], .cell, .rebuild⟩] ++
  scalarKeys [] ["width", "height", "note"] ++
  [⟨["unicodes"], .cell, .rebuild⟩, ⟨["unicodes", "*"], .atomic, .alias⟩,
   ⟨["lib"], .cell, .rebuild⟩, ⟨["lib", "*"], .any, .deep⟩,
   ⟨["image"], .cell, .rebuild⟩] ++
  scalarKeys ["image"] ["fileName", "xScale", "xyScale", "yxScale", "yScale", "xOffset", "yOffset", "color"] ++
  [⟨["anchors"], .cell, .rebuild⟩, ⟨["anchors", "*"], .cell, .rebuild⟩] ++
  scalarKeys ["anchors", "*"] ["x", "y", "name", "color", "identifier"] ++
  [⟨["guidelines"], .cell, .rebuild⟩, ⟨["guidelines", "*"], .cell, .rebuild⟩] ++
  scalarKeys ["guidelines", "*"] ["x", "y", "angle", "name", "color", "identifier"] ++
  [⟨["contours"], .cell, .rebuild⟩, ⟨["contours", "*"], .cell, .rebuild⟩,
   ⟨["contours", "*", "identifier"], .atomic, .alias⟩,
   ⟨["contours", "*", "points"], .cell, .rebuild⟩, ⟨["contours", "*", "points", "*"], .cell, .rebuild⟩] ++
  scalarKeys ["contours", "*", "points", "*"] ["x", "y", "segmentType", "smooth", "name", "identifier"] ++
  [⟨["components"], .cell, .rebuild⟩, ⟨["components", "*"], .cell, .rebuild⟩] ++
  scalarKeys ["components", "*"] ["baseGlyph", "transformation", "identifier"] ++
  [⟨["identifiers"], .cell, .rebuild⟩, ⟨["identifiers", "*"], .atomic, .alias⟩]

/-- the same table for the tree as it was before the repair: `Component._set_transformation` stored
whatever it was given, so the field could hold a list — and the copy assigns it -/
def unrepairedTable : Table :=
  codeTable.map fun e => if e.path = ["components", "*", "transformation"] then { e with ty := .any } else e

/-- `dst.setDataFromSerialization(src.getDataForSerialization())` WITHOUT pickling in between — not a copy
path of C13 (the data is meant to be pickled), modelled because it is the path of the code that does
share: `Lib.getDataForSerialization` returns the lib's values themselves and `_set_lib` pours them into
the destination's lib. -/
def serialTable : Table :=
  codeTable.map fun e => if e.path = ["lib", "*"] then { e with mode := .alias } else e

/-! ## The tie to the source: syntactic forms of the copy statements

`Gen/CopyForms.lean` is regenerated from the AST of the code on every run; it must equal `expectedForms`
(a `decide` obligation in Props/C13), and the entries of `codeTable` that the forms determine are derived
from it again (`derivedEntries`, second obligation): `deepcopy(glyph.lib)` turned into `glyph.lib`, or the
`tuple(…)` dropped from `Component._set_transformation`, changes the derived entry — and it is no longer
an entry of the table the theorems are about. -/

def expectedForms : List (String × String) := [
  ("Glyph.copyDataFromGlyph.width", "assign"),
  ("Glyph.copyDataFromGlyph.height", "assign"),
  ("Glyph.copyDataFromGlyph.unicodes", "list"),
  ("Glyph.copyDataFromGlyph.note", "assign"),
  ("Glyph.copyDataFromGlyph.guidelines", "instantiate:instantiateGuideline"),
  ("Glyph.copyDataFromGlyph.anchors", "instantiate:instantiateAnchor"),
  ("Glyph.copyDataFromGlyph.image", "assign"),
  ("Glyph.copyDataFromGlyph.outline", "pen"),
  ("Glyph.copyDataFromGlyph.lib", "deepcopy"),
  ("Glyph._set_unicodes._unicodes", "list"),
  ("Glyph._get_unicodes", "list"),
  ("Component._set_transformation._transformation", "tuple"),
  ("Glyph._set_lib", "clear+update"),
  ("Glyph._set_image.fileName", "item"),
  ("Glyph._set_image.transformation", "tuple-of-items"),
  ("Glyph._set_image.color", "item"),
  ("Glyph._set_image._image", "kept"),
  ("Glyph._set_guidelines", "clear+append"),
  ("Glyph._set_anchors", "clear+append"),
  ("BaseDictObject.__deepcopy__", "deepcopy-items"),
  ("GlyphObjectPointPen.addComponent.baseGlyph", "assign"),
  ("GlyphObjectPointPen.addComponent.transformation", "assign"),
  ("GlyphObjectPointPen.addComponent.component", "instantiate:instantiateComponent"),
  ("GlyphObjectPointPen.beginPath.contour", "instantiate:instantiateContour"),
  ("GlyphObjectPointPen.addPoint", "forward"),
  ("Contour.addPoint", "unpack+new-point"),
  ("Point.__init__", "assign:_identifier,_name,_segmentType,_smooth,_x,_y"),
  ("Layer.insertGlyph", "newGlyph+copyDataFromGlyph"),
  ("Font.insertGlyph", "delegate:_glyphSet.insertGlyph")
]

def formOf (forms : List (String × String)) (k : String) : String :=
  ((forms.find? (fun e => e.1 = k)).map (·.2)).getD "missing"

/-- the entries of the glyph's field table that the syntactic forms determine -/
def derivedEntries (forms : List (String × String)) : Table :=
  let f := formOf forms
  let scalar (k key : String) : Entry := ⟨[k], if f key = "assign" then .atomic else .any, .alias⟩
  let fresh (b : Bool) : Mode := if b then .rebuild else .alias
  let insts (k key inst setter : String) : Table :=
    let b := f key = inst && f setter = "clear+append"
    [⟨[k], .cell, fresh b⟩, ⟨[k, "*"], .cell, fresh b⟩]
  let pen := f "Glyph.copyDataFromGlyph.outline" = "pen"
  let ownLib := f "Glyph._set_lib" = "clear+update"
  let deepLib := f "Glyph.copyDataFromGlyph.lib" = "deepcopy" && f "BaseDictObject.__deepcopy__" = "deepcopy-items"
  [scalar "width" "Glyph.copyDataFromGlyph.width", scalar "height" "Glyph.copyDataFromGlyph.height",
   scalar "note" "Glyph.copyDataFromGlyph.note",
   ⟨["unicodes"], .cell, fresh (f "Glyph.copyDataFromGlyph.unicodes" = "list" || f "Glyph._set_unicodes._unicodes" = "list"
      || f "Glyph._get_unicodes" = "list")⟩] ++
  insts "guidelines" "Glyph.copyDataFromGlyph.guidelines" "instantiate:instantiateGuideline" "Glyph._set_guidelines" ++
  insts "anchors" "Glyph.copyDataFromGlyph.anchors" "instantiate:instantiateAnchor" "Glyph._set_anchors" ++
  [⟨["image"], .cell, fresh (f "Glyph._set_image._image" = "kept" && f "Glyph._set_image.fileName" = "item" &&
      f "Glyph._set_image.transformation" = "tuple-of-items" && f "Glyph._set_image.color" = "item")⟩,
   ⟨["contours"], .cell, fresh pen⟩,
   ⟨["contours", "*"], .cell, fresh (pen && f "GlyphObjectPointPen.beginPath.contour" = "instantiate:instantiateContour")⟩,
   ⟨["contours", "*", "points"], .cell,
      fresh (pen && f "GlyphObjectPointPen.beginPath.contour" = "instantiate:instantiateContour")⟩,
   ⟨["contours", "*", "points", "*"], .cell, fresh (pen && f "GlyphObjectPointPen.addPoint" = "forward" &&
      f "Contour.addPoint" = "unpack+new-point")⟩,
   ⟨["components"], .cell, fresh pen⟩,
   ⟨["components", "*"], .cell,
      fresh (pen && f "GlyphObjectPointPen.addComponent.component" = "instantiate:instantiateComponent")⟩,
   ⟨["components", "*", "transformation"],
      if f "Component._set_transformation._transformation" = "tuple" then .atomic else .any,
      if f "GlyphObjectPointPen.addComponent.transformation" = "assign" then .alias else .rebuild⟩,
   ⟨["lib"], .cell, fresh ownLib⟩,
   ⟨["lib", "*"], .any, if deepLib then .deep else .alias⟩]

/-! ## What the two sides share (driver side: the prediction the harness compares with `id()`s) -/

def pathStr (p : Path) : String := ".".intercalate p

def sharedItems (f : String → Val → List String) : List String → List Val → List String
  | _, [] => []
  | ks, v :: vs => f (ks.headD "*") v ++ sharedItems f ks.tail vs

/-- the fields of the copy (a value of heap `h`) that are cells the heap already had before the copy
was made (`old` = number of cells then): below a shared cell nothing more is reported -/
def sharedPaths (old : Nat) (h : Heap) : Nat → Path → Val → List String
  | _, _, .atom _ => []
  | 0, _, .ref _ => []
  | n + 1, path, .ref p =>
    if p < old then [pathStr path]
    else
      match h[p]? with
      | none => []
      | some c => sharedItems (fun k => sharedPaths old h n (path ++ [k])) c.pathKeys c.items

end Cells
end DefconModel
