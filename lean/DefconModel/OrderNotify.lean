/-
M-OrderNotify (C08): `Font.GlyphOrderChanged` on EVERY update of the glyph order — the explicit setter and the
implicit updates by which `defcon.Font` keeps `font.glyphOrder` in step with glyphs created, deleted and renamed in
its layers.  It is M-GlyphOrder (`GlyphOrder.lean`, the model C12 is proved about: `_set_glyphOrder`,
`updateGlyphOrder`, the three layer callbacks of font.py, the layer operations that feed them) with the ONE
`postNotification` of `_set_glyphOrder` added: every function below returns what its M-GlyphOrder namesake returns
(`stepN_fst`, Lemmas/OrderNotify.lean) plus the deliveries.

A delivery records the payload (`oldValue`, `newValue`: the value stored under `public.glyphOrder` in the lib, `none`
= key absent) and what the lib holds at the instant the observer is called; `font.glyphOrder` is that value with
"absent" read as `[]`.

Core Lean only.
-/
import DefconModel.GlyphOrderV1

namespace DefconModel
namespace OrderNotify
open GlyphOrderV1

structure OrdEv where
  old : Option (List Name)
  new : Option (List Name)
  /-- `font.lib.get("public.glyphOrder")` when the observer is called -/
  snap : Option (List Name)
deriving DecidableEq, Repr

/-- `_get_glyphOrder` on a stored value -/
def norm (v : Option (List Name)) : List Name := v.getD []

/-- `_set_glyphOrder`, with its post:
```
oldValue = self.lib.get("public.glyphOrder")
if oldValue == value: return
if value is None or len(value) == 0:
    value = None
    if "public.glyphOrder" in self.lib: del self.lib["public.glyphOrder"]
    elif oldValue is None: return
else: self.lib["public.glyphOrder"] = value
self.postNotification("Font.GlyphOrderChanged", data=dict(oldValue=oldValue, newValue=value))
``` -/
def setGlyphOrderN (f : Font) (value : Option (List Name)) : Font × List OrdEv :=
  if f.lib = value then (f, [])
  else if value.getD [] = [] then
    if f.lib.isSome then ({ f with lib := none }, [⟨f.lib, none, none⟩])
    else (f, [])
  else ({ f with lib := value }, [⟨f.lib, value, value⟩])

/-- `updateGlyphOrder` -/
def updateGlyphOrderN (f : Font) (added removed : Option Name) : Font × List OrdEv :=
  let order := glyphOrder f
  let index := findIndex order removed
  if earlyReturn index added removed then (f, [])
  else
    let r := addStep order index added
    setGlyphOrderN f (some (delStep r.1 r.2))

def glyphAddedCbN (f : Font) (n : Name) : Font × List OrdEv := updateGlyphOrderN f (some n) none

def glyphDeletedCbN (f : Font) (n : Name) : Font × List OrdEv :=
  if anyLayerHas f n then (f, []) else updateGlyphOrderN f none (some n)

def glyphRenamedCbN (f : Font) (old new : Name) : Font × List OrdEv :=
  updateGlyphOrderN f (some new) (if anyLayerHas f old then none else some old)

def newGlyphN (f : Font) (layer : String) (g : Name) : (Font × Res) × List OrdEv :=
  match AL.get? f.layers layer with
  | none => ((f, .err .keyError), [])
  | some l =>
    let f1 := setLayer f layer { l with glyphs := addName l.glyphs g }
    if l.observed then ((( glyphAddedCbN f1 g).1, .ok), (glyphAddedCbN f1 g).2) else ((f1, .ok), [])

def delGlyphN (f : Font) (layer : String) (g : Name) : (Font × Res) × List OrdEv :=
  match AL.get? f.layers layer with
  | none => ((f, .err .keyError), [])
  | some l =>
    if g ∈ l.glyphs then
      let f1 := setLayer f layer { l with glyphs := removeName l.glyphs g }
      if l.observed then (((glyphDeletedCbN f1 g).1, .ok), (glyphDeletedCbN f1 g).2) else ((f1, .ok), [])
    else ((f, .err .keyError), [])

def renameN (f : Font) (layer : String) (old new : Name) : (Font × Res) × List OrdEv :=
  match AL.get? f.layers layer with
  | none => ((f, .err .keyError), [])
  | some l =>
    if old ∈ l.glyphs then
      if old = new then ((f, .ok), [])
      else
        let f1 := setLayer f layer { l with glyphs := addName (removeName l.glyphs old) new }
        if l.observed then (((glyphRenamedCbN f1 old new).1, .ok), (glyphRenamedCbN f1 old new).2) else ((f1, .ok), [])
    else ((f, .err .keyError), [])

/-- one operation of M-GlyphOrder with the deliveries of `Font.GlyphOrderChanged` it causes -/
def stepN (f : Font) : Op → (Font × Res) × List OrdEv
  | .newGlyph l g => newGlyphN f l g
  | .insertGlyph l g => newGlyphN f l g
  | .delGlyph l g => delGlyphN f l g
  | .rename l o n => renameN f l o n
  | .setOrder v => (((setGlyphOrderN f v).1, .ok), (setGlyphOrderN f v).2)
  | .setLib v => (setLib f v, [])
  | .newLayer n => (newLayer f n, [])
  | .delLayer n => (delLayer f n, [])

/-- the operations Font documents `Font.GlyphOrderChanged` for: everything but a direct write into the lib -/
def viaFont : Op → Bool
  | .setLib _ => false
  | _ => true

end OrderNotify
end DefconModel
