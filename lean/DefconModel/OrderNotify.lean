/-
M-OrderNotify (C08): `Font.GlyphOrderChanged` on EVERY update of the glyph order — the explicit setter and the
implicit updates by which `defcon.Font` keeps `font.glyphOrder` in step with glyphs created, deleted and renamed in
its layers.  It is M-GlyphOrder (`GlyphOrder.lean`, the model C12 is proved about: `_set_glyphOrder`,
`updateGlyphOrder`, the three layer callbacks of font.py, the layer operations that feed them) with the ONE
`postNotification` of `_set_glyphOrder` added: every function below returns what its M-GlyphOrder namesake returns
(`stepN_fst`, Lemmas/OrderNotify.lean) plus the deliveries.

Since ext-c12 M-GlyphOrder sends every layer notification through `post` (dropped while the layer's notifications are
disabled, queued while they are held, delivered to the font otherwise), `flush` (the queue re-posted by the release
that ends the hold) and `deliver` (the font's three callbacks): `postN` / `flushN` / `deliverN` mirror them, so the
release of a held layer — `Layer.insertGlyph`'s own bracket included — announces every update it causes, in order.

An `OrdEv` is one `postNotification("Font.GlyphOrderChanged")` of the font.  While the font's OWN notifications are
not held (`fontHeld = 0`) it is delivered at once: `snap` is then what the observer reads.  (Under `font.holdNotifications()`
delivery is deferred to the release; what is claimed there is about the posts.)

A delivery records the payload (`oldValue`, `newValue`: the value stored under `public.glyphOrder` in the lib, `none`
= key absent) and what the lib holds at the instant the observer is called; `font.glyphOrder` is that value with
"absent" read as `[]`.

Core Lean only.
-/
import DefconModel.GlyphOrder

namespace DefconModel
namespace OrderNotify
open GlyphOrder

structure OrdEv where
  old : Option (List Name)
  new : Option (List Name)
  /-- `font.lib.get("public.glyphOrder")` when the observer is called -/
  snap : Option (List Name)
deriving DecidableEq, Repr

/-- `_get_glyphOrder` on a stored value -/
def norm (v : Option (List Name)) : List Name := v.getD []

/-- `_set_glyphOrder`, with its post:
```
oldValue = self.lib.get("public.glyphOrder")
if oldValue == value: return
if value is None or len(value) == 0:
    value = None
    if "public.glyphOrder" in self.lib: del self.lib["public.glyphOrder"]
    elif oldValue is None: return
else: self.lib["public.glyphOrder"] = value
self.postNotification("Font.GlyphOrderChanged", data=dict(oldValue=oldValue, newValue=value))
``` -/
def setGlyphOrderN (f : Font) (value : Option (List Name)) : Font × List OrdEv :=
  if f.lib = value then (f, [])
  else if value.getD [] = [] then
    if f.lib.isSome then ({ f with lib := none }, [⟨f.lib, none, none⟩])
    else (f, [])
  else ({ f with lib := value }, [⟨f.lib, value, value⟩])

/-- `updateGlyphOrder` -/
def updateGlyphOrderN (f : Font) (added removed : Option Name) : Font × List OrdEv :=
  let order := glyphOrder f
  let index := findIndex order removed
  if earlyReturn index added removed then (f, [])
  else
    let r := addStep order index added
    setGlyphOrderN f (some (delStep r.1 r.2))

def glyphAddedCbN (f : Font) (n : Name) : Font × List OrdEv := updateGlyphOrderN f (some n) none

def glyphDeletedCbN (f : Font) (n : Name) : Font × List OrdEv :=
  if anyLayerHas f n then (f, []) else updateGlyphOrderN f none (some n)

def glyphRenamedCbN (f : Font) (old new : Name) : Font × List OrdEv :=
  updateGlyphOrderN f (some new) (if anyLayerHas f old then none else some old)

/-- `deliver`: the font's callback for one layer notification -/
def deliverN (f : Font) : Note → Font × List OrdEv
  | .added n => glyphAddedCbN f n
  | .deleted n => glyphDeletedCbN f n
  | .renamed o n => glyphRenamedCbN f o n

/-- `post`: dropped when the layer is disabled, queued when it is held, else delivered to the font -/
def postN (f : Font) (L : String) (note : Note) : Font × List OrdEv :=
  match AL.get? f.layers L with
  | none => (f, [])
  | some l =>
    if l.disabled ≠ 0 then (f, [])
    else if l.held ≠ 0 then (setLayer f L { l with queue := enqueue l.queue note }, [])
    else if l.observed then deliverN f note else (f, [])

/-- `flush`: the queue re-posted in order -/
def flushN (f : Font) (L : String) : List Note → Font × List OrdEv
  | [] => (f, [])
  | n :: ns => ((flushN (postN f L n).1 L ns).1, (postN f L n).2 ++ (flushN (postN f L n).1 L ns).2)

def releaseLayerN (f : Font) (L : String) : (Font × Res) × List OrdEv :=
  match AL.get? f.layers L with
  | none => ((f, .err .keyError), [])
  | some l =>
    if l.held = 0 then ((f, .err .keyError), [])
    else if l.held = 1 then
      (((flushN (setLayer f L { l with held := 0, queue := [] }) L l.queue).1, .ok),
       (flushN (setLayer f L { l with held := 0, queue := [] }) L l.queue).2)
    else ((setLayer f L { l with held := l.held - 1 }, .ok), [])

def newGlyphN (f : Font) (layer : String) (g : Name) : (Font × Res) × List OrdEv :=
  match AL.get? f.layers layer with
  | none => ((f, .err .keyError), [])
  | some l =>
    (((postN (setLayer f layer { l with glyphs := addName l.glyphs g }) layer (.added g)).1, .ok),
     (postN (setLayer f layer { l with glyphs := addName l.glyphs g }) layer (.added g)).2)

/-- `insertGlyph`: hold, `newGlyph`, release -/
def insertGlyphN (f : Font) (layer : String) (g : Name) : (Font × Res) × List OrdEv :=
  match AL.get? f.layers layer with
  | none => ((f, .err .keyError), [])
  | some _ =>
    let f1 := (holdLayer f layer).1
    let r2 := newGlyphN f1 layer g
    let r3 := releaseLayerN r2.1.1 layer
    ((r3.1.1, .ok), r2.2 ++ r3.2)

def delGlyphN (f : Font) (layer : String) (g : Name) : (Font × Res) × List OrdEv :=
  match AL.get? f.layers layer with
  | none => ((f, .err .keyError), [])
  | some l =>
    if g ∈ l.glyphs then
      (((postN (setLayer f layer { l with glyphs := removeName l.glyphs g }) layer (.deleted g)).1, .ok),
       (postN (setLayer f layer { l with glyphs := removeName l.glyphs g }) layer (.deleted g)).2)
    else ((f, .err .keyError), [])

def renameN (f : Font) (layer : String) (old new : Name) : (Font × Res) × List OrdEv :=
  match AL.get? f.layers layer with
  | none => ((f, .err .keyError), [])
  | some l =>
    if old ∈ l.glyphs then
      if old = new then ((f, .ok), [])
      else
        (((postN (setLayer f layer { l with glyphs := addName (removeName l.glyphs old) new }) layer
            (.renamed old new)).1, .ok),
         (postN (setLayer f layer { l with glyphs := addName (removeName l.glyphs old) new }) layer
            (.renamed old new)).2)
    else ((f, .err .keyError), [])

def fontNewGlyphN (f : Font) (g : Name) : (Font × Res) × List OrdEv :=
  match f.default with
  | some L => newGlyphN f L g
  | none => (({ f with ghost := addName f.ghost g }, .ok), [])

def fontInsertGlyphN (f : Font) (g : Name) : (Font × Res) × List OrdEv :=
  match f.default with
  | some L => insertGlyphN f L g
  | none => (({ f with ghost := addName f.ghost g }, .ok), [])

def fontDelGlyphN (f : Font) (g : Name) : (Font × Res) × List OrdEv :=
  match f.default with
  | some L => delGlyphN f L g
  | none =>
    if g ∈ f.ghost then (({ f with ghost := removeName f.ghost g }, .ok), []) else ((f, .err .keyError), [])

/-- one operation of M-GlyphOrder with the posts of `Font.GlyphOrderChanged` it causes, in order -/
def stepN (f : Font) : Op → (Font × Res) × List OrdEv
  | .newGlyph l g => newGlyphN f l g
  | .insertGlyph l g => insertGlyphN f l g
  | .delGlyph l g => delGlyphN f l g
  | .rename l o n => renameN f l o n
  | .setOrder v => (((setGlyphOrderN f v).1, .ok), (setGlyphOrderN f v).2)
  | .setLib v => (setLib f v, [])
  | .newLayer n => (newLayer f n, [])
  | .delLayer n => (delLayer f n, [])
  | .renameLayer o n => (renameLayer f o n, [])
  | .setLayerOrder ns => (setLayerOrder f ns, [])
  | .setDefault n => (setDefault f n, [])
  | .fontNewGlyph g => fontNewGlyphN f g
  | .fontInsertGlyph g => fontInsertGlyphN f g
  | .fontDelGlyph g => fontDelGlyphN f g
  | .holdLayer l => (holdLayer f l, [])
  | .releaseLayer l => releaseLayerN f l
  | .disableLayer l => (disableLayer f l, [])
  | .enableLayer l => (enableLayer f l, [])
  | .holdFont => (holdFont f, [])
  | .releaseFont => (releaseFont f, [])

/-- the operations Font documents `Font.GlyphOrderChanged` for: everything but a direct write into the lib -/
def viaFont : Op → Bool
  | .setLib _ => false
  | _ => true

/-- the operations that post at most one layer notification (everything but the releases of a hold: a release
re-posts the whole queue, and `insertGlyph` ends with one) -/
def singlePost : Op → Bool
  | .insertGlyph _ _ | .fontInsertGlyph _ | .releaseLayer _ => false
  | _ => true

end OrderNotify
end DefconModel
