/-
M-Repr, part 5: a font with TWO layers.

objects/component.py resolves `baseGlyph` in the component's OWN layer (`self.layer`: `baseGlyph in layer`,
`layer[baseGlyph]`, the `Layer.*` observations) and the bounds / area factories hand `obj.layer` / `glyph.layer`
to the pen as the glyph set.  So two layers never read each other: the font is the PRODUCT of two worlds.  What they
share: the class-level `representationFactories` (a registration reaches both), the dispatcher (holds are keyed by
observable, and an observable lives in one layer), the groups (kept with the first layer), and the pool of
objects that belong to no glyph (a contour removed in one layer may be inserted in the other: its record moves).

A glyph name that exists in the other layer only is, for a component, a missing glyph.
-/
import DefconModel.ReprCells

namespace DefconModel
namespace Repr

inductive Lay where
  | a
  | b
deriving DecidableEq, Repr, Inhabited

structure Font (V : Type) where
  l0 : HWorld V := {}
  l1 : HWorld V := {}
deriving Inhabited

section Layers
variable {V : Type}

def Font.get (f : Font V) : Lay → HWorld V
  | .a => f.l0
  | .b => f.l1

def Font.set (f : Font V) (l : Lay) (hw : HWorld V) : Font V :=
  match l with
  | .a => { f with l0 := hw }
  | .b => { f with l1 := hw }

def Lay.other : Lay → Lay
  | .a => .b
  | .b => .a

/-- the record of a loose contour / component follows the object into the layer where it is inserted -/
def migrate (f : Font V) (l : Lay) (op : Op) : Font V :=
  let here := f.get l
  let there := f.get l.other
  match op with
  | .insContour _ cid _ =>
    match there.w.looseC.find? (fun c => c.id = cid) with
    | some c =>
      if here.w.looseC.any (fun c => c.id = cid) then f else
      (f.set l { here with w := { here.w with looseC := here.w.looseC ++ [c] } }).set l.other
        { there with w := { there.w with looseC := there.w.looseC.filter fun c => c.id != cid } }
    | none => f
  | .insComp _ kid _ =>
    match there.w.looseK.find? (fun k => k.id = kid) with
    | some k =>
      if here.w.looseK.any (fun k => k.id = kid) then f else
      (f.set l { here with w := { here.w with looseK := here.w.looseK ++ [k] } }).set l.other
        { there with w := { there.w with looseK := there.w.looseK.filter fun k => k.id != kid } }
    | none => f
  | _ => f

def HWorld.withClock (hw : HWorld V) (c : Nat) : HWorld V := { hw with w := { hw.w with clock := c } }

/-- one clock for the font: a stamp handed out in one layer is never handed out again in the other (a loose object
carries its stamps across) -/
def Font.sync (f : Font V) : Font V :=
  let c := max f.l0.w.clock f.l1.w.clock
  { l0 := f.l0.withClock c, l1 := f.l1.withClock c }

def fstep (P : Params V) (T : Tables) (f : Font V) (l : Lay) (hop : HOp) : Font V × Res :=
  match hop with
  | .base (.register cls name) =>
    let r0 := hstep P T f.l0 hop
    let r1 := hstep P T f.l1 hop
    (Font.sync { l0 := r0.1, l1 := r1.1 }, r0.2)
  | .base op =>
    let f1 := migrate f l op
    let r := hstep P T (f1.get l) hop
    ((f1.set l r.1).sync, r.2)
  | _ =>
    let r := hstep P T (f.get l) hop
    ((f.set l r.1).sync, r.2)

/-- a public call in layer `l`: elaborated in the structure of that layer, then executed primitive by primitive -/
def fcall (P : Params V) (T : Tables) (f : Font V) (l : Lay) (c : Call) : Font V × List Res :=
  match elabCall (f.get l).w c with
  | none => (f, [.err "unknown-method"])
  | some ops =>
    ops.foldl (fun (acc : Font V × List Res) op =>
      let r := fstep P T acc.1 l (.base op)
      (r.1, acc.2 ++ [r.2])) (f, [])

end Layers

end Repr
end DefconModel
