/-
M-SubFlags: executable model of the `dirty` flags of the whole object tree of a font, composed of
the persistence components (M-Layer per layer, M-LayerSet, M-FileSet ×2, M-Parts ×5) the way
`Font.save` composes them.

What is added to the components:

  * below the glyph: one flag per contour, component, anchor and guideline, the flag of the glyph's
    `Image` object (`none` while `glyph._image` does not exist) and of its `Lib`;
    `BaseObject._set_dirty` stores the flag and posts `*.Changed`; the glyph's callbacks
    (`Glyph._contourChanged`, `_componentChanged`, `_anchorChanged`, `_guidelineChanged`,
    `_imageChanged`, `_libContentChanged`) answer with `glyph.dirty = True`;
    `Glyph._set_dirty(False)` (repair of finding F31) clears the flags of everything the glyph holds;
  * per layer: the layer's own flag and the flag of its `Lib`; `Layer._glyphDirtyStateChange` and
    `Layer._libDirtyStateChange` answer EVERY `Glyph.Changed` / `Lib.Changed` with
    `layer.dirty = True` (also the one posted by `glyph.dirty = False` in `saveGlyph`);
    `Layer._set_dirty(False)` clears the lib's flag;
  * the layer set's flag (`LayerSet._layerDirtyStateChange`, unguarded as well) and the font's
    (`Font._objectDirtyStateChange`: only when the sender reports dirty);
  * the glyph's own flag is M-Layer's (`Layer.State.loaded`), every glyph operation is an M-Layer
    operation on the layer's `base`.

Domain: no `disableNotifications` / holds left open by the caller, flags not reset by hand.
Glyph records carry no content here (`{}`): content is M-Layer's business under C07.
Core Lean only.
-/
import DefconModel.Util.AL
import DefconModel.Layer
import DefconModel.LayerSet
import DefconModel.FileSet
import DefconModel.Parts

namespace DefconModel
namespace SubFlags

/-! ### below the glyph -/

inductive Kind where
  | contour | component | anchor | guideline
deriving DecidableEq, Repr

/-- the flags of what one glyph holds -/
structure Sub where
  contours : List Bool := []
  components : List Bool := []
  anchors : List Bool := []
  guidelines : List Bool := []
  /-- `none` while `glyph._image` is `None` (the getter, `glifLib.writeGlyph` and
  `Glyph._set_image` create the object) -/
  image : Option Bool := none
  /-- the file name the image object holds (it listens to the image set for that name) -/
  imageName : Option String := none
  /-- the flag of `glyph._lib` (`false` while the object does not exist) -/
  lib : Bool := false
deriving DecidableEq, Repr

/-- what a GLIF holds: how many objects of each kind, the base glyph of each component, and the
file name of its image element -/
structure Shape where
  contours : Nat := 0
  bases : List String := []
  anchors : Nat := 0
  guidelines : Nat := 0
  image : Option String := none
deriving DecidableEq, Repr

def Sub.get (s : Sub) : Kind → List Bool
  | .contour => s.contours
  | .component => s.components
  | .anchor => s.anchors
  | .guideline => s.guidelines

def Sub.put (s : Sub) (k : Kind) (l : List Bool) : Sub :=
  match k with
  | .contour => { s with contours := l }
  | .component => { s with components := l }
  | .anchor => { s with anchors := l }
  | .guideline => { s with guidelines := l }

def allF (l : List Bool) : Prop := ∀ b ∈ l, b = false

instance (l : List Bool) : Decidable (allF l) := inferInstanceAs (Decidable (∀ b ∈ l, b = false))

/-- nothing the glyph holds reports dirty -/
def Sub.Clean (s : Sub) : Prop :=
  allF s.contours ∧ allF s.components ∧ allF s.anchors ∧ allF s.guidelines ∧
  s.image ≠ some true ∧ s.lib = false

instance (s : Sub) : Decidable s.Clean := by unfold Sub.Clean; exact inferInstance

/-- `Layer.loadGlyph`: the objects `readGlyph` builds, after the closing `glyph.dirty = False` -/
def Sub.loaded (sh : Shape) : Sub :=
  { contours := List.replicate sh.contours false
    components := List.replicate sh.bases.length false
    anchors := List.replicate sh.anchors false
    guidelines := List.replicate sh.guidelines false
    image := if sh.image.isSome then some false else none
    imageName := sh.image
    lib := false }

def lower (l : List Bool) : List Bool := l.map (fun _ => false)

/-- `Glyph._set_dirty(False)`: the flags of everything the glyph holds are cleared -/
def Sub.cleared (s : Sub) : Sub :=
  { contours := lower s.contours, components := lower s.components, anchors := lower s.anchors,
    guidelines := lower s.guidelines, image := s.image.map (fun _ => false), imageName := s.imageName, lib := false }

/-- `glifLib.writeGlyph` reads `glyph.image` (the getter creates the object); then
`Layer.saveGlyph` sets `glyph.dirty = False` -/
def Sub.written (s : Sub) : Sub :=
  Sub.cleared { s with image := some (s.image.getD false) }

/-- one step of an edit of a glyph, as far as flags go -/
inductive Prim where
  /-- a datum of the glyph itself changed (width, height, unicodes, note, …) -/
  | touch
  /-- `insertContour(i, …)`, `insertComponent`, `insertAnchor`, `insertGuideline`; `flag` is the
  flag the object arrives with -/
  | insert (k : Kind) (i : Nat) (flag : Bool)
  /-- `appendContour` … -/
  | append (k : Kind) (flag : Bool)
  /-- `clearContours`, `clearComponents`, `clearAnchors`, `clearGuidelines` -/
  | clear (k : Kind)
  /-- an effective change of the `i`-th object of kind `k` through its own API -/
  | edit (k : Kind) (i : Nat)
  /-- an effective change of every object of kind `k` (`Glyph.move`) -/
  | editAll (k : Kind)
  /-- `glyph.image` read -/
  | imageGet
  /-- an effective change of the image object, which afterwards holds file name `fn` -/
  | imageEdit (fn : Option String)
  /-- `glyph.image = None` -/
  | imageClear
  /-- an effective change of the glyph lib (`lib[k] = v`, `del lib[k]`, `glyph.lib = …`) -/
  | libEdit
deriving DecidableEq, Repr

def setAt (l : List Bool) (i : Nat) : List Bool := l.set i true

/-- the new flags, and whether `glyph.dirty = True` was executed -/
def Prim.apply (s : Sub) : Prim → Sub × Bool
  | .touch => (s, true)
  | .insert k i b => (s.put k ((s.get k).take i ++ b :: (s.get k).drop i), true)
  | .append k b => (s.put k (s.get k ++ [b]), true)
  | .clear k => (s.put k [], !(s.get k).isEmpty)
  | .edit k i => if i < (s.get k).length then (s.put k (setAt (s.get k) i), true) else (s, false)
  | .editAll k => (s.put k ((s.get k).map (fun _ => true)), !(s.get k).isEmpty)
  | .imageGet => ({ s with image := some (s.image.getD false) }, false)
  | .imageEdit fn => ({ s with image := some true, imageName := fn }, true)
  | .imageClear =>
    match s.image with
    | none => (s, false)
    | some _ => ({ s with image := some true, imageName := none }, true)   -- `Image.clear` refills the dict through `__setitem__`
  | .libEdit => ({ s with lib := true }, true)

def applyAll (s : Sub) : List Prim → Sub × Bool
  | [] => (s, false)
  | p :: ps =>
    let r := p.apply s
    let r2 := applyAll r.1 ps
    (r2.1, r.2 || r2.2)

/-! ### one layer -/

/-- the glyph's own flag (M-Layer's) -/
def gdirty (s : Layer.State) (n : String) : Bool :=
  match AL.get? s.loaded n with
  | some p => p.2
  | none => false

structure LayerF where
  base : Layer.State := {}
  /-- what the GLIFs of the glyph set the layer was opened on hold.  Only read for a name that is
  not in memory: a save writes nothing but glyphs that are in memory, and those are never read again -/
  shapes : List (String × Shape) := []
  /-- the flags below each loaded glyph -/
  subs : List (String × Sub) := []
  /-- the flag of `layer._lib` (`false` while the object does not exist) -/
  lib : Bool := false
  dirty : Bool := false
deriving Repr

def drop (subs : List (String × Sub)) (n : String) : List (String × Sub) := subs.filter (fun p => p.1 ≠ n)

def subOf (L : LayerF) (n : String) : Sub := (AL.get? L.subs n).getD {}

def shapeOf (L : LayerF) (n : String) : Shape := (AL.get? L.shapes n).getD {}

/-- `Layer.loadGlyph(n)` through `layer[n]`: M-Layer's `get`; a glyph that is read now comes with
clean flags -/
def getGlyph (L : LayerF) (n : String) : Except Layer.Err LayerF :=
  match Layer.step L.base (.get n) with
  | .error e => .error e
  | .ok b =>
    .ok { L with base := b
                 subs := if Layer.isLoaded L.base n then L.subs
                         else AL.set (drop L.subs n) n (Sub.loaded (shapeOf L n)) }

/-- a component that is given a base glyph starts to observe it: `layer[base]` when the layer
holds that name — which reads the glyph, and so the bases of ITS components (the glyph is in
`_glyphs` before its GLIF is read, so the recursion ends; `fuel` bounds it for Lean) -/
def loadDeep : Nat → LayerF → String → LayerF
  | 0, L, _ => L
  | fuel + 1, L, n =>
    if Layer.isLoaded L.base n then L
    else
      match getGlyph L n with
      | .error _ => L
      | .ok L1 => (shapeOf L n).bases.foldl (fun L b => loadDeep fuel L b) L1

def fuelOf (L : LayerF) : Nat := L.shapes.length + 1

/-- `layer[n]` -/
def fetch (L : LayerF) (n : String) : Except Layer.Err LayerF :=
  match getGlyph L n with
  | .error e => .error e
  | .ok _ => .ok (loadDeep (fuelOf L) L n)

def needBases (L : LayerF) (bases : List String) : LayerF :=
  bases.foldl (fun L b => loadDeep (fuelOf L) L b) L

/-- an edit of `layer[n]`; `bases`: the base glyphs given to components on the way; the `Bool`
says whether `Glyph.Changed` was posted with the flag set (which
`Layer._glyphDirtyStateChange` answers with `layer.dirty = True`) -/
def editGlyph (L : LayerF) (n : String) (ps : List Prim) (bases : List String) : Except Layer.Err (LayerF × Bool) :=
  match fetch L n with
  | .error e => .error e
  | .ok L0 =>
    let L1 := needBases L0 bases
    let r := applyAll (subOf L1 n) ps
    let L2 := { L1 with subs := AL.set L1.subs n r.1 }
    if r.2 then
      match Layer.step L2.base (.touch n) with
      | .error e => .error e
      | .ok b => .ok ({ L2 with base := b, dirty := true }, true)
    else .ok (L2, false)

/-- `layer.newGlyph(n)` -/
def newGlyph (L : LayerF) (n : String) : Except Layer.Err (LayerF × Bool) :=
  match Layer.step L.base (.new n) with
  | .error e => .error e
  | .ok b => .ok ({ L with base := b, subs := AL.set (drop L.subs n) n {}, dirty := true }, true)

/-- `layer.insertGlyph(g, n)` = `newGlyph(n)` then `copyDataFromGlyph` -/
def insertGlyph (L : LayerF) (n : String) (ps : List Prim) (bases : List String) : Except Layer.Err (LayerF × Bool) :=
  match newGlyph L n with
  | .error e => .error e
  | .ok (L1, _) =>
    match editGlyph L1 n ps bases with
    | .error e => .error e
    | .ok (L2, _) => .ok (L2, true)

/-- `del layer[n]` -/
def delGlyph (L : LayerF) (n : String) : Except Layer.Err (LayerF × Bool) :=
  match Layer.step L.base (.delete n) with
  | .error e => .error e
  | .ok b => .ok ({ L with base := b, subs := drop L.subs n, dirty := true }, true)

/-- `layer[o].name = n`: the glyph object moves, with everything it holds -/
def renameGlyph (L : LayerF) (o n : String) : Except Layer.Err (LayerF × Bool) :=
  match fetch L o with
  | .error e => .error e
  | .ok L1 =>
    match Layer.step L1.base (.rename o n) with
    | .error e => .error e
    | .ok b =>
      if o = n then .ok ({ L1 with base := b }, false)
      else .ok ({ L1 with base := b, subs := AL.set (drop (drop L1.subs o) n) n (subOf L1 o), dirty := true }, true)

/-- `Layer.save(glyphSet)` in place: every dirty glyph is written and `glyph.dirty = False` posts
`Glyph.Changed`, which raises the layer's flag -/
def saveLayerInPlace (L : LayerF) : LayerF :=
  let wrote := L.base.loaded.any (fun p => p.2.2)
  { L with base := Layer.save L.base
           subs := L.subs.map (fun p => (p.1, if gdirty L.base p.1 then p.2.written else p.2))
           dirty := L.dirty || wrote }

/-- `for glyph in self: pass` -/
def loadAll (L : LayerF) : LayerF :=
  (Layer.visible L.base).foldl (fun L n =>
    match getGlyph L n with
    | .ok L' => L'
    | .error _ => L) L

/-- `Layer.save(glyphSet, saveAs=True)`: every glyph is read, then every glyph is written -/
def saveLayerAs (L : LayerF) : LayerF :=
  let L1 := loadAll L
  { L1 with base := { L1.base with disk := L1.base.loaded.map (fun p => (p.1, p.2.1))
                                   loaded := L1.base.loaded.map (fun p => (p.1, (p.2.1, false)))
                                   sched := [] }
            subs := L1.subs.map (fun p => (p.1, p.2.written))
            dirty := L1.dirty || !L1.base.loaded.isEmpty }

def saveLayer (sa : Bool) (L : LayerF) : LayerF :=
  if sa then saveLayerAs L else saveLayerInPlace L

/-- `layer.dirty = False` after `writeLayerInfo` (`Layer._set_dirty` clears the lib's flag) -/
def lowerLayer (L : LayerF) : LayerF := { L with dirty := false, lib := false }

/-! ### the font -/

structure FontF where
  images : FileSet.State := {}
  data : FileSet.State := {}
  /-- info groups kerning features lib -/
  parts : List (String × Parts.Part) := []
  ls : LayerSet.State := {}
  /-- the layer objects of the layer set, by identity (`LayerSet.MLayer.lid`) -/
  lf : List (Nat × LayerF) := []
  lsDirty : Bool := false
  dirty : Bool := false
deriving Repr

inductive Err where
  | file (e : FileSet.Err)
  | layers (e : LayerSet.Err)
  | glyph (e : Layer.Err)
  | noLayer
  | noPart
deriving Repr

def partNames : List String := ["info", "groups", "kerning", "features", "lib"]

/-- `Font()`: `newLayer("public.default")` and the default-layer assignment leave the layer, the
layer set and the font dirty -/
def newFont : FontF :=
  { parts := partNames.map (fun n => (n, {}))
    ls := { layers := [("public.default", ⟨0, false⟩)], order := ["public.default"], default := some 0,
            history := [.new "public.default", .default "public.default" none], nextLid := 1 }
    lf := [(0, { dirty := true })]
    lsDirty := true
    dirty := true }

/-- `Font(path)`: `glyphs` lists, per layer identity, what the GLIFs listed in the layer's
`contents.plist` hold -/
def opened (imgs dats : List (String × Nat)) (ps : List (String × Nat)) (layers : List (String × Nat))
    (defLid : Nat) (defName : String) (glyphs : List (Nat × List (String × Shape))) : FontF :=
  { images := FileSet.opened imgs
    data := FileSet.opened dats
    parts := ps.map (fun x => (x.1, { disk := x.2 }))
    ls := LayerSet.opened layers defLid defName
    lf := layers.map (fun p =>
      let gs := (AL.get? glyphs p.2).getD []
      (p.2, { base := Layer.opened (gs.map (fun g => (g.1, {}))), shapes := gs })) }

def lidOf (f : FontF) (ln : String) : Option Nat := (AL.get? f.ls.layers ln).map (·.lid)

def layerOf (f : FontF) (lid : Nat) : LayerF := (AL.get? f.lf lid).getD {}

/-- `font.dirty = True` -/
def raiseFont (f : FontF) : FontF := { f with dirty := true }

/-- `layerSet.dirty = True`; the font's callback sees a dirty sender -/
def raiseLS (f : FontF) : FontF := { f with lsDirty := true, dirty := true }

def putLayer (f : FontF) (lid : Nat) (L : LayerF) : FontF := { f with lf := AL.set f.lf lid L }

/-- store the layer; when it posted `Layer.Changed`, `LayerSet._layerDirtyStateChange` raises the
layer set, which raises the font -/
def afterLayer (f : FontF) (lid : Nat) (r : LayerF × Bool) : FontF :=
  if r.2 then raiseLS (putLayer f lid r.1) else putLayer f lid r.1

def dropLayer (lf : List (Nat × LayerF)) (lid : Nat) : List (Nat × LayerF) := lf.filter (fun p => p.1 ≠ lid)

def savePart (sa : Bool) (p : String × Parts.Part) : String × Parts.Part :=
  if p.1 = "kerning" ∨ p.1 = "features" then (p.1, Parts.saveIfDirty sa p.2) else (p.1, Parts.saveAlways p.2)

/-- `LayerSet.save`, format 3: every layer is saved, its layer info written and
`layer.dirty = False` executed — which posts `Layer.Changed` and so raises the layer set and the
font once more -/
def saveLayers (sa : Bool) (f : FontF) : FontF :=
  let lf' := f.lf.map (fun p => (p.1, lowerLayer (saveLayer sa p.2)))
  let raised := !f.lf.isEmpty
  { f with lf := lf', lsDirty := f.lsDirty || raised, dirty := f.dirty || raised }

inductive Op where
  | fileGet (images : Bool) (n : String)
  | fileSet (images : Bool) (n : String) (b : Nat)
  | fileDel (images : Bool) (n : String)
  | partGet (w : String)
  | partSet (w : String) (b : Nat)
  /-- a change of the part's content that flags only the font (attribute of a font guideline) -/
  | partQuiet (w : String) (b : Nat)
  | layerNew (n : String)
  | layerDel (n : String)
  | layerRename (o n : String)
  | layerDefault (n : String)
  | layerOrder (o : List String)
  /-- an effective change of a layer attribute (colour) -/
  | layerTouch (ln : String)
  /-- an effective change of the layer lib -/
  | layerLibEdit (ln : String)
  | glyphGet (ln gn : String)
  | glyphNew (ln gn : String)
  | glyphInsert (ln gn : String) (ps : List Prim) (bases : List String)
  | glyphDel (ln gn : String)
  | glyphRename (ln o n : String)
  | glyphEdit (ln gn : String) (ps : List Prim) (bases : List String)
  | save (saveAs : Bool)
deriving Repr

/-- a loaded glyph of the layer holds an image object for file `n` -/
def showsImage (L : LayerF) (n : String) : Bool := L.subs.any (fun p => p.2.imageName = some n)

/-- `ImageSet.ImageAdded / ImageChanged / ImageDeleted` for file `n`: every image object holding that
name posts `Image.ImageDataChanged`, its glyph answers with `Glyph.Changed` (the glyph's flag is not
touched), and `Layer._glyphDirtyStateChange` raises the layer -/
def imageNotify (f : FontF) (n : String) : FontF :=
  let lf' := f.lf.map (fun p => (p.1, if showsImage p.2 n then { p.2 with dirty := true } else p.2))
  if f.lf.any (fun p => showsImage p.2 n) then raiseLS { f with lf := lf' } else f

/-- `ImageSet._setImage` returns before it posts anything when the bytes are the ones it holds -/
def imageSetPosts (s : FileSet.State) (n : String) (b : Nat) : Bool :=
  let s1 := FileSet.restore s n
  match AL.get? s1.entries n with
  | none => true
  | some _ =>
    match FileSet.getItem s1 n with
    | .ok (_, old) => old ≠ b
    | .error _ => false

/-- `ImageSet/DataSet.dirty = True` reaches `Font._objectDirtyStateChange`, which looks at the flag -/
def announceSet (f : FontF) (mutates : Bool) (d : Bool) : FontF := if mutates && d then raiseFont f else f

def imageStep (f : FontF) (op : FileSet.Op) (mutates : Bool) : Except Err FontF :=
  match FileSet.step true f.images op with
  | .error e => .error (.file e)
  | .ok s' =>
    let f2 := announceSet { f with images := s' } mutates s'.dirty
    .ok (match op with
      | .set n b => if imageSetPosts f.images n b then imageNotify f2 n else f2
      | .del n => imageNotify f2 n
      | _ => f2)

def dataStep (f : FontF) (op : FileSet.Op) (mutates : Bool) : Except Err FontF :=
  match FileSet.step false f.data op with
  | .error e => .error (.file e)
  | .ok s' => .ok (announceSet { f with data := s' } mutates s'.dirty)

def fileStep (f : FontF) (images : Bool) (op : FileSet.Op) (mutates : Bool) : Except Err FontF :=
  if images then imageStep f op mutates else dataStep f op mutates

def layerStep (f : FontF) (ln : String) (g : LayerF → Except Layer.Err (LayerF × Bool)) : Except Err FontF :=
  match lidOf f ln with
  | none => .error .noLayer
  | some lid =>
    match g (layerOf f lid) with
    | .error e => .error (.glyph e)
    | .ok r => .ok (afterLayer f lid r)

def step (f : FontF) : Op → Except Err FontF
  | .fileGet i n => fileStep f i (.get n) false
  | .fileSet i n b => fileStep f i (.set n b) true
  | .fileDel i n => fileStep f i (.del n) true
  | .partGet w =>
    match AL.get? f.parts w with
    | none => .error .noPart
    | some p => .ok { f with parts := AL.set f.parts w (Parts.get p).1 }
  | .partSet w b =>
    match AL.get? f.parts w with
    | none => .error .noPart
    | some p =>
      let f1 := { f with parts := AL.set f.parts w (Parts.set p b) }
      -- the guarded setters: no change, no flag, nothing posted
      .ok (if (Parts.get p).2 = b then f1 else raiseFont f1)
  | .partQuiet w b =>
    match AL.get? f.parts w with
    | none => .error .noPart
    | some p => .ok (raiseFont { f with parts := AL.set f.parts w (Parts.setQuiet p b) })
  | .layerNew n =>
    match LayerSet.step f.ls (.newLayer n) with
    | .error e => .error (.layers e)
    | .ok ls' =>
      -- `newLayer`: `layer.dirty = True` (notifications off), then `layerSet.dirty = True`
      .ok (raiseLS { f with ls := ls', lf := AL.set f.lf f.ls.nextLid { dirty := true } })
  | .layerDel n =>
    match LayerSet.step f.ls (.delLayer n) with
    | .error e => .error (.layers e)
    | .ok ls' =>
      .ok (raiseLS { f with ls := ls', lf := match lidOf f n with
                                              | some lid => dropLayer f.lf lid
                                              | none => f.lf })
  | .layerRename o n =>
    match LayerSet.step f.ls (.rename o n) with
    | .error e => .error (.layers e)
    | .ok ls' =>
      if o = n then .ok { f with ls := ls' }
      else
        match lidOf f o with
        | none => .error .noLayer
        | some lid =>
          -- `Layer._set_name`: `layer.dirty = True`
          .ok (raiseLS (putLayer { f with ls := ls' } lid { layerOf f lid with dirty := true }))
  | .layerDefault n =>
    match LayerSet.step f.ls (.setDefault n) with
    | .error e => .error (.layers e)
    | .ok ls' =>
      if (AL.get? f.ls.layers n).map (·.lid) = f.ls.default then .ok { f with ls := ls' }
      else .ok (raiseLS { f with ls := ls' })
  | .layerOrder o =>
    match LayerSet.step f.ls (.setOrder o) with
    | .error e => .error (.layers e)
    | .ok ls' => if f.ls.order = o then .ok { f with ls := ls' } else .ok (raiseLS { f with ls := ls' })
  | .layerTouch ln => layerStep f ln (fun L => .ok ({ L with dirty := true }, true))
  | .layerLibEdit ln =>
    -- `lib.dirty = True` → `Layer._libDirtyStateChange` → `layer.dirty = True`
    layerStep f ln (fun L => .ok ({ L with lib := true, dirty := true }, true))
  | .glyphGet ln gn => layerStep f ln (fun L => (fetch L gn).map (fun L' => (L', false)))
  | .glyphNew ln gn => layerStep f ln (fun L => newGlyph L gn)
  | .glyphInsert ln gn ps bases => layerStep f ln (fun L => insertGlyph L gn ps bases)
  | .glyphDel ln gn => layerStep f ln (fun L => delGlyph L gn)
  | .glyphRename ln o n => layerStep f ln (fun L => renameGlyph L o n)
  | .glyphEdit ln gn ps bases => layerStep f ln (fun L => editGlyph L gn ps bases)
  | .save sa =>
    match (if sa then LayerSet.saveAs f.ls else LayerSet.saveInPlace f.ls) with
    | .error e => .error (.layers e)
    | .ok ls' =>
      -- `_saveInfo` … `saveData`: the parts' flags are cleared; the font's callback ignores
      -- senders that are not dirty
      let f1 : FontF :=
        { f with images := if sa then FileSet.saveAs f.images [] else FileSet.saveInPlace f.images
                 data := if sa then FileSet.saveAs f.data [] else FileSet.saveInPlace f.data
                 parts := f.parts.map (savePart sa) }
      -- `self.layers.save(…)`, which ends with `layerSet.dirty = False`; then `font.dirty = False`
      let f2 := saveLayers sa f1
      .ok { f2 with ls := ls', lsDirty := false, dirty := false }

/-- a failing operation raises before it changes a flag -/
def stepTotal (f : FontF) (op : Op) : FontF :=
  match step f op with
  | .ok f' => f'
  | .error _ => f

def run (f : FontF) (ops : List Op) : FontF := ops.foldl stepTotal f

end SubFlags
end DefconModel
