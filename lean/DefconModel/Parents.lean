/-
M-Parents: executable model of defcon's parent links and of the parent<-child observer registrations
(Lib/defcon/objects/base.py, layerSet.py, layer.py, glyph.py, contour.py, component.py, anchor.py,
guideline.py, image.py, lib.py, font.py — the code AFTER repo_fixes/C11-*.diff).

A heap of nodes named by naturals in creation order (the harness numbers the Python objects the same
way).  A node stores what the Python object stores:

* `pGlyph pLayer pLayerSet pFont` : the weak references `_glyph _layer _layerSet _font`.  As in the
  code the same attribute is the OWNER pointer for some kinds (a contour's `_glyph`, a glyph's `_layer`,
  a font guideline's `_font`, a layer lib's `_layer` …) and a CACHE filled by the accessor for others (a
  contour's `_layer/_layerSet/_font`, a glyph guideline's `_font` …);
* `disp` : the cached `_dispatcher` (the font whose notification centre it is);
* `kids` : the objects LISTED in it (`_contours/_components/_anchors/_guidelines/_image/_lib`,
  `Layer._glyphs`, `LayerSet._layers`, `Font._layers/_guidelines/_lib`); the role of a listed object is
  its kind, order inside a role is not modelled.

`regs` is the union of the registries of all fonts' notification centres, restricted to the
registrations the begin…Observation methods make: parent<-child ones and every object's observation
of itself.  (Cross links — a component observing its base glyph, an image observing the image set — are
not modelled.)  `dirty` is the set of containers whose dirty flag is raised; names and the names of
glyphs that exist only on disk are kept in side tables.

Core Lean only.
-/
import DefconModel.Util.AL

namespace DefconModel
namespace Parents

abbrev Id := Nat

inductive Kind where
  | font | layerSet | layer | glyph | contour | component | anchor | guideline | image | lib
deriving DecidableEq, Repr

/-- kinds that never contain anything -/
def Kind.isLeaf : Kind → Bool
  | .contour | .component | .anchor | .guideline | .image | .lib => true
  | _ => false

/-- kinds inserted into / removed from a glyph by `insertX/removeX` -/
def Kind.isChild : Kind → Bool
  | .contour | .component | .anchor | .guideline => true
  | _ => false

/-- notification names used by the modelled registrations (`all` = `notification=None`) -/
inductive NName where
  | all
  | contourChanged | componentChanged | componentBaseGlyphDataChanged | anchorChanged | guidelineChanged
  | libChanged | imageChanged | imageDataChanged
  | glyphChanged | glyphNameChanged | glyphUnicodesChanged
  | layerChanged | layerNameChanged | layerGlyphAdded | layerGlyphDeleted | layerGlyphNameChanged
  | layerSetChanged | layerSetLayerAdded | layerSetLayerWillBeDeleted
  | fontChanged
deriving DecidableEq, Repr

structure Reg where
  centre : Id
  observer : Id
  observable : Id
  name : NName
deriving DecidableEq, Repr

structure Node where
  kind : Kind
  pGlyph : Option Id := none
  pLayer : Option Id := none
  pLayerSet : Option Id := none
  pFont : Option Id := none
  disp : Option Id := none
  kids : List Id := []
deriving DecidableEq, Repr

structure Heap where
  nodes : List Node := []
  regs : List Reg := []
  dirty : List Id := []
  names : List (Id × String) := []
  unloaded : List (Id × List String) := []

inductive Err where
  | noSuchObject | detached | keyError | assertionError | indexError | valueError
deriving DecidableEq, Repr

/-! ### Heap primitives -/

def Heap.get (h : Heap) (i : Id) : Option Node := h.nodes[i]?

def Heap.setNode (h : Heap) (i : Id) (n : Node) : Heap := { h with nodes := h.nodes.set i n }

def Heap.upd (h : Heap) (i : Id) (f : Node → Node) : Heap :=
  match h.get i with
  | some n => h.setNode i (f n)
  | none => h

/-- allocation: the new object's number is the number of objects so far -/
def Heap.alloc (h : Heap) (n : Node) : Heap := { h with nodes := h.nodes ++ [n] }

def Heap.next (h : Heap) : Id := h.nodes.length

def Heap.kindOf (h : Heap) (i : Id) : Option Kind := (h.get i).map (·.kind)

def Heap.kidsOf (h : Heap) (i : Id) : List Id :=
  match h.get i with
  | some n => n.kids
  | none => []

def Heap.nameOf (h : Heap) (i : Id) : String := (AL.get? h.names i).getD ""

def Heap.setName (h : Heap) (i : Id) (s : String) : Heap := { h with names := AL.set h.names i s }

def Heap.unloadedOf (h : Heap) (l : Id) : List String := (AL.get? h.unloaded l).getD []

def Heap.dropUnloaded (h : Heap) (l : Id) (name : String) : Heap :=
  { h with unloaded := AL.set h.unloaded l ((h.unloadedOf l).filter (· ≠ name)) }

def Heap.addKid (h : Heap) (p x : Id) : Heap := h.upd p fun n => { n with kids := n.kids ++ [x] }

def Heap.unlist (h : Heap) (p x : Id) : Heap := h.upd p fun n => { n with kids := n.kids.filter (· ≠ x) }

/-- the first listed object of a kind (the image, the lib, the layer set) -/
def Heap.kidOfKind (h : Heap) (p : Id) (k : Kind) : Option Id :=
  (h.kidsOf p).find? fun x => h.kindOf x = some k

def Heap.kidsOfKind (h : Heap) (p : Id) (k : Kind) : List Id :=
  (h.kidsOf p).filter fun x => h.kindOf x = some k

/-- `Layer._glyphs[name]` / `LayerSet._layers[name]`: the listed object of that kind and name -/
def Heap.findNamed (h : Heap) (p : Id) (k : Kind) (name : String) : Option Id :=
  (h.kidsOf p).find? fun x => h.kindOf x = some k ∧ h.nameOf x = name

/-! ### The parent accessors (`_get_glyph`, `_get_layer`, `_get_layerSet`, `_get_font`,
    `getParent`, `_get_dispatcher`), as pure reads -/

def Heap.storedLayer (h : Heap) (i : Id) : Option Id := (h.get i).bind (·.pLayer)
def Heap.storedLayerSet (h : Heap) (i : Id) : Option Id := (h.get i).bind (·.pLayerSet)
def Heap.storedFont (h : Heap) (i : Id) : Option Id := (h.get i).bind (·.pFont)

def glyphOf (h : Heap) (x : Id) : Option Id :=
  match h.get x with
  | none => none
  | some n => if n.kind.isLeaf then n.pGlyph else none

def layerOf (h : Heap) (x : Id) : Option Id :=
  match h.get x with
  | none => none
  | some n =>
    match n.kind with
    | .font | .layerSet | .layer => none
    | .glyph => n.pLayer
    | _ => n.pLayer.or (n.pGlyph.bind h.storedLayer)

def layerSetOf (h : Heap) (x : Id) : Option Id :=
  match h.get x with
  | none => none
  | some n =>
    match n.kind with
    | .font | .layerSet => none
    | .layer | .glyph => n.pLayerSet
    | .guideline | .lib => n.pLayerSet.or ((layerOf h x).bind h.storedLayerSet)
    | _ => n.pLayerSet.or (n.pGlyph.bind h.storedLayerSet)

def fontOf (h : Heap) (x : Id) : Option Id :=
  match h.get x with
  | none => none
  | some n =>
    match n.kind with
    | .font => none
    | .layerSet | .glyph => n.pFont
    | .layer => n.pLayerSet.bind h.storedFont
    | .guideline | .lib => n.pFont.or ((layerSetOf h x).bind h.storedFont)
    | _ => n.pFont.or (n.pGlyph.bind h.storedFont)

def dispOf (h : Heap) (x : Id) : Option Id :=
  match h.get x with
  | none => none
  | some n =>
    match n.kind with
    | .font => some x
    | _ => n.disp.or (fontOf h x)

def parentOf (h : Heap) (x : Id) : Option Id :=
  match h.get x with
  | none => none
  | some n =>
    match n.kind with
    | .font => none
    | .layerSet => n.pFont
    | .layer => n.pLayerSet
    | .glyph => n.pFont
    | .guideline => n.pGlyph.or n.pFont
    | .lib => n.pGlyph.or (n.pLayer.or n.pFont)
    | _ => n.pGlyph

/-- reading every accessor of `x` fills its caches: a font caches nothing, a leaf caches layer, layer set,
font and dispatcher, the others the dispatcher only -/
def fill (h : Heap) (x : Id) : Heap :=
  h.upd x fun n =>
    if n.kind = .font then n
    else if n.kind.isLeaf then
      { n with pLayer := layerOf h x, pLayerSet := layerSetOf h x, pFont := fontOf h x, disp := dispOf h x }
    else { n with disp := dispOf h x }

/-- what `endSelfNotificationObservation` leaves of the references -/
def Node.cleared (n : Node) : Node :=
  { n with pGlyph := none, pLayer := none, pLayerSet := none, pFont := none, disp := none }

def Heap.clear (h : Heap) (x : Id) : Heap := h.upd x Node.cleared

/-! ### Registrations -/

def Heap.addReg (h : Heap) (r : Reg) : Heap :=
  if r ∈ h.regs then h else { h with regs := h.regs ++ [r] }

/-- `x.addObserver(o, …, name)` for each name: through `x`'s dispatcher, nothing without one -/
def observe (h : Heap) (x o : Id) (names : List NName) : Heap :=
  match dispOf h x with
  | none => h
  | some c => names.foldl (fun h nm => h.addReg ⟨c, o, x, nm⟩) h

/-- `x.removeObserver(o, name)` for each name -/
def unobserve (h : Heap) (x o : Id) (names : List NName) : Heap :=
  match dispOf h x with
  | none => h
  | some c => { h with regs := h.regs.filter fun r => ¬ (r.centre = c ∧ r.observer = o ∧ r.observable = x ∧ r.name ∈ names) }

/-- the names a container registers for on a child of a kind (`beginSelf…NotificationObservation`) -/
def tableNames : Kind → Kind → List NName
  | .glyph, .contour => [.contourChanged]
  | .glyph, .component => [.componentChanged, .componentBaseGlyphDataChanged]
  | .glyph, .anchor => [.anchorChanged]
  | .glyph, .guideline => [.guidelineChanged]
  | .glyph, .lib => [.libChanged]
  | .glyph, .image => [.imageChanged, .imageDataChanged]
  | .layer, .glyph => [.glyphChanged, .glyphNameChanged, .glyphUnicodesChanged]
  | .layer, .lib => [.libChanged]
  | .layerSet, .layer => [.layerChanged, .layerNameChanged]
  | .font, .layer => [.layerGlyphAdded, .layerGlyphDeleted, .layerGlyphNameChanged]
  | .font, .layerSet => [.layerSetChanged, .layerSetLayerAdded, .layerSetLayerWillBeDeleted]
  | .font, .guideline => [.guidelineChanged]
  | .font, .lib => [.libChanged]
  | _, _ => []

def namesFor (h : Heap) (o x : Id) : List NName :=
  match h.kindOf o, h.kindOf x with
  | some ko, some kx => tableNames ko kx
  | _, _ => []

/-- the name of the notification the `dirty` setter posts -/
def changedName : Kind → NName
  | .font => .fontChanged | .layerSet => .layerSetChanged | .layer => .layerChanged | .glyph => .glyphChanged
  | .contour => .contourChanged | .component => .componentChanged | .anchor => .anchorChanged
  | .guideline => .guidelineChanged | .image => .imageChanged | .lib => .libChanged

/-! ### Dirty flags and their propagation through the registrations -/

def Heap.isDirty (h : Heap) (x : Id) : Bool := x ∈ h.dirty

def Heap.setDirty (h : Heap) (x : Id) : Heap := if x ∈ h.dirty then h else { h with dirty := x :: h.dirty }

/-- `s` posts its `*.Changed` notification: every observer registered for it on `s` runs its callback
(`_contourChanged`, `_glyphDirtyStateChange`, `_layerDirtyStateChange`, `_objectDirtyStateChange` …),
which raises the observer's flag and makes it post in turn.  Returns the senders, in posting order.
`fuel` bounds the nesting (the tree is five levels deep). -/
def post : Nat → Heap → Id → Heap × List Id
  | 0, h, _ => (h, [])
  | fuel + 1, h, s =>
    match dispOf h s, h.kindOf s with
    | some c, some ks =>
      let obs := h.regs.filter fun r => r.centre = c ∧ r.observable = s ∧ r.name = changedName ks ∧ r.observer ≠ s
      obs.foldl (fun (acc : Heap × List Id) r =>
        -- Font._objectDirtyStateChange looks at the sender's flag; every other callback is unconditional
        if h.kindOf r.observer = some .font ∧ ks = .layerSet ∧ ¬ acc.1.isDirty s then acc
        else
          let res := post fuel (acc.1.setDirty r.observer) r.observer
          (res.1, acc.2 ++ res.2)) (h, [s])
    | _, _ => (h, [])

def FUEL : Nat := 8

/-- `x.dirty = True` on a container -/
def markPost (h : Heap) (x : Id) : Heap × List Id := post FUEL (h.setDirty x) x

def mark (h : Heap) (x : Id) : Heap := (markPost h x).1

/-! ### Attaching -/

/-- a new object built by its parent's `instantiate…` (the constructor receives the parent, observes
itself; the parent then begins its observation and lists it) -/
def spawn (h : Heap) (p : Id) (n : Node) : Heap :=
  let x := h.next
  let h := h.alloc n
  let h := observe h x x [.all]
  let h := observe h x p (namesFor h p x)
  h.addKid p x

/-- `Glyph.instantiateContour/Component/Anchor/Guideline/Image/Lib` + insertion -/
def spawnInGlyph (h : Heap) (g : Id) (k : Kind) : Heap := spawn h g { kind := k, pGlyph := some g }

/-- `Glyph.insertX(index, x)` for an accepted detached `x` -/
def attachChild (h : Heap) (g x : Id) : Heap :=
  let h := h.upd x fun n => { n with pGlyph := some g, pLayer := none, pLayerSet := none, pFont := none }
  let h := observe h x x [.all]
  let h := observe h x g (namesFor h g x)
  h.addKid g x

/-- `Font.insertGuideline(index, x)` for an accepted detached guideline -/
def attachFontGuideline (h : Heap) (f x : Id) : Heap :=
  let h := h.upd x fun n => { n with pFont := some f }
  let h := observe h x x [.all]
  let h := observe h x f (namesFor h f x)
  h.addKid f x

/-! ### Detaching -/

/-- the child's own `endSelfNotificationObservation` -/
def endSelf (h : Heap) (x : Id) : Heap := (unobserve h x x [.all]).clear x

/-- `Glyph.endSelfContour/Component/Anchor/GuidelineNotificationObservation(x)` -/
def detachChild (h : Heap) (g x : Id) : Heap :=
  if glyphOf h x ≠ some g then h           -- let go earlier; may belong to another glyph by now
  else endSelf (unobserve h x g (namesFor h g x)) x

/-- `endSelfLib/ImageNotificationObservation` of a glyph, layer or font -/
def detachSingleton (h : Heap) (p x : Id) : Heap :=
  match dispOf h x with
  | none => h
  | some _ => endSelf (unobserve h x p (namesFor h p x)) x

/-- `Glyph.endSelfNotificationObservation` (reached through `Layer.endSelfGlyphNotificationObservation`) -/
def endGlyph (h : Heap) (l g : Id) : Heap :=
  match dispOf h g with
  | none => h
  | some _ =>
    let h := unobserve h g l (namesFor h l g)
    let h := (h.kidsOf g).foldl (fun h k =>
      match h.kindOf k with
      | some .image | some .lib => detachSingleton h g k
      | some _ => detachChild h g k
      | none => h) h
    endSelf h g

/-- the layer lets go of the glyph object it lists: `_deleteGlyph`, or `_insertGlyph` over it -/
def killGlyph (h : Heap) (l g : Id) : Heap := (endGlyph h l g).unlist l g

/-- `LayerSet.__delitem__` up to the bookkeeping: the font's and the layer set's observations of the
layer end, then `Layer.endSelfNotificationObservation` -/
def killLayer (h : Heap) (s l : Id) : Heap :=
  let h := match h.storedFont s with
    | some f => unobserve h l f (namesFor h f l)
    | none => h
  match dispOf h l with
  | none => h.unlist s l
  | some _ =>
    let h := unobserve h l s (namesFor h s l)
    let h := (h.kidsOf l).foldl (fun h k =>
      match h.kindOf k with
      | some .glyph => endGlyph h l k
      | some .lib => detachSingleton h l k
      | _ => h) h
    (endSelf h l).unlist s l

/-! ### Operations -/

inductive Op where
  | newFont
  | openFont (layers : List (String × List String))
  | newLayer (f : Id) (name : String)
  | delLayer (f : Id) (name : String)
  | renameLayer (l : Id) (name : String)
  | newGlyph (l : Id) (name : String)
  | getGlyph (l : Id) (name : String) (spec : List Nat)
  | delGlyph (l : Id) (name : String)
  | renameGlyph (g : Id) (name : String)
  | insertGlyph (l src : Id) (name : Option String)
  | new (k : Kind)
  | newGlyphObj
  | insert (p x : Id)
  | remove (p x : Id)
  | clear (p : Id) (role : Kind)
  | clearAll (g : Id)
  | setList (p : Id) (role : Kind) (xs : List Id)
  | touch (p : Id) (what : Kind)
  | mutate (x : Id)
  | clean
  | dump
deriving Repr

inductive Res where
  | ok
  | id (i : Id)
  | err (e : Err)
  | mut (posted : List Id)
deriving DecidableEq, Repr

/-- `LayerSet.newLayer` with the font's reaction to `LayerSet.LayerAdded` -/
def addLayer (h : Heap) (f s : Id) (name : String) : Heap :=
  let l := h.next
  let h := spawn h s { kind := .layer, pLayerSet := some s }
  let h := h.setName l name
  observe h l f (namesFor h f l)

def newFontCore (h : Heap) : Heap :=
  let f := h.next
  let h := h.alloc { kind := .font }
  let h := observe h f f [.all]
  spawn h f { kind := .layerSet, pFont := some f }

/-- the glyph object a layer builds and stores under `name`: `Layer.instantiateGlyphObject` (the constructor
receives the layer and copies its layer set and font) + `_insertGlyph`, which first lets go of a different glyph
object stored under that name.  (The code builds the new object before it lets go of the old one; the two
steps do not touch the same objects, the model does them in the other order.) -/
def addGlyph (h : Heap) (l : Id) (name : String) : Heap :=
  let h := match h.findNamed l .glyph name with
    | some r => killGlyph h l r
    | none => h
  let g := h.next
  let h := spawn h l { kind := .glyph, pLayer := some l, pLayerSet := h.storedLayerSet l,
                       pFont := (h.storedLayerSet l).bind h.storedFont }
  let h := h.setName g name
  h.dropUnloaded l name

def spawnMany (h : Heap) (g : Id) (k : Kind) : Nat → Heap
  | 0 => h
  | n + 1 => spawnMany (spawnInGlyph h g k) g k n

/-- children in the harness' numbering order: contours, components, anchors, guidelines, image, lib -/
def spawnChildren (h : Heap) (g : Id) (spec : List Nat) : Heap :=
  let get (i : Nat) := spec.getD i 0
  let h := spawnMany h g .contour (get 0)
  let h := spawnMany h g .component (get 1)
  let h := spawnMany h g .anchor (get 2)
  let h := spawnMany h g .guideline (get 3)
  let h := spawnMany h g .image (get 4)
  spawnMany h g .lib (get 5)

/-- `glyph.image` / `glyph.lib` / `layer.lib` / `font.lib`: built on first access -/
def ensure (h : Heap) (p : Id) (k : Kind) : Heap :=
  match h.kidOfKind p k with
  | some _ => h
  | none =>
    match h.kindOf p with
    | some .glyph => spawnInGlyph h p k
    | some .layer => spawn h p { kind := k, pLayer := some p }
    | some .font => spawn h p { kind := k, pFont := some p }
    | _ => h

/-- `Glyph.removeX(x)` after the membership test -/
def removeChild (h : Heap) (g x : Id) : Heap :=
  mark (detachChild (h.unlist g x) g x) g

/-- `Font.removeGuideline(x)` after the membership test -/
def removeFontGuideline (h : Heap) (f x : Id) : Heap :=
  mark (detachSingleton (h.unlist f x) f x) f

def removeAny (h : Heap) (p x : Id) : Heap :=
  if h.kindOf p = some .font then removeFontGuideline h p x else removeChild h p x

def clearRole (h : Heap) (p : Id) (role : Kind) : Heap :=
  (h.kidsOfKind p role).foldl (fun h x => removeAny h p x) h

/-- the checks of `Glyph.insertX` / `Font.insertGuideline`, then the insertion -/
def insertStep (h : Heap) (p x : Id) : Heap × Res :=
  match h.kindOf p, h.get x with
  | some .glyph, some nx =>
    if ¬ nx.kind.isChild then (h, .err .noSuchObject)
    else if x ∈ h.kidsOf p then (h, .err .assertionError)
    else if nx.pGlyph.isSome then (h, .err .assertionError)             -- belongs to another glyph
    else if nx.kind = .guideline ∧ (fontOf h x).isSome then (h, .err .assertionError)   -- belongs to a font
    else (mark (attachChild h p x) p, .ok)
  | some .font, some nx =>
    if nx.kind ≠ .guideline then (h, .err .noSuchObject)
    else if (fontOf h x).isSome then (h, .err .assertionError)          -- another font's, or already this one's
    else if nx.pGlyph.isSome then (h, .err .assertionError)             -- belongs to a glyph
    else (mark (attachFontGuideline h p x) p, .ok)
  | _, _ => (h, .err .noSuchObject)

def insertAll (h : Heap) (p : Id) : List Id → Heap × Res
  | [] => (h, .ok)
  | x :: xs =>
    match insertStep h p x with
    | (h', .ok) => insertAll h' p xs
    | r => r

def cacheAll (h : Heap) : Heap := (List.range h.next).foldl fill h

def layerSetOfFont (h : Heap) (f : Id) : Option Id :=
  if h.kindOf f = some .font then h.kidOfKind f .layerSet else none

/-- a layer that still belongs to a layer set (operations on a deleted layer are outside the domain) -/
def liveLayer (h : Heap) (l : Id) : Bool := h.kindOf l = some .layer ∧ (h.storedLayerSet l).isSome

/-- `Glyph.clear`: the four roles are cleared; `clearImage` resets an existing image object, which dirties
the glyph -/
def clearAllCore (h : Heap) (g : Id) : Heap :=
  let h := clearRole (clearRole (clearRole (clearRole h g .contour) g .component) g .anchor) g .guideline
  if (h.kidOfKind g .image).isSome then mark h g else h

/-- `glyph.anchors = …`, `glyph.guidelines = …`, `font.guidelines = …` -/
def setListOK : Option Kind → Kind → Bool
  | some .glyph, role => role = .anchor ∨ role = .guideline
  | some .font, role => role = .guideline
  | _, _ => false

/-- `glyph.image`, `glyph.lib`, `layer.lib`, `font.lib` -/
def touchOK : Option Kind → Kind → Bool
  | some .glyph, what => what = .image ∨ what = .lib
  | some .layer, what => what = .lib
  | some .font, what => what = .lib
  | _, _ => false

def step (h : Heap) : Op → Heap × Res
  | .newFont =>
    let f := h.next
    let h := newFontCore h
    let s := f + 1
    let h := addLayer h f s "public.default"
    let h := h.setDirty (s + 1)
    -- the harness reads `font.lib` at once (the glyph order bookkeeping would build it lazily)
    (ensure (mark h s) f .lib, .id f)
  | .openFont layers =>
    let f := h.next
    let h := newFontCore h
    let s := f + 1
    let h := layers.foldl (fun h ln =>
      let l := h.next
      let h := addLayer h f s ln.1
      { h with unloaded := AL.set h.unloaded l ln.2 }) h
    (ensure h f .lib, .id f)
  | .newLayer f name =>
    match layerSetOfFont h f with
    | none => (h, .err .noSuchObject)
    | some s =>
      match h.findNamed s .layer name with
      | some _ => (h, .err .keyError)
      | none =>
        let l := h.next
        let h := addLayer h f s name
        (mark (h.setDirty l) s, .id l)
  | .delLayer f name =>
    match layerSetOfFont h f with
    | none => (h, .err .noSuchObject)
    | some s =>
      match h.findNamed s .layer name with
      | none => (h, .err .keyError)
      | some l => (mark (killLayer h s l) s, .ok)
  | .renameLayer l name =>
    if h.kindOf l ≠ some .layer then (h, .err .noSuchObject)
    else if h.nameOf l = name then (h, .ok)
    else (mark (h.setName l name) l, .ok)
  | .newGlyph l name =>
    if h.kindOf l ≠ some .layer then (h, .err .noSuchObject)
    else if ¬ liveLayer h l then (h, .err .detached)
    else
      let g := h.next
      let h := addGlyph h l name
      (mark (h.setDirty g) l, .id g)
  | .getGlyph l name spec =>
    if h.kindOf l ≠ some .layer then (h, .err .noSuchObject)
    else if ¬ liveLayer h l then (h, .err .detached)
    else
      match h.findNamed l .glyph name with
      | some g => (h, .id g)
      | none =>
        if name ∈ h.unloadedOf l then
          let g := h.next
          let h := addGlyph h l name
          (spawnChildren h g spec, .id g)
        else (h, .err .keyError)
  | .delGlyph l name =>
    if h.kindOf l ≠ some .layer then (h, .err .noSuchObject)
    else if ¬ liveLayer h l then (h, .err .detached)
    else
      match h.findNamed l .glyph name with
      | some g => (mark (killGlyph h l g) l, .ok)
      | none =>
        if name ∈ h.unloadedOf l then (mark (h.dropUnloaded l name) l, .ok)
        else (h, .err .keyError)
  | .renameGlyph g name =>
    if h.kindOf g ≠ some .glyph then (h, .err .noSuchObject)
    else if h.nameOf g = name then (h, .ok)
    else
      let h := h.setName g name
      match dispOf h g, h.storedLayer g with
      | some _, some l =>
        -- Layer._glyphNameChange: re-key; a different glyph object under the new name is let go
        let h := match (h.kidsOf l).find? fun x => h.kindOf x = some .glyph ∧ h.nameOf x = name ∧ x ≠ g with
          | some r => killGlyph h l r
          | none => h
        (mark (h.dropUnloaded l name) g, .ok)
      | _, _ => (h.setDirty g, .ok)
  | .insertGlyph l src name =>
    if h.kindOf l ≠ some .layer ∨ h.kindOf src ≠ some .glyph then (h, .err .noSuchObject)
    else if ¬ liveLayer h l then (h, .err .detached)
    else
      let nm := name.getD (h.nameOf src)
      let counts := [Kind.contour, .component, .anchor, .guideline].map fun k => (h.kidsOfKind src k).length
      let g := h.next
      let h := addGlyph h l nm
      let h := mark (h.setDirty g) l
      let h := spawnChildren h g (counts ++ [1, 1])
      let h := ensure (ensure h src .image) src .lib
      (mark h g, .id g)
  | .new k =>
    if k.isChild then (h.alloc { kind := k }, .id h.next) else (h, .err .noSuchObject)
  | .newGlyphObj => (h.alloc { kind := .glyph }, .id h.next)
  | .insert p x => insertStep h p x
  | .remove p x =>
    match h.kindOf p, h.kindOf x with
    | some .glyph, some kx =>
      if ¬ kx.isChild then (h, .err .noSuchObject)
      else if x ∈ h.kidsOf p then (removeChild h p x, .ok)
      else (h, .err (if kx = .contour then .indexError else .valueError))
    | some .font, some kx =>
      if kx ≠ .guideline then (h, .err .noSuchObject)
      else if x ∈ h.kidsOf p then (removeFontGuideline h p x, .ok)
      else (h, .err .valueError)
    | _, _ => (h, .err .noSuchObject)
  | .clear p role =>
    match h.kindOf p with
    | some .glyph => if role.isChild then (clearRole h p role, .ok) else (h, .err .noSuchObject)
    | some .font => if role = .guideline then (clearRole h p role, .ok) else (h, .err .noSuchObject)
    | _ => (h, .err .noSuchObject)
  | .clearAll g =>
    if h.kindOf g ≠ some .glyph then (h, .err .noSuchObject)
    else
      (clearAllCore h g, .ok)
  | .setList p role xs =>
    if ¬ setListOK (h.kindOf p) role ∨ ¬ xs.all (fun x => h.kindOf x = some role) then (h, .err .noSuchObject)
    else insertAll (clearRole h p role) p xs
  | .touch p what =>
    if ¬ touchOK (h.kindOf p) what then (h, .err .noSuchObject)
    else
      let h := ensure h p what
      match h.kidOfKind p what with
      | some x => (h, .id x)
      | none => (h, .err .noSuchObject)
  | .mutate x =>
    match h.kindOf x with
    | none => (h, .err .noSuchObject)
    | some k =>
      if k.isLeaf then let r := post FUEL h x; (r.1, .mut r.2)
      else let r := markPost h x; (r.1, .mut r.2)
  | .clean => ({ h with dirty := [] }, .mut [])
  | .dump => (cacheAll h, .ok)

def run (h : Heap) (ops : List Op) : Heap := ops.foldl (fun h op => (step h op).1) h

end Parents
end DefconModel
