/-
M-Repr, part 3: USER HOLDS and DISABLES (M-Notify's hold semantics reduced to what matters for caches).

What is modelled (file:function → here)
  tools/notifications.py  postNotification, the observer-independent part: a post by an observable that is
        disabled is dropped, a post by an observable that is held is queued (nothing is delivered, not even to
        the object's own `selfNotificationCallback`)                                  → `blk`, the `…H` routes
  holdNotifications / releaseHeldNotifications (counted, key (None, observable, None)) → `.hold`, `.release`, `flush`
  disableNotifications / enableNotifications (counted)                                 → `.disable`, `.enable`
  objects/base.py  holdNotifications … enableNotifications: no-ops without a dispatcher
  objects/contour.py  reverse: `destroyRepresentation("defcon.contour.area")` and the read of `self.clockwise`
        that follows are DIRECT calls - they happen whether or not the contour's notifications are held;
        move: the patch of the two bounds entries and the destruction of the other `PointsChanged`
        representations are direct calls too                                          → `directH`, `doCmoveH`

A queued post is re-posted at the release that brings the count to zero, through the routes and the holds
of THAT moment.  Python queues and re-posts the notifications of one method one by one; the model keeps them
as one unit `(poster, names)`: the evictions are the same, because whether a post is relayed depends on the
presence of a name in the list only (`relays`, `contains`).

Domain: while any hold or disable is in force only requests, cache-API calls and the *inner* mutators
(point-list / attribute mutators of contours and components, glyph attribute setters, groups mutators,
`Contour.move`) are modelled; a structural operation answers `(err held)`.
-/
import DefconModel.Repr

namespace DefconModel
namespace Repr

section Inner
variable {V : Type}

/-- mutators that rewrite content cells and post, without moving objects between glyphs, without changing a
base-glyph reference and without changing which glyph a name denotes -/
def Op.isInner : Op → Bool
  | .cmut _ _ => true
  | .kmut _ _ => true
  | .gmut _ _ => true
  | .gset _ => true
  | .touch _ _ => true
  | _ => false

/-- the stamps after the call (no cache is touched) -/
def bumpOf (w : World V) : Op → World V
  | .cmut cid meth =>
    match AL.get? contourMutators meth with
    | none => w
    | some cell =>
      match hostOfContour w.glyphs cid with
      | some h => tick { w with glyphs := updGlyph w.glyphs h.1 (mapContours cid (bumpContour w.clock cell)) }
      | none =>
        if w.looseC.any (fun c => c.id = cid) then
          tick { w with looseC := w.looseC.map fun c => if c.id = cid then bumpContour w.clock cell c else c }
        else w
  | .kmut kid meth =>
    match AL.get? compMutators meth with
    | none => w
    | some cell =>
      match hostOfComp w.glyphs kid with
      | some h => tick { w with glyphs := updGlyph w.glyphs h.1 (mapComps kid (bumpComp w.clock cell)) }
      | none =>
        if w.looseK.any (fun k => k.id = kid) then
          tick { w with looseK := w.looseK.map fun k => if k.id = kid then bumpComp w.clock cell k else k }
        else w
  | .gmut g meth =>
    if !glyphMutators.contains meth then w else
    if !AL.contains w.glyphs g then w else
    { tick w with glyphs := updGlyph (tick w).glyphs g (fun r => { r with attr := w.clock }) }
  | .gset meth =>
    if !groupsMutators.contains meth then w else tick { w with groupsVer := w.clock }
  | _ => w

/-- everything the call delivers, in the structure after the stamps were set -/
def evOf (T : Tables) (w : World V) : Op → List (Obj × String)
  | .cmut cid meth =>
    match AL.get? contourMutators meth with
    | none => []
    | some _ =>
      match hostOfContour w.glyphs cid with
      | some h => contourDeliv w.fuel T (bumpOf w (.cmut cid meth)).glyphs h.1 cid (T.postsOf "Contour" meth)
      | none => []
  | .kmut kid meth =>
    match AL.get? compMutators meth with
    | none => []
    | some _ =>
      match hostOfComp w.glyphs kid with
      | some h => compDeliv w.fuel T (bumpOf w (.kmut kid meth)).glyphs h.1 kid (T.postsOf "Component" meth)
      | none => []
  | .gmut g meth =>
    if !glyphMutators.contains meth then [] else
    if !AL.contains w.glyphs g then [] else
    glyphDeliv w.fuel T (bumpOf w (.gmut g meth)).glyphs g (T.postsOf "Glyph" meth)
  | .gset meth =>
    if !groupsMutators.contains meth then [] else (T.postsOf "Groups" meth).map fun n => (Obj.groups, n)
  | .touch o meth => postFrom T w o (T.postsOf o.cls meth)
  | _ => []


end Inner

/-! ### routes under holds -/

/-- what a post leads to: evictions delivered now, and posts intercepted at a held / disabled observable -/
structure Out where
  ev : List (Obj × String) := []
  q : List (Obj × List String) := []
deriving Repr, Inhabited

def Out.app (a b : Out) : Out := ⟨a.ev ++ b.ev, a.q ++ b.q⟩

def Out.join (l : List Out) : Out := ⟨l.flatMap Out.ev, l.flatMap Out.q⟩

def compRelayH (blk : Obj → Bool) (rec : String → List String → Out) (T : Tables) (h : String) (kid : Nat)
    (cn : List String) : Out :=
  if blk (.comp kid) then ⟨[], [(.comp kid, cn)]⟩ else
  (Out.mk (cn.map fun x => (Obj.comp kid, x)) []).app
    ((if cn.contains "Component.Changed" then rec h (T.postsOf "Glyph" "_componentChanged") else {}).app
     (if cn.contains "Component.BaseGlyphDataChanged" then
        rec h (T.postsOf "Glyph" "_componentBaseGlyphDataChanged") else {}))

def glyphDelivH (blk : Obj → Bool) : Nat → Tables → Layer → String → List String → Out
  | 0, _, _, _, _ => {}
  | n + 1, T, gs, a, ns =>
    if blk (.glyph a) then ⟨[], [(.glyph a, ns)]⟩ else
    (Out.mk (ns.map fun x => (Obj.glyph a, x)) []).app
      (if relays ns then
        Out.join ((watchers gs a).map fun p =>
          compRelayH blk (glyphDelivH blk n T gs) T p.1 p.2
            (T.postsOf "Component" "baseGlyphDataChangedNotificationCallback"))
       else {})

def compDelivH (blk : Obj → Bool) (n : Nat) (T : Tables) (gs : Layer) (h : String) (kid : Nat) (cn : List String) : Out :=
  compRelayH blk (glyphDelivH blk n T gs) T h kid cn

def contourDelivH (blk : Obj → Bool) (n : Nat) (T : Tables) (gs : Layer) (h : String) (cid : Nat)
    (ns : List String) : Out :=
  if blk (.contour cid) then ⟨[], [(.contour cid, ns)]⟩ else
  (Out.mk (ns.map fun x => (Obj.contour cid, x)) []).app
    (if ns.contains "Contour.Changed" then glyphDelivH blk n T gs h (T.postsOf "Glyph" "_contourChanged") else {})

section HoldStep
variable {V : Type}

/-- `postFrom` under holds -/
def postFromH (blk : Obj → Bool) (T : Tables) (w : World V) (o : Obj) (ns : List String) : Out :=
  match o with
  | .contour cid =>
    match hostOfContour w.glyphs cid with
    | some h => contourDelivH blk w.fuel T w.glyphs h.1 cid ns
    | none => {}
  | .comp kid =>
    match hostOfComp w.glyphs kid with
    | some h => compDelivH blk w.fuel T w.glyphs h.1 kid ns
    | none => {}
  | .glyph a => if AL.contains w.glyphs a then glyphDelivH blk w.fuel T w.glyphs a ns else {}
  | .groups => if blk .groups then ⟨[], [(.groups, ns)]⟩ else ⟨ns.map fun n => (Obj.groups, n), []⟩

/-- `evOf` under holds -/
def evOfH (blk : Obj → Bool) (T : Tables) (w : World V) : Op → Out
  | .cmut cid meth =>
    match AL.get? contourMutators meth with
    | none => {}
    | some _ =>
      match hostOfContour w.glyphs cid with
      | some h => contourDelivH blk w.fuel T (bumpOf w (.cmut cid meth)).glyphs h.1 cid (T.postsOf "Contour" meth)
      | none => {}
  | .kmut kid meth =>
    match AL.get? compMutators meth with
    | none => {}
    | some _ =>
      match hostOfComp w.glyphs kid with
      | some h => compDelivH blk w.fuel T (bumpOf w (.kmut kid meth)).glyphs h.1 kid (T.postsOf "Component" meth)
      | none => {}
  | .gmut g meth =>
    if !glyphMutators.contains meth then {} else
    if !AL.contains w.glyphs g then {} else
    glyphDelivH blk w.fuel T (bumpOf w (.gmut g meth)).glyphs g (T.postsOf "Glyph" meth)
  | .gset meth =>
    if !groupsMutators.contains meth then {} else postFromH blk T w .groups (T.postsOf "Groups" meth)
  | .touch o meth => postFromH blk T w o (T.postsOf o.cls meth)
  | _ => {}

/-- a font's layer together with the user's holds and disables -/
structure HWorld (V : Type) where
  w : World V := {}
  /-- `_holds[(None, observable, None)]["count"]` -/
  holds : List (Obj × Nat) := []
  /-- `_disabled[(None, observable, None)]` -/
  disabled : List (Obj × Nat) := []
  /-- the queued posts of all holds, oldest first -/
  queue : List (Obj × List String) := []
deriving Inhabited

inductive HOp where
  | base (op : Op)
  | hold (o : Obj)
  | release (o : Obj)
  | disable (o : Obj)
  | enable (o : Obj)
deriving Repr, Inhabited

def HWorld.held (hw : HWorld V) (o : Obj) : Bool := AL.contains hw.holds o
def HWorld.dis (hw : HWorld V) (o : Obj) : Bool := AL.contains hw.disabled o
/-- posts of this observable do not go out now -/
def HWorld.blk (hw : HWorld V) (o : Obj) : Bool := hw.held o || hw.dis o
def HWorld.quiet (hw : HWorld V) : Bool := hw.holds.isEmpty && hw.disabled.isEmpty

/-- of the intercepted posts those of disabled observables are dropped, the others are queued -/
def HWorld.enqueue (hw : HWorld V) (q : List (Obj × List String)) : List (Obj × List String) :=
  hw.queue ++ q.filter fun p => !hw.dis p.1

/-- representations a method destroys by a direct `destroyRepresentation` call and reads again before it posts -/
def directNames (cls meth : String) : List String :=
  if cls = "Contour" && (meth = "reverse" || meth = "_set_clockwise") then ["defcon.contour.area"] else []

/-- the direct cache calls of a contour mutator whose notifications do not go out: without them the entries
would be evicted by the notifications anyway -/
def directH (P : Params V) (T : Tables) (hw : HWorld V) (w : World V) : Op → World V
  | .cmut cid meth =>
    if hw.blk (.contour cid) && attached w (.contour cid) && (AL.get? contourMutators meth).isSome then
      (directNames "Contour" meth).foldl (fun w nm =>
        if (facsOf T w.regs "Contour").any (fun p => p.1 = nm) && !acceptsKw nm then
          (getOne P T (setCache w (.contour cid) ((cacheOf w (.contour cid)).destroyName nm)) (.contour cid) nm none).1
        else w) w
    else w
  | _ => w

def stepInnerH (P : Params V) (T : Tables) (hw : HWorld V) (op : Op) : HWorld V × Res :=
  let out := evOfH hw.blk T hw.w op
  let w2 := applyDeliv T (bumpOf hw.w op) out.ev
  ({ hw with w := directH P T hw w2 op, queue := hw.enqueue out.q }, (step P T hw.w op).2)

/-- `Contour.move` while something is held: the patch and the direct destructions happen as always; the post of a
held contour is queued whole (released later it reaches the contour itself as well - the observer-specific disable of
`move` is long over) -/
def doCmoveH (P : Params V) (T : Tables) (hw : HWorld V) (cid : Nat) (dx dy : Int) : HWorld V × Res :=
  match hostOfContour hw.w.glyphs cid with
  | some h =>
    let w1 : World V := { hw.w with glyphs := updGlyph hw.w.glyphs h.1 (mapContours cid (shiftContour dx dy)) }
    let w2 := setCache w1 (.contour cid) (moveCache P (facsOf T w1.regs "Contour") (cacheOf w1 (.contour cid)) dx dy)
    if hw.blk (.contour cid) then
      ({ hw with w := w2, queue := hw.enqueue [(.contour cid, T.postsOf "Contour" "move")] }, .ok)
    else
      let ns := (T.postsOf "Contour" "move").filter fun n => n != "Contour.PointsChanged"
      let out := contourDelivH hw.blk w2.fuel T w2.glyphs h.1 cid ns
      ({ hw with w := applyDeliv T w2 out.ev, queue := hw.enqueue out.q }, .ok)
  | none =>
    let r := step P T hw.w (.cmove cid dx dy)
    ({ hw with w := r.1 }, r.2)

/-- re-post one released unit through the routes and holds of now -/
def repost (T : Tables) (hw : HWorld V) (p : Obj × List String) : HWorld V :=
  let out := postFromH hw.blk T hw.w p.1 p.2
  { hw with w := applyDeliv T hw.w out.ev, queue := hw.enqueue out.q }

/-- the count of `o` reached zero: its queued posts go out, oldest first -/
def flush (T : Tables) (hw : HWorld V) (o : Obj) : HWorld V :=
  let mine := hw.queue.filter fun p => p.1 = o
  let hw1 : HWorld V := { hw with holds := eraseAll hw.holds o, queue := hw.queue.filter fun p => p.1 ≠ o }
  mine.foldl (repost T) hw1

def hstep (P : Params V) (T : Tables) (hw : HWorld V) (hop : HOp) : HWorld V × Res :=
  match hop with
  | .hold o =>
    if !attached hw.w o then (hw, .ok) else
    ({ hw with holds := AL.set hw.holds o ((AL.get? hw.holds o).getD 0 + 1) }, .ok)
  | .release o =>
    if !attached hw.w o then (hw, .ok) else
    match AL.get? hw.holds o with
    | none => (hw, .err "KeyError")
    | some n => if n ≤ 1 then (flush T hw o, .ok) else ({ hw with holds := AL.set hw.holds o (n - 1) }, .ok)
  | .disable o =>
    if !attached hw.w o then (hw, .ok) else
    ({ hw with disabled := AL.set hw.disabled o ((AL.get? hw.disabled o).getD 0 + 1) }, .ok)
  | .enable o =>
    if !attached hw.w o then (hw, .ok) else
    match AL.get? hw.disabled o with
    | none => (hw, .err "KeyError")
    | some n =>
      if n ≤ 1 then ({ hw with disabled := eraseAll hw.disabled o }, .ok)
      else ({ hw with disabled := AL.set hw.disabled o (n - 1) }, .ok)
  | .base op =>
    if hw.quiet then
      let r := step P T hw.w op
      ({ hw with w := r.1 }, r.2)
    else if op.isInner then stepInnerH P T hw op
    else
      match op with
      | .cmove cid dx dy => doCmoveH P T hw cid dx dy
      | .get _ _ _ | .has _ _ _ | .keys _ | .destroy _ _ _ | .destroyAll _ =>
        let r := step P T hw.w op
        ({ hw with w := r.1 }, r.2)
      | _ => (hw, .err "held")

def hrun (P : Params V) (T : Tables) (hw : HWorld V) (ops : List HOp) : HWorld V :=
  ops.foldl (fun hw op => (hstep P T hw op).1) hw

end HoldStep

end Repr
end DefconModel
