/-
M-Replace: the final replace of `Font.save` at the level of the file-system calls it makes.

An in-place format conversion and every save over an existing path write the new UFO into a
temporary directory first (`overwritePath` in Lib/defcon/objects/font.py).  When everything is
written:

    asideDirectory = tempfile.mkdtemp(dir=dirname(overwritePath))
    try:
        asidePath = None
        if os.path.lexists(overwritePath):
            asidePath = join(asideDirectory, basename(overwritePath))
            shutil.move(overwritePath, asidePath)
        try:
            shutil.move(path, overwritePath)
        except Exception:
            if asidePath is not None:
                if os.path.isdir(overwritePath) and not os.path.islink(overwritePath):
                    shutil.rmtree(overwritePath, ignore_errors=True)
                elif os.path.lexists(overwritePath):
                    os.remove(overwritePath)
                shutil.move(asidePath, overwritePath)
            raise
    finally:
        shutil.rmtree(asideDirectory, ignore_errors=True)
    (outer finally)  shutil.rmtree(dirname(path))

M-SaveSteps treats "put aside / move in / put back" as atomic steps on UFO contents.  Here the
KIND of what lies at a path matters: a UFO is a directory (package) or a regular file (zip), the
move of the new UFO comes from another directory (the system's temporary directory, as a rule
another device, i.e. a copy) and can fail after a part has arrived (a torn move), and each of
`shutil.rmtree(…, ignore_errors=True)`, `os.remove` and `shutil.move` does something different on
a directory, on a file and on nothing.  Those semantics are ported below; contents are blobs.

Core Lean only.
-/
namespace DefconModel
namespace Replace

inductive Kind where
  | dir      -- a UFO package (or the beginning of one)
  | file     -- a UFO zip (or a truncated one)
deriving DecidableEq, Repr

/-- what is found at a path -/
structure Node where
  kind : Kind
  blob : Nat
  /-- trees that `shutil.move` put INSIDE this directory because it was in the way -/
  inside : List Nat := []
deriving DecidableEq, Repr

/-- the three paths the replace works with -/
inductive Path where
  | dest     -- `overwritePath`
  | temp     -- `path`: the freshly written UFO in its temporary directory
  | aside    -- `asidePath`, inside `asideDirectory`
deriving DecidableEq, Repr

structure FS where
  dest : Option Node := none
  temp : Option Node := none
  aside : Option Node := none
deriving DecidableEq, Repr

def FS.get (fs : FS) : Path → Option Node
  | .dest => fs.dest
  | .temp => fs.temp
  | .aside => fs.aside

def FS.set (fs : FS) (p : Path) (n : Option Node) : FS :=
  match p with
  | .dest => { fs with dest := n }
  | .temp => { fs with temp := n }
  | .aside => { fs with aside := n }

/-! ### the calls, as the standard library performs them -/

/-- `os.path.lexists(p)` -/
def lexists (fs : FS) (p : Path) : Bool := (fs.get p).isSome

/-- `os.path.isdir(p) and not os.path.islink(p)` (there are no links in this model) -/
def isDir (fs : FS) (p : Path) : Bool :=
  match fs.get p with
  | some n => n.kind = .dir
  | none => false

/-- `shutil.rmtree(p, ignore_errors=True)`: removes a directory tree.  On a regular file (and on
nothing) the call fails inside — and says nothing: the file stays. -/
def rmtreeIgnore (fs : FS) (p : Path) : FS := if isDir fs p then fs.set p none else fs

/-- `os.remove(p)`: removes a file; raises (`none`) for a directory and for nothing -/
def osRemove (fs : FS) (p : Path) : Option FS :=
  match fs.get p with
  | some n => if n.kind = .file then some (fs.set p none) else none
  | none => none

/-- `shutil.move(src, dst)`.  Onto nothing: the tree changes place.  Onto an existing DIRECTORY:
the source is moved *into* it.  A file onto an existing file: `os.rename` replaces it.  A directory
onto an existing file: `os.rename` refuses, the fall-back `copytree` finds the name taken and raises
(`FileExistsError`); nothing has moved. -/
def move (fs : FS) (src dst : Path) : Option FS :=
  match fs.get src with
  | none => none
  | some s =>
    match fs.get dst with
    | none => some ((fs.set dst (some s)).set src none)
    | some d =>
      match d.kind, s.kind with
      | .dir, _ => some ((fs.set dst (some { d with inside := d.inside ++ [s.blob] })).set src none)
      | .file, .file => some ((fs.set dst (some s)).set src none)
      | .file, .dir => none

/-! ### what can go wrong (one fault per save) -/

inductive Fault where
  | none
  /-- putting the destination aside fails; a rename inside one directory: nothing has moved -/
  | asideRaises
  /-- moving the new UFO in fails before anything has arrived -/
  | moveInRaises
  /-- … after a part of it has arrived: a node of the new UFO's kind holding `part` -/
  | moveInTorn (part : Nat)
  /-- … after all of it has arrived (the copy is complete, removing the source failed) -/
  | moveInCopied
deriving DecidableEq, Repr

/-- `shutil.move(path, overwritePath)` under the injected fault: the file system afterwards, and
whether the call returned -/
def moveIn (fs : FS) (f : Fault) : FS × Bool :=
  match f, fs.temp with
  | .moveInRaises, _ => (fs, false)
  | .moveInTorn part, some n => (fs.set .dest (some { kind := n.kind, blob := part }), false)
  | .moveInCopied, some n => (fs.set .dest (some n), false)
  | _, _ =>
    match move fs .temp .dest with
    | some fs' => (fs', true)
    | none => (fs, false)

/-- the first half of the `except` clause: remove whatever part of the new UFO arrived.
`none`: `os.remove` raised inside the handler. -/
def removeArrived (fs : FS) : Option FS :=
  if isDir fs .dest then some (rmtreeIgnore fs .dest)
  else if lexists fs .dest then osRemove fs .dest
  else some fs

structure Outcome where
  fs : FS
  raised : Bool
deriving DecidableEq, Repr

/-- both `finally` clauses: the aside directory goes with whatever is still in it, and so does the
temporary directory the new UFO was written into -/
def finish (fs : FS) (raised : Bool) : Outcome := ⟨{ fs with temp := none, aside := none }, raised⟩

/-- the final replace, with the way of removing a partial arrival as a parameter -/
def replaceWith (clean : FS → Option FS) (fs : FS) (f : Fault) : Outcome :=
  if lexists fs .dest then
    if f = .asideRaises then finish fs true
    else
      match move fs .dest .aside with
      | none => finish fs true
      | some fs1 =>
        match moveIn fs1 f with
        | (fs2, true) => finish fs2 false
        | (fs2, false) =>
          match clean fs2 with
          | none => finish fs2 true
          | some fs3 =>
            match move fs3 .aside .dest with
            | none => finish fs3 true
            | some fs4 => finish fs4 true
  else
    let r := moveIn fs f
    finish r.1 (!r.2)

/-- the final replace of `Font.save` -/
def replace (fs : FS) (f : Fault) : Outcome := replaceWith removeArrived fs f

end Replace
end DefconModel
