/-
M-Follow: how a component follows its base glyph (objects/component.py, the six notification callbacks
and `_beginBaseGlyphObservations` / `_beginLayerObservations`; objects/layer.py `newGlyph`, `insertGlyph`,
`__delitem__`, `_glyphNameChange`, `_insertGlyph`).

A component refers to its base glyph by NAME.  The base glyph is whatever glyph OBJECT the component's layer
files under that name at the moment; the component registers itself as an observer of that object (or, when
there is none, of the layer) and re-posts what it hears as `Component.BaseGlyphDataChanged` — the
notification class `Component` documents for "the data of my base glyph changed".

* The layer is a finite map name → glyph object; every glyph object has an outline-data token.
* A component is `(id, base name, what it observes)`.
* An operation of the layer or of a glyph posts its notifications; every component reacts with the callback
  it has registered for that notification AT THAT MOMENT (one callback per observer and notification: the
  registry of tools/notifications.py is keyed by observer).  A callback changes only the component itself, so
  the reactions of different components are independent and an operation is a map over the components.
* The observers of `Glyph.NameChanged` are the ones registered when the notification is posted (the center
  iterates over a copy of the registry): the layer first (`_glyphNameChange`, which re-files the glyph and posts
  `Layer.GlyphNameChanged`), then the components that watched the renamed object BEFORE the layer re-filed it.

Core Lean only.
-/
import DefconModel.Util.AL

namespace DefconModel
namespace Follow

/-- what a component observes -/
inductive Watch where
  /-- `_beginBaseGlyphObservations`: glyph object `o` (Glyph.NameChanged / ContoursChanged / ComponentsChanged) and
  the layer (Layer.GlyphWillBeDeleted, Layer.GlyphAdded, Layer.GlyphNameChanged) -/
  | glyph (o : Nat)
  /-- `_beginLayerObservations`: the layer only (Layer.GlyphNameChanged / GlyphAdded / GlyphDeleted) -/
  | layer
deriving DecidableEq, Repr, Inhabited

structure Comp where
  id : Nat
  base : String
  watch : Watch
deriving DecidableEq, Repr, Inhabited

abbrev Filed := List (String × Nat)

structure World where
  /-- the layer: name → glyph object -/
  filed : Filed := []
  /-- glyph object → token of its outline data (every object ever created keeps its entry) -/
  data : List (Nat × Nat) := []
  /-- the components attached to glyphs of the layer -/
  comps : List Comp := []
deriving Repr, Inhabited

/-- `del layer._glyphs[name]` -/
def unfile (f : Filed) (n : String) : Filed := f.filter (fun p => p.1 ≠ n)

def isFiled (f : Filed) (o : Nat) : Bool := f.any (fun p => p.2 = o)

/-- `beginSelfBaseGlyphNotificationObservation`: `if baseGlyph in layer: _beginBaseGlyphObservations() else:
_beginLayerObservations()` -/
def observe (f : Filed) (c : Comp) : Comp :=
  { c with watch := match AL.get? f c.base with
      | some o => .glyph o
      | none => .layer }

/-- `_endBaseGlyphObservations(); _beginBaseGlyphObservations()` resp. `_endLayerObservations();
_beginBaseGlyphObservations()`: observe the object that is filed under the base name NOW
(`layer[self.baseGlyph]`; the callbacks call it only right after that name has been filed) -/
def rebind (f : Filed) (c : Comp) : Comp :=
  match AL.get? f c.base with
  | some o => { c with watch := .glyph o }
  | none => c

/-- `Layer.GlyphAdded {name}` — `layerBaseGlyphReplacedNotificationCallback` while a glyph is watched,
`layerGlyphAddedNotificationCallback` while the layer is watched: same reaction -/
def onAdded (f : Filed) (n : String) (c : Comp) : Comp × Bool :=
  if n = c.base then (rebind f c, true) else (c, false)

/-- `Layer.GlyphNameChanged {oldValue, newValue}` — `layerBaseGlyphReplacedNotificationCallback` (reads
`newValue`) while a glyph is watched, `layerGlyphNameChangedNotificationCallback` while the layer is -/
def onLayerRenamed (f : Filed) (new : String) (c : Comp) : Comp × Bool :=
  if new = c.base then (rebind f c, true) else (c, false)

/-- `Layer.GlyphWillBeDeleted {name}` — registered only while a glyph is watched -/
def onWillDelete (n : String) (c : Comp) : Comp :=
  match c.watch with
  | .glyph _ => if n = c.base then { c with watch := .layer } else c
  | .layer => c

/-- `Layer.GlyphDeleted {name}` — registered only while the layer is watched -/
def onDeleted (n : String) (c : Comp) : Comp × Bool :=
  match c.watch with
  | .layer => (c, decide (n = c.base))
  | .glyph _ => (c, false)

/-- `Glyph.NameChanged` of object `o` — `baseGlyphNameChangedNotificationCallback` of the components that
watched `o` when the notification was posted (`was`): stop watching it, watch the layer, post -/
def onGlyphRenamed (was : Bool) (c : Comp) : Comp × Bool :=
  if was then ({ c with watch := .layer }, true) else (c, false)

/-- `del layer[n]`: `Layer.GlyphWillBeDeleted`, the removal, `Layer.GlyphDeleted` -/
def onDelete (n : String) (c : Comp) : Comp × Bool := onDeleted n (onWillDelete n c)

/-- `glyph.name = new` for glyph object `g`, re-filed by the layer as `f`: the layer's callback comes first and posts
`Layer.GlyphNameChanged`, then the components that watched `g` when `Glyph.NameChanged` was posted -/
def onRename (f : Filed) (g : Nat) (new : String) (c : Comp) : Comp × Bool :=
  let was := decide (c.watch = .glyph g)
  let r1 := onLayerRenamed f new c
  let r2 := onGlyphRenamed was r1.1
  (r2.1, r1.2 || r2.2)

/-- `Glyph.ContoursChanged` / `Glyph.ComponentsChanged` of object `o` — `baseGlyphDataChangedNotificationCallback`
of the components that watch `o`; a glyph that is not filed in a layer has no dispatcher: nobody hears it -/
def onEdit (f : Filed) (o : Nat) (c : Comp) : Comp × Bool := (c, isFiled f o && decide (c.watch = .glyph o))

/-- `component.baseGlyph = b` for component `i` -/
def onSetBase (f : Filed) (i : Nat) (b : String) (c : Comp) : Comp × Bool :=
  (if c.id = i then observe f { c with base := b } else c, false)

inductive Op where
  /-- an edit of the contours or components of glyph object `o` (`Glyph.ContoursChanged` /
  `Glyph.ComponentsChanged`); `d` = token of the outline afterwards -/
  | edit (o d : Nat)
  /-- `Layer.newGlyph(n)` (`d` = the empty outline) / `Layer.insertGlyph(src, n)` (`d` = the copied outline;
  `Layer.GlyphAdded` is held until the data has been copied): a NEW object `o` is filed under `n`, replacing
  what was there -/
  | newGlyph (n : String) (o d : Nat)
  /-- `del layer[n]` -/
  | delGlyph (n : String)
  /-- `layer[old].name = new` (onto an existing name: the glyph filed under `new` is replaced) -/
  | rename (old new : String)
  /-- a component with `baseGlyph = base` is attached to a glyph of the layer -/
  | addComp (id : Nat) (base : String)
  | removeComp (id : Nat)
  /-- `component.baseGlyph = base` -/
  | setBase (id : Nat) (base : String)
deriving DecidableEq, Repr, Inhabited

/-- the reaction of ONE component to an operation, and the layer / data after it.  `none` = the operation
is not applicable (unknown name, object not new, rename to the same name): nothing happens. -/
def react (w : World) : Op → Option (Filed × List (Nat × Nat) × (Comp → Comp × Bool))
  | .edit o d => some (w.filed, AL.set w.data o d, onEdit w.filed o)
  | .newGlyph n o d =>
    if (AL.get? w.data o).isSome then none else
    some (AL.set w.filed n o, AL.set w.data o d, onAdded (AL.set w.filed n o) n)
  | .delGlyph n =>
    match AL.get? w.filed n with
    | none => none
    | some _ => some (unfile w.filed n, w.data, onDelete n)
  | .rename old new =>
    match AL.get? w.filed old with
    | none => none
    | some g =>
      if old = new then none else
      some (AL.set (unfile w.filed old) new g, w.data, onRename (AL.set (unfile w.filed old) new g) g new)
  | .addComp _ _ => some (w.filed, w.data, fun c => (c, false))
  | .removeComp _ => some (w.filed, w.data, fun c => (c, false))
  | .setBase i b => some (w.filed, w.data, onSetBase w.filed i b)

/-- one operation: the world after it and the ids of the components that posted
`Component.BaseGlyphDataChanged` -/
def step (w : World) (op : Op) : World × List Nat :=
  match react w op with
  | none => (w, [])
  | some (f, d, r) =>
    let cs := w.comps.map (fun c => (r c).1)
    let cs := match op with
      | .addComp i b => if cs.any (fun c => c.id = i) then cs else cs ++ [observe f ⟨i, b, .layer⟩]
      | .removeComp i => cs.filter (fun c => c.id ≠ i)
      | _ => cs
    ({ filed := f, data := d, comps := cs }, (w.comps.filter (fun c => (r c).2)).map Comp.id)

def run (w : World) (ops : List Op) : World := ops.foldl (fun w op => (step w op).1) w

end Follow
end DefconModel
