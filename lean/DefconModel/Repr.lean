/-
M-Repr, part 2: a font's representation-bearing objects (contours, components, glyphs of one
layer, the groups object), their caches, the notification routes between them, and the public
operations that touch caches.  Core Lean only.

What is modelled (file:function → here)
  base.py  getRepresentation / destroyRepresentation / destroyAllRepresentations /
           hasCachedRepresentation / representationKeys / selfNotificationCallback /
           endSelfNotificationObservation (drops the cache)            → `step` (.get … .destroyAll), `evictObj`
  __init__.py registerRepresentationFactory (default settings)         → `.register`
  contour.py  every point-list / attribute mutator                     → `.cmut` (posts from the regenerated table)
              move (patches bounds in place, evicts the rest itself)    → `.cmove`
  component.py transformation / identifier / move                      → `.kmut`
              baseGlyph setter (observation switching)                  → `.ksetBase`
              the four layer / base-glyph switching callbacks           → `.newGlyph`, `.delGlyph`, `.rename`
              baseGlyphDataChangedNotificationCallback                  → `glyphDeliv`
  glyph.py    _contourChanged / _componentChanged /
              _componentBaseGlyphDataChanged                            → `contourDeliv`, `compRelay`
              insert/remove contour / component, attribute setters      → `.insContour` … `.gmut`
  groups.py / base.py BaseDictObject mutators                          → `.gset`
  tools/representations.py: the two glyph→group factories request the side tables → `.get` on groups

Contents are abstract: every cell carries a version stamp taken from a clock (a contour's point
list carries a stamp *and* a translation, because `Contour.move` changes only the latter).
Factories are a parameter `f` applied to the `view` (the stamps a factory can read), see
Spec/Repr.lean.  Which notifications a method posts comes from `Tables` (regenerated from the
source); who listens to what is written here and checked against `Tables.observes` by
`Props.C03.coverage_holds`.
-/
import DefconModel.ReprCore

namespace DefconModel
namespace Repr

/-- glyphs are identified by their current name (the layer is a name-keyed dict, as `Layer._glyphs`);
contours and components by an id the harness gives the Python object -/
inductive Obj where
  | contour (id : Nat)
  | comp (id : Nat)
  | glyph (name : String)
  | groups
deriving DecidableEq, Repr, Inhabited

def Obj.cls : Obj → String
  | .contour _ => "Contour"
  | .comp _ => "Component"
  | .glyph _ => "Glyph"
  | .groups => "Groups"

/-- which base-glyph observations a component holds (component.py 292-346) -/
inductive Watch where
  /-- none (baseGlyph is None or the component has no dispatcher) -/
  | none
  /-- `_beginBaseGlyphObservations`: on the glyph object currently named `baseGlyph` (NameChanged /
  ContoursChanged / ComponentsChanged) and on the layer for GlyphWillBeDeleted -/
  | base
  /-- `_beginLayerObservations`: on the layer for GlyphNameChanged / GlyphAdded -/
  | layer
deriving DecidableEq, Repr, Inhabited

structure ContourS where
  id : Nat
  /-- version of the point list up to translation -/
  ver : Nat
  ox : Int
  oy : Int
  /-- version of the remaining attributes (identifier) -/
  attr : Nat
deriving DecidableEq, Repr, Inhabited

structure CompS where
  id : Nat
  base : Option String
  /-- version of (baseGlyph, transformation) -/
  data : Nat
  attr : Nat
  watch : Watch
deriving DecidableEq, Repr, Inhabited

structure GlyphS where
  /-- version of the glyph's own attributes (name, width, …) -/
  attr : Nat
  contours : List ContourS
  comps : List CompS
deriving DecidableEq, Repr, Inhabited

abbrev Layer := List (String × GlyphS)

structure World (V : Type) where
  clock : Nat := 1
  /-- nesting fuel for outlines and notification cascades; never changes -/
  fuel : Nat := 64
  glyphs : Layer := []
  /-- contours / components that belong to no glyph (no dispatcher: nothing is cached) -/
  looseC : List ContourS := []
  looseK : List CompS := []
  groupsVer : Nat := 0
  /-- `registerRepresentationFactory` calls made so far: (class, name, destructive spec) -/
  regs : List (String × String × Destr) := []
  /-- `_representations` of every object that has a dispatcher -/
  caches : List (Obj × Cache V) := []
deriving Inhabited

/-! ### tokens a factory can read -/

inductive Tok where
  | c (ver : Nat) (ox oy : Int)
  | ca (attr : Nat)
  | k (data : Nat)
  | ka (attr : Nat)
  | g (attr : Nat)
  | grp (ver : Nat)
  | nobase | gopen | gclose | missing | cut
deriving DecidableEq, Repr, Inhabited

/-- the factories and the in-place patch of `Contour.move` are parameters of the model -/
structure Params (V : Type) where
  /-- class, representation name, view, sub-key ↦ value -/
  f : String → String → List Tok → SubKey → V
  /-- `Contour.move`: representation name, cached value, (dx, dy) ↦ patched value -/
  patch : String → V → Int → Int → V

/-! ### declared mutators: method ↦ the cell it rewrites (the dependency matrix, mutator side)

`.pts`: the point geometry; `.attr`: the identifiers (of the object, of its points); `.both`: a method that adds,
removes or reorders points rewrites the list of point identifiers with them.  The public table with guards is
`ReprCells.mutSpecs`; `Props.C03.cells_agree` checks that the two say the same. -/

inductive CCell where | pts | attr | both
deriving DecidableEq, Repr, Inhabited

def contourMutators : List (String × CCell) :=
  [("appendPoint", .both), ("addPoint", .both), ("insertPoint", .both), ("removePoint", .both),
   ("setStartPoint", .both), ("clear", .both), ("reverse", .both), ("_set_clockwise", .both),
   ("removeSegment", .both), ("splitAndInsertPointAtSegmentAndT", .pts),
   ("setDataFromSerialization", .both), ("_set_identifier", .attr), ("generateIdentifier", .attr),
   ("generateIdentifierForPoint", .attr), ("_set_dirty", .attr)]

def compMutators : List (String × CCell) :=
  [("_set_transformation", .pts), ("move", .pts), ("_set_identifier", .attr),
   ("generateIdentifier", .attr), ("_set_dirty", .attr)]

def glyphMutators : List String :=
  ["_set_width", "_set_height", "_set_note", "_set_unicodes", "_set_dirty", "clearImage",
   "copyDataFromGlyph", "decomposeComponent", "decomposeAllComponents"]

def groupsMutators : List String :=
  ["__setitem__", "__delitem__", "clear", "update", "pop", "popitem", "setdefault", "__ior__"]

/-- built-in factories that take no keyword arguments (a request with some is a TypeError) -/
def noKwNames : List String :=
  ["defcon.contour.bounds", "defcon.contour.controlPointBounds", "defcon.contour.area",
   "defcon.component.bounds", "defcon.component.controlPointBounds", "defcon.glyph.area",
   "defcon.groups.kerningSide1Groups", "defcon.groups.kerningSide2Groups",
   "defcon.groups.kerningGlyphToSide1Group", "defcon.groups.kerningGlyphToSide2Group"]

def acceptsKw (name : String) : Bool := !noKwNames.contains name

section Structure
variable {V : Type}

def hasContour (cid : Nat) (g : GlyphS) : Bool := g.contours.any fun c => c.id = cid
def hasComp (kid : Nat) (g : GlyphS) : Bool := g.comps.any fun k => k.id = kid

def hostOfContour (gs : Layer) (cid : Nat) : Option (String × GlyphS) :=
  gs.find? fun p => hasContour cid p.2

def hostOfComp (gs : Layer) (kid : Nat) : Option (String × GlyphS) :=
  gs.find? fun p => hasComp kid p.2

def contourIn (g : GlyphS) (cid : Nat) : Option ContourS := g.contours.find? fun c => c.id = cid
def compIn (g : GlyphS) (kid : Nat) : Option CompS := g.comps.find? fun k => k.id = kid

def contourToks (c : ContourS) : List Tok := [.c c.ver c.ox c.oy]

def compHead (rec : String → List Tok) (k : CompS) : List Tok :=
  Tok.k k.data :: (match k.base with
    | none => [Tok.nobase]
    | some b => rec b)

/-- a glyph's outline as a pen sees it: its contours, then every component with the outline
of its base glyph (looked up *by name* in the layer, as `layer[baseGlyph]` does) -/
def bodyWith (rec : String → List Tok) (g : GlyphS) : List Tok :=
  Tok.gopen :: (g.contours.flatMap contourToks ++ g.comps.flatMap (compHead rec)) ++ [Tok.gclose]

def outline : Nat → Layer → String → List Tok
  | 0, _, _ => [.cut]
  | n + 1, gs, nm =>
    match AL.get? gs nm with
    | none => [.missing]
    | some g => bodyWith (outline n gs) g

def glyphOutline (n : Nat) (gs : Layer) (g : GlyphS) : List Tok := bodyWith (outline n gs) g

def compToks (n : Nat) (gs : Layer) (k : CompS) : List Tok := compHead (outline n gs) k

def isBuiltin (T : Tables) (cls name : String) : Bool :=
  (T.factoriesOf cls).any fun p => p.1 = name

def contourView (T : Tables) (name : String) (c : ContourS) : List Tok :=
  if isBuiltin T "Contour" name then contourToks c else contourToks c ++ [.ca c.attr]

def compView (T : Tables) (n : Nat) (gs : Layer) (name : String) (k : CompS) : List Tok :=
  if isBuiltin T "Component" name then compToks n gs k else [.k k.data, .ka k.attr]

def glyphView (T : Tables) (n : Nat) (gs : Layer) (name : String) (g : GlyphS) : List Tok :=
  if isBuiltin T "Glyph" name then glyphOutline n gs g
  else Tok.g g.attr :: glyphOutline n gs g
         ++ g.contours.map (fun c => Tok.ca c.attr) ++ g.comps.map (fun k => Tok.ka k.attr)

def findContour (w : World V) (cid : Nat) : Option ContourS :=
  match hostOfContour w.glyphs cid with
  | some p => contourIn p.2 cid
  | none => w.looseC.find? fun c => c.id = cid

def findComp (w : World V) (kid : Nat) : Option CompS :=
  match hostOfComp w.glyphs kid with
  | some p => compIn p.2 kid
  | none => w.looseK.find? fun k => k.id = kid

/-- what the factory registered under `name` reads of object `o` (the dependency matrix,
representation side).  Built-in factories: contour → its points; component → (baseGlyph,
transformation) and the base glyph's outline; glyph (area) → its outline.  Factories registered with
default settings (destroyed by `<Class>.Changed`): contour → points and attributes; component → its
own data and attributes (NOT the base glyph: `Component.Changed` is not posted for base-glyph edits);
glyph → attributes, outline, and the attributes of its contours and components.  Groups: the dict. -/
def viewOf (T : Tables) (w : World V) (o : Obj) (name : String) : List Tok :=
  match o with
  | .contour cid => ((findContour w cid).map (contourView T name)).getD []
  | .comp kid => ((findComp w kid).map (compView T w.fuel w.glyphs name)).getD []
  | .glyph nm => ((AL.get? w.glyphs nm).map (glyphView T w.fuel w.glyphs name)).getD []
  | .groups => [.grp w.groupsVer]

/-- does the object have a dispatcher (is it attached to the font)? -/
def attached (w : World V) : Obj → Bool
  | .contour cid => (hostOfContour w.glyphs cid).isSome
  | .comp kid => (hostOfComp w.glyphs kid).isSome
  | .glyph nm => AL.contains w.glyphs nm
  | .groups => true

def exists? (w : World V) : Obj → Bool
  | .contour cid => (hostOfContour w.glyphs cid).isSome || w.looseC.any fun c => c.id = cid
  | .comp kid => (hostOfComp w.glyphs kid).isSome || w.looseK.any fun k => k.id = kid
  | .glyph nm => AL.contains w.glyphs nm
  | .groups => true

end Structure

/-! ### caches and eviction -/

section Caches
variable {V : Type}

def cacheOf (w : World V) (o : Obj) : Cache V := (AL.get? w.caches o).getD []

def setCache (w : World V) (o : Obj) (c : Cache V) : World V := { w with caches := AL.set w.caches o c }

/-- `endSelfNotificationObservation`: the cache is dropped -/
def dropCache (w : World V) (o : Obj) : World V := { w with caches := eraseAll w.caches o }

/-- `representationFactories` of the object's class at this moment: (name, destructive spec) -/
def facsOf (T : Tables) (regs : List (String × String × Destr)) (cls : String) : List (String × Destr) :=
  T.factoriesOf cls ++ regs.filterMap fun (r : String × String × Destr) =>
    if r.1 = cls then some (r.2.1, r.2.2) else none

/-- `selfNotificationCallback` for one delivered notification -/
def evictObj (T : Tables) (w : World V) (o : Obj) (notif : String) : World V :=
  setCache w o (Cache.evict (facsOf T w.regs o.cls) (cacheOf w o) notif)

def applyDeliv (T : Tables) (w : World V) (ds : List (Obj × String)) : World V :=
  ds.foldl (fun w (d : Obj × String) => evictObj T w d.1 d.2) w

end Caches

/-! ### notification routes (computed from the structure; evictions do not change it) -/

section Routes
variable {V : Type}

/-- the base-glyph data callback is registered for these two notifications of the base glyph -/
def relays (ns : List String) : Bool :=
  ns.contains "Glyph.ContoursChanged" || ns.contains "Glyph.ComponentsChanged"

def watchesBase (a : String) (k : CompS) : Bool := k.watch = Watch.base && k.base = some a

/-- (host glyph name, component id) of every component registered on the glyph named `a` -/
def watchers (gs : Layer) (a : String) : List (String × Nat) :=
  gs.flatMap fun p => (p.2.comps.filter (watchesBase a)).map fun k => (p.1, k.id)

/-- a component (in glyph `h`) has posted `cn`: itself, then its glyph's two callbacks
(`_componentChanged`, `_componentBaseGlyphDataChanged`) -/
def compRelay (rec : String → List String → List (Obj × String)) (T : Tables) (h : String) (kid : Nat)
    (cn : List String) : List (Obj × String) :=
  cn.map (fun x => (Obj.comp kid, x)) ++
  (if cn.contains "Component.Changed" then rec h (T.postsOf "Glyph" "_componentChanged") else []) ++
  (if cn.contains "Component.BaseGlyphDataChanged" then
      rec h (T.postsOf "Glyph" "_componentBaseGlyphDataChanged") else [])

/-- the glyph named `a` has posted `ns`: itself, then (for ContoursChanged / ComponentsChanged) every
component registered on it runs `baseGlyphDataChangedNotificationCallback`, and so on upwards -/
def glyphDeliv : Nat → Tables → Layer → String → List String → List (Obj × String)
  | 0, _, _, _, _ => []
  | n + 1, T, gs, a, ns =>
    ns.map (fun x => (Obj.glyph a, x)) ++
    (if relays ns then
      (watchers gs a).flatMap fun p =>
        compRelay (glyphDeliv n T gs) T p.1 p.2
          (T.postsOf "Component" "baseGlyphDataChangedNotificationCallback")
     else [])

def compDeliv (n : Nat) (T : Tables) (gs : Layer) (h : String) (kid : Nat) (cn : List String) :
    List (Obj × String) :=
  compRelay (glyphDeliv n T gs) T h kid cn

/-- a contour (in glyph `h`) has posted `ns`: itself, then `Glyph._contourChanged` -/
def contourDeliv (n : Nat) (T : Tables) (gs : Layer) (h : String) (cid : Nat) (ns : List String) :
    List (Obj × String) :=
  ns.map (fun x => (Obj.contour cid, x)) ++
  (if ns.contains "Contour.Changed" then glyphDeliv n T gs h (T.postsOf "Glyph" "_contourChanged") else [])

end Routes

/-! ### operations -/

inductive Op where
  /-- `registerRepresentationFactory(cls, name, factory)` (default destructive set) -/
  | register (cls name : String)
  /-- `obj.getRepresentation(name, **kw)` -/
  | get (o : Obj) (name : String) (kw : KwArgs)
  | has (o : Obj) (name : String) (kw : KwArgs)
  | keys (o : Obj)
  | destroy (o : Obj) (name : String) (kw : KwArgs)
  | destroyAll (o : Obj)
  /-- a new contour / component that belongs to no glyph -/
  | mkContour (cid : Nat)
  | mkComp (kid : Nat) (base : Option String)
  /-- an effective call of the declared Contour mutator `meth` -/
  | cmut (cid : Nat) (meth : String)
  | cmove (cid : Nat) (dx dy : Int)
  /-- an effective call of the declared Component mutator `meth` -/
  | kmut (kid : Nat) (meth : String)
  | ksetBase (kid : Nat) (base : Option String)
  /-- an effective call of a declared Glyph attribute mutator (the name has its own op) -/
  | gmut (g : String) (meth : String)
  | insContour (g : String) (cid idx : Nat)
  | remContour (g : String) (cid : Nat)
  | insComp (g : String) (kid idx : Nat)
  | remComp (g : String) (kid : Nat)
  | newGlyph (name : String)
  | delGlyph (name : String)
  | rename (old new : String)
  /-- an effective call of a declared Groups (dict) mutator -/
  | gset (meth : String)
  /-- a call of method `meth` of `o` that runs to its `postNotification`s although it rewrites nothing
  (`obj.dirty = True`, a dict assignment of the value already there, `Contour.clear()` of an empty contour …):
  everything the method posts is delivered, no content cell changes -/
  | touch (o : Obj) (meth : String)
deriving Repr, Inhabited

inductive Res where
  | ok
  /-- number of factory invocations the request caused -/
  | got (ran : Nat)
  | bool (b : Bool)
  | keys (l : List (String × SubKey))
  | err (e : String)
deriving Repr, Inhabited, DecidableEq

section Step
variable {V : Type}

def tick (w : World V) : World V := { w with clock := w.clock + 1 }

/-- replace the record of glyph `nm` -/
def updGlyph (gs : Layer) (nm : String) (fn : GlyphS → GlyphS) : Layer :=
  match AL.get? gs nm with
  | none => gs
  | some g => AL.set gs nm (fn g)

def mapContours (cid : Nat) (fn : ContourS → ContourS) (g : GlyphS) : GlyphS :=
  { g with contours := g.contours.map fun c => if c.id = cid then fn c else c }

def mapComps (kid : Nat) (fn : CompS → CompS) (g : GlyphS) : GlyphS :=
  { g with comps := g.comps.map fun k => if k.id = kid then fn k else k }

/-- every component of every glyph -/
def mapAllComps (gs : Layer) (fn : CompS → CompS) : Layer :=
  gs.map fun p => (p.1, { p.2 with comps := p.2.comps.map fn })

def insertAt {α : Type} (l : List α) (i : Nat) (a : α) : List α := l.take i ++ a :: l.drop i

/-- `beginSelfBaseGlyphNotificationObservation` -/
def watchFor (gs : Layer) (base : Option String) : Watch :=
  match base with
  | none => .none
  | some b => if AL.contains gs b then .base else .layer

def bumpContour (clock : Nat) (cell : CCell) (c : ContourS) : ContourS :=
  match cell with
  | .pts => { c with ver := clock, ox := 0, oy := 0 }
  | .attr => { c with attr := clock }
  | .both => { c with ver := clock, ox := 0, oy := 0, attr := clock }

def bumpComp (clock : Nat) (cell : CCell) (k : CompS) : CompS :=
  match cell with
  | .pts => { k with data := clock }
  | .attr => { k with attr := clock }
  | .both => { k with data := clock, attr := clock }

def shiftContour (dx dy : Int) (c : ContourS) : ContourS := { c with ox := c.ox + dx, oy := c.oy + dy }

def boundsNames : List String := ["defcon.contour.bounds", "defcon.contour.controlPointBounds"]

def patchOne (P : Params V) (dx dy : Int) (c : Cache V) (nm : String) : Cache V :=
  match c.get? nm none with
  | some v => c.store nm none (P.patch nm v dx dy)
  | none => c

def evictUnless (keep : List String) (notif : String) (c : Cache V) (p : String × Destr) : Cache V :=
  if !keep.contains p.1 && p.2.hit notif then c.destroyName p.1 else c

/-- `Contour.move` on the cache: the two bounds entries (sub-key None) are patched in place;
every other representation that `Contour.PointsChanged` destroys is destroyed by the method
itself (its own observation is suppressed while it posts that notification) -/
def moveCache (P : Params V) (facs : List (String × Destr)) (c : Cache V) (dx dy : Int) : Cache V :=
  facs.foldl (evictUnless boundsNames "Contour.PointsChanged") (boundsNames.foldl (patchOne P dx dy) c)

/-- the value the registered factory would return now -/
def fresh (P : Params V) (T : Tables) (w : World V) (o : Obj) (name : String) (sk : SubKey) : V :=
  P.f o.cls name (viewOf T w o name) sk

/-- the group tables the two glyph→group factories request first -/
def nestedName (name : String) : Option String :=
  if name = "defcon.groups.kerningGlyphToSide1Group" then some "defcon.groups.kerningSide1Groups"
  else if name = "defcon.groups.kerningGlyphToSide2Group" then some "defcon.groups.kerningSide2Groups"
  else none

def getOne (P : Params V) (T : Tables) (w : World V) (o : Obj) (name : String) (sk : SubKey) : World V × Nat :=
  let r := (cacheOf w o).lookupOrStore name sk (fresh P T w o name sk)
  (setCache w o r.1, if r.2.2 then 1 else 0)

def doGet (P : Params V) (T : Tables) (w : World V) (o : Obj) (name : String) (kw : KwArgs) : World V × Res :=
  if !exists? w o then (w, .err "unknown-object") else
  if !(facsOf T w.regs o.cls).any (fun p => p.1 = name) then (w, .err "KeyError") else
  if !kw.isEmpty && !acceptsKw name then (w, .err "TypeError") else
  let sk := makeSubKey kw
  if !attached w o then (w, .got 1) else
  match (if o = .groups then nestedName name else none) with
  | some inner =>
    -- the factory requests `inner` (no keyword arguments) before its own value is stored
    if !(facsOf T w.regs o.cls).any (fun p => p.1 = inner) then (w, .err "KeyError") else
    match (cacheOf w o).get? name sk with
    | some _ => (w, .got 0)
    | none =>
      let r1 := getOne P T w o inner none
      let r2 := getOne P T r1.1 o name sk
      (r2.1, .got (r1.2 + r2.2))
  | none =>
    let r := getOne P T w o name sk
    (r.1, .got r.2)

def compSel (sel : CompS → Bool) (p : String × GlyphS) : List (String × Nat) :=
  (p.2.comps.filter sel).map fun k => (p.1, k.id)

def setWatch (sel : CompS → Bool) (nw : Watch) (k : CompS) : CompS :=
  if sel k then { k with watch := nw } else k

/-- the component switching callbacks: the selected components change their registrations and
(after the F11 fix) post what callback `cb` posts -/
def switchAndPost (T : Tables) (w : World V) (sel : CompS → Bool) (nw : Watch) (cb : String) : World V :=
  let gs := mapAllComps w.glyphs (setWatch sel nw)
  let ds := (w.glyphs.flatMap (compSel sel)).flatMap fun p =>
    compDeliv w.fuel T gs p.1 p.2 (T.postsOf "Component" cb)
  applyDeliv T { w with glyphs := gs } ds

def doCmut (T : Tables) (w : World V) (cid : Nat) (meth : String) : World V × Res :=
  match AL.get? contourMutators meth with
  | none => (w, .err "unknown-method")
  | some cell =>
    match hostOfContour w.glyphs cid with
    | some h =>
      let w1 := tick { w with glyphs := updGlyph w.glyphs h.1 (mapContours cid (bumpContour w.clock cell)) }
      (applyDeliv T w1 (contourDeliv w1.fuel T w1.glyphs h.1 cid (T.postsOf "Contour" meth)), .ok)
    | none =>
      if w.looseC.any (fun c => c.id = cid) then
        (tick { w with looseC := w.looseC.map fun c => if c.id = cid then bumpContour w.clock cell c else c }, .ok)
      else (w, .err "unknown-object")

def doCmove (P : Params V) (T : Tables) (w : World V) (cid : Nat) (dx dy : Int) : World V × Res :=
  match hostOfContour w.glyphs cid with
  | some h =>
    let w1 := { w with glyphs := updGlyph w.glyphs h.1 (mapContours cid (shiftContour dx dy)) }
    let w2 := setCache w1 (.contour cid) (moveCache P (facsOf T w1.regs "Contour") (cacheOf w1 (.contour cid)) dx dy)
    let ns := (T.postsOf "Contour" "move").filter fun n => n != "Contour.PointsChanged"
    (applyDeliv T w2 (contourDeliv w2.fuel T w2.glyphs h.1 cid ns), .ok)
  | none =>
    if w.looseC.any (fun c => c.id = cid) then
      ({ w with looseC := w.looseC.map fun c => if c.id = cid then shiftContour dx dy c else c }, .ok)
    else (w, .err "unknown-object")

def doKmut (T : Tables) (w : World V) (kid : Nat) (meth : String) : World V × Res :=
  match AL.get? compMutators meth with
  | none => (w, .err "unknown-method")
  | some cell =>
    match hostOfComp w.glyphs kid with
    | some h =>
      let w1 := tick { w with glyphs := updGlyph w.glyphs h.1 (mapComps kid (bumpComp w.clock cell)) }
      (applyDeliv T w1 (compDeliv w1.fuel T w1.glyphs h.1 kid (T.postsOf "Component" meth)), .ok)
    | none =>
      if w.looseK.any (fun k => k.id = kid) then
        (tick { w with looseK := w.looseK.map fun k => if k.id = kid then bumpComp w.clock cell k else k }, .ok)
      else (w, .err "unknown-object")

def setBase (clock : Nat) (base : Option String) (wt : Watch) (k : CompS) : CompS :=
  { k with base := base, data := clock, watch := wt }

def doKsetBase (T : Tables) (w : World V) (kid : Nat) (base : Option String) : World V × Res :=
  match hostOfComp w.glyphs kid with
  | some h =>
    let w1 := tick { w with glyphs := updGlyph w.glyphs h.1 (mapComps kid (setBase w.clock base (watchFor w.glyphs base))) }
    (applyDeliv T w1 (compDeliv w1.fuel T w1.glyphs h.1 kid (T.postsOf "Component" "_set_baseGlyph")), .ok)
  | none =>
    if w.looseK.any (fun k => k.id = kid) then
      (tick { w with looseK := w.looseK.map fun k => if k.id = kid then setBase w.clock base .none k else k }, .ok)
    else (w, .err "unknown-object")

/-- the glyph named `g` has been changed by `fn` and posts what Glyph method `meth` posts -/
def glyphChange (T : Tables) (w : World V) (g : String) (fn : GlyphS → GlyphS) (meth : String) : World V :=
  let w1 := { w with glyphs := updGlyph w.glyphs g fn }
  applyDeliv T w1 (glyphDeliv w1.fuel T w1.glyphs g (T.postsOf "Glyph" meth))

def doGmut (T : Tables) (w : World V) (g : String) (meth : String) : World V × Res :=
  if !glyphMutators.contains meth then (w, .err "unknown-method") else
  if !AL.contains w.glyphs g then (w, .err "unknown-object") else
  (glyphChange T (tick w) g (fun r => { r with attr := w.clock }) meth, .ok)

def doInsContour (T : Tables) (w : World V) (g : String) (cid idx : Nat) : World V × Res :=
  match AL.get? w.glyphs g, w.looseC.find? (fun c => c.id = cid) with
  | some _, some c =>
    let w1 := { w with looseC := w.looseC.filter (fun c => c.id != cid) }
    (glyphChange T w1 g (fun r => { r with contours := insertAt r.contours idx c }) "insertContour", .ok)
  | _, _ => (w, .err "unknown-object")

def doRemContour (T : Tables) (w : World V) (g : String) (cid : Nat) : World V × Res :=
  match AL.get? w.glyphs g with
  | none => (w, .err "unknown-object")
  | some r =>
    match contourIn r cid with
    | none => (w, .err "IndexError")
    | some c =>
      let w1 := dropCache { w with looseC := w.looseC ++ [c] } (.contour cid)
      (glyphChange T w1 g (fun r => { r with contours := r.contours.filter fun c => c.id != cid }) "removeContour", .ok)

def doInsComp (T : Tables) (w : World V) (g : String) (kid idx : Nat) : World V × Res :=
  match AL.get? w.glyphs g, w.looseK.find? (fun k => k.id = kid) with
  | some _, some k =>
    let k1 := { k with watch := watchFor w.glyphs k.base }
    let w1 := { w with looseK := w.looseK.filter (fun k => k.id != kid) }
    (glyphChange T w1 g (fun r => { r with comps := insertAt r.comps idx k1 }) "insertComponent", .ok)
  | _, _ => (w, .err "unknown-object")

def doRemComp (T : Tables) (w : World V) (g : String) (kid : Nat) : World V × Res :=
  match AL.get? w.glyphs g with
  | none => (w, .err "unknown-object")
  | some r =>
    match compIn r kid with
    | none => (w, .err "ValueError")
    | some k =>
      let w1 := dropCache { w with looseK := w.looseK ++ [{ k with watch := .none }] } (.comp kid)
      (glyphChange T w1 g (fun r => { r with comps := r.comps.filter fun k => k.id != kid }) "removeComponent", .ok)

def waitsFor (name : String) (k : CompS) : Bool := k.watch = Watch.layer && k.base = some name

def doNewGlyph (T : Tables) (w : World V) (name : String) : World V × Res :=
  if AL.contains w.glyphs name then (w, .err "exists") else
  let w1 := tick { w with glyphs := AL.set w.glyphs name { attr := w.clock, contours := [], comps := [] } }
  -- Layer.GlyphAdded: components waiting on the layer for this name
  (switchAndPost T w1 (waitsFor name) .base "layerGlyphAddedNotificationCallback", .ok)

def goneObjs (name : String) (g : GlyphS) : List Obj :=
  Obj.glyph name :: (g.contours.map (fun c => Obj.contour c.id) ++ g.comps.map (fun k => Obj.comp k.id))

def doDelGlyph (T : Tables) (w : World V) (name : String) : World V × Res :=
  match AL.get? w.glyphs name with
  | none => (w, .err "KeyError")
  | some g =>
    -- Layer.GlyphWillBeDeleted (before anything is removed): the components that reference the glyph switch to
    -- watching the layer; Layer.GlyphDeleted (after the removal): they post Component.BaseGlyphDataChanged.
    -- The model does both here, before the removal: the evictions walk upwards from the referencing components and
    -- never through the deleted glyph (component graph acyclic: `Dom`), and a dropped cache entry holds no value,
    -- so the state after the operation is the same either way.
    let w1 := switchAndPost T w (watchesBase name) .layer "layerGlyphDeletedNotificationCallback"
    -- _deleteGlyph: the glyph and everything below it stop observing (their caches are dropped)
    ((goneObjs name g).foldl dropCache { w1 with glyphs := eraseAll w1.glyphs name }, .ok)

def doRename (T : Tables) (w : World V) (old new : String) : World V × Res :=
  match AL.get? w.glyphs old with
  | none => (w, .err "unknown-object")
  | some g =>
    if AL.contains w.glyphs new || old = new then (w, .err "exists") else
    -- Glyph._set_name, Layer._glyphNameChange: _deleteGlyph(old), _insertGlyph under the new name
    let w1 := tick { w with glyphs := AL.set (eraseAll w.glyphs old) new { g with attr := w.clock },
                            caches := AL.set (eraseAll w.caches (.glyph old)) (.glyph new) (cacheOf w (.glyph old)) }
    -- Layer.GlyphNameChanged: components waiting for `new`
    let w2 := switchAndPost T w1 (waitsFor new) .base "layerGlyphNameChangedNotificationCallback"
    -- Glyph.NameChanged: components that were registered on this glyph
    let w3 := switchAndPost T w2 (watchesBase old) .layer "baseGlyphNameChangedNotificationCallback"
    (applyDeliv T w3 (glyphDeliv w3.fuel T w3.glyphs new (T.postsOf "Glyph" "_set_name")), .ok)

def doGset (T : Tables) (w : World V) (meth : String) : World V × Res :=
  if !groupsMutators.contains meth then (w, .err "unknown-method") else
  let w1 := tick { w with groupsVer := w.clock }
  (applyDeliv T w1 ((T.postsOf "Groups" meth).map fun n => (Obj.groups, n)), .ok)

/-- object `o` posts the notifications `ns`: everything that is delivered (to the object itself, then along the
routes to its glyph and to whatever references that glyph), in the structure of `w` -/
def postFrom (T : Tables) (w : World V) (o : Obj) (ns : List String) : List (Obj × String) :=
  match o with
  | .contour cid =>
    match hostOfContour w.glyphs cid with
    | some h => contourDeliv w.fuel T w.glyphs h.1 cid ns
    | none => []
  | .comp kid =>
    match hostOfComp w.glyphs kid with
    | some h => compDeliv w.fuel T w.glyphs h.1 kid ns
    | none => []
  | .glyph a => if AL.contains w.glyphs a then glyphDeliv w.fuel T w.glyphs a ns else []
  | .groups => ns.map fun n => (Obj.groups, n)

def doTouch (T : Tables) (w : World V) (o : Obj) (meth : String) : World V × Res :=
  (applyDeliv T w (postFrom T w o (T.postsOf o.cls meth)), .ok)

def step (P : Params V) (T : Tables) (w : World V) (op : Op) : World V × Res :=
  match op with
  | .register cls name => ({ w with regs := w.regs ++ [(cls, name, T.defaultDestr cls)] }, .ok)
  | .get o name kw => doGet P T w o name kw
  | .has o name kw => (w, .bool ((cacheOf w o).has name (makeSubKey kw)))
  | .keys o => (w, .keys (cacheOf w o).keys)
  | .destroy o name kw =>
    match kw with
    | [] => (setCache w o ((cacheOf w o).destroyName name), .ok)
    | _ :: _ => (setCache w o ((cacheOf w o).destroyOne name (makeSubKey kw)), .ok)
  | .destroyAll o => (setCache w o [], .ok)
  | .mkContour cid =>
    if exists? w (.contour cid) then (w, .err "exists") else
    (tick { w with looseC := w.looseC ++ [{ id := cid, ver := w.clock, ox := 0, oy := 0, attr := 0 }] }, .ok)
  | .mkComp kid base =>
    if exists? w (.comp kid) then (w, .err "exists") else
    (tick { w with looseK := w.looseK ++ [{ id := kid, base := base, data := w.clock, attr := 0, watch := .none }] }, .ok)
  | .cmut cid meth => doCmut T w cid meth
  | .cmove cid dx dy => doCmove P T w cid dx dy
  | .kmut kid meth => doKmut T w kid meth
  | .ksetBase kid base => doKsetBase T w kid base
  | .gmut g meth => doGmut T w g meth
  | .insContour g cid idx => doInsContour T w g cid idx
  | .remContour g cid => doRemContour T w g cid
  | .insComp g kid idx => doInsComp T w g kid idx
  | .remComp g kid => doRemComp T w g kid
  | .newGlyph name => doNewGlyph T w name
  | .delGlyph name => doDelGlyph T w name
  | .rename old new => doRename T w old new
  | .gset meth => doGset T w meth
  | .touch o meth => doTouch T w o meth

def run (P : Params V) (T : Tables) (w : World V) (ops : List Op) : World V :=
  ops.foldl (fun w op => (step P T w op).1) w

/-- cached keys of every object (what `representationKeys()` would list) -/
def digest (w : World V) : List (Obj × List (String × SubKey)) :=
  (w.caches.map fun p => (p.1, p.2.keys)).filter fun p => !p.2.isEmpty

end Step

end Repr
end DefconModel
