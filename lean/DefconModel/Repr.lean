/-
M-Repr, part 2: a font's representation-bearing objects (contours, components, glyphs of one
layer, the groups object), their caches, the notification routes between them, and the public
operations that touch caches.  Core Lean only.

What is modelled (file:function → here)
  base.py  getRepresentation / destroyRepresentation / destroyAllRepresentations /
           hasCachedRepresentation / representationKeys / selfNotificationCallback /
           endSelfNotificationObservation (drops the cache)            → `step` (.get … .destroyAll), `evictObj`
  __init__.py registerRepresentationFactory (default settings)         → `.register`
  contour.py  every point-list / attribute mutator                     → `.cmut` (posts from the regenerated table)
              move (patches bounds in place, evicts the rest itself)    → `.cmove`
  component.py transformation / identifier / move                      → `.kmut`
              baseGlyph setter (observation switching)                  → `.ksetBase`
              the four layer / base-glyph switching callbacks           → `.newGlyph`, `.delGlyph`, `.rename`
              baseGlyphDataChangedNotificationCallback                  → `glyphDeliv`
  glyph.py    _contourChanged / _componentChanged /
              _componentBaseGlyphDataChanged                            → `contourDeliv`, `compRelay`
              insert/remove contour / component, attribute setters      → `.insContour` … `.gmut`
  groups.py / base.py BaseDictObject mutators                          → `.gset`
  tools/representations.py: the two glyph→group factories request the side tables → `.get` on groups

Contents are abstract: every cell carries a version stamp taken from a clock (a contour's point
list carries a stamp *and* a translation, because `Contour.move` changes only the latter).
Factories are a parameter `f` applied to the `view` (the stamps a factory can read), see
Spec/Repr.lean.  Which notifications a method posts comes from `Tables` (regenerated from the
source); who listens to what is written here and checked against `Tables.observes` by
`Props.C03.coverage_holds`.
-/
import DefconModel.ReprCore

namespace DefconModel
namespace Repr

inductive Obj where
  | contour (id : Nat)
  | comp (id : Nat)
  | glyph (id : Nat)
  | groups
deriving DecidableEq, Repr, Inhabited

def Obj.cls : Obj → String
  | .contour _ => "Contour"
  | .comp _ => "Component"
  | .glyph _ => "Glyph"
  | .groups => "Groups"

/-- which base-glyph observations a component holds (component.py 292-346) -/
inductive Watch where
  /-- none (baseGlyph is None or the component has no dispatcher) -/
  | none
  /-- `_beginBaseGlyphObservations`: on that glyph object for NameChanged / ContoursChanged /
  ComponentsChanged and on the layer for GlyphWillBeDeleted -/
  | glyph (gid : Nat)
  /-- `_beginLayerObservations`: on the layer for GlyphNameChanged / GlyphAdded -/
  | layer
deriving DecidableEq, Repr, Inhabited

structure ContourS where
  id : Nat
  /-- version of the point list up to translation -/
  ver : Nat
  ox : Int
  oy : Int
  /-- version of the remaining attributes (identifier) -/
  attr : Nat
deriving DecidableEq, Repr, Inhabited

structure CompS where
  id : Nat
  base : Option String
  /-- version of (baseGlyph, transformation) -/
  data : Nat
  attr : Nat
  watch : Watch
deriving DecidableEq, Repr, Inhabited

structure GlyphS where
  id : Nat
  name : String
  attr : Nat
  contours : List ContourS
  comps : List CompS
deriving DecidableEq, Repr, Inhabited

structure World (V : Type) where
  clock : Nat := 1
  /-- the glyphs of the layer -/
  glyphs : List GlyphS := []
  /-- contours / components that belong to no glyph (no dispatcher: nothing is cached) -/
  looseC : List ContourS := []
  looseK : List CompS := []
  groupsVer : Nat := 0
  /-- `registerRepresentationFactory` calls made so far: (class, name, destructive spec) -/
  regs : List (String × String × Destr) := []
  caches : List (Obj × Cache V) := []
deriving Inhabited

/-! ### tokens a factory can read -/

inductive Tok where
  | c (ver : Nat) (ox oy : Int)
  | ca (attr : Nat)
  | k (data : Nat)
  | ka (attr : Nat)
  | g (attr : Nat)
  | grp (ver : Nat)
  | nobase | gopen | gclose | missing | cut
deriving DecidableEq, Repr, Inhabited

/-- the factories and the in-place patch of `Contour.move` are parameters of the model -/
structure Params (V : Type) where
  /-- class, representation name, view, sub-key ↦ value -/
  f : String → String → List Tok → SubKey → V
  /-- `Contour.move`: representation name, cached value, (dx, dy) ↦ patched value -/
  patch : String → V → Int → Int → V

section Structure
variable {V : Type}

def glyphNamed (gs : List GlyphS) (name : String) : Option GlyphS :=
  gs.find? fun g => g.name = name

def glyphById (gs : List GlyphS) (gid : Nat) : Option GlyphS :=
  gs.find? fun g => g.id = gid

def hostOfContour (gs : List GlyphS) (cid : Nat) : Option GlyphS :=
  gs.find? fun g => g.contours.any fun c => c.id = cid

def hostOfComp (gs : List GlyphS) (kid : Nat) : Option GlyphS :=
  gs.find? fun g => g.comps.any fun k => k.id = kid

def contourIn (g : GlyphS) (cid : Nat) : Option ContourS := g.contours.find? fun c => c.id = cid
def compIn (g : GlyphS) (kid : Nat) : Option CompS := g.comps.find? fun k => k.id = kid

def contourToks (c : ContourS) : List Tok := [.c c.ver c.ox c.oy]

/-- a glyph's outline as a pen sees it: its contours, then every component with the outline
of its base glyph (looked up *by name* in the layer, as `layer[baseGlyph]` does) -/
def bodyWith (rec : String → List Tok) (g : GlyphS) : List Tok :=
  Tok.gopen :: (g.contours.flatMap contourToks ++
    g.comps.flatMap fun k => Tok.k k.data :: (match k.base with
      | none => [Tok.nobase]
      | some b => rec b)) ++ [Tok.gclose]

def outline : Nat → List GlyphS → String → List Tok
  | 0, _, _ => [.cut]
  | n + 1, gs, nm =>
    match glyphNamed gs nm with
    | none => [.missing]
    | some g => bodyWith (outline n gs) g

def glyphOutline (n : Nat) (gs : List GlyphS) (g : GlyphS) : List Tok := bodyWith (outline n gs) g

def compToks (n : Nat) (gs : List GlyphS) (k : CompS) : List Tok :=
  Tok.k k.data :: (match k.base with
    | none => [Tok.nobase]
    | some b => outline n gs b)

/-- nesting fuel: more than the number of glyphs (enough for every acyclic component graph) -/
def fuelOf (gs : List GlyphS) : Nat := gs.length + 1

def isBuiltin (T : Tables) (cls name : String) : Bool :=
  (T.factoriesOf cls).any fun p => p.1 = name

/-- what the factory registered under `name` reads of object `o`.
Built-in factories: contour → its points; component → (baseGlyph, transformation) and the base
glyph's outline; glyph (area) → its outline.  Factories registered with default settings
(destroyed by `<Class>.Changed`): contour → points and attributes; component → its own data and
attributes (NOT the base glyph: `Component.Changed` is not posted for base-glyph edits); glyph →
attributes, outline, and the attributes of its contours and components.  Groups: the dict. -/
def viewOf (T : Tables) (w : World V) (o : Obj) (name : String) : Option (List Tok) :=
  match o with
  | .contour cid =>
    let c? := match hostOfContour w.glyphs cid with
      | some g => contourIn g cid
      | none => w.looseC.find? fun c => c.id = cid
    c?.map fun c => if isBuiltin T "Contour" name then contourToks c else contourToks c ++ [.ca c.attr]
  | .comp kid =>
    let k? := match hostOfComp w.glyphs kid with
      | some g => compIn g kid
      | none => w.looseK.find? fun k => k.id = kid
    k?.map fun k =>
      if isBuiltin T "Component" name then compToks (fuelOf w.glyphs) w.glyphs k
      else [.k k.data, .ka k.attr]
  | .glyph gid =>
    (glyphById w.glyphs gid).map fun g =>
      if isBuiltin T "Glyph" name then glyphOutline (fuelOf w.glyphs) w.glyphs g
      else Tok.g g.attr :: glyphOutline (fuelOf w.glyphs) w.glyphs g
             ++ g.contours.map (fun c => Tok.ca c.attr) ++ g.comps.map (fun k => Tok.ka k.attr)
  | .groups => some [.grp w.groupsVer]

/-- does the object have a dispatcher (is it attached to the font)? -/
def attached (w : World V) : Obj → Bool
  | .contour cid => (hostOfContour w.glyphs cid).isSome
  | .comp kid => (hostOfComp w.glyphs kid).isSome
  | .glyph gid => (glyphById w.glyphs gid).isSome
  | .groups => true

def exists? (w : World V) : Obj → Bool
  | .contour cid => (hostOfContour w.glyphs cid).isSome || w.looseC.any fun c => c.id = cid
  | .comp kid => (hostOfComp w.glyphs kid).isSome || w.looseK.any fun k => k.id = kid
  | .glyph gid => (glyphById w.glyphs gid).isSome
  | .groups => true

end Structure

/-! ### caches and eviction -/

section Caches
variable {V : Type}

def cacheOf (w : World V) (o : Obj) : Cache V := (AL.get? w.caches o).getD []

def setCache (w : World V) (o : Obj) (c : Cache V) : World V := { w with caches := AL.set w.caches o c }

def dropCache (w : World V) (o : Obj) : World V := { w with caches := AL.erase w.caches o }

/-- `representationFactories` of the object's class at this moment: (name, destructive spec) -/
def facsOf (T : Tables) (w : World V) (cls : String) : List (String × Destr) :=
  T.factoriesOf cls ++ w.regs.filterMap fun (c, n, d) => if c = cls then some (n, d) else none

/-- `selfNotificationCallback` for one delivered notification -/
def evictObj (T : Tables) (w : World V) (o : Obj) (notif : String) : World V :=
  setCache w o (Cache.evict (facsOf T w o.cls) (cacheOf w o) notif)

def applyDeliv (T : Tables) (w : World V) (ds : List (Obj × String)) : World V :=
  ds.foldl (fun w (d : Obj × String) => evictObj T w d.1 d.2) w

end Caches

/-! ### notification routes (computed from the structure; evictions do not change it) -/

section Routes
variable {V : Type}

/-- the base-glyph data callback is registered for these two notifications of the base glyph -/
def relays (ns : List String) : Bool :=
  ns.contains "Glyph.ContoursChanged" || ns.contains "Glyph.ComponentsChanged"

/-- (host glyph id, component id) of every component registered on glyph object `gid` -/
def watchers (gs : List GlyphS) (gid : Nat) : List (Nat × Nat) :=
  gs.flatMap fun h => h.comps.filterMap fun k => if k.watch = Watch.glyph gid then some (h.id, k.id) else none

/-- a component (in glyph `hid`) has posted `cn`: itself, then its glyph's two callbacks
(`_componentChanged`, `_componentBaseGlyphDataChanged`) -/
def compRelay (rec : Nat → List String → List (Obj × String)) (T : Tables) (hid kid : Nat)
    (cn : List String) : List (Obj × String) :=
  cn.map (fun x => (Obj.comp kid, x)) ++
  (if cn.contains "Component.Changed" then rec hid (T.postsOf "Glyph" "_componentChanged") else []) ++
  (if cn.contains "Component.BaseGlyphDataChanged" then
      rec hid (T.postsOf "Glyph" "_componentBaseGlyphDataChanged") else [])

/-- glyph `gid` has posted `ns`: itself, then (for ContoursChanged / ComponentsChanged) every
component registered on it runs `baseGlyphDataChangedNotificationCallback`, and so on upwards -/
def glyphDeliv : Nat → Tables → List GlyphS → Nat → List String → List (Obj × String)
  | 0, _, _, _, _ => []
  | n + 1, T, gs, gid, ns =>
    ns.map (fun x => (Obj.glyph gid, x)) ++
    (if relays ns then
      (watchers gs gid).flatMap fun p =>
        compRelay (glyphDeliv n T gs) T p.1 p.2
          (T.postsOf "Component" "baseGlyphDataChangedNotificationCallback")
     else [])

def compDeliv (T : Tables) (gs : List GlyphS) (hid kid : Nat) (cn : List String) : List (Obj × String) :=
  compRelay (glyphDeliv (fuelOf gs) T gs) T hid kid cn

/-- a contour (in glyph `hid`) has posted `ns`: itself, then `Glyph._contourChanged` -/
def contourDeliv (T : Tables) (gs : List GlyphS) (hid cid : Nat) (ns : List String) : List (Obj × String) :=
  ns.map (fun x => (Obj.contour cid, x)) ++
  (if ns.contains "Contour.Changed" then
      glyphDeliv (fuelOf gs) T gs hid (T.postsOf "Glyph" "_contourChanged") else [])

end Routes

/-! ### operations -/

inductive CCell where | pts | attr
deriving DecidableEq, Repr, Inhabited

inductive Op where
  /-- `registerRepresentationFactory(cls, name, factory)` (default destructive set) -/
  | register (cls name : String)
  /-- `obj.getRepresentation(name, **kw)` -/
  | get (o : Obj) (name : String) (kw : KwArgs)
  | has (o : Obj) (name : String) (kw : KwArgs)
  | keys (o : Obj)
  | destroy (o : Obj) (name : String) (kw : KwArgs)
  | destroyAll (o : Obj)
  /-- a new contour / component that belongs to no glyph -/
  | mkContour (cid : Nat)
  | mkComp (kid : Nat) (base : Option String)
  /-- an effective call of Contour method `meth` that rewrites the point list / an attribute -/
  | cmut (cid : Nat) (meth : String) (cell : CCell)
  | cmove (cid : Nat) (dx dy : Int)
  /-- an effective call of Component method `meth` (transformation, move: `data`; identifier: `attr`) -/
  | kmut (kid : Nat) (meth : String) (cell : CCell)
  | ksetBase (kid : Nat) (base : Option String)
  /-- an effective call of a Glyph attribute mutator (name excluded) -/
  | gmut (gid : Nat) (meth : String)
  | insContour (gid cid idx : Nat)
  | remContour (gid cid : Nat)
  | insComp (gid kid idx : Nat)
  | remComp (gid kid : Nat)
  | newGlyph (name : String) (gid : Nat)
  | delGlyph (name : String)
  | rename (gid : Nat) (newName : String)
  /-- an effective call of a Groups (dict) mutator -/
  | gset (meth : String)
deriving Repr, Inhabited

inductive Res where
  | ok
  /-- number of factory invocations the request caused -/
  | got (ran : Nat)
  | bool (b : Bool)
  | keys (l : List (String × SubKey))
  | err (e : String)
deriving Repr, Inhabited

section Step
variable {V : Type}

def tick (w : World V) : World V := { w with clock := w.clock + 1 }

def mapGlyph (gs : List GlyphS) (gid : Nat) (fn : GlyphS → GlyphS) : List GlyphS :=
  gs.map fun g => if g.id = gid then fn g else g

def mapContour (gs : List GlyphS) (cid : Nat) (fn : ContourS → ContourS) : List GlyphS :=
  gs.map fun g => { g with contours := g.contours.map fun c => if c.id = cid then fn c else c }

def mapComp (gs : List GlyphS) (kid : Nat) (fn : CompS → CompS) : List GlyphS :=
  gs.map fun g => { g with comps := g.comps.map fun k => if k.id = kid then fn k else k }

/-- every component of every glyph -/
def mapAllComps (gs : List GlyphS) (fn : CompS → CompS) : List GlyphS :=
  gs.map fun g => { g with comps := g.comps.map fn }

def insertAt {α : Type} (l : List α) (i : Nat) (a : α) : List α := l.take i ++ a :: l.drop i

/-- `beginSelfBaseGlyphNotificationObservation` -/
def watchFor (gs : List GlyphS) (base : Option String) : Watch :=
  match base with
  | none => .none
  | some b =>
    match glyphNamed gs b with
    | some g => .glyph g.id
    | none => .layer

def bumpContour (clock : Nat) (cell : CCell) (c : ContourS) : ContourS :=
  match cell with
  | .pts => { c with ver := clock, ox := 0, oy := 0 }
  | .attr => { c with attr := clock }

def bumpComp (clock : Nat) (cell : CCell) (k : CompS) : CompS :=
  match cell with
  | .pts => { k with data := clock }
  | .attr => { k with attr := clock }

def boundsNames : List String := ["defcon.contour.bounds", "defcon.contour.controlPointBounds"]

/-- `Contour.move` on the cache: the two bounds entries (sub-key None) are patched in place;
every other representation that `Contour.PointsChanged` destroys is destroyed by the method
itself (its own observation is suppressed while it posts that notification) -/
def moveCache (P : Params V) (facs : List (String × Destr)) (c : Cache V) (dx dy : Int) : Cache V :=
  let c1 := boundsNames.foldl (fun c nm =>
    match c.get? nm none with
    | some v => c.store nm none (P.patch nm v dx dy)
    | none => c) c
  (facs.filter fun p => !boundsNames.contains p.1).foldl
    (fun c p => if p.2.hit "Contour.PointsChanged" then c.destroyName p.1 else c) c1

/-- the value the registered factory would return now -/
def fresh (P : Params V) (T : Tables) (w : World V) (o : Obj) (name : String) (sk : SubKey) : V :=
  P.f o.cls name ((viewOf T w o name).getD []) sk

/-- the group tables the two glyph→group factories request first -/
def nestedName (name : String) : Option String :=
  if name = "defcon.groups.kerningGlyphToSide1Group" then some "defcon.groups.kerningSide1Groups"
  else if name = "defcon.groups.kerningGlyphToSide2Group" then some "defcon.groups.kerningSide2Groups"
  else none

def getOne (P : Params V) (T : Tables) (w : World V) (o : Obj) (name : String) (sk : SubKey) : World V × Nat :=
  let r := (cacheOf w o).lookupOrStore name sk (fresh P T w o name sk)
  (setCache w o r.1, if r.2.2 then 1 else 0)

/-- the component switching callbacks all end with the same post (after the F11 fix);
which components react is decided by the caller -/
def switchAndPost (T : Tables) (w : World V) (sel : CompS → Bool) (newWatch : Watch) (cb : String) : World V :=
  let hits : List (Nat × Nat) := w.glyphs.flatMap fun h =>
    h.comps.filterMap fun k => if sel k then some (h.id, k.id) else none
  let gs := mapAllComps w.glyphs fun k => if sel k then { k with watch := newWatch } else k
  let w1 := { w with glyphs := gs }
  let ds := hits.flatMap fun p => compDeliv T gs p.1 p.2 (T.postsOf "Component" cb)
  applyDeliv T w1 ds

def step (P : Params V) (T : Tables) (w : World V) (op : Op) : World V × Res :=
  match op with
  | .register cls name =>
    ({ w with regs := w.regs ++ [(cls, name, T.defaultDestr cls)] }, .ok)
  | .get o name kw =>
    if !exists? w o then (w, .err "unknown-object") else
    if !(facsOf T w o.cls).any (fun p => p.1 = name) then (w, .err "KeyError") else
    let sk := makeSubKey kw
    if !attached w o then (w, .got 1) else
    match (if o = .groups then nestedName name else none) with
    | some inner =>
      -- the outer dict entry exists before the factory runs; the factory requests `inner`
      match (cacheOf w o).get? name sk with
      | some _ => (w, .got 0)
      | none =>
        let (w1, r1) := getOne P T w o inner none
        let (w2, r2) := getOne P T w1 o name sk
        (w2, .got (r1 + r2))
    | none =>
      let (w1, r) := getOne P T w o name sk
      (w1, .got r)
  | .has o name kw => (w, .bool ((cacheOf w o).has name (makeSubKey kw)))
  | .keys o => (w, .keys (cacheOf w o).keys)
  | .destroy o name kw =>
    match kw with
    | [] => (setCache w o ((cacheOf w o).destroyName name), .ok)
    | _ :: _ => (setCache w o ((cacheOf w o).destroyOne name (makeSubKey kw)), .ok)
  | .destroyAll o => (setCache w o [], .ok)
  | .mkContour cid =>
    if exists? w (.contour cid) then (w, .err "exists") else
    (tick { w with looseC := w.looseC ++ [{ id := cid, ver := w.clock, ox := 0, oy := 0, attr := 0 }] }, .ok)
  | .mkComp kid base =>
    if exists? w (.comp kid) then (w, .err "exists") else
    (tick { w with looseK := w.looseK ++ [{ id := kid, base := base, data := w.clock, attr := 0, watch := .none }] }, .ok)
  | .cmut cid meth cell =>
    match hostOfContour w.glyphs cid with
    | some h =>
      let w1 := tick { w with glyphs := mapContour w.glyphs cid (bumpContour w.clock cell) }
      (applyDeliv T w1 (contourDeliv T w1.glyphs h.id cid (T.postsOf "Contour" meth)), .ok)
    | none =>
      if w.looseC.any (fun c => c.id = cid) then
        (tick { w with looseC := w.looseC.map fun c => if c.id = cid then bumpContour w.clock cell c else c }, .ok)
      else (w, .err "unknown-object")
  | .cmove cid dx dy =>
    let shift := fun (c : ContourS) => { c with ox := c.ox + dx, oy := c.oy + dy }
    match hostOfContour w.glyphs cid with
    | some h =>
      let w1 := { w with glyphs := mapContour w.glyphs cid shift }
      let w2 := setCache w1 (.contour cid) (moveCache P (facsOf T w1 "Contour") (cacheOf w1 (.contour cid)) dx dy)
      let ns := (T.postsOf "Contour" "move").filter fun n => n != "Contour.PointsChanged"
      (applyDeliv T w2 (contourDeliv T w2.glyphs h.id cid ns), .ok)
    | none =>
      if w.looseC.any (fun c => c.id = cid) then
        let w1 := { w with looseC := w.looseC.map fun c => if c.id = cid then shift c else c }
        (setCache w1 (.contour cid) (moveCache P (facsOf T w1 "Contour") (cacheOf w1 (.contour cid)) dx dy), .ok)
      else (w, .err "unknown-object")
  | .kmut kid meth cell =>
    match hostOfComp w.glyphs kid with
    | some h =>
      let w1 := tick { w with glyphs := mapComp w.glyphs kid (bumpComp w.clock cell) }
      (applyDeliv T w1 (compDeliv T w1.glyphs h.id kid (T.postsOf "Component" meth)), .ok)
    | none =>
      if w.looseK.any (fun k => k.id = kid) then
        (tick { w with looseK := w.looseK.map fun k => if k.id = kid then bumpComp w.clock cell k else k }, .ok)
      else (w, .err "unknown-object")
  | .ksetBase kid base =>
    match hostOfComp w.glyphs kid with
    | some h =>
      let wt := watchFor w.glyphs base
      let w1 := tick { w with glyphs := mapComp w.glyphs kid fun k =>
        { k with base := base, data := w.clock, watch := wt } }
      (applyDeliv T w1 (compDeliv T w1.glyphs h.id kid (T.postsOf "Component" "_set_baseGlyph")), .ok)
    | none =>
      if w.looseK.any (fun k => k.id = kid) then
        (tick { w with looseK := w.looseK.map fun k =>
          if k.id = kid then { k with base := base, data := w.clock } else k }, .ok)
      else (w, .err "unknown-object")
  | .gmut gid meth =>
    match glyphById w.glyphs gid with
    | none => (w, .err "unknown-object")
    | some _ =>
      let w1 := tick { w with glyphs := mapGlyph w.glyphs gid fun g => { g with attr := w.clock } }
      (applyDeliv T w1 (glyphDeliv (fuelOf w1.glyphs) T w1.glyphs gid (T.postsOf "Glyph" meth)), .ok)
  | .insContour gid cid idx =>
    match glyphById w.glyphs gid, w.looseC.find? (fun c => c.id = cid) with
    | some _, some c =>
      let w1 := { w with looseC := w.looseC.filter (fun c => c.id != cid),
                         glyphs := mapGlyph w.glyphs gid fun g => { g with contours := insertAt g.contours idx c } }
      (applyDeliv T w1 (glyphDeliv (fuelOf w1.glyphs) T w1.glyphs gid (T.postsOf "Glyph" "insertContour")), .ok)
    | _, _ => (w, .err "unknown-object")
  | .remContour gid cid =>
    match glyphById w.glyphs gid with
    | none => (w, .err "unknown-object")
    | some g =>
      match contourIn g cid with
      | none => (w, .err "IndexError")
      | some c =>
        let gs := mapGlyph w.glyphs gid fun g => { g with contours := g.contours.filter fun c => c.id != cid }
        let w0 : World V := { w with looseC := w.looseC ++ [c], glyphs := gs }
        let w1 := dropCache w0 (.contour cid)
        (applyDeliv T w1 (glyphDeliv (fuelOf w1.glyphs) T w1.glyphs gid (T.postsOf "Glyph" "removeContour")), .ok)
  | .insComp gid kid idx =>
    match glyphById w.glyphs gid, w.looseK.find? (fun k => k.id = kid) with
    | some _, some k =>
      let k1 := { k with watch := watchFor w.glyphs k.base }
      let w1 := { w with looseK := w.looseK.filter (fun k => k.id != kid),
                         glyphs := mapGlyph w.glyphs gid fun g => { g with comps := insertAt g.comps idx k1 } }
      (applyDeliv T w1 (glyphDeliv (fuelOf w1.glyphs) T w1.glyphs gid (T.postsOf "Glyph" "insertComponent")), .ok)
    | _, _ => (w, .err "unknown-object")
  | .remComp gid kid =>
    match glyphById w.glyphs gid with
    | none => (w, .err "unknown-object")
    | some g =>
      match compIn g kid with
      | none => (w, .err "ValueError")
      | some k =>
        let gs := mapGlyph w.glyphs gid fun g => { g with comps := g.comps.filter fun k => k.id != kid }
        let w0 : World V := { w with looseK := w.looseK ++ [{ k with watch := .none }], glyphs := gs }
        let w1 := dropCache w0 (.comp kid)
        (applyDeliv T w1 (glyphDeliv (fuelOf w1.glyphs) T w1.glyphs gid (T.postsOf "Glyph" "removeComponent")), .ok)
  | .newGlyph name gid =>
    if (glyphNamed w.glyphs name).isSome || (glyphById w.glyphs gid).isSome then (w, .err "exists") else
    let w1 := tick { w with glyphs := w.glyphs ++ [{ id := gid, name := name, attr := w.clock, contours := [], comps := [] }] }
    -- Layer.GlyphAdded: components waiting on the layer for this name
    (switchAndPost T w1 (fun k => k.watch = .layer && k.base = some name) (.glyph gid)
      "layerGlyphAddedNotificationCallback", .ok)
  | .delGlyph name =>
    match glyphNamed w.glyphs name with
    | none => (w, .err "KeyError")
    | some g =>
      -- Layer.GlyphWillBeDeleted, before anything is removed
      let w1 := switchAndPost T w (fun k => (match k.watch with | .glyph _ => true | _ => false) && k.base = some name)
        .layer "layerGlyphWillBeDeletedNotificationCallback"
      -- _deleteGlyph: the glyph and everything below it stop observing (their caches are dropped)
      let gone : List Obj := Obj.glyph g.id :: (g.contours.map (fun c => Obj.contour c.id) ++ g.comps.map (fun k => Obj.comp k.id))
      let w2 := { w1 with glyphs := w1.glyphs.filter fun h => h.id != g.id }
      (gone.foldl dropCache w2, .ok)
  | .rename gid newName =>
    match glyphById w.glyphs gid with
    | none => (w, .err "unknown-object")
    | some _ =>
      if (glyphNamed w.glyphs newName).isSome then (w, .err "exists") else
      let w1 := tick { w with glyphs := mapGlyph w.glyphs gid fun g => { g with name := newName, attr := w.clock } }
      -- Glyph.NameChanged → Layer._glyphNameChange → Layer.GlyphNameChanged: components waiting for newName
      let w2 := switchAndPost T w1 (fun k => k.watch = .layer && k.base = some newName) (.glyph gid)
        "layerGlyphNameChangedNotificationCallback"
      -- Glyph.NameChanged → components that were registered on this glyph (snapshot taken before the above)
      let was : CompS → Bool := fun k => k.watch = .glyph gid && k.base != some newName
      let w3 := switchAndPost T w2 was .layer "baseGlyphNameChangedNotificationCallback"
      (applyDeliv T w3 (glyphDeliv (fuelOf w3.glyphs) T w3.glyphs gid (T.postsOf "Glyph" "_set_name")), .ok)
  | .gset meth =>
    let w1 := tick { w with groupsVer := w.clock }
    (applyDeliv T w1 ((T.postsOf "Groups" meth).map fun n => (Obj.groups, n)), .ok)

def run (P : Params V) (T : Tables) (w : World V) (ops : List Op) : World V :=
  ops.foldl (fun w op => (step P T w op).1) w

/-- cached keys of every object (what `representationKeys()` would list) -/
def digest (w : World V) : List (Obj × List (String × SubKey)) :=
  w.caches.filterMap fun p => if p.2.keys.isEmpty then none else some (p.1, p.2.keys)

end Step

end Repr
end DefconModel
