/-
M-Kern: executable model of kerning lookup through groups in defcon, statement by statement.

* `Kerning.find`                      Lib/defcon/objects/kerning.py:82-104
* `lookupKerningValue`                fontTools/ufoLib/kerning.py (ported as defcon calls it: the two
                                      glyph-to-group tables are always passed, so the `groups`
                                      argument is never read)
* the four group-table factories      Lib/defcon/tools/representations.py:10-38
* their caching and eviction          Lib/defcon/objects/base.py:336-387 (`getRepresentation`,
                                      `selfNotificationCallback`), registered in
                                      Lib/defcon/objects/groups.py:78-95 with the destructive
                                      notification `Groups.Changed`
* `BaseDictObject` mutators           Lib/defcon/objects/base.py:516-566 (`__setitem__`,
                                      `__delitem__`, `clear`, `update`) for `Groups` and `Kerning`
* lazy load / reload                  Lib/defcon/objects/font.py:440-526, 1464-1496 with the parts of
                                      `UFOReader.readGroups` that matter (`_readGroups` de-duplication
                                      of kerning-group members, `groupsValidator`)

Finite maps are `AL` association lists (Python `dict` semantics: insertion ordered, assignment to an
existing key keeps its position).  Core Lean only.
-/
import DefconModel.Util.AL

namespace DefconModel
namespace Kern

abbrev Pair := String × String
abbrev KernD := List (Pair × Int)
abbrev GroupsD := List (String × List String)
/-- glyph name ↦ group name -/
abbrev G2G := List (String × String)

def kern1Prefix : String := "public.kern1."
def kern2Prefix : String := "public.kern2."

/-- `s.startswith(p)` -/
def hasPrefix (p s : String) : Bool := p.toList.isPrefixOf s.toList

def isKern1 (s : String) : Bool := hasPrefix kern1Prefix s
def isKern2 (s : String) : Bool := hasPrefix kern2Prefix s

/-- `dict.update(other)`: assign the items of `other` in order. -/
def updateD {κ α : Type} [DecidableEq κ] (d o : List (κ × α)) : List (κ × α) :=
  o.foldl (fun acc p => AL.set acc p.1 p.2) d

/-! ## The table factories (tools/representations.py) -/

/-- body of the loop of `_gatherGroupsWithPrefix` -/
def gatherStep (side : String → Bool) (found : GroupsD) (p : String × List String) : GroupsD :=
  if side p.1 then AL.set found p.1 p.2 else found

/-- `_gatherGroupsWithPrefix(groups, prefix)` with `side = name.startswith(prefix)` -/
def gather (side : String → Bool) (g : GroupsD) : GroupsD := g.foldl (gatherStep side) []

/-- inner loop of `_makeGlyphToGroupMapping`: `for glyphName in glyphNames: glyphToGroup[glyphName] = groupName` -/
def addMembers (n : String) (acc : G2G) (ms : List String) : G2G :=
  ms.foldl (fun a m => AL.set a m n) acc

def mkG2GStep (acc : G2G) (p : String × List String) : G2G := addMembers p.1 acc p.2

/-- `_makeGlyphToGroupMapping(groups)`: a later group overwrites an earlier one -/
def mkG2G (gs : GroupsD) : G2G := gs.foldl mkG2GStep []

/-! ## `lookupKerningValue` -/

/-- `pair in kerning` / `kerning[pair]` for a pair whose sides may be `None` -/
def kget (k : KernD) (a b : Option String) : Option Int :=
  match a, b with
  | some a, some b => AL.get? k (a, b)
  | _, _ => none

/-- `for pair in pairs: if pair in kerning: return kerning[pair]` -/
def firstHit (k : KernD) : List (Option String × Option String) → Option Int
  | [] => none
  | c :: r =>
    match kget k c.1 c.2 with
    | some v => some v
    | none => firstHit k r

/-- the glyph slot of one side: `None` when the name is itself a group name of that side -/
def glyphSlot (side : String → Bool) (x : String) : Option String := if side x then none else some x

/-- the group slot of one side: the name itself, or what the glyph-to-group table says -/
def groupSlot (side : String → Bool) (t : G2G) (x : String) : Option String :=
  if side x then some x else AL.get? t x

/-- `lookupKerningValue(pair, kerning, groups, fallback, glyphToFirstGroup, glyphToSecondGroup)` -/
def lookup (k : KernD) (t1 t2 : G2G) (p : Pair) (d : Int) : Int :=
  match AL.get? k p with
  | some v => v
  | none =>
    let first := glyphSlot isKern1 p.1
    let firstGroup := groupSlot isKern1 t1 p.1
    let second := glyphSlot isKern2 p.2
    let secondGroup := groupSlot isKern2 t2 p.2
    match firstHit k [(first, second), (first, secondGroup), (firstGroup, second), (firstGroup, secondGroup)] with
    | some v => v
    | none => d

/-! ## Reading groups.plist (`UFOReader._readGroups`, `groupsValidator`) -/

/-- `list(OrderedDict.fromkeys(glyphList))` -/
def dedupAux (seen : List String) : List String → List String
  | [] => []
  | x :: r => if x ∈ seen then dedupAux seen r else x :: dedupAux (x :: seen) r

def dedup (l : List String) : List String := dedupAux [] l

/-- `_readGroups`: members of kerning groups are de-duplicated -/
def dedupKern (p : String × List String) : String × List String :=
  if isKern1 p.1 || isKern2 p.1 then (p.1, dedup p.2) else p

/-- inner loop of `groupsValidator`: `none` = "occurs in too many kerning groups" -/
def vMembers (seen : List String) : List String → Option (List String)
  | [] => some seen
  | x :: r => if x ∈ seen then none else vMembers (x :: seen) r

/-- `groupsValidator` on well-typed data (names are strings, values are lists of strings):
`seen1/seen2` are the key sets of `firstSideMapping/secondSideMapping`. -/
def validateFrom (seen1 seen2 : List String) : GroupsD → Bool
  | [] => true
  | (n, ms) :: r =>
    if n = "" then false
    else if isKern1 n then
      if n.toList.length = kern1Prefix.toList.length then false
      else
        match vMembers seen1 ms with
        | none => false
        | some s1 => validateFrom s1 seen2 r
    else if isKern2 n then
      if n.toList.length = kern2Prefix.toList.length then false
      else
        match vMembers seen2 ms with
        | none => false
        | some s2 => validateFrom seen1 s2 r
    else validateFrom seen1 seen2 r

def groupsValidator (g : GroupsD) : Bool := validateFrom [] [] g

/-- `reader.readGroups(validate=True)` for a UFO 3: `none` = `UFOLibError` -/
def readGroups (disk : GroupsD) : Option GroupsD :=
  let g := disk.map dedupKern
  if groupsValidator g then some g else none

/-! ## Registration data (regenerated from the source into `Gen/KernTables.lean`) -/

/-- `destructiveNotifications` as written in the source: `("Groups.Changed")` is a parenthesised
STRING, so `notificationName in destructiveNotifications` is a substring test; a tuple/list/set is a
membership test. -/
inductive Destr where
  | str (s : String)
  | coll (l : List String)
deriving DecidableEq, Repr

def isInfixL : List Char → List Char → Bool
  | p, [] => p.isEmpty
  | p, c :: r => p.isPrefixOf (c :: r) || isInfixL p r

/-- `notificationName in destructiveNotifications` (base.py:385) -/
def destroys (d : Destr) (name : String) : Bool :=
  match d with
  | .str s => isInfixL name.toList s.toList
  | .coll l => l.contains name

/-! ## State -/

/-- what the font holds and what its UFO holds -/
structure Content where
  groups : GroupsD := []
  kerning : KernD := []
  /-- `font._groups is not None` (groups and kerning are always loaded together) -/
  loaded : Bool := true
  /-- `font._path is not None` -/
  hasPath : Bool := false
  /-- groups.plist as `plistlib` reads it (document order) -/
  diskGroups : GroupsD := []
  /-- kerning.plist flattened as `readKerning` does -/
  diskKerning : KernD := []
deriving DecidableEq, Repr

/-- `groups._representations` for the four registered names (no kwargs: sub-key `None`) -/
structure Cache where
  side1 : Option GroupsD := none
  side2 : Option GroupsD := none
  g2g1 : Option G2G := none
  g2g2 : Option G2G := none
deriving DecidableEq, Repr

structure State where
  c : Content := {}
  cache : Cache := {}
deriving DecidableEq, Repr

inductive Table where
  | side1 | side2 | g2g1 | g2g2
deriving DecidableEq, Repr

inductive Op where
  | gset (n : String) (ms : List String)
  | gdel (n : String)
  | gclear
  | gupdate (o : GroupsD)
  | kset (p : Pair) (v : Int)
  | kdel (p : Pair)
  | kclear
  | kupdate (o : KernD)
  | find (p : Pair) (d : Int)
  | findAll (ps : List Pair) (d : Int)
  | table (t : Table)
  | cached
  | gdump
  | kdump
  | openUfo (dg : GroupsD) (dk : KernD)
  | extGroups (dg : GroupsD)
  | extKerning (dk : KernD)
  | reloadGroups
  | reloadKerning
deriving DecidableEq, Repr

inductive Out where
  | ok
  | int (v : Int)
  | ints (l : List Int)
  | groups (g : GroupsD)
  | dump (g : GroupsD)
  | g2g (t : G2G)
  | kern (k : KernD)
  | bools (l : List Bool)
  | err (e : String)
deriving DecidableEq, Repr

/-! ## Cached representations (`BaseObject.getRepresentation`; the font always has a dispatcher) -/

def getSide1 (s : State) : State × GroupsD :=
  match s.cache.side1 with
  | some t => (s, t)
  | none =>
    let t := gather isKern1 s.c.groups
    ({ s with cache := { s.cache with side1 := some t } }, t)

def getSide2 (s : State) : State × GroupsD :=
  match s.cache.side2 with
  | some t => (s, t)
  | none =>
    let t := gather isKern2 s.c.groups
    ({ s with cache := { s.cache with side2 := some t } }, t)

/-- `glyphToKerningSide1GroupsRepresentationFactory` asks for (and so caches) the side-1 table -/
def getG2G1 (s : State) : State × G2G :=
  match s.cache.g2g1 with
  | some t => (s, t)
  | none =>
    let r := getSide1 s
    let t := mkG2G r.2
    ({ r.1 with cache := { r.1.cache with g2g1 := some t } }, t)

def getG2G2 (s : State) : State × G2G :=
  match s.cache.g2g2 with
  | some t => (s, t)
  | none =>
    let r := getSide2 s
    let t := mkG2G r.2
    ({ r.1 with cache := { r.1.cache with g2g2 := some t } }, t)

/-- `Groups.Changed` reaches `selfNotificationCallback`: every factory whose destructive
notifications contain it (all four) is destroyed.  (`Groups.GroupSet/GroupDeleted/Cleared/Updated`
are posted too and destroy nothing.) -/
def evict (s : State) : State := { s with cache := {} }

/-- the groups dict changed: `postNotification(...)`, `self.dirty = True` -/
def setGroups (s : State) (g : GroupsD) : State := evict { s with c := { s.c with groups := g } }

/-- the kerning dict changed (`Kerning.representationFactories` is empty: nothing to destroy) -/
def setKerning (s : State) (k : KernD) : State := { s with c := { s.c with kerning := k } }

/-! ## `BaseDictObject` mutators -/

/-- `groups[n] = ms`: silent when the key exists with an equal value -/
def gSet (s : State) (n : String) (ms : List String) : State :=
  if AL.get? s.c.groups n = some ms then s else setGroups s (AL.set s.c.groups n ms)

/-- `groups.clear()`: silent on an empty dict -/
def gClear (s : State) : State := if s.c.groups.isEmpty then s else setGroups s []

/-- `groups.update(o)`: always posts -/
def gUpdate (s : State) (o : GroupsD) : State := setGroups s (updateD s.c.groups o)

def kSet (s : State) (p : Pair) (v : Int) : State :=
  if AL.get? s.c.kerning p = some v then s else setKerning s (AL.set s.c.kerning p v)

def kClear (s : State) : State := if s.c.kerning.isEmpty then s else setKerning s []

def kUpdate (s : State) (o : KernD) : State := setKerning s (updateD s.c.kerning o)

/-! ## `Kerning.find` -/

def findOne (s : State) (p : Pair) (d : Int) : State × Int :=
  let r1 := getG2G1 s
  let r2 := getG2G2 r1.1
  (r2.1, lookup s.c.kerning r1.2 r2.2 p d)

/-- one `find` per pair, in order -/
def findMany (s : State) (d : Int) : List Pair → State × List Int
  | [] => (s, [])
  | p :: r =>
    let r1 := findOne s p d
    let r2 := findMany r1.1 d r
    (r2.1, r1.2 :: r2.2)

/-! ## One group edit at the granularity of its announcements

`BaseDictObject.__setitem__/__delitem__/clear/update` change the dict FIRST and then post, in this order, the specific
notification (`Groups.GroupSet` / `GroupDeleted` / `Cleared` / `Updated`) and - through `self.dirty = True` -
`Groups.Changed`.  At every post the Groups object's own `selfNotificationCallback` (registered under `(None, self)`,
which the centre serves before the observers registered by name) destroys the tables whose registration lists the
notification; after it the observers of that notification run.  `announce` is that loop, with an observer that looks
kerning up (`Kerning.find` for each of `pairs`) inside every callback. -/

/-- the posts of one edit, in order: (name, what the observer read inside its callback) -/
def announce (reg : Destr) (pairs : List Pair) (d : Int) (s : State) : List String → State × List (String × List Int)
  | [] => (s, [])
  | n :: rest =>
    let s1 := if destroys reg n then evict s else s
    let r := findMany s1 d pairs
    let r2 := announce reg pairs d r.1 rest
    (r2.1, (n, r.2) :: r2.2)

/-- a group edit seen by such an observer: the new dict is in place, then the announcements -/
def editObserved (reg : Destr) (pairs : List Pair) (d : Int) (s : State) (g' : GroupsD) (posts : List String) :
    State × List (String × List Int) :=
  announce reg pairs d { s with c := { s.c with groups := g' } } posts

/-! ## Lazy load and reload (objects/font.py) -/

/-- `Font._loadKerningAndGroups` when nothing is loaded yet.  The objects are created before the
files are read, so a `UFOLibError` from `readGroups` leaves two empty, live objects behind.
Loading happens with the objects' notifications disabled; the new `Groups` object has an empty cache. -/
def load (s : State) : State × Bool :=
  if s.c.loaded then (s, true)
  else
    match readGroups s.c.diskGroups with
    | none => ({ c := { s.c with loaded := true, groups := [], kerning := [] }, cache := {} }, false)
    | some g =>
      ({ c := { s.c with loaded := true, groups := updateD [] g, kerning := updateD [] s.c.diskKerning },
         cache := {} }, true)

/-- operations on a font whose groups and kerning objects exist -/
def stepLoaded (s : State) : Op → State × Out
  | .gset n ms => (gSet s n ms, .ok)
  | .gdel n =>
    if AL.contains s.c.groups n then (setGroups s (AL.erase s.c.groups n), .ok)
    else (s, .err "KeyError")
  | .gclear => (gClear s, .ok)
  | .gupdate o => (gUpdate s o, .ok)
  | .kset p v => (kSet s p v, .ok)
  | .kdel p =>
    if AL.contains s.c.kerning p then (setKerning s (AL.erase s.c.kerning p), .ok)
    else (s, .err "KeyError")
  | .kclear => (kClear s, .ok)
  | .kupdate o => (kUpdate s o, .ok)
  | .find p d => let r := findOne s p d; (r.1, .int r.2)
  | .findAll ps d => let r := findMany s d ps; (r.1, .ints r.2)
  | .table .side1 => let r := getSide1 s; (r.1, .groups r.2)
  | .table .side2 => let r := getSide2 s; (r.1, .groups r.2)
  | .table .g2g1 => let r := getG2G1 s; (r.1, .g2g r.2)
  | .table .g2g2 => let r := getG2G2 s; (r.1, .g2g r.2)
  | .cached =>
    (s, .bools [s.cache.side1.isSome, s.cache.side2.isSome, s.cache.g2g1.isSome, s.cache.g2g2.isSome])
  | .gdump => (s, .dump s.c.groups)
  | .kdump => (s, .kern s.c.kerning)
  | .reloadGroups =>
    -- `UFOReader(None)` raises TypeError for a font without a path
    if !s.c.hasPath then (s, .err "TypeError")
    else
      match readGroups s.c.diskGroups with
      | none => (s, .err "UFOLibError")
      | some g => (gUpdate (gClear s) g, .ok)
  | .reloadKerning =>
    if !s.c.hasPath then (s, .err "TypeError")
    else (kUpdate (kClear s) s.c.diskKerning, .ok)
  | .openUfo _ _ => (s, .err "unreachable")
  | .extGroups _ => (s, .err "unreachable")
  | .extKerning _ => (s, .err "unreachable")

/-- `reloadGroups/reloadKerning` on a font that has not loaded them yet: `obj = self.groups`, nothing else -/
def loadOnly (s : State) : State × Out :=
  let r := load s
  (r.1, if r.2 then .ok else .err "UFOLibError")

/-- One harness operation on the font. -/
def step (s : State) (op : Op) : State × Out :=
  match op with
  | .openUfo dg dk =>
    -- `Font(path)` on a UFO holding these files: nothing loaded yet, new objects, empty cache
    ({ c := { groups := [], kerning := [], loaded := false, hasPath := true, diskGroups := dg, diskKerning := dk },
       cache := {} }, .ok)
  | .extGroups dg => ({ s with c := { s.c with diskGroups := dg } }, .ok)
  | .extKerning dk => ({ s with c := { s.c with diskKerning := dk } }, .ok)
  | .reloadGroups => if s.c.loaded then stepLoaded s .reloadGroups else loadOnly s
  | .reloadKerning => if s.c.loaded then stepLoaded s .reloadKerning else loadOnly s
  | op =>
    -- every other operation touches `font.groups` / `font.kerning` first, which loads both
    let r := load s
    if r.2 then stepLoaded r.1 op else (r.1, .err "UFOLibError")

def run (s : State) : List Op → State × List Out
  | [] => (s, [])
  | op :: r =>
    let r1 := step s op
    let r2 := run r1.1 r
    (r2.1, r1.2 :: r2.2)

/-! ## A group edit with a watcher (tie of `announce` to the code: driver op `watch`) -/

/-- the notifications a `BaseDictObject` mutator posts once the dict has changed, in order -/
def postsOf : Op → List String
  | .gset _ _ => ["Groups.GroupSet", "Groups.Changed"]
  | .gdel _ => ["Groups.GroupDeleted", "Groups.Changed"]
  | .gclear => ["Groups.Cleared", "Groups.Changed"]
  | .gupdate _ => ["Groups.Updated", "Groups.Changed"]
  | _ => []

/-- the mutator returns (or raises) before it changes or posts anything -/
def silentEdit (s : State) : Op → Bool
  | .gset n ms => AL.get? s.c.groups n = some ms
  | .gdel n => !AL.contains s.c.groups n
  | .gclear => s.c.groups.isEmpty
  | .gupdate _ => false
  | _ => true

/-- a group edit of a font whose groups are loaded, with an observer of every notification of the edit that looks
`pairs` up inside each callback: (state, the edit's own result, what the observer read at each announcement) -/
def stepWatched (reg : Destr) (pairs : List Pair) (d : Int) (s : State) (op : Op) :
    State × Out × List (String × List Int) :=
  let r := stepLoaded s op
  if silentEdit s op then (r.1, r.2, [])
  else
    let w := editObserved reg pairs d s r.1.c.groups (postsOf op)
    (w.1, r.2, w.2)

end Kern
end DefconModel
